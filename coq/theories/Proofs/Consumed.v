(* C02, second half, for EVERY accepted input (not only canonical encodings): on a specification
   without inline variable-length opaque positions (finding F1), whenever an emitted decoder
   returns Ok it has consumed exactly wire_size() of the value it returns. *)
From Coq Require Import Lia.
From XdrProofs Require Export NoPanic.
Open Scope N_scope.
Open Scope list_scope.

Definition cons {X} (P : X -> N -> Prop) (m : M X) : Prop :=
  forall s, bok s ->
    match m s with
    | Ok v s' => P v (remaining s - remaining s') /\ bok s' /\ remaining s' <= remaining s
    | Panic _ => False
    | _ => True
    end.

Lemma cons_ret {X} (P : X -> N -> Prop) x : P x 0 -> cons P (ret x).
Proof. intros H s Hb. cbn. rewrite N.sub_diag. split; [exact H|]. split; [exact Hb|lia]. Qed.

Lemma cons_fail {X} (P : X -> N -> Prop) e : cons P (fail e).
Proof. intros s _. exact I. Qed.

Lemma cons_bind {X Y} (P : X -> N -> Prop) (Q : Y -> N -> Prop) m k :
  cons P m -> (forall a ca, P a ca -> cons (fun b cb => Q b (ca + cb)) (k a)) -> cons Q (bind m k).
Proof.
  intros Hm Hk s Hb. unfold bind. specialize (Hm s Hb).
  destruct (m s) as [a s1|e s1|p|]; try exact I; try contradiction.
  destruct Hm as [Pa [Hb1 Hr1]]. specialize (Hk a _ Pa s1 Hb1).
  destruct (k a s1) as [b s2|e s2|p|]; try exact I; try contradiction.
  destruct Hk as [Qb [Hb2 Hr2]]. split; [|split; [exact Hb2|lia]].
  replace (remaining s - remaining s2) with ((remaining s - remaining s1) + (remaining s1 - remaining s2)) by lia.
  exact Qb.
Qed.

Lemma cons_impl {X} (P Q : X -> N -> Prop) m : (forall x c, P x c -> Q x c) -> cons P m -> cons Q m.
Proof.
  intros H Hm s Hb. specialize (Hm s Hb). destruct (m s); try exact I; try contradiction.
  destruct Hm as [Pv R]. split; [now apply H|exact R].
Qed.

Lemma cons_with_state {X} (Q : X -> N -> Prop) (f : st -> M X) :
  (forall s0, cons Q (f s0)) -> cons Q (fun s => f s s).
Proof. intros H s Hb. exact (H s s Hb). Qed.

Lemma remaining_with_rem' s k : remaining (with_rem s k) = remaining s - k.
Proof. unfold remaining, with_rem. cbn. apply len_drop. Qed.

Lemma cons_read_be k : cons (fun n c => n < 256 ^ k /\ c = k) (read_be k).
Proof.
  intros s Hs. unfold read_be, get_be. case_if; [exact I|]. case_if; [|lia].
  rewrite remaining_with_rem'. split; [|split; [now apply bok_with_rem|lia]].
  split; [|lia].
  pose proof (be_dec_bound (take k (s_rem s)) (bytes_ok_take k _ Hs)) as B.
  rewrite len_take in B by (unfold remaining in *; lia). exact B.
Qed.

Lemma cons_read_i32 : cons (fun z c => (-2147483648 <= z < 2147483648)%Z /\ c = 4) read_i32.
Proof.
  unfold read_i32. eapply cons_bind; [apply (cons_read_be 4)|]. intros n c [Hn ->]. apply cons_ret.
  split; [apply to_i32_range; exact Hn|lia].
Qed.

Lemma cons_read_bool : cons (fun _ c => c = 4) read_bool.
Proof.
  intros s Hs. unfold read_bool. case_if; [exact I|]. unfold bind, get_be. case_if; [|lia].
  destruct (to_i32 _) as [|p|p]; unfold ret, fail; try exact I.
  - rewrite remaining_with_rem'. split; [lia|]. split; [now apply bok_with_rem|lia].
  - destruct p; try exact I. rewrite remaining_with_rem'. split; [lia|]. split; [now apply bok_with_rem|lia].
Qed.

Lemma cons_read_bytes n : cons (fun w c => len (vdata w) = n /\ c = n + pad_length n) (read_bytes n).
Proof.
  intros s Hs. unfold read_bytes. case_if; [exact I|]. case_if; [exact I|].
  unfold bind, slice_to. case_if; [|lia]. unfold advance. case_if; [|lia].
  unfold ret. rewrite remaining_with_rem'. split; [|split; [now apply bok_with_rem|lia]].
  split; [|lia]. case_if.
  - apply N.eqb_eq in E3. subst n. reflexivity.
  - cbn [vdata]. apply len_take. unfold remaining in *. lia.
Qed.

Lemma cons_check_max n max : cons (fun _ c => c = 0) (check_max n max).
Proof. unfold check_max. destruct max; [case_if; [apply cons_fail|now apply cons_ret]|now apply cons_ret]. Qed.

Lemma cons_read_variable_bytes max :
  cons (fun w c => c = 4 + len (vdata w) + pad_length (len (vdata w))) (read_variable_bytes max).
Proof.
  unfold read_variable_bytes. eapply cons_bind; [apply (cons_read_be 4)|]. intros n c [_ ->].
  eapply cons_bind; [apply cons_check_max|]. intros _ c ->.
  eapply cons_impl; [|apply cons_read_bytes]. intros w c [Hl ->]. cbv beta. rewrite Hl. lia.
Qed.

Lemma cons_reserve x : cons (fun _ c => c = 0) (reserve x).
Proof. intros s Hs. unfold reserve, remaining. cbn. split; [lia|]. split; [exact Hs|lia]. Qed.

Lemma cons_read_string max : cons (fun b c => c = wsz_string b) (read_string max).
Proof.
  unfold read_string. eapply cons_bind; [apply cons_read_variable_bytes|]. intros w c ->.
  eapply cons_bind; [apply cons_reserve|]. intros _ c ->.
  destruct (utf8_valid (vdata w)); [apply cons_ret; unfold wsz_string; lia|apply cons_fail].
Qed.

(* ---------- the counted-array loop ---------- *)

Lemma sum_opt_app (f : rval -> option N) l t x w :
  sum_opt (map f l) = Some x -> f t = Some w -> sum_opt (map f (l ++ [t])) = Some (x + w).
Proof.
  revert x. induction l as [|a l IH]; intros x Hx Ht; cbn [map app sum_opt] in *.
  - inversion Hx; subst. rewrite Ht. cbn. f_equal. lia.
  - destruct (f a) as [wa|]; [|discriminate].
    destruct (sum_opt (map f l)) as [y|] eqn:Ey; cbn [option_map] in Hx; [|discriminate].
    inversion Hx; subst. rewrite (IH y eq_refl Ht). cbn. f_equal. lia.
Qed.

Section VarArrayCons.
  Variable elem_name : string.
  Variable dec_elem : M rval.
  Variable wsz_elem : rval -> option N.
  Variable Q : rval -> Prop.
  Variable P : rval -> N -> Prop.
  Hypothesis Hdec : cons P dec_elem.
  Hypothesis Hwsz : forall v c, P v c -> Q v /\ exists w, wsz_elem v = Some w /\ w mod 4 = 0.

  Lemma cons_on_clone : cons (fun v c => c = 0 /\ exists c', P v c') (on_clone dec_elem).
  Proof.
    intros s Hb. unfold on_clone. specialize (Hdec s Hb).
    destruct (dec_elem s) as [v s1|e s1|p|]; try exact I; try contradiction.
    destruct Hdec as [Pv _]. unfold remaining. cbn. split; [split; [lia|eauto]|]. split; [exact Hb|lia].
  Qed.

  Lemma cons_rva_loop fuel : forall n sum acc,
    sum mod 4 = 0 -> Forall Q acc -> sum_opt (map wsz_elem (rev acc)) = Some sum ->
    cons (fun r c => Forall Q (fst r) /\ sum_opt (map wsz_elem (fst r)) = Some (snd r) /\
                     snd r mod 4 = 0 /\ snd r = sum + c)
         (rva_loop dec_elem wsz_elem fuel n sum acc).
  Proof.
    induction fuel as [|f IH]; intros n sum acc Hsum Hacc Hs; cbn [rva_loop].
    - destruct (n =? 0); [|intros s _; exact I].
      apply cons_ret. cbn [fst snd]. split; [now apply Forall_rev|]. split; [exact Hs|]. split; [exact Hsum|lia].
    - destruct (n =? 0).
      + apply cons_ret. cbn [fst snd]. split; [now apply Forall_rev|]. split; [exact Hs|]. split; [exact Hsum|lia].
      + eapply cons_bind; [apply cons_on_clone|]. intros t c [-> [c' Pt]].
        destruct (Hwsz t c' Pt) as [Qt [w [Hw Hw4]]]. rewrite Hw.
        intros s Hb. case_if; [exact I|].
        unfold bind. destruct (advance_guarded w s ltac:(lia) Hb) as [Ea Hb2]. rewrite Ea.
        assert (Hs' : sum_opt (map wsz_elem (rev (t :: acc))) = Some (sum + w))
          by (cbn [rev]; now apply sum_opt_app).
        specialize (IH (n - 1) (sum + w) (t :: acc) ltac:(lia) ltac:(constructor; assumption) Hs' (with_rem s w) Hb2).
        destruct (rva_loop dec_elem wsz_elem f (n - 1) (sum + w) (t :: acc) (with_rem s w)) as [v s3|e s3|p|];
          try exact I; try contradiction.
        destruct IH as [[H1 [H2 [H3 H4]]] [Hb3 Hr3]]. rewrite remaining_with_rem' in *.
        split; [|split; [exact Hb3|lia]].
        split; [exact H1|]. split; [exact H2|]. split; [exact H3|]. lia.
  Qed.

  Definition rva_tail (fuel : nat) (n cap : N) : M (list rval) :=
    _ <- reserve (ResVec cap elem_name) ;;
    r <- rva_loop dec_elem wsz_elem fuel n 0 [] ;;
    _ <- advance (pad_length (snd r)) ;;
    ret (fst r).

  Lemma cons_rva_tail fuel n cap :
    cons (fun l c => Forall Q l /\ exists x, sum_opt (map wsz_elem l) = Some x /\ x mod 4 = 0 /\ c = x)
         (rva_tail fuel n cap).
  Proof.
    unfold rva_tail. eapply cons_bind; [apply cons_reserve|]. intros _ c ->.
    eapply cons_bind; [apply cons_rva_loop; [reflexivity|constructor|reflexivity]|].
    intros r c [Hr [Hsum [Hm Hc]]]. rewrite (pad_length_mult4 _ Hm).
    intros s1 Hs1. unfold bind. destruct (advance_guarded 0 s1 ltac:(lia) Hs1) as [Ea Hb]. rewrite Ea.
    unfold ret. rewrite remaining_with_rem'. split; [|split; [exact Hb|lia]].
    split; [exact Hr|]. exists (snd r). split; [exact Hsum|]. split; [exact Hm|]. lia.
  Qed.

  Lemma cons_read_variable_array fuel max :
    cons (fun l c => Forall Q l /\ exists x, sum_opt (map wsz_elem l) = Some x /\ x mod 4 = 0 /\ c = 4 + x)
         (read_variable_array elem_name dec_elem wsz_elem fuel max).
  Proof.
    unfold read_variable_array. eapply cons_bind; [apply (cons_read_be 4)|]. intros n c [_ ->].
    eapply cons_bind; [apply cons_check_max|]. intros _ c ->.
    apply (cons_with_state _ (fun s0 => rva_tail fuel n (N.min n (remaining s0)))).
    intros s0. eapply cons_impl; [|apply cons_rva_tail].
    intros l c [Hl [x [H1 [H2 ->]]]]. cbv beta. split; [exact Hl|]. exists x. split; [exact H1|]. split; [exact H2|lia].
  Qed.
End VarArrayCons.

(* ---------- the hypothesis: no inline variable-length opaque position (finding F1) ---------- *)

Definition f1_pos (a : array_type) : bool :=
  match a with ANone Opaque | AVar Opaque _ => true | _ => false end.

Definition nof1_type (t : ast_type) : Prop :=
  match t with
  | TStruct s => Forall (fun f => f1_pos (sf_value f) = false) (st_fields s)
  | TUnion u => Forall (fun c => f1_pos (uc_value c) = false) (un_cases u) /\
                (forall c, un_default u = Some c -> f1_pos (uc_value c) = false)
  | _ => True
  end.

Definition nof1 (A : ast) : Prop := forall n t, get_type A n = Some t -> nof1_type t.

(* the same, relative to a set R of type names closed under reference (the types a decoder
   can reach): an F1 position elsewhere in the specification does not matter *)
Definition Rb (R : string -> Prop) (t : basic_type) : Prop :=
  match t with Ident m => R m | _ => True end.

Definition rrefs_ok (A : ast) (R : string -> Prop) (t : ast_type) : Prop :=
  match t with
  | TStruct s => Forall (fun f => Rb R (unwrap_array (sf_value f))) (st_fields s)
  | TUnion u => Rb R (disc_type A u) /\
                Forall (fun c => Rb R (unwrap_array (uc_value c))) (un_cases u) /\
                (forall c, un_default u = Some c -> Rb R (unwrap_array (uc_value c)))
  | TTypedef t => Rb R (td_target t)
  | TEnum _ => True
  end.

Definition nof1_b (A : ast) : bool :=
  forallb (fun kv => match snd kv with
                     | TStruct s => forallb (fun f => negb (f1_pos (sf_value f))) (st_fields s)
                     | TUnion u => forallb (fun c => negb (f1_pos (uc_value c))) (un_cases u) &&
                                   match un_default u with Some c => negb (f1_pos (uc_value c)) | None => true end
                     | _ => true
                     end) (types A).

Lemma nof1_b_sound A : nof1_b A = true -> nof1 A.
Proof.
  intros H n t G. apply assoc_In in G. pose proof (proj1 (forallb_forall _ _) H (n, t) G) as X. cbn [snd] in X.
  destruct t as [s|u|e|td]; try exact I.
  - apply Forall_forall. intros f Hf. apply Bool.negb_true_iff. exact (proj1 (forallb_forall _ _) X f Hf).
  - apply Bool.andb_true_iff in X as [X1 X2]. split.
    + apply Forall_forall. intros c Hc. apply Bool.negb_true_iff. exact (proj1 (forallb_forall _ _) X1 c Hc).
    + intros c Hc. rewrite Hc in X2. now apply Bool.negb_true_iff.
Qed.

(* bytes a position occupies on the wire, from the wire_size() of the value decoded there *)
Definition pcons (a : array_type) (w : N) : N :=
  match a with
  | ANone Opaque | AVar Opaque _ => w + pad_length w + 4
  | AFixed Opaque _ => w + pad_length w
  | _ => w
  end.

Lemma pcons_padded a w : f1_pos a = false -> pcons a w = padded (contains_opaque a) w.
Proof.
  unfold f1_pos, pcons, padded, contains_opaque.
  destruct a as [t|t s|t s]; cbn [unwrap_array]; destruct t; cbn [is_opaque]; try discriminate; reflexivity.
Qed.

Section Cons.
  Variable A : ast.
  Variable md : module_ir.
  Hypothesis Hgen : gen A = EOk md.
  Hypothesis Hsup4 : sup4 A.
  Variable R : string -> Prop.
  Hypothesis HRc : forall n t, R n -> get_type A n = Some t -> rrefs_ok A R t.
  Hypothesis Hnof1 : forall n t, R n -> get_type A n = Some t -> nof1_type t.

  Let Hsup : sup A := sup4_sup A Hsup4.
  Let Hcore : sup_core A := sup_c A Hsup.
  Let Hwf : wf_size A := sup_size A Hcore.
  Let Hkeys : keys_ok A := proj1 Hwf.

  Definition CN (n : string) (v : rval) (c : N) : Prop := ShN A n v /\ wsz md v = Some c.
  Definition CB (t : basic_type) (v : rval) (c : N) : Prop :=
    ShB A t v /\ exists w, wsz md v = Some w /\ c = pcons (ANone t) w.
  Definition CP (a : array_type) (opt : bool) (v : rval) (c : N) : Prop :=
    ShP A a opt v /\ exists w, wsz md v = Some w /\ c = pcons a w.
  Definition CL (t : basic_type) (l : list rval) (c : N) : Prop :=
    ShL A t l /\ sum_opt (map (wsz md) l) = Some c.
  Definition CLn (n : nat) (t : basic_type) (l : list rval) (c : N) : Prop := CL t l c /\ List.length l = n.
  Definition CF (fs : list struct_field) (vs : list rval) (c : N) : Prop :=
    ShF A fs vs /\
    zip_sizes (map (fun f => (safe_name (sf_name f), contains_opaque (sf_value f))) fs) (map (wsz md) vs) = Some c.

  Section Body.
    Variable rec : string -> M rval.
    Variable lf : nat.
    Hypothesis Hrec : forall m ty, R m -> get_type A m = Some ty -> cons (CN m) (rec m).

    Lemma cons_basic t e :
      decode_basic A t UseAlias = EOk e -> ref_ok A t -> Rb R t -> cons (CB t) (eval_dexp md rec lf e).
    Proof.
      intros He Hr HR. apply decode_basic_alias in He as [He|[m [-> ->]]].
      - destruct t; cbn [prim_dexp] in He; inversion He; subst e; cbn [eval_dexp read_prim].
        + eapply cons_bind; [apply (cons_read_be 4)|]. intros n c [Hn ->]. apply cons_ret. split.
          * constructor. cbv beta in Hn. unfold u32_max. change (256 ^ 4) with 4294967296 in Hn. lia.
          * exists 4. split; [reflexivity|cbn; lia].
        + eapply cons_bind; [apply (cons_read_be 8)|]. intros n c [_ ->]. apply cons_ret. split; [constructor|].
          exists 8. split; [reflexivity|cbn; lia].
        + eapply cons_bind; [apply cons_read_i32|]. intros z c [Hz ->]. apply cons_ret. split; [now constructor|].
          exists 4. split; [reflexivity|cbn; lia].
        + unfold read_i64. eapply cons_bind; [eapply (cons_bind _ (fun (_ : Z) c => c = 8)); [apply (cons_read_be 8)|intros n c [_ ->]; apply cons_ret; lia]|].
          intros z c ->. apply cons_ret. split; [constructor|]. exists 8. split; [reflexivity|cbn; lia].
        + eapply cons_bind; [apply (cons_read_be 4)|]. intros n c [_ ->]. apply cons_ret. split; [constructor|].
          exists 4. split; [reflexivity|cbn; lia].
        + eapply cons_bind; [apply (cons_read_be 8)|]. intros n c [_ ->]. apply cons_ret. split; [constructor|].
          exists 8. split; [reflexivity|cbn; lia].
        + eapply cons_bind; [apply cons_read_string|]. intros b c ->. apply cons_ret. split; [constructor|].
          exists (wsz_string b). split; [reflexivity|cbn; lia].
        + eapply cons_bind; [apply cons_read_bool|]. intros b c ->. apply cons_ret. split; [constructor|].
          exists 4. split; [reflexivity|cbn; lia].
        + eapply cons_bind; [apply cons_read_variable_bytes|]. intros w c ->. apply cons_ret. split; [constructor|].
          exists (wsz_bytes w). split; [reflexivity|]. cbn [pcons]. unfold wsz_bytes. lia.
      - cbn [eval_dexp]. destruct Hr as [ty Hty]. eapply cons_impl; [|eapply Hrec; [exact HR|exact Hty]].
        intros v c [Hv Hw]. split; [now constructor|]. exists c. split; [exact Hw|reflexivity].
    Qed.

    Lemma cons_seq_n t n m : is_opaque t = false -> cons (CB t) m -> cons (CLn n t) (seq_n n m).
    Proof.
      intros Ho Hm. induction n as [|n IH]; cbn [seq_n]; [apply cons_ret; split; [split; [constructor|reflexivity]|reflexivity]|].
      eapply cons_bind; [exact Hm|]. intros x cx [Hx [w [Hw Hc]]].
      eapply cons_bind; [exact IH|]. intros xs cxs [[Hxs Hs] Hlen]. apply cons_ret.
      split; [|cbn; now rewrite Hlen]. split; [now constructor|].
      cbn [map sum_opt]. rewrite Hw, Hs. cbn [option_map]. f_equal.
      assert (pcons (ANone t) w = w) by (destruct t; try reflexivity; discriminate). lia.
    Qed.

    Lemma cons_pos a e :
      decode_array A a UseAlias = EOk e -> pos_ok a false -> ref_ok A (unwrap_array a) -> Rb R (unwrap_array a) ->
      cons (CP a false) (eval_dexp md rec lf e).
    Proof.
      intros He Hpos Hr HR. destruct a as [t|t s|t s]; cbn [decode_array unwrap_array] in *.
      - eapply cons_impl; [|eapply cons_basic; eassumption]. intros v c [Hv Hw]. split; [now constructor|exact Hw].
      - destruct (resolve_size A s true) as [n| |] eqn:Ers; cbn [ebind] in He; try discriminate.
        unfold decode_fixed in He. destruct Hpos as [_ [_ [Hts _]]].
        assert (Hcase : t = Opaque \/ t <> Opaque) by (destruct t; (now left) || (right; discriminate)).
        destruct Hcase as [->|Hno].
        + inversion He; subst e. cbn [eval_dexp]. eapply cons_bind; [apply cons_read_bytes|].
          intros w c [Hl ->]. apply cons_ret. split.
          * apply SP_fixed_opaque. intros n0 E0. rewrite Ers in E0. inversion E0; subst. reflexivity.
          * exists (wsz_bytes w). split; [reflexivity|]. cbn [pcons]. unfold wsz_bytes. rewrite Hl. lia.
        + assert (Ho : is_opaque t = false) by (destruct t; try reflexivity; congruence).
          assert (He' : (if n =? 0 then EOk (EArr 0 (EPrim PU32))
                         else ebind (decode_basic A t UseAlias) (fun e0 => EOk (EArr n e0))) = EOk e).
          { destruct t; try exact He; congruence. }
          clear He.
          assert (Hfin : forall l x, ShL A t l -> N.of_nat (List.length l) = n -> sum_opt (map (wsz md) l) = Some x ->
                                     CP (AFixed t s) false (RVArr l) (0 + x)).
          { intros l x Hl Hlen Hx. split.
            { apply SP_fixed; [assumption|assumption|]. intros n0 E0. rewrite Ers in E0. inversion E0; subst. reflexivity. }
            destruct (proj1 (proj2 (proj2 (proj2 (shaped_size A md Hgen Hsup)))) t l Hl Ho) as [x' [Hx' Hm]].
            rewrite Hx in Hx'. inversion Hx'; subst x'.
            exists (wsz_slice x). cbn [wsz]. rewrite Hx. cbn [option_map]. split; [reflexivity|].
            assert (pcons (AFixed t s) (wsz_slice x) = wsz_slice x) by (destruct t; try reflexivity; congruence).
            unfold wsz_slice in *. rewrite (pad_length_mult4 _ Hm) in *. lia. }
          destruct (n =? 0) eqn:En0.
          * inversion He'; subst e. cbn [eval_dexp]. change (N.to_nat 0) with 0%nat. cbn [seq_n].
            eapply (cons_bind (fun l c => l = [] /\ c = 0)); [apply cons_ret; split; reflexivity|].
            intros l c [-> ->]. apply cons_ret. apply N.eqb_eq in En0. subst n.
            apply (Hfin [] 0); [apply SL_nil|reflexivity|reflexivity].
          * destruct (decode_basic A t UseAlias) as [e0| |] eqn:E0; cbn [ebind] in He'; try discriminate.
            inversion He'; subst e. cbn [eval_dexp].
            eapply cons_bind; [apply cons_seq_n; [exact Ho|eapply cons_basic; eassumption]|].
            intros l c [[Hl Hx] Hlen]. apply cons_ret. rewrite N.add_0_r. replace c with (0 + c) by lia.
            apply Hfin; [assumption| |assumption]. rewrite Hlen. apply N2Nat.id.
      - destruct Hpos as [Hsafe [_ [[Ht|[Ht|[m Ht]]] _]]]; subst t.
        + assert (Hx : exists mx, e = EVarBytes mx).
          { destruct s as [sz|]; [destruct (resolve_size A sz false); cbn [ebind] in He; try discriminate|];
              unfold decode_variable in He; inversion He; eauto. }
          destruct Hx as [mx ->]. cbn [eval_dexp]. eapply cons_bind; [apply cons_read_variable_bytes|].
          intros w c ->. apply cons_ret. split; [constructor|].
          exists (wsz_bytes w). split; [reflexivity|]. cbn [pcons]. unfold wsz_bytes. lia.
        + assert (Hx : exists mx, e = EString mx).
          { destruct s as [sz|]; [destruct (resolve_size A sz false); cbn [ebind] in He; try discriminate|];
              unfold decode_variable in He; inversion He; eauto. }
          destruct Hx as [mx ->]. cbn [eval_dexp]. eapply cons_bind; [apply cons_read_string|].
          intros b c ->. apply cons_ret. split; [constructor|]. exists (wsz_string b). split; [reflexivity|cbn; lia].
        + cbn [unwrap_array safe_ref] in Hsafe.
          assert (Hx : exists mx, e = EVarArray m (is_generic A m) mx).
          { destruct s as [sz|]; [destruct (resolve_size A sz false); cbn [ebind] in He; try discriminate|];
              unfold decode_variable in He; rewrite Hsafe in He; inversion He; eauto. }
          destruct Hx as [mx ->]. cbn [eval_dexp]. destruct Hr as [ty Hty].
          eapply cons_bind.
          * eapply cons_read_variable_array with (Q := ShN A m) (P := CN m); [eapply Hrec; [exact HR|exact Hty]|].
            intros v c [Hv Hw]. split; [exact Hv|]. destruct (shaped_wsz A md Hgen Hsup m v Hv) as [w [Hw' Hw4]].
            exists w. split; assumption.
          * intros l c [Hl [x [Hx [Hm ->]]]]. apply cons_ret.
            assert (HL : ShL A (Ident m) l) by (clear - Hl; induction Hl; constructor; [now constructor|assumption]).
            split.
            -- constructor; try discriminate. exact HL.
            -- exists (wsz_vec x). cbn [wsz]. rewrite Hx. cbn [option_map]. split; [reflexivity|].
               cbn [pcons]. unfold wsz_vec. rewrite (pad_length_mult4 _ Hm). lia.
    Qed.

    Lemma cons_fexp a opt fe :
      fexp_of A a opt = EOk fe -> pos_ok a opt -> ref_ok A (unwrap_array a) -> Rb R (unwrap_array a) ->
      cons (CP a opt) (eval_fexp md rec lf fe).
    Proof.
      intros Hfe Hpos Hr HR. destruct opt.
      - unfold fexp_of in Hfe. inversion Hfe; subst fe.
        destruct Hpos as [Hsafe [Ho _]]. destruct (Ho eq_refl) as [m ->].
        cbn [unwrap_array safe_ref] in *. rewrite Hsafe. cbn [eval_fexp].
        eapply cons_bind; [apply (cons_read_be 4)|]. intros d c [_ ->].
        destruct (d =? 0).
        { apply cons_ret. split; [constructor|]. exists 4. split; [reflexivity|cbn; lia]. }
        destruct (d =? 1); [|apply cons_fail].
        destruct Hr as [ty Hty]. eapply cons_bind; [eapply Hrec; [exact HR|exact Hty]|]. intros x cx [Hx Hw].
        eapply (cons_bind (fun _ c => c = 0)); [apply cons_reserve|].
        intros _ c ->. apply cons_ret. split; [constructor; now constructor|].
        exists (4 + cx). cbn [wsz]. rewrite Hw. cbn [option_map wsz_opt pcons]. split; [reflexivity|lia].
      - apply fexp_of_plain in Hfe as [e [He ->]]. cbn [eval_fexp]. now apply cons_pos.
    Qed.

    Lemma cons_fields fs : forall ps,
      Forall2 (fun fd p => fexp_of A (sf_value fd) (sf_optional fd) = EOk (snd p)) fs ps ->
      Forall (fun f => pos_ok (sf_value f) (sf_optional f)) fs ->
      Forall (fun f => ref_ok A (unwrap_array (sf_value f))) fs ->
      Forall (fun f => f1_pos (sf_value f) = false) fs ->
      Forall (fun f => Rb R (unwrap_array (sf_value f))) fs ->
      cons (CF fs) (eval_fields md rec lf ps).
    Proof.
      induction fs as [|f fs IH]; intros ps Hps Hpos Hr Hf1 HRf; inversion Hps; subst; cbn [eval_fields].
      - apply cons_ret. split; [constructor|reflexivity].
      - inversion Hpos; subst. inversion Hr; subst. inversion Hf1; subst. inversion HRf; subst.
        eapply cons_bind; [eapply cons_fexp; eassumption|]. intros x cx [Hx [w [Hw Hc]]].
        eapply cons_bind; [eapply IH; eassumption|]. intros xs cxs [Hxs Hz]. apply cons_ret.
        split; [now constructor|]. cbn [map zip_sizes snd]. rewrite Hw, Hz. cbn [option_map]. f_equal.
        rewrite Hc, pcons_padded by assumption. lia.
    Qed.

    Lemma cons_enum self e z : forall arms,
      get_type A self = Some (TEnum e) ->
      Forall (fun a => exists m v, In (m, VNum v) (en_variants e) /\ snd a = m /\ int_literal (fst a) <> None) arms ->
      cons (fun v c => c = 0 /\ ShN A self v /\ wsz md v = Some 4) (eval_enum self z arms).
    Proof.
      intros arms Hget Hall. induction Hall as [|[text name] arms [m [v [Hin [Hn Hlit]]]] _ IH]; cbn [eval_enum].
      - apply cons_fail.
      - cbn [fst snd] in *. subst name. destruct (int_literal text); [|contradiction].
        destruct (Z.eqb z0 z); [|exact IH]. apply cons_ret. split; [reflexivity|]. split; [eapply SN_enum; eassumption|].
        cbn [wsz]. rewrite (find_size_gen A md Hgen Hkeys self _ Hget). reflexivity.
    Qed.

    Lemma disc_consumes u dv cd : disc_ok A u -> CB (disc_type A u) dv cd -> cd = 4.
    Proof.
      intros Hd [Hs [w [Hw ->]]]. destruct Hd as [E|[E|[E|[e [en [E Hen]]]]]]; rewrite E in *.
      - inversion Hs; subst. cbn in Hw. inversion Hw. reflexivity.
      - inversion Hs; subst. cbn in Hw. inversion Hw. reflexivity.
      - inversion Hs; subst. cbn in Hw. inversion Hw. reflexivity.
      - inversion Hs; subst. match goal with HN : ShN A e dv |- _ => inversion HN; subst end; try congruence.
        cbn [wsz] in Hw. rewrite (find_size_gen A md Hgen Hkeys e _ Hen) in Hw. cbn in Hw. inversion Hw. reflexivity.
    Qed.

    Section OneUnionCons.
      Variable n : string.
      Variable u : union_t.
      Hypothesis Hget : get_type A n = Some (TUnion u).
      Variable dd : dval.
      Variable d : xval.
      Hypothesis Td : TypedB A (disc_type A u) d.
      Hypothesis Hdd : dval_of (rv 0 0 d) = Some dd.
      Hypothesis HRn : R n.

      Let Hf1 := Hnof1 n _ HRn Hget.
      Let HRu := HRc n _ HRn Hget.

      Lemma wsz_data_arm c l p w :
        In c (un_cases u) -> In l (uc_values c) -> wsz md p = Some w ->
        wsz md (RVVariant n (variant_name l) (Some p)) = Some (4 + padded (contains_opaque (uc_value c)) w).
      Proof.
        intros Hc Hl Hw. pose proof (proj2 Hwf _ _ Hget) as [_ [Hnd _]].
        cbn [wsz]. rewrite (find_size_gen A md Hgen Hkeys n _ Hget). cbn [i_body emit_size_body].
        fold (size_arms u).
        assert (Hin : In (variant_name l, contains_opaque (uc_value c)) (size_arms u)).
        { unfold size_arms. apply in_flat_map. exists c. split; [exact Hc|].
          apply in_map_iff. exists l. split; [reflexivity|exact Hl]. }
        rewrite (assoc_NoDup _ _ _ ltac:(rewrite size_arms_names; exact Hnd) Hin).
        rewrite Hw. reflexivity.
      Qed.

      Lemma wsz_void_arm l : In l (un_void u) -> wsz md (RVVariant n (variant_name l) None) = Some 4.
      Proof.
        intros Hl. cbn [wsz]. rewrite (find_size_gen A md Hgen Hkeys n _ Hget). cbn [i_body emit_size_body].
        assert (Hm : mem (variant_name l) (map variant_name (un_void u)) = true)
          by (apply mem_In; now apply in_map).
        now rewrite Hm.
      Qed.

      Lemma wsz_default_arm c p w :
        un_default u = Some c -> wsz md p = Some w ->
        wsz md (RVVariant n "default" (Some p)) = Some (4 + padded (contains_opaque (uc_value c)) w).
      Proof.
        intros Hd Hw. pose proof (proj2 Hwf _ _ Hget) as [_ [_ Hndef]].
        cbn [wsz]. rewrite (find_size_gen A md Hgen Hkeys n _ Hget). cbn [i_body emit_size_body].
        fold (size_arms u).
        rewrite (assoc_notin "default"%string (size_arms u)) by (rewrite size_arms_names; exact Hndef).
        rewrite Hd. cbn [option_map]. rewrite String.eqb_refl, Hw. reflexivity.
      Qed.

      Lemma cons_arms arms fb :
        Forall (entry_ok A u) arms -> fb_ok A u arms fb ->
        cons (fun v c => ShN A n v /\ wsz md v = Some (4 + c)) (eval_arms md rec lf n dd arms fb).
      Proof.
        intros Hall. induction Hall as [|en arms Hen _ IH]; intros Hfb; cbn [eval_arms].
        - destruct fb as [e| |]; cbn [fb_ok] in Hfb.
          + destruct Hfb as [c [Hc He]].
            eapply cons_bind.
            * eapply cons_pos; [exact He|exact (proj2 (sup_arms A Hcore n u Hget) c Hc)|
                                exact (proj2 (sup4_refs A Hsup4 n _ Hget) c Hc)|exact (proj2 (proj2 HRu) c Hc)].
            * intros p cp [Hp [w [Hw Hcw]]]. apply cons_ret. split; [eapply SN_union_default; eassumption|].
              rewrite (wsz_default_arm c p w Hc Hw). f_equal.
              rewrite Hcw, pcons_padded by (exact (proj2 Hf1 c Hc)). lia.
          + destruct (dd_as_i32 A md Hgen Hsup4 n u Hget dd d Td Hdd) as [z Hz]. rewrite Hz. apply cons_fail.
          + destruct Hfb as [en [[] _]].
        - destruct en as [[m variant] payload].
          destruct (entry_matches A md Hgen Hsup4 n u Hget dd d Td Hdd _ Hen) as [b Hb]. cbn [fst] in Hb. rewrite Hb. destruct b.
          + destruct Hen as [[c [l [e [Hc [Hl [E He]]]]]]|[[l [Hl [Hnd E]]]|[Hl E]]]; inversion E; subst.
            * eapply cons_bind.
              -- eapply cons_pos; [exact He|exact (proj1 (Forall_forall _ _) (proj1 (sup_arms A Hcore n u Hget)) c Hc)|
                                   exact (proj1 (Forall_forall _ _) (proj1 (sup4_refs A Hsup4 n _ Hget)) c Hc)|
                                   exact (proj1 (Forall_forall _ _) (proj1 (proj2 HRu)) c Hc)].
              -- intros p cp [Hp [w [Hw Hcw]]]. apply cons_ret. split; [eapply SN_union_data; eassumption|].
                 rewrite (wsz_data_arm c l p w Hc Hl Hw). f_equal.
                 rewrite Hcw, pcons_padded by (exact (proj1 (Forall_forall _ _) (proj1 Hf1) c Hc)). lia.
            * apply cons_ret. split; [eapply SN_union_void; eassumption|]. now rewrite wsz_void_arm.
            * apply cons_ret. change "default"%string with (variant_name "default").
              split; [eapply SN_union_void; eassumption|]. now rewrite wsz_void_arm.
          + apply IH. destruct fb as [e| |]; cbn [fb_ok] in *; try exact Hfb.
            destruct Hfb as [en' [[<-|Hin] Hw]]; [|eauto].
            cbn [fst] in Hw. subst m. cbn in Hb. discriminate.
      Qed.
    End OneUnionCons.

    Lemma cons_body n t b :
      R n -> get_type A n = Some t -> emit_from_body A t = EOk b ->
      cons (CN n) (eval_body md rec lf n b).
    Proof.
      intros HRn Hget Hb. pose proof (HRc n t HRn Hget) as HRt.
      destruct t as [s|u|e|td]; cbn [emit_from_body] in Hb.
      - (* struct *)
        destruct (emapM _ (st_fields s)) as [ps| |] eqn:Eps; cbn [ebind] in Hb; try discriminate.
        inversion Hb; subst b. cbn [eval_body].
        assert (Hps : Forall2 (fun fd p => fexp_of A (sf_value fd) (sf_optional fd) = EOk (snd p)) (st_fields s) ps).
        { eapply emapM_Forall2; [|exact Eps]. intros fd p Hp. cbv beta in Hp. unfold fexp_of.
          destruct (sf_optional fd); [inversion Hp; reflexivity|].
          destruct (decode_array A (sf_value fd) UseAlias); cbn [ebind] in Hp |- *; try discriminate.
          inversion Hp. reflexivity. }
        eapply cons_bind.
        + eapply cons_fields; [exact Hps|exact (sup_struct A Hcore n s Hget)|exact (sup4_refs A Hsup4 n _ Hget)|exact (Hnof1 n _ HRn Hget)|exact HRt].
        + intros vs c [Hvs Hz]. apply cons_ret. pose proof (Hkeys _ _ (assoc_In _ _ _ Hget)) as Kk. cbn in Kk.
          rewrite Kk. split; [eapply SN_struct; [exact Hget|exact Hvs]|].
          cbn [wsz]. rewrite (find_size_gen A md Hgen Hkeys n _ Hget). cbn [i_body emit_size_body].
          rewrite Hz. f_equal. lia.
      - (* union *)
        destruct (decode_basic A (un_sw_type u) UseTarget) as [disc| |] eqn:Edisc; cbn [ebind] in Hb; try discriminate.
        destruct (emapM _ (un_cases u)) as [rows| |] eqn:Erows; cbn [ebind] in Hb; try discriminate.
        destruct (match un_default u with Some d0 => _ | None => _ end) as [fb| |] eqn:Efb; cbn [ebind] in Hb; try discriminate.
        inversion Hb; subst b. clear Hb. cbn [eval_body].
        pose proof (proj1 (proj2 Hwf n _ Hget)) as Hdisc.
        pose proof (disc_emit A Hsup4 u disc Hdisc Edisc) as Hde.
        assert (Hrd : ref_ok A (disc_type A u)).
        { destruct Hdisc as [E|[E|[E|[e [en [E He]]]]]]; rewrite E; cbn; eauto. }
        eapply cons_bind; [eapply cons_basic; [eassumption|eassumption|exact (proj1 HRt)]|]. intros dv cd Hdv.
        pose proof (disc_consumes u dv cd Hdisc Hdv) as ->.
        destruct (disc_back A Hsup4 u dv Hdisc (proj1 Hdv)) as [d [dd [Td [Hdv1 Hdd]]]]. rewrite Hdv1.
        eapply cons_impl; [|eapply cons_arms; try eassumption].
        + intros v c [Hv Hw]. split; assumption.
        + (* every emitted arm is one of the declared ones *)
          apply Forall_app. split.
          * assert (G : forall cases rws, incl cases (un_cases u) ->
                      emapM (fun c => emapM (fun l => ebind (decode_array A (uc_value c) UseAlias)
                                    (fun e => EOk (label_matcher A (un_sw_type u) l, variant_name l, Some e))) (uc_values c)) cases = EOk rws ->
                      Forall (entry_ok A u) (concat rws)).
            { induction cases as [|c cases IH]; intros rws Hincl Hm; cbn [emapM] in Hm.
              - inversion Hm. constructor.
              - destruct (emapM _ (uc_values c)) as [row| |] eqn:Erow; cbn [ebind] in Hm; try discriminate.
                destruct (emapM _ cases) as [rows'| |] eqn:Erows'; cbn [ebind] in Hm; try discriminate.
                inversion Hm; subst rws. cbn [concat]. apply Forall_app. split.
                + destruct (row_shape A u c row Erow) as [[_ ->]|[e [He ->]]]; [constructor|].
                  apply Forall_forall. intros x Hx. apply in_map_iff in Hx as [l [<- Hl]].
                  left. exists c, l, e. split; [apply Hincl; now left|]. split; [exact Hl|]. split; [reflexivity|exact He].
                + apply IH; [intros y Hy; apply Hincl; now right|reflexivity]. }
            exact (G (un_cases u) rows (incl_refl _) Erows).
          * apply Forall_app. split.
            -- apply Forall_forall. intros x Hx. apply in_map_iff in Hx as [l [<- Hl]]. apply filter_In in Hl as [Hl Hnd].
               right. left. exists l. split; [exact Hl|]. split; [|reflexivity].
               apply Bool.negb_true_iff, String.eqb_neq in Hnd. exact Hnd.
            -- destruct (mem "default" (un_void u)) eqn:Em; [|constructor].
               constructor; [|constructor]. right. right. split; [now apply mem_In|reflexivity].
        + (* the fallback *)
          destruct (un_default u) as [dc|] eqn:Edc.
          * destruct (decode_array A (uc_value dc) UseAlias) as [e| |] eqn:Ee; cbn [ebind] in Efb; try discriminate.
            inversion Efb; subst fb. cbn [fb_ok]. eauto.
          * inversion Efb; subst fb. destruct (mem "default" (un_void u)) eqn:Em; cbn [fb_ok]; [|exact I].
            exists (MWild, variant_name "default", @None dexp). split; [|reflexivity].
            apply in_or_app. right. apply in_or_app. right. now left.
      - (* enum *)
        inversion Hb; subst b. cbn [eval_body].
        eapply cons_bind; [apply cons_read_i32|]. intros z c [_ ->].
        eapply cons_impl; [|eapply cons_enum with (e := e); [exact Hget|]].
        + intros v c [-> [Hv Hw]]. split; [exact Hv|]. rewrite Hw. f_equal.
        + apply Forall_forall. intros a Ha. apply in_map_iff in Ha as [[m vv] [<- Hin]]. cbn [fst snd].
          destruct (proj1 (sup_enum A Hcore n e Hget) (m, vv) Hin) as [x [Hx Hr]]. cbn in Hx. subst vv.
          exists m, x. split; [exact Hin|]. split; [reflexivity|].
          rewrite (int_literal_string_of_Z x ltac:(lia)). discriminate.
      - (* typedef *)
        pose proof (sup_typedef A Hcore n td Hget) as Htd.
        rewrite (typedef_emit A Hcore n td Hget Htd) in Hb.
        destruct (decode_array A (typedef_pos td) UseAlias) as [e0| |] eqn:Ee; cbn [ebind] in Hb; try discriminate.
        inversion Hb; subst b. cbn [eval_body].
        eapply cons_bind.
        + eapply cons_pos; [exact Ee|exact (proj1 (proj2 Htd))| |].
          * pose proof (sup4_refs A Hsup4 n _ Hget) as R0. cbn in R0. unfold typedef_pos. destruct (td_alias td); exact R0.
          * cbn in HRt. unfold typedef_pos. destruct (td_alias td); exact HRt.
        + intros y c [Hy [w [Hw Hc]]]. apply cons_ret. split; [eapply SN_typedef; eassumption|].
          cbn [wsz]. rewrite (find_size_gen A md Hgen Hkeys n _ Hget). cbn [i_body emit_size_body]. rewrite Hw.
          cbn [option_map]. f_equal. rewrite N.add_0_r, Hc. unfold typedef_pos, pcons.
          destruct (td_alias td); destruct (td_target td); cbn [is_opaque]; reflexivity.
    Qed.
  End Body.

  (* C02 for every accepted input: a successful decode consumed exactly wire_size() bytes *)
  Theorem dec_consumed fuel : forall n t, R n -> get_type A n = Some t -> cons (CN n) (dec md fuel n).
  Proof.
    induction fuel as [|f IH]; intros n t HRn Hget; cbn [dec]; [intros s _; exact I|].
    destruct (find_from_gen A md Hgen Hkeys n t Hget) as [b [Hb Hfind]]. rewrite Hfind. cbn [i_name i_body].
    eapply cons_body; eassumption.
  Qed.
End Cons.

(* ---------- decidable forms ---------- *)

Definition bt_names (t : basic_type) : list string := match t with Ident m => [m] | _ => [] end.

Definition type_refs (A : ast) (t : ast_type) : list string :=
  match t with
  | TStruct s => flat_map (fun f => bt_names (unwrap_array (sf_value f))) (st_fields s)
  | TUnion u => bt_names (disc_type A u) ++
                flat_map (fun c => bt_names (unwrap_array (uc_value c))) (un_cases u) ++
                match un_default u with Some c => bt_names (unwrap_array (uc_value c)) | None => [] end
  | TTypedef t => bt_names (td_target t)
  | TEnum _ => []
  end.

(* the names reachable from n: breadth-first closure, |types| + 1 rounds *)
Fixpoint reach_list (A : ast) (fuel : nat) (L : list string) : list string :=
  match fuel with
  | O => L
  | S f =>
    let next := flat_map (fun m => match get_type A m with Some t => type_refs A t | None => [] end) L in
    reach_list A f (L ++ filter (fun x => negb (mem x L)) next)
  end.

Definition reach_of (A : ast) (n : string) : list string := reach_list A (S (List.length (types A))) [n].

Definition closed_b (A : ast) (L : list string) : bool :=
  forallb (fun m => match get_type A m with
                    | Some t => forallb (fun x => mem x L) (type_refs A t)
                    | None => true
                    end) L.

Definition nof1_typeb (t : ast_type) : bool :=
  match t with
  | TStruct s => forallb (fun f => negb (f1_pos (sf_value f))) (st_fields s)
  | TUnion u => forallb (fun c => negb (f1_pos (uc_value c))) (un_cases u) &&
                match un_default u with Some c => negb (f1_pos (uc_value c)) | None => true end
  | _ => true
  end.

Lemma nof1_typeb_sound t : nof1_typeb t = true -> nof1_type t.
Proof.
  destruct t as [s|u|e|td]; cbn; try (intros; exact I); intros X.
  - apply Forall_forall. intros f Hf. apply Bool.negb_true_iff. exact (proj1 (forallb_forall _ _) X f Hf).
  - apply Bool.andb_true_iff in X as [X1 X2]. split.
    + apply Forall_forall. intros c Hc. apply Bool.negb_true_iff. exact (proj1 (forallb_forall _ _) X1 c Hc).
    + intros c Hc. rewrite Hc in X2. now apply Bool.negb_true_iff.
Qed.

(* the hypothesis of the per-type theorem: the closure of n is closed, contains n, and holds no
   F1 position *)
Definition nof1_from_b (A : ast) (n : string) : bool :=
  let L := reach_of A n in
  mem n L && closed_b A L &&
  forallb (fun m => match get_type A m with Some t => nof1_typeb t | None => true end) L.

Lemma Rb_names (L : list string) t : forallb (fun x => mem x L) (bt_names t) = true -> Rb (fun m => In m L) t.
Proof. destruct t; cbn; try (intros; exact I). intros H. apply Bool.andb_true_iff in H as [H _]. now apply mem_In. Qed.

Lemma forallb_app' {X} (f : X -> bool) a b : forallb f (a ++ b) = true -> forallb f a = true /\ forallb f b = true.
Proof. rewrite forallb_app. apply Bool.andb_true_iff. Qed.

Lemma forallb_flat_map {X Y} (f : Y -> bool) (g : X -> list Y) l x :
  forallb f (flat_map g l) = true -> In x l -> forallb f (g x) = true.
Proof.
  induction l as [|a l IH]; intros H Hin; [contradiction|]. cbn [flat_map] in H.
  apply forallb_app' in H as [H1 H2]. destruct Hin as [->|Hin]; [exact H1|now apply IH].
Qed.

Lemma closed_b_sound A L :
  closed_b A L = true -> forall n t, In n L -> get_type A n = Some t -> rrefs_ok A (fun m => In m L) t.
Proof.
  intros H n t Hn G. pose proof (proj1 (forallb_forall _ _) H n Hn) as X. cbv beta in X. rewrite G in X.
  destruct t as [s|u|e|td]; cbn [rrefs_ok type_refs] in *.
  - apply Forall_forall. intros f Hf. apply Rb_names.
    exact (forallb_flat_map _ (fun f0 : struct_field => bt_names (unwrap_array (sf_value f0))) _ f X Hf).
  - apply forallb_app' in X as [X1 X]. apply forallb_app' in X as [X2 X3]. split; [now apply Rb_names|]. split.
    + apply Forall_forall. intros c Hc. apply Rb_names.
      exact (forallb_flat_map _ (fun c0 : union_case => bt_names (unwrap_array (uc_value c0))) _ c X2 Hc).
    + intros c Hc. rewrite Hc in X3. now apply Rb_names.
  - exact I.
  - now apply Rb_names.
Qed.

(* C02, second sentence, per decoded type: only the types the decoder can reach matter *)
Theorem consumed_from_b A md n t fuel s :
  gen A = EOk md -> sup4_b A = true -> nof1_from_b A n = true -> get_type A n = Some t -> bok s ->
  match dec md fuel n s with
  | Ok v s' => wsz md v = Some (remaining s - remaining s') /\ remaining s' <= remaining s
  | Panic _ => False
  | _ => True
  end.
Proof.
  intros Hgen H4 Hf Hget Hb. unfold nof1_from_b in Hf.
  apply Bool.andb_true_iff in Hf as [Hf H3]. apply Bool.andb_true_iff in Hf as [H1 H2].
  set (L := reach_of A n) in *.
  assert (Hn1 : forall m t0, In m L -> get_type A m = Some t0 -> nof1_type t0).
  { intros m t0 Hm G. pose proof (proj1 (forallb_forall _ _) H3 m Hm) as X. cbv beta in X. rewrite G in X.
    now apply nof1_typeb_sound. }
  pose proof (dec_consumed A md Hgen (sup4_b_sound A H4) (fun m => In m L) (closed_b_sound A L H2) Hn1
                fuel n t (proj1 (mem_In _ _) H1) Hget s Hb) as H.
  destruct (dec md fuel n s); try exact I; try contradiction.
  destruct H as [[_ Hw] [_ Hr]]. split; assumption.
Qed.

Theorem consumed_b A md n t fuel s :
  gen A = EOk md -> sup4_b A = true -> nof1_b A = true -> get_type A n = Some t -> bok s ->
  match dec md fuel n s with
  | Ok v s' => wsz md v = Some (remaining s - remaining s') /\ remaining s' <= remaining s
  | Panic _ => False
  | _ => True
  end.
Proof.
  intros Hgen H4 Hf Hget Hb.
  pose proof (dec_consumed A md Hgen (sup4_b_sound A H4) (fun _ => True)
                (fun n0 t0 _ _ => ltac:(destruct t0 as [s0|u0|e0|td0]; cbn; [apply Forall_forall; intros f _; destruct (unwrap_array (sf_value f)); exact I
                                          |split; [destruct (disc_type A u0); exact I|split; [apply Forall_forall; intros c _; destruct (unwrap_array (uc_value c)); exact I|intros c _; destruct (unwrap_array (uc_value c)); exact I]]
                                          |exact I|destruct (td_target td0); exact I]))
                (fun n0 t0 _ G => nof1_b_sound A Hf n0 t0 G) fuel n t I Hget s Hb) as H.
  destruct (dec md fuel n s); try exact I; try contradiction.
  destruct H as [[_ Hw] [_ Hr]]. split; assumption.
Qed.
