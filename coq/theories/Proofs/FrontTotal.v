(* C14 (front end, tree level): on EVERY declaration list whose declarations meet decl_ok,
   Ast::new returns Ok or panics at one of two sites -- the enum value parser (a value that
   starts with 0x and is not a hexadecimal numeral below 2^31) and the constant index (a
   constant / enum member name declared twice): finding F11. *)
From XdrProofs Require Export WalkProofs.
Open Scope string_scope.
Open Scope list_scope.

Definition E_ENUM := "enumeration.rs:from".
Definition E_CONST := "constants.rs:new".

Inductive only_panics {X} (sites : list string) : eres X -> Prop :=
| op_ok x : only_panics sites (EOk x)
| op_panic w : In w sites -> only_panics sites (EPanic w).

Lemma op_bind {X Y} sites (m : eres X) (k : X -> eres Y) :
  only_panics sites m -> (forall x, m = EOk x -> only_panics sites (k x)) -> only_panics sites (ebind m k).
Proof. intros [x|w Hw] Hk; cbn [ebind]; [now apply Hk|now constructor]. Qed.

Lemma op_emapM {X Y} sites (f : X -> eres Y) l :
  (forall x, In x l -> only_panics sites (f x)) -> only_panics sites (emapM f l).
Proof.
  induction l as [|x l IH]; intros H; cbn [emapM]; [constructor|].
  apply op_bind; [apply H; now left|]. intros y _.
  apply op_bind; [apply IH; intros; apply H; now right|]. intros ys _. constructor.
Qed.

Lemma op_weaken {X} s1 s2 (m : eres X) : incl s1 s2 -> only_panics s1 m -> only_panics s2 m.
Proof. intros Hi [x|w Hw]; constructor. now apply Hi. Qed.

Lemma variant_value_outcome v : only_panics [E_ENUM] (variant_value_from v).
Proof.
  unfold variant_value_from.
  destruct (String.prefix "0x" v).
  - destruct (strip_0x (String.length v) v); [constructor; now left|].
    match goal with |- context [hex_val ?c 0] => destruct (hex_val c 0) as [n|] end;
      [destruct (n <? 2147483648)%N|]; constructor; now left.
  - destruct (parse_i32 v); constructor.
Qed.

Lemma item_of_outcome d : only_panics [E_ENUM] (item_of d).
Proof.
  destruct d as [n v|n ms|n fs|n dt dn gs|ty n a]; cbn [item_of]; try constructor.
  apply op_bind; [|intros; constructor].
  apply op_emapM. intros m _. unfold member_vv. apply op_bind; [apply variant_value_outcome|intros; constructor].
Qed.

Lemma walk_list_emapM ds : Forall decl_ok ds -> walk_list (map t_decl ds) = emapM item_of ds.
Proof.
  induction 1 as [|d ds Hd _ IH]; cbn [map walk_list emapM]; [reflexivity|].
  rewrite (walk_decl d Hd), IH. reflexivity.
Qed.

Lemma walk_list_app_gen a b :
  walk_list (a ++ b) = ebind (walk_list a) (fun x => ebind (walk_list b) (fun y => EOk (x ++ y))).
Proof.
  induction a as [|t a IH]; cbn [app walk_list ebind].
  - destruct (walk_list b); reflexivity.
  - destruct (walk t); cbn [ebind]; try reflexivity. rewrite IH.
    destruct (walk_list a); cbn [ebind]; try reflexivity. destruct (walk_list b); reflexivity.
Qed.

(* the constant index: Ok, or the duplicate-name panic, or (on nodes the walker cannot produce
   under a `constant` rule) the ident_str panic *)
Lemma enum_consts_outcome en vs acc : only_panics [E_CONST] (enum_consts en vs acc).
Proof.
  revert acc. induction vs as [|[m v] r IH]; intros acc; cbn [enum_consts]; [constructor|].
  destruct (map_insert m (EnumValue en m) acc) as [acc' dup]. destruct dup; [constructor; now left|apply IH].
Qed.

Definition const_shaped (nd : node) : Prop :=
  match nd with NConstant l => exists a b, l = [NType a; NType b] | _ => True end.

Lemma const_index_outcome items : Forall const_shaped items -> forall acc, only_panics [E_CONST] (const_index items acc).
Proof.
  induction 1 as [|nd items Hs _ IH]; intros acc; [constructor|].
  destruct nd; try (cbn [const_index]; apply IH).
  - destruct Hs as [a [b ->]]. cbn [const_index ident_str ebind].
    destruct (map_insert (bt_as_str a) (ConstValue (bt_as_str b)) acc) as [acc' dup].
    destruct dup; [constructor; now left|apply IH].
  - rewrite const_index_enum. apply op_bind; [apply enum_consts_outcome|intros; apply IH].
Qed.

Lemma item_of_shaped d it : item_of d = EOk it -> const_shaped it.
Proof.
  destruct d as [n v|n ms|n fs|n dt dn gs|ty n a]; cbn [item_of]; intros H.
  - inversion H. cbn. eauto.
  - destruct (emapM member_vv ms); cbn [ebind] in H; inversion H. exact I.
  - inversion H. exact I.
  - inversion H. exact I.
  - inversion H. exact I.
Qed.

Lemma emapM_all {X Y} (f : X -> eres Y) (P : Y -> Prop) l ys :
  (forall x y, f x = EOk y -> P y) -> emapM f l = EOk ys -> Forall P ys.
Proof.
  intros Hf. revert ys. induction l as [|x l IH]; intros ys H; cbn [emapM] in H.
  - inversion H. constructor.
  - destruct (f x) as [y| |] eqn:E; cbn [ebind] in H; try discriminate.
    destruct (emapM f l) as [ys'| |]; cbn [ebind] in H; try discriminate.
    inversion H; subst. constructor; [eapply Hf; exact E|now apply IH].
Qed.

Theorem front_total ds :
  Forall decl_ok ds -> only_panics [E_ENUM; E_CONST] (ast_new (tree_of ds)).
Proof.
  intros Hok. unfold ast_new, tree_of.
  change (walk (Node "item" "" ?cs)) with (ebind (walk_list cs) (fun l => EOk (NRoot l))).
  rewrite walk_list_app_gen, (walk_list_emapM ds Hok). cbn [walk_list].
  change (walk (Node "EOI" "" [])) with (EOk NEOF). cbn [ebind].
  destruct (emapM item_of ds) as [items| |w] eqn:Ei; cbn [ebind].
  - cbn [ast_of_root].
    apply op_bind; [|intros; constructor].
    eapply op_weaken; [|apply const_index_outcome].
    + intros x [<-|[]]. right. now left.
    + apply Forall_app. split; [|repeat constructor].
      eapply emapM_all; [|exact Ei]. intros d it. apply item_of_shaped.
  - (* item_of never returns Err *)
    exfalso. assert (H : only_panics [E_ENUM] (emapM item_of ds)) by (apply op_emapM; intros; apply item_of_outcome).
    rewrite Ei in H. inversion H.
  - assert (H : only_panics [E_ENUM] (emapM item_of ds)) by (apply op_emapM; intros; apply item_of_outcome).
    rewrite Ei in H. inversion H; subst. constructor.
    match goal with X : In w [E_ENUM] |- _ => destruct X as [<-|[]] end. now left.
Qed.

(* and when no enum value starts with 0x-garbage and no constant name repeats, it is Ok *)
Theorem front_ok ds items cs :
  Forall decl_ok ds -> emapM item_of ds = EOk items -> const_index (items ++ [NEOF]) [] = EOk cs ->
  exists A, ast_new (tree_of ds) = EOk A /\ constants A = cs.
Proof.
  intros Hok Hi Hc. rewrite (ast_of_spec_total ds items Hok Hi), Hc. cbn [ebind]. eexists. split; reflexivity.
Qed.
