(* C05: no strict prefix of a valid encoding is accepted -- the decoder returns
   Error::InvalidLength on every byte-granular truncation of enc x.  Mutual induction over
   the typing derivation, using the round trip (C01) for the parts that are complete. *)
From XdrProofs Require Export NoPanic.
Open Scope N_scope.
Open Scope list_scope.

Definition spfx (p full : bytes) : Prop := exists q, full = p ++ q /\ q <> [].

Lemma spfx_len p full : spfx p full -> len p < len full.
Proof. intros [q [-> Hq]]. rewrite len_app. destruct q; [contradiction|]. rewrite len_cons. lia. Qed.

Lemma spfx_app p a b :
  spfx p (a ++ b) -> spfx p a \/ exists p2, p = a ++ p2 /\ spfx p2 b.
Proof.
  intros [q [E Hq]]. symmetry in E. apply app_eq_app in E as [l [[E1 E2]|[E1 E2]]].
  - (* p = a ++ l, b = l ++ q *) right. exists l. split; [exact E1|]. exists q. split; assumption.
  - (* a = p ++ l, q = l ++ b *)
    destruct l as [|x l].
    + right. exists []. rewrite app_nil_r in E1. split; [now rewrite app_nil_r|].
      exists b. cbn in E2. subst q. split; [reflexivity|exact Hq].
    + left. exists (x :: l). split; [exact E1|discriminate].
Qed.

Definition rejects (m : M rval) (x : xval) : Prop :=
  forall a o l p, spfx p (enc x) -> exists s', m (mk a o p l) = Err InvalidLength s'.

Definition rejects_list (m : M (list rval)) (xs : list xval) : Prop :=
  forall a o l p, spfx p (concat (map enc xs)) -> exists s', m (mk a o p l) = Err InvalidLength s'.

Lemma read_be_prefix k a o p l w :
  len w = k -> spfx p w -> read_be k (mk a o p l) = Err InvalidLength (mk a o p l).
Proof. intros Hw Hp. apply read_be_short. rewrite remaining_mk. apply spfx_len in Hp. lia. Qed.

Lemma read_be4_prefix a o p l n :
  spfx p (be_enc 4 n) -> read_be 4 (mk a o p l) = Err InvalidLength (mk a o p l).
Proof. intros H. eapply read_be_prefix; [|exact H]. now rewrite len_be_enc. Qed.
Lemma read_be8_prefix a o p l n :
  spfx p (be_enc 8 n) -> read_be 8 (mk a o p l) = Err InvalidLength (mk a o p l).
Proof. intros H. eapply read_be_prefix; [|exact H]. now rewrite len_be_enc. Qed.

Section NP.
  Variable A : ast.
  Variable md : module_ir.
  Hypothesis Hgen : gen A = EOk md.
  Hypothesis Hsup : sup A.

  Let Hcore : sup_core A := sup_c A Hsup.
  Let Hwf : wf_size A := sup_size A Hcore.
  Let Hkeys : keys_ok A := proj1 Hwf.

  Lemma Hsel_closed :
    forall n u dv disc arms fb,
      get_type A n = Some (TUnion u) ->
      emit_from_body A (TUnion u) = EOk (BUnion dv disc arms fb) ->
      forall d variant ty dd,
        TypedB A (disc_type A u) d -> arm_for A u d = Some (variant, ty) ->
        dval_of (rv 0 0 d) = Some dd ->
        exists payload, selects md arms fb dd variant payload /\
                        match ty with
                        | Some t => exists e, payload = Some e /\ decode_array A t UseAlias = EOk e
                        | None => payload = None
                        end.
  Proof.
    intros n0 u dv disc arms fb Hget Hb d variant ty dd Td Harm Hdd.
    eapply sel_union; try eassumption.
    - exact (sup_unions A Hsup n0 u Hget).
    - exact (proj1 (proj2 Hwf n0 _ Hget)).
  Qed.

  Definition RT := roundtrip_all A md Hgen Hcore Hsel_closed.

  Definition RN (n : string) (x : xval) : Prop :=
    forall fuel, (need x <= fuel)%nat -> step_exact x = true -> rejects (dec md fuel n) x.
  Definition RB (t : basic_type) (x : xval) : Prop :=
    forall e, decode_basic A t UseAlias = EOk e ->
    forall f, (need x <= f)%nat -> step_exact x = true -> rejects (eval_dexp md (dec md f) f e) x.
  Definition RP (t : array_type) (opt : bool) (x : xval) : Prop :=
    pos_ok t opt ->
    forall fe, fexp_of A t opt = EOk fe ->
    forall f, (need x <= f)%nat -> step_exact x = true -> rejects (eval_fexp md (dec md f) f fe) x.
  Definition RArm (ty : option array_type) (arm : option xval) : Prop :=
    match ty, arm with
    | Some t, Some y =>
      pos_ok t false ->
      forall e, decode_array A t UseAlias = EOk e ->
      forall f, (need y <= f)%nat -> step_exact y = true -> rejects (eval_dexp md (dec md f) f e) y
    | _, _ => True
    end.
  Definition RF (fs : list struct_field) (vs : list xval) : Prop :=
    Forall (fun f => pos_ok (sf_value f) (sf_optional f)) fs ->
    forall ps, Forall2 (fun fd p => fexp_of A (sf_value fd) (sf_optional fd) = EOk (snd p)) fs ps ->
    forall f, (need_list vs <= f)%nat -> step_exact_all vs = true ->
              rejects_list (eval_fields md (dec md f) f ps) vs.
  Definition RL (t : basic_type) (l : list xval) : Prop :=
    (forall e, decode_basic A t UseAlias = EOk e ->
     forall f, (need_list l <= f)%nat -> step_exact_all l = true ->
               rejects_list (seq_n (List.length l) (eval_dexp md (dec md f) f e)) l) /\
    (forall n, t = Ident n ->
     forall f, (need_list l <= f)%nat -> step_exact_all l = true -> noF1_all l = true ->
     forall a o p led sum acc fuel, (List.length l <= fuel)%nat -> spfx p (concat (map enc l)) ->
       exists s', rva_loop (dec md f n) (wsz md) fuel (len l) sum acc (mk a o p led) = Err InvalidLength s').

  Lemma rej_prims rec lf t x :
    TypedB A t x -> forall e, prim_dexp t = Some e -> rejects (eval_dexp md rec lf e) x.
  Proof.
    intros H e He a o l p Hp. inversion H; subst; cbn [prim_dexp] in He; inversion He; subst e;
      cbn [eval_dexp read_prim enc] in *; unfold bind, read_u32, read_u64, read_i32, read_i64, read_f32, read_f64, bind.
    - rewrite (read_be4_prefix _ _ _ _ _ Hp). eauto.
    - rewrite (read_be4_prefix _ _ _ _ _ Hp). eauto.
    - rewrite (read_be8_prefix _ _ _ _ _ Hp). eauto.
    - rewrite (read_be8_prefix _ _ _ _ _ Hp). eauto.
    - rewrite (read_be4_prefix _ _ _ _ _ Hp). eauto.
    - rewrite (read_be8_prefix _ _ _ _ _ Hp). eauto.
    - rewrite read_bool_short; [eauto|]. rewrite remaining_mk. apply spfx_len in Hp. rewrite len_be_enc in Hp. lia.
    - (* string *)
      apply spfx_app in Hp as [Hp|[p2 [-> Hp2]]].
      + unfold read_string, bind, read_variable_bytes, bind, read_u32.
        rewrite (read_be4_prefix _ _ _ _ _ Hp). eauto.
      + unfold read_string, bind, read_variable_bytes, bind, read_u32.
        rewrite read_be_app by (now rewrite len_be_enc). rewrite be_dec_enc4 by (unfold u32_max in *; lia).
        cbn [check_max]. unfold ret. rewrite read_bytes_short; [eauto|].
        rewrite remaining_mk. apply spfx_len in Hp2. rewrite len_enc_bytes in Hp2. exact Hp2.
    - (* opaque *)
      apply spfx_app in Hp as [Hp|[p2 [-> Hp2]]].
      + unfold read_variable_bytes, bind, read_u32.
        rewrite (read_be4_prefix _ _ _ _ _ Hp). eauto.
      + unfold read_variable_bytes, bind, read_u32.
        rewrite read_be_app by (now rewrite len_be_enc). rewrite be_dec_enc4 by (unfold u32_max in *; lia).
        cbn [check_max]. unfold ret. rewrite read_bytes_short; [eauto|].
        rewrite remaining_mk. apply spfx_len in Hp2. rewrite len_enc_bytes in Hp2. exact Hp2.
  Qed.

  Lemma spfx_nil p : ~ spfx p [].
  Proof. intros [q [E Hq]]. destruct p; destruct q; try discriminate; contradiction. Qed.

  Lemma bind_err {X Y} (m : M X) (k : X -> M Y) s s' :
    m s = Err InvalidLength s' -> bind m k s = Err InvalidLength s'.
  Proof. intros H. unfold bind. now rewrite H. Qed.

  Theorem noprefix_all :
    (forall n x, TypedN A n x -> RN n x) /\
    (forall fs vs, TypedF A fs vs -> RF fs vs) /\
    (forall ty arm, TypedArm A ty arm -> RArm ty arm) /\
    (forall t opt x, TypedP A t opt x -> RP t opt x) /\
    (forall t l, TypedL A t l -> RL t l) /\
    (forall t x, TypedB A t x -> RB t x).
  Proof.
    destruct RT as [RTN [RTF [RTArm [RTP [RTL RTB]]]]].
    apply Typed_mutind.
    - (* struct *)
      intros n s vs Hget Hname Tf IH fuel Hf Hse a o l p Hp.
      rewrite need_struct in Hf. destruct fuel as [|f]; [lia|].
      destruct (find_from_gen A md Hgen Hkeys n _ Hget) as [b [Hb Hfind]].
      cbn [emit_from_body] in Hb.
      destruct (emapM _ (st_fields s)) as [ps| |] eqn:Eps; cbn [ebind] in Hb; try discriminate.
      inversion Hb; subst b. clear Hb.
      assert (Hps : Forall2 (fun fd p => fexp_of A (sf_value fd) (sf_optional fd) = EOk (snd p)) (st_fields s) ps).
      { eapply emapM_Forall2; [|exact Eps]. intros fd q Hq. cbv beta in Hq. unfold fexp_of.
        destruct (sf_optional fd); [inversion Hq; reflexivity|].
        destruct (decode_array A (sf_value fd) UseAlias); cbn [ebind] in Hq |- *; try discriminate.
        inversion Hq. reflexivity. }
      rewrite step_exact_struct in Hse. cbn [enc] in Hp.
      destruct (IH (sup_struct A Hcore n s Hget) ps Hps f ltac:(lia) Hse a o l p Hp) as [s' Hd].
      exists s'. cbn [dec]. rewrite Hfind. cbn [i_body i_name eval_body]. now apply bind_err.
    - (* union *)
      intros n u d variant ty arm Hget Hname Td IHd Harm Tarm IHarm fuel Hf Hse a o l p Hp.
      destruct fuel as [|f]; [destruct arm; cbn [need] in Hf; lia|].
      destruct (find_from_gen A md Hgen Hkeys n _ Hget) as [b [Hb Hfind]].
      assert (Hb' := Hb). cbn [emit_from_body] in Hb.
      destruct (decode_basic A (un_sw_type u) UseTarget) as [disc| |] eqn:Edisc; cbn [ebind] in Hb; try discriminate.
      destruct (emapM _ (un_cases u)) as [arms| |] eqn:Earms; cbn [ebind] in Hb; try discriminate.
      destruct (match un_default u with Some d0 => _ | None => _ end) as [fb| |] eqn:Efb; cbn [ebind] in Hb; try discriminate.
      inversion Hb; subst b. clear Hb.
      pose proof (proj2 Hwf _ _ Hget) as [Hdisc _].
      (* sup4 is not available here: restate the discriminant emission *)
      assert (Hdisc_emit : decode_basic A (disc_type A u) UseAlias = EOk disc).
      { clear - Edisc Hdisc Hkeys. unfold disc_type in *. destruct (un_sw_type u) as [| | | | | | | | |c] eqn:Esw;
          try (cbn in Edisc |- *; exact Edisc).
        unfold decode_basic in Edisc. cbn [prim_dexp] in Edisc.
        destruct (get_type A c) as [[s|u0|e|t]|] eqn:Ec.
        - cbn. pose proof (Hkeys _ _ (assoc_In _ _ _ Ec)) as K. cbn in K. now rewrite <- K.
        - cbn. pose proof (Hkeys _ _ (assoc_In _ _ _ Ec)) as K. cbn in K. now rewrite <- K.
        - cbn. pose proof (Hkeys _ _ (assoc_In _ _ _ Ec)) as K. cbn in K. now rewrite <- K.
        - destruct (prim_dexp_cases (td_target t)) as [[e1 He1]|[m Hm]].
          + rewrite He1 in Edisc. now rewrite (decode_basic_prim _ _ _ He1).
          + rewrite Hm in *. exact Edisc.
        - discriminate. }
      assert (Hnd : (need d <= f)%nat) by (destruct arm; cbn [need] in Hf; lia).
      assert (Hsd : step_exact d = true).
      { clear - Td Hdisc. destruct Hdisc as [E|[E|[E|[e [en [E He]]]]]]; rewrite E in Td; inversion Td; subst; try reflexivity.
        match goal with HN : TypedN _ _ _ |- _ => inversion HN; subst end; try congruence; reflexivity. }
      cbn [dec]. rewrite Hfind. cbn [i_body i_name eval_body].
      destruct arm as [y|]; destruct ty as [t|]; try (inversion Tarm; fail); cbn [enc] in Hp.
      + apply spfx_app in Hp as [Hp|[p2 [-> Hp2]]].
        * destruct (IHd disc Hdisc_emit f Hnd Hsd a o l p Hp) as [s' Hd]. exists s'. now apply bind_err.
        * destruct (RTB _ _ Td disc Hdisc_emit f Hnd Hsd a o p2 l) as [l1 Hd1].
          assert (Hdv : exists dd, dval_of (rv a o d) = Some dd /\ dval_of (rv 0 0 d) = Some dd).
          { clear - Td Hdisc. destruct Hdisc as [E|[E|[E|[e [en [E He]]]]]]; rewrite E in Td; inversion Td; subst;
              try (eexists; split; reflexivity).
            match goal with HN : TypedN _ _ _ |- _ => inversion HN; subst end; try congruence.
            eexists; split; reflexivity. }
          destruct Hdv as [dd [Hdd Hdd0]].
          destruct (Hsel_closed n u _ _ _ _ Hget Hb' d variant (Some t) dd Td Harm Hdd0) as [payload [Hselx Hpay]].
          destruct Hpay as [e [-> He]]. cbn [RArm] in IHarm.
          assert (Hpos : pos_ok t false).
          { destruct (sup_arms A Hcore n u Hget) as [Hc Hdf]. clear - Harm Hc Hdf.
            unfold arm_for in Harm.
            destruct (find _ (un_cases u)) as [c|] eqn:Ec.
            - destruct (find _ (uc_values c)); [|discriminate]. inversion Harm; subst.
              apply find_some in Ec as [Hin _]. exact (proj1 (Forall_forall _ _) Hc c Hin).
            - destruct (find _ (un_void u)); [discriminate|].
              destruct (un_default u) as [dc|] eqn:Ed; [|destruct (mem "default" (un_void u)); discriminate].
              inversion Harm; subst. now apply Hdf. }
          cbn [need] in Hf. cbn [step_exact] in Hse.
          destruct (IHarm Hpos e He f ltac:(lia) Hse a (o + len (enc d)) l1 p2 Hp2) as [s' Hd2].
          exists s'. unfold bind at 1. rewrite Hd1, Hdd.
          rewrite (eval_arms_selects md _ _ _ _ _ _ _ _ Hselx). now apply bind_err.
      + destruct (IHd disc Hdisc_emit f Hnd Hsd a o l p Hp) as [s' Hd]. exists s'. now apply bind_err.
    - (* enum *)
      intros n e m v Hget Hname Hin Hv fuel Hf _ a o l p Hp. cbn [need] in Hf.
      destruct fuel as [|f]; [lia|].
      destruct (find_from_gen A md Hgen Hkeys n _ Hget) as [b [Hb Hfind]].
      cbn [emit_from_body] in Hb. inversion Hb; subst b. clear Hb.
      eexists. cbn [dec]. rewrite Hfind. cbn [i_body i_name eval_body]. unfold bind at 1, read_i32, bind.
      cbn [enc] in Hp. rewrite (read_be4_prefix _ _ _ _ _ Hp). reflexivity.
    - (* typedef *)
      intros n t y Hget Hname Ty IH fuel Hf Hse a o l p Hp. cbn [need] in Hf. cbn [step_exact] in Hse.
      destruct fuel as [|f]; [lia|].
      destruct (find_from_gen A md Hgen Hkeys n _ Hget) as [b [Hb Hfind]].
      cbn [emit_from_body] in Hb.
      pose proof (sup_typedef A Hcore n t Hget) as Htd.
      rewrite (typedef_emit A Hcore n t Hget Htd) in Hb.
      destruct (decode_array A (typedef_pos t) UseAlias) as [e| |] eqn:Ee; cbn [ebind] in Hb; try discriminate.
      inversion Hb; subst b. clear Hb.
      assert (Hfe : fexp_of A (typedef_pos t) false = EOk (FPlain e)) by (unfold fexp_of; now rewrite Ee).
      cbn [enc] in Hp.
      destruct (IH (proj1 (proj2 Htd)) _ Hfe f ltac:(lia) Hse a o l p Hp) as [s' Hd].
      exists s'. cbn [dec]. rewrite Hfind. cbn [i_body i_name eval_body]. cbn [eval_fexp] in Hd. now apply bind_err.
    - (* fields: nil *)
      intros _ ps _ f _ _ a o l p Hp. cbn in Hp. now apply spfx_nil in Hp.
    - (* fields: cons *)
      intros fd fs v vs Tv IHv Tfs IHfs Hall ps Hps f Hf Hse a o l p Hp.
      inversion Hall as [|? ? Hfd Hfs]; subst. inversion Hps as [|? q ? ps' Hq Hps']; subst.
      cbn [need_list] in Hf. cbn [step_exact_all] in Hse. apply Bool.andb_true_iff in Hse as [Hs1 Hs2].
      cbn [map concat] in Hp. cbn [eval_fields].
      apply spfx_app in Hp as [Hp|[p2 [-> Hp2]]].
      + destruct (IHv Hfd _ Hq f ltac:(lia) Hs1 a o l p Hp) as [s' Hd]. exists s'. now apply bind_err.
      + destruct (RTP _ _ _ Tv Hfd _ Hq f ltac:(lia) Hs1 a o p2 l) as [l1 Hd1].
        destruct (IHfs Hfs ps' Hps' f ltac:(lia) Hs2 a (o + len (enc v)) l1 p2 Hp2) as [s' Hd2].
        exists s'. unfold bind at 1. rewrite Hd1. now apply bind_err.
    - exact I.
    - intros t y Ty IH. cbn [RArm]. intros Hpos e He f Hf Hse.
      assert (Hfe : fexp_of A t false = EOk (FPlain e)) by (unfold fexp_of; now rewrite He).
      exact (IH Hpos _ Hfe f Hf Hse).
    - (* plain *)
      intros t x Tb IH Hpos fe Hfe f Hf Hse. apply fexp_of_plain in Hfe as [e [He ->]].
      cbn [decode_array] in He. cbn [eval_fexp]. exact (IH e He f Hf Hse).
    - (* optional none *)
      intros t Hpos fe Hfe f _ _ a o l p Hp. unfold fexp_of in Hfe. inversion Hfe; subst fe.
      eexists. cbn [eval_fexp]. unfold bind at 1, read_u32. cbn [enc] in Hp.
      rewrite (read_be4_prefix _ _ _ _ _ Hp). reflexivity.
    - (* optional some *)
      intros t y Tb IH Hpos fe Hfe f Hf Hse a o l p Hp. unfold fexp_of in Hfe. inversion Hfe; subst fe.
      destruct Hpos as [Hsafe [Hopt _]]. destruct (Hopt eq_refl) as [n Hn]. inversion Hn; subst t.
      cbn [unwrap_array safe_ref] in Hsafe. cbn [unwrap_array]. rewrite Hsafe.
      cbn [need] in Hf. cbn [step_exact] in Hse. cbn [enc] in Hp. cbn [eval_fexp].
      apply spfx_app in Hp as [Hp|[p2 [-> Hp2]]].
      + eexists. unfold bind at 1, read_u32. rewrite (read_be4_prefix _ _ _ _ _ Hp). reflexivity.
      + destruct (IH _ (decode_basic_ident A n) f Hf Hse a (o + 4) l p2 Hp2) as [s' Hd]. cbn [eval_dexp] in Hd.
        exists s'. unfold bind at 1, read_u32.
        rewrite read_be_app by (now rewrite len_be_enc). rewrite be_dec_enc4 by lia.
        change (1 =? 0) with false. change (1 =? 1) with true. cbv iota. now apply bind_err.
    - (* fixed opaque *)
      intros s n bs Hs Hl Hb Hpos fe Hfe f _ _ a o l p Hp. apply fexp_of_plain in Hfe as [e [He ->]].
      cbn [decode_array] in He. rewrite (size_val_resolve A s n true Hs) in He. cbn [ebind] in He.
      unfold decode_fixed in He. inversion He; subst e.
      eexists. cbn [eval_fexp eval_dexp]. apply bind_err. apply read_bytes_short.
      rewrite remaining_mk. apply spfx_len in Hp. cbn [enc] in Hp. rewrite len_enc_bytes, Hl in Hp. exact Hp.
    - (* fixed array *)
      intros t s n l0 Ht1 Ht2 Hs Hl TL IH Hpos fe Hfe f Hf Hse a o led p Hp.
      apply fexp_of_plain in Hfe as [e [He ->]].
      cbn [decode_array] in He. rewrite (size_val_resolve A s n true Hs) in He. cbn [ebind] in He.
      rewrite need_arrf in Hf. rewrite step_exact_arrf in Hse.
      assert (Hnl : N.to_nat n = List.length l0) by (rewrite <- Hl; unfold len; lia).
      unfold decode_fixed in He.
      assert (He' : (if n =? 0 then EOk (EArr 0 (EPrim PU32))
                     else ebind (decode_basic A t UseAlias) (fun e0 => EOk (EArr n e0))) = EOk e).
      { destruct t; try exact He; congruence. }
      clear He. cbn [enc] in Hp. destruct (N.eqb_spec n 0) as [Z|NZ].
      + rewrite Z in Hl. apply len_0_nil in Hl. subst l0. cbn in Hp. now apply spfx_nil in Hp.
      + destruct (decode_basic A t UseAlias) as [e0| |] eqn:E0; cbn [ebind] in He'; try discriminate.
        inversion He'; subst e.
        destruct (proj1 IH e0 E0 f Hf Hse a o led p Hp) as [s' Hd].
        exists s'. cbn [eval_fexp eval_dexp]. rewrite Hnl. now apply bind_err.
    - (* variable opaque *)
      intros s m bs Hm Hlm Hlu Hb Hpos fe Hfe f _ _ a o led p Hp.
      apply fexp_of_plain in Hfe as [e [He ->]].
      assert (Hmax : exists mx, e = EVarBytes mx /\ forall m', mx = Some m' -> len bs <= m').
      { cbn [decode_array] in He. destruct s as [sz|].
        - cbn [max_val] in Hm. rewrite (size_val_resolve A sz m false Hm) in He. cbn [ebind] in He.
          unfold decode_variable in He. inversion He. eexists; split; [reflexivity|].
          intros m' E; inversion E; subst; exact Hlm.
        - unfold decode_variable in He. inversion He. eexists; split; [reflexivity|]. discriminate. }
      destruct Hmax as [mx [-> Hmx]]. cbn [eval_fexp eval_dexp]. cbn [enc] in Hp.
      apply spfx_app in Hp as [Hp|[p2 [-> Hp2]]].
      + eexists. apply bind_err. unfold read_variable_bytes, bind, read_u32.
        rewrite (read_be4_prefix _ _ _ _ _ Hp). reflexivity.
      + eexists. apply bind_err. unfold read_variable_bytes, bind, read_u32.
        rewrite read_be_app by (now rewrite len_be_enc). rewrite be_dec_enc4 by (unfold u32_max in *; lia).
        rewrite check_max_ok by exact Hmx. apply read_bytes_short.
        rewrite remaining_mk. apply spfx_len in Hp2. rewrite len_enc_bytes in Hp2. exact Hp2.
    - (* variable string *)
      intros s m bs Hm Hlm Hlu Hb Hu Hpos fe Hfe f _ _ a o led p Hp.
      apply fexp_of_plain in Hfe as [e [He ->]].
      assert (Hmax : exists mx, e = EString mx /\ forall m', mx = Some m' -> len bs <= m').
      { cbn [decode_array] in He. destruct s as [sz|].
        - cbn [max_val] in Hm. rewrite (size_val_resolve A sz m false Hm) in He. cbn [ebind] in He.
          unfold decode_variable in He. inversion He. eexists; split; [reflexivity|].
          intros m' E; inversion E; subst; exact Hlm.
        - unfold decode_variable in He. inversion He. eexists; split; [reflexivity|]. discriminate. }
      destruct Hmax as [mx [-> Hmx]]. cbn [eval_fexp eval_dexp]. cbn [enc] in Hp.
      apply spfx_app in Hp as [Hp|[p2 [-> Hp2]]].
      + eexists. apply bind_err. unfold read_string. apply bind_err. unfold read_variable_bytes, bind, read_u32.
        rewrite (read_be4_prefix _ _ _ _ _ Hp). reflexivity.
      + eexists. apply bind_err. unfold read_string. apply bind_err. unfold read_variable_bytes, bind, read_u32.
        rewrite read_be_app by (now rewrite len_be_enc). rewrite be_dec_enc4 by (unfold u32_max in *; lia).
        rewrite check_max_ok by exact Hmx. apply read_bytes_short.
        rewrite remaining_mk. apply spfx_len in Hp2. rewrite len_enc_bytes in Hp2. exact Hp2.
    - (* counted array *)
      intros t s m l0 Ht1 Ht2 Hm Hlm Hlu TL IH Hpos fe Hfe f Hf Hse a o led p Hp.
      apply fexp_of_plain in Hfe as [e [He ->]].
      destruct Hpos as [Hsafe [_ [[Hc|[Hc|[n Hn]]] _]]]; try congruence. subst t.
      cbn [unwrap_array safe_ref] in Hsafe.
      assert (Hmax : exists mx, e = EVarArray n (is_generic A n) mx /\ forall m', mx = Some m' -> len l0 <= m').
      { cbn [decode_array] in He. destruct s as [sz|].
        - cbn [max_val] in Hm. rewrite (size_val_resolve A sz m false Hm) in He. cbn [ebind] in He.
          unfold decode_variable in He. rewrite Hsafe in He. inversion He. eexists; split; [reflexivity|].
          intros m' E; inversion E; subst; exact Hlm.
        - unfold decode_variable in He. rewrite Hsafe in He. inversion He. eexists; split; [reflexivity|]. discriminate. }
      destruct Hmax as [mx [-> Hmx]].
      rewrite need_arrv in Hf. rewrite step_exact_arrv in Hse. apply Bool.andb_true_iff in Hse as [Hse1 Hse2].
      cbn [eval_fexp eval_dexp]. cbn [enc] in Hp.
      apply spfx_app in Hp as [Hp|[p2 [-> Hp2]]].
      + eexists. apply bind_err. unfold read_variable_array. apply bind_err. unfold read_u32.
        rewrite (read_be4_prefix _ _ _ _ _ Hp). reflexivity.
      + unfold bind at 1. unfold read_variable_array, bind at 1, read_u32.
        rewrite read_be_app by (now rewrite len_be_enc).
        rewrite be_dec_enc4 by (unfold u32_max in Hlu; lia).
        unfold bind at 1. rewrite check_max_ok by exact Hmx.
        unfold bind at 1, reserve. cbn [s_alloc s_off s_rem s_led mk].
        set (led1 := led ++ [ResVec (N.min (len l0) (remaining (mk a (o + 4) p2 led))) n]).
        fold (mk a (o + 4) p2 led1).
        destruct (proj2 IH n eq_refl f ltac:(lia) Hse1 Hse2 a (o + 4) p2 led1 0 [] f ltac:(lia) Hp2) as [s' Hloop].
        exists s'. unfold bind at 1. rewrite Hloop. reflexivity.
    - (* list: nil *)
      intros t. split.
      + intros e _ f _ _ a o l p Hp. cbn in Hp. now apply spfx_nil in Hp.
      + intros n _ f _ _ _ a o p led sum acc fuel _ Hp. cbn in Hp. now apply spfx_nil in Hp.
    - (* list: cons *)
      intros t x l0 Tb IHx TL IHl. split.
      + intros e He f Hf Hse a o l p Hp. cbn [need_list] in Hf. cbn [step_exact_all] in Hse.
        apply Bool.andb_true_iff in Hse as [Hs1 Hs2]. cbn [map concat] in Hp. cbn [List.length seq_n].
        apply spfx_app in Hp as [Hp|[p2 [-> Hp2]]].
        * destruct (IHx e He f ltac:(lia) Hs1 a o l p Hp) as [s' Hd]. exists s'. now apply bind_err.
        * destruct (RTB _ _ Tb e He f ltac:(lia) Hs1 a o p2 l) as [l1 Hd1].
          destruct (proj1 IHl e He f ltac:(lia) Hs2 a (o + len (enc x)) l1 p2 Hp2) as [s' Hd2].
          exists s'. unfold bind at 1. rewrite Hd1. now apply bind_err.
      + intros n Hn f Hf Hse Hnf a o p led sum acc fuel Hfuel Hp. subst t.
        cbn [need_list] in Hf. cbn [step_exact_all] in Hse. cbn [noF1_all] in Hnf.
        apply Bool.andb_true_iff in Hse as [Hs1 Hs2]. apply Bool.andb_true_iff in Hnf as [Hn1 Hn2].
        apply N.eqb_eq in Hn1.
        destruct fuel as [|fuel']; [cbn in Hfuel; lia|].
        cbn [rva_loop]. rewrite len_cons.
        destruct (N.eqb_spec (1 + len l0) 0) as [C|_]; [lia|].
        cbn [map concat] in Hp.
        apply spfx_app in Hp as [Hp|[p2 [-> Hp2]]].
        * destruct (IHx (ETryFrom n) (decode_basic_ident A n) f ltac:(lia) Hs1 a o led p Hp) as [s' Hd].
          cbn [eval_dexp] in Hd. eexists. unfold bind at 1, on_clone. rewrite Hd. reflexivity.
        * destruct (RTB _ _ Tb (ETryFrom n) (decode_basic_ident A n) f ltac:(lia) Hs1 a o p2 led) as [l1 Hd1].
          cbn [eval_dexp] in Hd1.
          unfold bind at 1, on_clone. rewrite Hd1. cbn [s_alloc s_off s_rem s_led mk].
          assert (Tn : TypedN A n x) by (inversion Tb; assumption).
          rewrite (wsz_exact A md Hgen Hwf n x a o Tn Hn1).
          fold (mk a o (enc x ++ p2) l1). rewrite remaining_mk.
          destruct (N.ltb_spec (len (enc x ++ p2)) (len (enc x))) as [C|_]; [rewrite len_app in C; lia|].
          unfold bind, advance. rewrite remaining_mk.
          destruct (N.leb_spec (len (enc x)) (len (enc x ++ p2))) as [_|C]; [|rewrite len_app in C; lia].
          rewrite with_rem_mk, drop_app_exact.
          replace (1 + len l0 - 1) with (len l0) by lia.
          exact (proj2 IHl n eq_refl f ltac:(lia) Hs2 Hn2 a (o + len (enc x)) p2 l1
                       (sum + len (enc x)) (rv a o x :: acc) fuel' ltac:(cbn in Hfuel; lia) Hp2).
    - intros n Hn e He f _ _. apply decode_basic_alias in He as [He|[m [C _]]]; [|discriminate].
      eapply rej_prims; [constructor; exact Hn|exact He].
    - intros z Hz e He f _ _. apply decode_basic_alias in He as [He|[m [C _]]]; [|discriminate].
      eapply rej_prims; [constructor; exact Hz|exact He].
    - intros n Hn e He f _ _. apply decode_basic_alias in He as [He|[m [C _]]]; [|discriminate].
      eapply rej_prims; [constructor; exact Hn|exact He].
    - intros z Hz e He f _ _. apply decode_basic_alias in He as [He|[m [C _]]]; [|discriminate].
      eapply rej_prims; [constructor; exact Hz|exact He].
    - intros b Hb e He f _ _. apply decode_basic_alias in He as [He|[m [C _]]]; [|discriminate].
      eapply rej_prims; [constructor; exact Hb|exact He].
    - intros b Hb e He f _ _. apply decode_basic_alias in He as [He|[m [C _]]]; [|discriminate].
      eapply rej_prims; [constructor; exact Hb|exact He].
    - intros b e He f _ _. apply decode_basic_alias in He as [He|[m [C _]]]; [|discriminate].
      eapply rej_prims; [constructor|exact He].
    - intros bs H1 H2 H3 e He f _ _. apply decode_basic_alias in He as [He|[m [C _]]]; [|discriminate].
      eapply rej_prims; [constructor; assumption|exact He].
    - intros bs H1 H2 e He f _ _. apply decode_basic_alias in He as [He|[m [C _]]]; [|discriminate].
      eapply rej_prims; [constructor; assumption|exact He].
    - intros n x Tn IH e He f Hf Hse. cbn in He. inversion He; subst e. cbn [eval_dexp].
      exact (IH f Hf Hse).
  Qed.

  (* C05: no strict prefix of the encoding of a well-typed value is accepted *)
  Theorem no_prefix n x fuel a o l p :
    TypedN A n x -> (need x <= fuel)%nat -> step_exact x = true -> spfx p (enc x) ->
    exists s', dec md fuel n (mk a o p l) = Err InvalidLength s'.
  Proof. intros T Hf Hs Hp. exact (proj1 noprefix_all n x T fuel Hf Hs a o l p Hp). Qed.
End NP.

(* ---------- C05: the declared maximum reaches the reader, and is enforced at the position ---------- *)

Definition carries_max (e : dexp) (m : option N) : Prop :=
  match e with EVarBytes m' | EString m' | EVarArray _ _ m' => m' = m | _ => False end.

Theorem bound_carried A t s n r :
  resolve_size A s false = EOk n ->
  exists e, decode_array A (AVar t (Some s)) r = EOk e /\ carries_max e (Some n).
Proof.
  intros H. cbn [decode_array]. rewrite H. cbn [ebind]. unfold decode_variable.
  destruct t; eexists; (split; [reflexivity|reflexivity]).
Qed.

Theorem position_over_max md rec lf A t s n e a o w rest l :
  decode_array A (AVar t (Some s)) UseAlias = EOk e -> resolve_size A s false = EOk n ->
  len w = 4 -> n < be_dec w ->
  eval_dexp md rec lf e (mk a o (w ++ rest) l) = Err InvalidLength (mk a (o + 4) rest l).
Proof.
  intros He Hn Hw Hlt. cbn [decode_array] in He. rewrite Hn in He. cbn [ebind] in He. unfold decode_variable in He.
  destruct t; inversion He; subst e; cbn [eval_dexp]; unfold bind;
    try (rewrite (read_variable_array_over_max _ _ _ a o w rest l n lf Hw Hlt); reflexivity).
  - unfold read_string, bind. rewrite (read_variable_bytes_over_max a o w rest l n Hw Hlt). reflexivity.
  - rewrite (read_variable_bytes_over_max a o w rest l n Hw Hlt). reflexivity.
Qed.
