(* Facts about the reference semantics alone (Spec.v): encodings are multiples of four,
   rv/enc of lists. *)
From XdrProofs Require Export BytesProofs.
From XdrModel Require Export Spec.
Open Scope N_scope.
Open Scope list_scope.

Section xval_ind'.
  Variable P : xval -> Prop.
  Hypothesis Hu32 : forall n, P (XU32 n).
  Hypothesis Hi32 : forall z, P (XI32 z).
  Hypothesis Hu64 : forall n, P (XU64 n).
  Hypothesis Hi64 : forall z, P (XI64 z).
  Hypothesis Hf32 : forall n, P (XF32 n).
  Hypothesis Hf64 : forall n, P (XF64 n).
  Hypothesis Hbool : forall b, P (XBool b).
  Hypothesis Henum : forall e m v, P (XEnum e m v).
  Hypothesis Hstr : forall s, P (XString s).
  Hypothesis Hov : forall s, P (XOpaqueV s).
  Hypothesis Hof : forall s, P (XOpaqueF s).
  Hypothesis Harrf : forall l, Forall P l -> P (XArrF l).
  Hypothesis Harrv : forall l, Forall P l -> P (XArrV l).
  Hypothesis Hnone : P (XOpt None).
  Hypothesis Hsome : forall x, P x -> P (XOpt (Some x)).
  Hypothesis Hstruct : forall n l, Forall P l -> P (XStruct n l).
  Hypothesis Hun0 : forall n d v, P d -> P (XUnion n d v None).
  Hypothesis Hun1 : forall n d v y, P d -> P y -> P (XUnion n d v (Some y)).
  Hypothesis Halias : forall n y, P y -> P (XAlias n y).

  Fixpoint xval_ind' (x : xval) : P x :=
    let fix go (l : list xval) : Forall P l :=
        match l with
        | [] => Forall_nil P
        | y :: r => Forall_cons y (xval_ind' y) (go r)
        end in
    match x with
    | XU32 n => Hu32 n | XI32 z => Hi32 z | XU64 n => Hu64 n | XI64 z => Hi64 z
    | XF32 n => Hf32 n | XF64 n => Hf64 n | XBool b => Hbool b
    | XEnum e m v => Henum e m v
    | XString s => Hstr s | XOpaqueV s => Hov s | XOpaqueF s => Hof s
    | XArrF l => Harrf l (go l)
    | XArrV l => Harrv l (go l)
    | XOpt None => Hnone
    | XOpt (Some y) => Hsome y (xval_ind' y)
    | XStruct n l => Hstruct n l (go l)
    | XUnion n d v None => Hun0 n d v (xval_ind' d)
    | XUnion n d v (Some y) => Hun1 n d v y (xval_ind' d) (xval_ind' y)
    | XAlias n y => Halias n y (xval_ind' y)
    end.
End xval_ind'.

Lemma len_enc_bytes bs : len (enc_bytes bs) = len bs + pad_length (len bs).
Proof. unfold enc_bytes. now rewrite len_app, len_zeros. Qed.

Lemma len_concat_mult4 (l : list bytes) :
  Forall (fun e => len e mod 4 = 0) l -> len (concat l) mod 4 = 0.
Proof.
  induction 1 as [|e l He _ IH]; cbn [concat]; [reflexivity|].
  rewrite len_app. lia.
Qed.

(* every RFC 4506 encoding is a whole number of 4-byte words *)
Lemma enc_mult4 x : len (enc x) mod 4 = 0.
Proof.
  induction x using xval_ind'; cbn [enc];
    rewrite ?len_app, ?len_be_enc, ?len_enc_bytes;
    try (change (N.of_nat 4) with 4; change (N.of_nat 8) with 8);
    try reflexivity;
    try (pose proof (pad_length_spec (len s)); lia).
  - apply len_concat_mult4. apply Forall_map. exact H.
  - assert (X : len (concat (map enc l)) mod 4 = 0) by (apply len_concat_mult4, Forall_map; exact H). lia.
  - lia.
  - apply len_concat_mult4. apply Forall_map. exact H.
  - exact IHx.
  - lia.
  - exact IHx.
Qed.

Lemma rv_list_eq a l : forall o,
  (fix go (o : N) (l : list xval) : list rval :=
     match l with [] => [] | y :: r => rv a o y :: go (o + len (enc y)) r end) o l = rv_list a o l.
Proof. induction l as [|y r IH]; intros o; cbn [rv_list]; [reflexivity| now rewrite IH]. Qed.

Lemma rv_arrf a o l : rv a o (XArrF l) = RVArr (rv_list a o l).
Proof. cbn [rv]. now rewrite rv_list_eq. Qed.
Lemma rv_arrv a o l : rv a o (XArrV l) = RVVec (rv_list a (o + 4) l).
Proof. cbn [rv]. now rewrite rv_list_eq. Qed.
Lemma rv_struct a o n l : rv a o (XStruct n l) = RVStruct n (rv_list a o l).
Proof. cbn [rv]. now rewrite rv_list_eq. Qed.

Fixpoint nF1_sum (l : list xval) : N := match l with [] => 0 | y :: r => nF1 y + nF1_sum r end.
Fixpoint nF1_direct (l : list xval) : N :=
  match l with [] => 0 | y :: r => (if is_opaque_v y then 1 else 0) + nF1_direct r end.

Lemma nF1_arrf l : nF1 (XArrF l) = nF1_sum l.
Proof. cbn [nF1]. induction l as [|y r IH]; cbn [nF1_sum]; [reflexivity| now rewrite IH]. Qed.
Lemma nF1_arrv l : nF1 (XArrV l) = nF1_sum l.
Proof. cbn [nF1]. induction l as [|y r IH]; cbn [nF1_sum]; [reflexivity| now rewrite IH]. Qed.
Lemma nF1_struct n l : nF1 (XStruct n l) = nF1_direct l + nF1_sum l.
Proof.
  cbn [nF1]. f_equal.
Qed.
