(* Facts about the emitted module `gen A`: how the impls of a declared name are found. *)
From XdrProofs Require Export RuntimeProofs IndexProofs.
From XdrModel Require Export Sem Emit Spec.
Open Scope list_scope.

(* every entry of the type index is filed under the name the emitters use for it
   (true of every Ast built by Ast::new: TypeIndex::new inserts under exactly that name) *)
Definition keys_ok (A : ast) : Prop :=
  forall k t, In (k, t) (types A) -> ast_type_name t = k.

Lemma assoc_In {V} k (l : list (string * V)) v : assoc k l = Some v -> In (k, v) l.
Proof.
  induction l as [|[k' v'] r IH]; cbn [assoc]; [discriminate|].
  destruct (String.eqb_spec k k') as [->|N]; intros H.
  - inversion H; subst. now left.
  - right. now apply IH.
Qed.

Lemma find_map_assoc {V B} (f : string * V -> B) (name_of : B -> string) k (l : list (string * V)) v :
  (forall kv, In kv l -> name_of (f kv) = fst kv) ->
  assoc k l = Some v ->
  find (fun i => String.eqb (name_of i) k) (map f l) = Some (f (k, v)).
Proof.
  induction l as [|[k' v'] r IH]; intros Hn H; cbn [assoc map find] in *; [discriminate|].
  rewrite (Hn (k', v')) by now left. cbn [fst].
  rewrite String.eqb_sym.
  destruct (String.eqb_spec k k') as [->|N].
  - inversion H; subst. reflexivity.
  - apply IH; [|exact H]. intros kv Hkv. apply Hn. now right.
Qed.

Section Gen.
  Variable A : ast.
  Variable md : module_ir.
  Hypothesis Hgen : gen A = EOk md.
  Hypothesis Hkeys : keys_ok A.

  Lemma gen_size : m_size md = emit_size A.
  Proof.
    unfold gen in Hgen. destruct (emit_from A); cbn [ebind] in Hgen; try discriminate.
    inversion Hgen. reflexivity.
  Qed.

  Lemma gen_from : emit_from A = EOk (m_from md).
  Proof.
    unfold gen in Hgen. destruct (emit_from A) as [fr| |]; cbn [ebind] in Hgen; try discriminate.
    inversion Hgen. reflexivity.
  Qed.

  Lemma gen_consts : m_consts md = emit_consts A.
  Proof.
    unfold gen in Hgen. destruct (emit_from A); cbn [ebind] in Hgen; try discriminate.
    inversion Hgen. reflexivity.
  Qed.

  Lemma find_size_gen n t :
    get_type A n = Some t ->
    find_size md n = Some {| i_name := n; i_generic := is_generic A n; i_body := emit_size_body t |}.
  Proof.
    intros H. unfold find_size. rewrite gen_size. unfold emit_size.
    pose proof (assoc_In _ _ _ H) as Hin. pose proof (Hkeys _ _ Hin) as Hk.
    erewrite (find_map_assoc _ (fun i : impl sbody => i_name i) n (types A) t).
    - cbn [snd]. rewrite Hk. reflexivity.
    - intros [k' t'] Hkv. cbn [i_name snd fst]. now apply Hkeys.
    - exact H.
  Qed.

  Lemma emapM_assoc {V B} (f : string * V -> eres B) (l : list (string * V)) (r : list B) k v
        (name_of : B -> string) :
    (forall kv b, In kv l -> f kv = EOk b -> name_of b = fst kv) ->
    emapM f l = EOk r -> assoc k l = Some v ->
    exists b, f (k, v) = EOk b /\ find (fun i => String.eqb (name_of i) k) r = Some b.
  Proof.
    revert r. induction l as [|[k' v'] l IH]; intros r Hn Hm Ha; cbn [assoc emapM] in *; [discriminate|].
    destruct (f (k', v')) as [b'| |] eqn:E; cbn [ebind] in Hm; try discriminate.
    destruct (emapM f l) as [bs| |] eqn:E2; cbn [ebind] in Hm; try discriminate.
    inversion Hm; subst r. cbn [find].
    rewrite (Hn _ _ (or_introl eq_refl) E). cbn [fst]. rewrite String.eqb_sym.
    destruct (String.eqb_spec k k') as [->|N].
    - inversion Ha; subst. exists b'. split; [exact E|reflexivity].
    - apply IH; [|reflexivity|exact Ha]. intros kv b Hin. apply Hn. now right.
  Qed.

  Lemma find_from_gen n t :
    get_type A n = Some t ->
    exists b, emit_from_body A t = EOk b /\
              find_from md n = Some {| i_name := n; i_generic := is_generic A n; i_body := b |}.
  Proof.
    intros H. pose proof gen_from as Hf. unfold emit_from in Hf.
    pose proof (assoc_In _ _ _ H) as Hin. pose proof (Hkeys _ _ Hin) as Hk.
    pose proof (fun Hn => emapM_assoc _ (types A) (m_from md) n t (fun i : impl dbody => i_name i) Hn Hf H) as X.
    destruct X as [b [Hb Hfind]].
    - intros [k0 t0] b Hkv Hb. cbn [snd fst] in *.
      destruct (emit_from_body A t0); cbn [ebind] in Hb; try discriminate.
      inversion Hb. cbn [i_name]. now apply Hkeys.
    - cbn [snd] in Hb. destruct (emit_from_body A t) as [body| |] eqn:E; cbn [ebind] in Hb; try discriminate.
      inversion Hb; subst b. exists body. split; [reflexivity|].
      unfold find_from. rewrite Hfind. rewrite Hk. reflexivity.
  Qed.
End Gen.
