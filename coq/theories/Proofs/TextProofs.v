(* Text level (C11 layout, C12, C14): a relational reading of the PEG interpreter -- "e parses s
   into ts leaving s'" / "e fails on s" with SOME fuel -- whose composition rules follow from
   fuel monotonicity, then the lexical and syntactic lemmas of the regenerated xdr grammar. *)
From Coq Require Import Lia PeanoNat.
From XdrProofs Require Export PegProofs.
From XdrModel Require Export Grammar.
Open Scope string_scope.
Open Scope list_scope.

Section Rel.
  Variable g : grammar.

  Definition Parses (e : pexp) (a q soi : bool) (s : string) (ts : list tree) (s' : string) : Prop :=
    exists f, run g f e a q soi s = POk ts s'.
  Definition Fails (e : pexp) (a q soi : bool) (s : string) : Prop :=
    exists f, run g f e a q soi s = PFail.

  (* the implicit trivia between the operands of ~ and between repetitions *)
  Definition Skips (a : bool) (s s' : string) : Prop :=
    if a then s' = s
    else (exists ts, Parses skip_exp true true false s ts s') \/ (Fails skip_exp true true false s /\ s' = s).

  Lemma lift {e a q soi s r} f f' : run g f e a q soi s = r -> r <> PFuel -> (f <= f')%nat -> run g f' e a q soi s = r.
  Proof. intros H Hr Hle. rewrite <- H. apply run_mono; [rewrite H; exact Hr|exact Hle]. Qed.

  Ltac ok := discriminate.

  Lemma skip_run a s s' : Skips a s s' -> exists f, forall f', (f <= f')%nat ->
    (if a then POk [] s else match run g f' skip_exp true true false s with POk _ x => POk [] x | PFail => POk [] s | PFuel => PFuel end) = POk [] s'.
  Proof.
    unfold Skips. destruct a.
    - intros ->. exists 0%nat. reflexivity.
    - intros [[ts [f H]]|[[f H] ->]]; exists f; intros f' Hle.
      + rewrite (lift f f' H ltac:(discriminate) Hle). reflexivity.
      + rewrite (lift f f' H ltac:(discriminate) Hle). reflexivity.
  Qed.

  Lemma P_str p a q soi s s' : strip_prefix p s = Some s' -> Parses (PStr p) a q soi s [] s'.
  Proof. intros H. exists 1%nat. cbn. now rewrite H. Qed.

  Lemma F_str p a q soi s : strip_prefix p s = None -> Fails (PStr p) a q soi s.
  Proof. intros H. exists 1%nat. cbn. now rewrite H. Qed.

  Lemma P_seq e1 e2 a q soi s t1 s1 s1' t2 s2 :
    Parses e1 a q soi s t1 s1 -> Skips a s1 s1' ->
    Parses e2 a q (soi && String.eqb s1' s)%bool s1' t2 s2 ->
    Parses (PSeq e1 e2) a q soi s (t1 ++ t2) s2.
  Proof.
    intros [f1 H1] Hsk [f2 H2]. destruct (skip_run a s1 s1' Hsk) as [f3 H3].
    set (F := Nat.max f1 (Nat.max f2 f3)). exists (S F). cbn [run].
    rewrite (lift f1 F H1 ltac:(discriminate) ltac:(unfold F; lia)).
    rewrite (H3 F ltac:(unfold F; lia)).
    rewrite (lift f2 F H2 ltac:(discriminate) ltac:(unfold F; lia)). reflexivity.
  Qed.

  Lemma F_seq_l e1 e2 a q soi s : Fails e1 a q soi s -> Fails (PSeq e1 e2) a q soi s.
  Proof. intros [f H]. exists (S f). cbn [run]. now rewrite H. Qed.

  Lemma F_seq_r e1 e2 a q soi s t1 s1 s1' :
    Parses e1 a q soi s t1 s1 -> Skips a s1 s1' -> Fails e2 a q (soi && String.eqb s1' s)%bool s1' ->
    Fails (PSeq e1 e2) a q soi s.
  Proof.
    intros [f1 H1] Hsk [f2 H2]. destruct (skip_run a s1 s1' Hsk) as [f3 H3].
    set (F := Nat.max f1 (Nat.max f2 f3)). exists (S F). cbn [run].
    rewrite (lift f1 F H1 ltac:(discriminate) ltac:(unfold F; lia)). rewrite (H3 F ltac:(unfold F; lia)).
    rewrite (lift f2 F H2 ltac:(discriminate) ltac:(unfold F; lia)). reflexivity.
  Qed.

  Lemma P_choice_l e1 e2 a q soi s ts s' : Parses e1 a q soi s ts s' -> Parses (PChoice e1 e2) a q soi s ts s'.
  Proof. intros [f H]. exists (S f). cbn [run]. now rewrite H. Qed.

  Lemma P_choice_r e1 e2 a q soi s ts s' :
    Fails e1 a q soi s -> Parses e2 a q soi s ts s' -> Parses (PChoice e1 e2) a q soi s ts s'.
  Proof.
    intros [f1 H1] [f2 H2]. set (F := Nat.max f1 f2). exists (S F). cbn [run].
    rewrite (lift f1 F H1 ltac:(discriminate) ltac:(unfold F; lia)). exact (lift f2 F H2 ltac:(discriminate) ltac:(unfold F; lia)).
  Qed.

  Lemma F_choice e1 e2 a q soi s : Fails e1 a q soi s -> Fails e2 a q soi s -> Fails (PChoice e1 e2) a q soi s.
  Proof.
    intros [f1 H1] [f2 H2]. set (F := Nat.max f1 f2). exists (S F). cbn [run].
    rewrite (lift f1 F H1 ltac:(discriminate) ltac:(unfold F; lia)). exact (lift f2 F H2 ltac:(discriminate) ltac:(unfold F; lia)).
  Qed.

  Lemma P_opt_some e a q soi s ts s' : Parses e a q soi s ts s' -> Parses (POpt e) a q soi s ts s'.
  Proof. intros [f H]. exists (S f). cbn [run]. now rewrite H. Qed.

  Lemma P_opt_none e a q soi s : Fails e a q soi s -> Parses (POpt e) a q soi s [] s.
  Proof. intros [f H]. exists (S f). cbn [run]. now rewrite H. Qed.

  Lemma P_not e a q soi s : Fails e a true soi s -> Parses (PNot e) a q soi s [] s.
  Proof. intros [f H]. exists (S f). cbn [run]. now rewrite H. Qed.

  Lemma F_not e a q soi s ts s' : Parses e a true soi s ts s' -> Fails (PNot e) a q soi s.
  Proof. intros [f H]. exists (S f). cbn [run]. now rewrite H. Qed.

  (* repetition: the first iteration, then (skip, iteration)* *)
  Lemma P_rest_stop e a q s s' : Skips a s s' -> Fails e a q false s' -> Parses (PStarRest e) a q false s [] s.
  Proof.
    intros Hsk [f2 H2]. destruct (skip_run a s s' Hsk) as [f3 H3].
    set (F := Nat.max f2 f3). exists (S F). cbn [run]. rewrite (H3 F ltac:(unfold F; lia)).
    rewrite (lift f2 F H2 ltac:(discriminate) ltac:(unfold F; lia)). reflexivity.
  Qed.

  Lemma P_rest_step e a q s s' t1 s1 t2 s2 :
    Skips a s s' -> Parses e a q false s' t1 s1 -> Parses (PStarRest e) a q false s1 t2 s2 ->
    Parses (PStarRest e) a q false s (t1 ++ t2) s2.
  Proof.
    intros Hsk [f1 H1] [f2 H2]. destruct (skip_run a s s' Hsk) as [f3 H3].
    set (F := Nat.max f1 (Nat.max f2 f3)). exists (S F). cbn [run]. rewrite (H3 F ltac:(unfold F; lia)).
    rewrite (lift f1 F H1 ltac:(discriminate) ltac:(unfold F; lia)).
    rewrite (lift f2 F H2 ltac:(discriminate) ltac:(unfold F; lia)). reflexivity.
  Qed.

  Lemma P_star_none e a q soi s : Fails e a q soi s -> Parses (PStar e) a q soi s [] s.
  Proof. intros [f H]. exists (S f). cbn [run]. now rewrite H. Qed.

  Lemma P_star_some e a q soi s t1 s1 t2 s2 :
    Parses e a q soi s t1 s1 -> Parses (PStarRest e) a q false s1 t2 s2 -> Parses (PStar e) a q soi s (t1 ++ t2) s2.
  Proof.
    intros [f1 H1] [f2 H2]. set (F := Nat.max f1 f2). exists (S F). cbn [run].
    rewrite (lift f1 F H1 ltac:(discriminate) ltac:(unfold F; lia)).
    rewrite (lift f2 F H2 ltac:(discriminate) ltac:(unfold F; lia)). reflexivity.
  Qed.

  Lemma P_plus e a q soi s ts s' : Parses (PSeq e (PStar e)) a q soi s ts s' -> Parses (PPlus e) a q soi s ts s'.
  Proof. intros [f H]. exists (S f). cbn [run]. exact H. Qed.

  Lemma F_plus e a q soi s : Fails (PSeq e (PStar e)) a q soi s -> Fails (PPlus e) a q soi s.
  Proof. intros [f H]. exists (S f). cbn [run]. exact H. Qed.

  (* a rule reference *)
  Lemma P_ref r k body a q soi s ts s' :
    lookup g r = Some (k, body) ->
    Parses body (is_atomic k || a || (String.eqb r "WHITESPACE" || String.eqb r "COMMENT"))%bool
                ((q || a) || is_atomic k || (String.eqb r "WHITESPACE" || String.eqb r "COMMENT"))%bool soi s ts s' ->
    Parses (PRef r) a q soi s
           (if (q || a)%bool then [] else match k with Silent => ts | _ => [Node r (consumed s s') ts] end) s'.
  Proof. intros Hl [f H]. exists (S f). cbn [run]. rewrite Hl. now rewrite H. Qed.

  Lemma F_ref r k body a q soi s :
    lookup g r = Some (k, body) ->
    Fails body (is_atomic k || a || (String.eqb r "WHITESPACE" || String.eqb r "COMMENT"))%bool
               ((q || a) || is_atomic k || (String.eqb r "WHITESPACE" || String.eqb r "COMMENT"))%bool soi s ->
    Fails (PRef r) a q soi s.
  Proof. intros Hl [f H]. exists (S f). cbn [run]. rewrite Hl. now rewrite H. Qed.

  Lemma P_range lo hi a q soi c s : in_range lo c hi = true -> Parses (PRange lo hi) a q soi (String c s) [] s.
  Proof. intros H. exists 1%nat. cbn. now rewrite H. Qed.
  Lemma F_range lo hi a q soi c s : in_range lo c hi = false -> Fails (PRange lo hi) a q soi (String c s).
  Proof. intros H. exists 1%nat. cbn. now rewrite H. Qed.
  Lemma F_range_nil lo hi a q soi : Fails (PRange lo hi) a q soi "".
  Proof. exists 1%nat. reflexivity. Qed.
  Lemma P_any a q soi c s : Parses PAny a q soi (String c s) [] s.
  Proof. exists 1%nat. reflexivity. Qed.
  Lemma F_any_nil a q soi : Fails PAny a q soi "".
  Proof. exists 1%nat. reflexivity. Qed.
  Lemma P_soi a q s : Parses PSoi a q true s [] s.
  Proof. exists 1%nat. reflexivity. Qed.
  Lemma P_eoi a : Parses PEoi a false true "" [Node "EOI" "" []] "" /\ Parses PEoi a false false "" [Node "EOI" "" []] "".
  Proof. split; exists 1%nat; reflexivity. Qed.
End Rel.

(* ====================================================================================== *)
(* the regenerated grammar *)

Open Scope string_scope.
Notation G := xdr_grammar.
Notation "e ⇓[ a , q , soi ] s ↦ ts , r" := (Parses G e a q soi s ts r) (at level 70).

Definition is_wsc (c : ascii) : bool :=
  (Ascii.eqb c " " || Ascii.eqb c (ascii_of_nat 9) || Ascii.eqb c (ascii_of_nat 10) || Ascii.eqb c (ascii_of_nat 13))%bool.

Definition is_idc (c : ascii) : bool :=
  (in_range "0" c "9" || in_range "a" c "z" || in_range "A" c "Z" || Ascii.eqb c "_")%bool.

Fixpoint all_chars (p : ascii -> bool) (s : string) : bool :=
  match s with EmptyString => true | String c r => (p c && all_chars p r)%bool end.

(* s is empty or starts with a character that does not satisfy p *)
Definition stops (p : ascii -> bool) (s : string) : Prop :=
  match s with EmptyString => True | String c _ => p c = false end.

Lemma all_chars_app p (a b : string) : all_chars p (a ++ b) = (all_chars p a && all_chars p b)%bool.
Proof. induction a as [|c a IH]; cbn; [reflexivity|]. rewrite IH. now rewrite Bool.andb_assoc. Qed.

Lemma app_nil_r_s (s : string) : s ++ "" = s.
Proof. induction s; cbn; [reflexivity|now rewrite IHs]. Qed.

Lemma app_assoc_s (a b c : string) : (a ++ b) ++ c = a ++ (b ++ c).
Proof. induction a; cbn; [reflexivity|now rewrite IHa]. Qed.

Lemma length_app_s (a b : string) : String.length (a ++ b) = (String.length a + String.length b)%nat.
Proof. induction a; cbn; [reflexivity|now rewrite IHa]. Qed.

Lemma substring_app (a b : string) : String.substring 0 (String.length a) (a ++ b) = a.
Proof. induction a as [|c a IH]; cbn; [destruct b; reflexivity|now rewrite IH]. Qed.

Lemma consumed_app (a b : string) : consumed (a ++ b) b = a.
Proof.
  unfold consumed. rewrite length_app_s. replace (String.length a + String.length b - String.length b)%nat with (String.length a) by lia.
  apply substring_app.
Qed.

(* one white-space character *)
Definition ws_body : pexp :=
  PChoice (PStr " ") (PChoice (PStr (String (ascii_of_nat 9) EmptyString)) (PChoice (PStr (String (ascii_of_nat 10) EmptyString))
   (PChoice (PStr (String (ascii_of_nat 13) (String (ascii_of_nat 10) EmptyString))) (PStr (String (ascii_of_nat 13) EmptyString))))).

Lemma ws_lookup : lookup G "WHITESPACE" = Some (Silent, ws_body).
Proof. reflexivity. Qed.

Definition is_punct (c : ascii) : bool :=
  existsb (Ascii.eqb c) ["{"; "}"; ";"; "="; ","; "<"; ">"; "["; "]"; "*"; "("; ")"; ":"]%char.

(* the first character of a token *)
Definition is_tok_start (c : ascii) : bool := (is_idc c || is_punct c)%bool.

Definition tok_next (s : string) : Prop :=
  match s with EmptyString => True | String c _ => is_tok_start c = true end.

Lemma F_ws_tok c s a q soi : is_tok_start c = true -> Fails G (PRef "WHITESPACE") a q soi (String c s).
Proof.
  intros H. exists 12%nat.
  destruct c as [b0 b1 b2 b3 b4 b5 b6 b7];
    destruct b0, b1, b2, b3, b4, b5, b6, b7; try discriminate H; destruct a, q, soi; reflexivity.
Qed.

Lemma F_ws_nil a q soi : Fails G (PRef "WHITESPACE") a q soi "".
Proof. exists 12%nat. destruct a, q, soi; reflexivity. Qed.

Lemma F_ws_stop rest a q soi : stops is_wsc rest -> Fails G (PRef "WHITESPACE") a q soi rest.
Proof.
  destruct rest as [|c s]; [intros _; apply F_ws_nil|]. cbn [stops]. intros H. exists 12%nat.
  destruct c as [b0 b1 b2 b3 b4 b5 b6 b7];
    destruct b0, b1, b2, b3, b4, b5, b6, b7; try discriminate H; destruct a, q, soi; reflexivity.
Qed.

Lemma F_comment_tok c s a q soi : is_tok_start c = true -> Fails G (PRef "COMMENT") a q soi (String c s).
Proof.
  intros H. exists 12%nat.
  destruct c as [b0 b1 b2 b3 b4 b5 b6 b7];
    destruct b0, b1, b2, b3, b4, b5, b6, b7; try discriminate H; destruct a, q, soi; reflexivity.
Qed.

Lemma F_comment_nil a q soi : Fails G (PRef "COMMENT") a q soi "".
Proof. exists 12%nat. destruct a, q, soi; reflexivity. Qed.

Lemma strip_crlf x : match x with String d _ => d <> ascii_of_nat 10 | EmptyString => True end ->
  strip_prefix (String (ascii_of_nat 13) (String (ascii_of_nat 10) "")) (String (ascii_of_nat 13) x) = None.
Proof.
  intros H. cbn [strip_prefix]. rewrite Ascii.eqb_refl. destruct x as [|d r]; [reflexivity|].
  destruct (Ascii.eqb_spec (ascii_of_nat 10) d) as [E|_]; [congruence|reflexivity].
Qed.

(* one WHITESPACE step eats the first white-space character -- and the newline after a carriage
   return ("\r\n" is tried before "\r") *)
Lemma ws_step c w rest a q soi : is_wsc c = true -> all_chars is_wsc w = true -> stops is_wsc rest ->
  exists w', Parses G (PRef "WHITESPACE") a q soi (String c w ++ rest) [] (w' ++ rest) /\
             all_chars is_wsc w' = true /\ (String.length w' <= String.length w)%nat.
Proof.
  intros H Hw Hn.
  assert (Hb : exists w', (forall a' q', Parses G ws_body a' q' soi (String c w ++ rest) [] (w' ++ rest)) /\
                          all_chars is_wsc w' = true /\ (String.length w' <= String.length w)%nat).
  { unfold is_wsc in H. unfold ws_body. cbn [String.append].
    destruct (Ascii.eqb_spec c " "%char) as [->|N1].
    { exists w. split; [intros; apply P_choice_l; apply P_str; reflexivity|split; [exact Hw|lia]]. }
    destruct (Ascii.eqb_spec c (ascii_of_nat 9)) as [->|N2].
    { exists w. split; [|split; [exact Hw|lia]]. intros.
      apply P_choice_r; [apply F_str; reflexivity|]. apply P_choice_l. apply P_str. reflexivity. }
    destruct (Ascii.eqb_spec c (ascii_of_nat 10)) as [->|N3].
    { exists w. split; [|split; [exact Hw|lia]]. intros.
      apply P_choice_r; [apply F_str; reflexivity|]. apply P_choice_r; [apply F_str; reflexivity|].
      apply P_choice_l. apply P_str. reflexivity. }
    destruct (Ascii.eqb_spec c (ascii_of_nat 13)) as [->|N4]; [|cbn in H; discriminate].
    assert (Hcr : forall x a' q', strip_prefix (String (ascii_of_nat 13) (String (ascii_of_nat 10) "")) (String (ascii_of_nat 13) x) = None ->
              Parses G ws_body a' q' soi (String (ascii_of_nat 13) x) [] x).
    { intros x a' q' E. unfold ws_body.
      apply P_choice_r; [apply F_str; reflexivity|]. apply P_choice_r; [apply F_str; reflexivity|].
      apply P_choice_r; [apply F_str; reflexivity|]. apply P_choice_r; [apply F_str; exact E|].
      apply P_str. reflexivity. }
    destruct w as [|d w2].
    - exists "". split; [|split; [reflexivity|cbn; lia]]. intros. cbn [String.append]. apply Hcr.
      apply strip_crlf. destruct rest as [|c' r]; [exact I|]. cbn in Hn. intros ->. vm_compute in Hn. discriminate Hn.
    - cbn [all_chars] in Hw. apply Bool.andb_true_iff in Hw as [Hd Hw2].
      destruct (Ascii.eqb_spec d (ascii_of_nat 10)) as [->|N5].
      + exists w2. split; [|split; [exact Hw2|cbn; lia]]. intros. unfold ws_body.
        apply P_choice_r; [apply F_str; reflexivity|]. apply P_choice_r; [apply F_str; reflexivity|].
        apply P_choice_r; [apply F_str; reflexivity|]. apply P_choice_l. apply P_str. reflexivity.
      + exists (String d w2). split; [|split; [cbn; now rewrite Hd, Hw2|lia]]. intros. cbn [String.append]. apply Hcr.
        apply strip_crlf. exact N5. }
  destruct Hb as (w' & Hb & Hw' & Hlen). exists w'. split; [|split; assumption].
  destruct (P_ref G "WHITESPACE" Silent ws_body a q soi (String c w ++ rest) [] (w' ++ rest) ws_lookup (Hb _ _)) as [f Hf].
  exists f. rewrite Hf. destruct (q || a)%bool; reflexivity.
Qed.

(* white space: a (possibly empty) run of blanks, tabs, newlines and carriage returns before a
   token or the end *)
Lemma ws_rest_n n : forall w rest q, (String.length w <= n)%nat -> all_chars is_wsc w = true -> stops is_wsc rest ->
  Parses G (PStarRest (PRef "WHITESPACE")) true q false (w ++ rest) [] rest.
Proof.
  induction n as [|n IH]; intros w rest q Hlen Hw Hn.
  - destruct w; [|cbn in Hlen; lia]. cbn [String.append]. apply (P_rest_stop G _ true q rest rest); [reflexivity|].
    now apply F_ws_stop.
  - destruct w as [|c w]; cbn [String.append].
    + apply (P_rest_stop G _ true q rest rest); [reflexivity|].
      now apply F_ws_stop.
    + cbn [all_chars] in Hw. apply Bool.andb_true_iff in Hw as [Hc Hw].
      destruct (ws_step c w rest true q false Hc Hw Hn) as (w' & P & Hw' & Hl).
      change (@nil tree) with (@nil tree ++ @nil tree)%list.
      eapply (P_rest_step G _ true q); [reflexivity|exact P|]. apply IH; [cbn in Hlen; lia|exact Hw'|exact Hn].
Qed.

Lemma ws_rest w rest q : all_chars is_wsc w = true -> stops is_wsc rest ->
  Parses G (PStarRest (PRef "WHITESPACE")) true q false (w ++ rest) [] rest.
Proof. apply (ws_rest_n (String.length w)). lia. Qed.

Lemma ws_star w rest q soi : all_chars is_wsc w = true -> stops is_wsc rest ->
  Parses G (PStar (PRef "WHITESPACE")) true q soi (w ++ rest) [] rest.
Proof.
  intros Hw Hn. destruct w as [|c w]; cbn [String.append].
  - apply P_star_none. now apply F_ws_stop.
  - cbn [all_chars] in Hw. apply Bool.andb_true_iff in Hw as [Hc Hw].
    destruct (ws_step c w rest true q soi Hc Hw Hn) as (w' & P & Hw' & Hl).
    change (@nil tree) with (@nil tree ++ @nil tree)%list.
    eapply P_star_some; [exact P|now apply ws_rest].
Qed.

Lemma stops_ws_tok rest : tok_next rest -> stops is_wsc rest.
Proof.
  destruct rest as [|c r]; cbn; [trivial|]. intros H.
  destruct c as [b0 b1 b2 b3 b4 b5 b6 b7]; destruct b0, b1, b2, b3, b4, b5, b6, b7; try discriminate H; reflexivity.
Qed.

(* ---------- comments ---------- *)

Lemma strip_prefix_app p s : strip_prefix p (p ++ s) = Some s.
Proof. induction p as [|c p IH]; cbn; [reflexivity|]. now rewrite Ascii.eqb_refl. Qed.

Lemma P_lit p a q soi s : Parses G (PStr p) a q soi (p ++ s) [] s.
Proof. apply P_str. apply strip_prefix_app. Qed.


(* the text of a long comment: no "*/" inside *)
Fixpoint innerb (c : string) : bool :=
  match c with
  | EmptyString => true
  | String x r => (negb (Ascii.eqb x "*" && match r with String y _ => Ascii.eqb y "/" | EmptyString => false end) && innerb r)%bool
  end.

Lemma strip_close x r z :
  negb (Ascii.eqb x "*" && match r with String y _ => Ascii.eqb y "/" | EmptyString => false end) = true ->
  strip_prefix "*/" (String x (r ++ "*/" ++ z)) = None.
Proof.
  intros H. cbn [strip_prefix]. destruct (Ascii.eqb_spec "*"%char x) as [<-|N]; [|reflexivity].
  destruct r as [|y r]; [reflexivity|]. cbn [String.append]. cbn in H.
  destruct (Ascii.eqb_spec "/"%char y) as [<-|N2]; [discriminate H|reflexivity].
Qed.

Definition e_long : pexp := PSeq (PNot (PStr "*/")) PAny.

Lemma F_long_close z q soi : Fails G e_long true q soi ("*/" ++ z).
Proof. apply F_seq_l. eapply F_not. apply (P_lit "*/"). Qed.

Lemma P_long_char x r z q soi :
  negb (Ascii.eqb x "*" && match r with String y _ => Ascii.eqb y "/" | EmptyString => false end) = true ->
  Parses G e_long true q soi (String x (r ++ "*/" ++ z)) [] (r ++ "*/" ++ z).
Proof.
  intros H. change (@nil tree) with (@nil tree ++ @nil tree)%list.
  eapply (P_seq G _ _ true q soi _ [] _ _); [apply P_not; apply F_str; now apply strip_close|reflexivity|apply P_any].
Qed.

Lemma long_rest c z q : innerb c = true -> Parses G (PStarRest e_long) true q false (c ++ "*/" ++ z) [] ("*/" ++ z).
Proof.
  induction c as [|x r IH]; intros H; cbn [String.append].
  - eapply (P_rest_stop G _ true q); [reflexivity|apply F_long_close].
  - cbn [innerb] in H. apply Bool.andb_true_iff in H as [H1 H2].
    change (@nil tree) with (@nil tree ++ @nil tree)%list.
    eapply (P_rest_step G _ true q); [reflexivity|now apply P_long_char|now apply IH].
Qed.

Lemma long_star c z q soi : innerb c = true -> Parses G (PStar e_long) true q soi (c ++ "*/" ++ z) [] ("*/" ++ z).
Proof.
  destruct c as [|x r]; intros H; cbn [String.append].
  - apply P_star_none. apply F_long_close.
  - cbn [innerb] in H. apply Bool.andb_true_iff in H as [H1 H2].
    change (@nil tree) with (@nil tree ++ @nil tree)%list.
    eapply P_star_some; [now apply P_long_char|now apply long_rest].
Qed.

Lemma P_comment_long c z soi : innerb c = true -> Parses G (PRef "comment_long") true true soi ("/*" ++ c ++ "*/" ++ z) [] z.
Proof.
  intros H.
  apply (P_ref G "comment_long" Normal (PSeq (PStr "/*") (PSeq (PRef "comment_long_inner") (PStr "*/"))) true true soi _ [] z eq_refl).
  cbn [is_atomic orb String.eqb Ascii.eqb Bool.eqb].
  change (@nil tree) with (@nil tree ++ (@nil tree ++ @nil tree))%list.
  eapply (P_seq G _ _ true true soi _ [] _ _); [apply (P_lit "/*")|reflexivity|].
  eapply (P_seq G _ _ true true _ _ [] ("*/" ++ z) _); [|reflexivity|apply (P_lit "*/")].
  apply (P_ref G "comment_long_inner" Normal (PStar e_long) true true _ _ [] ("*/" ++ z) eq_refl).
  cbn [is_atomic orb String.eqb Ascii.eqb Bool.eqb]. now apply long_star.
Qed.

(* the text of a short comment: up to the end of the line *)
Definition is_nl (c : ascii) : bool := (Ascii.eqb c (ascii_of_nat 10) || Ascii.eqb c (ascii_of_nat 13))%bool.
Definition not_nl (c : ascii) : bool := negb (is_nl c).
Definition nl_exp : pexp :=
  PChoice (PStr (String (ascii_of_nat 10) EmptyString))
          (PChoice (PStr (String (ascii_of_nat 13) (String (ascii_of_nat 10) EmptyString))) (PStr (String (ascii_of_nat 13) EmptyString))).
Definition e_short : pexp := PSeq (PNot nl_exp) PAny.

(* where a short comment ends: at the end of the text or before a newline *)
Definition line_end (z : string) : Prop := match z with EmptyString => True | String x _ => is_nl x = true end.

Lemma F_nl_char x s a q soi : is_nl x = false -> Fails G nl_exp a q soi (String x s).
Proof.
  intros H. unfold is_nl in H. apply Bool.orb_false_iff in H as [H1 H2].
  apply F_choice; [apply F_str; cbn [strip_prefix]; now rewrite Ascii.eqb_sym, H1|].
  apply F_choice; apply F_str; cbn [strip_prefix]; now rewrite Ascii.eqb_sym, H2.
Qed.

Lemma P_nl_char x s a q soi : is_nl x = true -> exists s', Parses G nl_exp a q soi (String x s) [] s'.
Proof.
  intros H. unfold is_nl in H. destruct (Ascii.eqb_spec x (ascii_of_nat 10)) as [->|N].
  - exists s. apply P_choice_l. apply P_str. reflexivity.
  - destruct (Ascii.eqb_spec x (ascii_of_nat 13)) as [->|N2]; [|discriminate H].
    destruct (strip_prefix (String (ascii_of_nat 13) (String (ascii_of_nat 10) "")) (String (ascii_of_nat 13) s)) as [s'|] eqn:E.
    + exists s'. apply P_choice_r; [apply F_str; reflexivity|]. apply P_choice_l. now apply P_str.
    + exists s. apply P_choice_r; [apply F_str; reflexivity|]. apply P_choice_r; [now apply F_str|]. apply P_str. reflexivity.
Qed.

Lemma F_short_end z q soi : line_end z -> Fails G e_short true q soi z.
Proof.
  destruct z as [|x s]; cbn [line_end]; intros H.
  - eapply (F_seq_r G _ _ true q soi _ [] "" ""); [apply P_not; apply F_choice; [now apply F_str|apply F_choice; now apply F_str]|reflexivity|apply F_any_nil].
  - apply F_seq_l. destruct (P_nl_char x s true true soi H) as [s' P]. eapply F_not. exact P.
Qed.

Lemma P_short_char x r q soi : not_nl x = true -> Parses G e_short true q soi (String x r) [] r.
Proof.
  intros H. apply Bool.negb_true_iff in H. change (@nil tree) with (@nil tree ++ @nil tree)%list.
  eapply (P_seq G _ _ true q soi _ [] _ _); [apply P_not; now apply F_nl_char|reflexivity|apply P_any].
Qed.

Lemma short_rest c z q : all_chars not_nl c = true -> line_end z -> Parses G (PStarRest e_short) true q false (c ++ z) [] z.
Proof.
  induction c as [|x r IH]; intros H Hz; cbn [String.append].
  - eapply (P_rest_stop G _ true q); [reflexivity|now apply F_short_end].
  - cbn [all_chars] in H. apply Bool.andb_true_iff in H as [H1 H2].
    change (@nil tree) with (@nil tree ++ @nil tree)%list.
    eapply (P_rest_step G _ true q); [reflexivity|now apply P_short_char|now apply IH].
Qed.

Lemma short_star c z q soi : all_chars not_nl c = true -> line_end z -> Parses G (PStar e_short) true q soi (c ++ z) [] z.
Proof.
  destruct c as [|x r]; intros H Hz; cbn [String.append].
  - apply P_star_none. now apply F_short_end.
  - cbn [all_chars] in H. apply Bool.andb_true_iff in H as [H1 H2].
    change (@nil tree) with (@nil tree ++ @nil tree)%list.
    eapply P_star_some; [now apply P_short_char|now apply short_rest].
Qed.

Lemma P_comment_short c z soi : all_chars not_nl c = true -> line_end z ->
  Parses G (PRef "comment_short") true true soi ("//" ++ c ++ z) [] z.
Proof.
  intros H Hz.
  apply (P_ref G "comment_short" Normal (PSeq (PStr "//") (PRef "comment_short_inner")) true true soi _ [] z eq_refl).
  cbn [is_atomic orb String.eqb Ascii.eqb Bool.eqb].
  change (@nil tree) with (@nil tree ++ @nil tree)%list.
  eapply (P_seq G _ _ true true soi _ [] _ _); [apply (P_lit "//")|reflexivity|].
  apply (P_ref G "comment_short_inner" Atomic (PStar e_short) true true _ _ [] z eq_refl).
  cbn [is_atomic orb String.eqb Ascii.eqb Bool.eqb]. now apply short_star.
Qed.

Definition comment_body : pexp := PChoice (PRef "comment_long") (PRef "comment_short").

Lemma P_COMMENT body_s z a q soi :
  Parses G comment_body true true soi body_s [] z -> Parses G (PRef "COMMENT") a q soi body_s [] z.
Proof.
  intros H.
  destruct (P_ref G "COMMENT" Silent comment_body a q soi body_s [] z eq_refl) as [f Hf].
  { cbn [is_atomic orb String.eqb Ascii.eqb Bool.eqb]. rewrite !Bool.orb_true_r. exact H. }
  exists f. rewrite Hf. destruct (q || a)%bool; reflexivity.
Qed.

(* ---------- the gap between two tokens ---------- *)

(* (comment white-space* )* ; a short comment ends at a newline or at the end of the text *)
Inductive cgap (rest : string) : string -> Prop :=
| cg_nil : cgap rest ""
| cg_long c w g : innerb c = true -> all_chars is_wsc w = true -> cgap rest g ->
                  cgap rest ("/*" ++ c ++ "*/" ++ w ++ g)
| cg_short c w g : all_chars not_nl c = true -> all_chars is_wsc w = true -> cgap rest g ->
                   line_end (w ++ g ++ rest) -> cgap rest ("//" ++ c ++ w ++ g).

(* white space, then comments *)
Definition gap (rest w : string) : Prop :=
  exists w0 g, w = w0 ++ g /\ all_chars is_wsc w0 = true /\ cgap rest g.

Lemma gap_nil rest : gap rest "".
Proof. exists "", "". repeat split. constructor. Qed.

Lemma gap_ws rest w : all_chars is_wsc w = true -> gap rest w.
Proof. intros H. exists w, "". split; [now rewrite app_nil_r_s|]. split; [exact H|constructor]. Qed.

Lemma cgap_stops rest g : tok_next rest -> cgap rest g -> stops is_wsc (g ++ rest).
Proof. intros Hn H. destruct H; [now apply stops_ws_tok|reflexivity|reflexivity]. Qed.

Definition iter_exp : pexp := PSeq (PRef "COMMENT") (PStar (PRef "WHITESPACE")).

Lemma F_iter_tok rest q : tok_next rest -> Fails G iter_exp true q false rest.
Proof. intros Hn. apply F_seq_l. destruct rest as [|c r]; [apply F_comment_nil|now apply F_comment_tok]. Qed.

Lemma P_iter_long rest c w g q soi : tok_next rest -> innerb c = true -> all_chars is_wsc w = true -> cgap rest g ->
  Parses G iter_exp true q soi (("/*" ++ c ++ "*/" ++ w ++ g) ++ rest) [] (g ++ rest).
Proof.
  intros Hn Hc Hw Hg. rewrite !app_assoc_s. change (@nil tree) with (@nil tree ++ @nil tree)%list.
  eapply (P_seq G _ _ true q soi _ [] (w ++ g ++ rest) _).
  - apply P_COMMENT. apply P_choice_l. now apply P_comment_long.
  - reflexivity.
  - apply ws_star; [exact Hw|now apply cgap_stops].
Qed.

Lemma P_iter_short rest c w g q soi : tok_next rest -> all_chars not_nl c = true -> all_chars is_wsc w = true -> cgap rest g ->
  line_end (w ++ g ++ rest) ->
  Parses G iter_exp true q soi (("//" ++ c ++ w ++ g) ++ rest) [] (g ++ rest).
Proof.
  intros Hn Hc Hw Hg Hend. rewrite !app_assoc_s. change (@nil tree) with (@nil tree ++ @nil tree)%list.
  eapply (P_seq G _ _ true q soi _ [] (w ++ g ++ rest) _).
  - apply P_COMMENT. apply P_choice_r; [eapply F_ref; [reflexivity|]; apply F_seq_l; apply F_str; reflexivity|].
    now apply P_comment_short.
  - reflexivity.
  - apply ws_star; [exact Hw|now apply cgap_stops].
Qed.

Lemma cgap_rest rest g q : tok_next rest -> cgap rest g -> Parses G (PStarRest iter_exp) true q false (g ++ rest) [] rest.
Proof.
  intros Hn H. induction H as [|c w g Hc Hw Hg IH|c w g Hc Hw Hg IH Hend].
  - eapply (P_rest_stop G _ true q); [reflexivity|now apply F_iter_tok].
  - change (@nil tree) with (@nil tree ++ @nil tree)%list.
    eapply (P_rest_step G _ true q); [reflexivity|now apply P_iter_long|exact IH].
  - change (@nil tree) with (@nil tree ++ @nil tree)%list.
    eapply (P_rest_step G _ true q); [reflexivity|now apply P_iter_short|exact IH].
Qed.

Lemma cgap_star rest g q soi : tok_next rest -> cgap rest g -> Parses G (PStar iter_exp) true q soi (g ++ rest) [] rest.
Proof.
  intros Hn H. destruct H as [|c w g Hc Hw Hg|c w g Hc Hw Hg Hend].
  - apply P_star_none. apply F_seq_l. destruct rest as [|x r]; [apply F_comment_nil|now apply F_comment_tok].
  - change (@nil tree) with (@nil tree ++ @nil tree)%list.
    eapply P_star_some; [now apply P_iter_long|now apply cgap_rest].
  - change (@nil tree) with (@nil tree ++ @nil tree)%list.
    eapply P_star_some; [now apply P_iter_short|now apply cgap_rest].
Qed.

(* the implicit skip between two tokens eats exactly the gap *)
Lemma skip_gap w rest : gap rest w -> tok_next rest -> Skips G false (w ++ rest) rest.
Proof.
  intros (w0 & g & -> & Hw & Hg) Hn. left. exists []. unfold skip_exp. rewrite app_assoc_s.
  change (@nil tree) with (@nil tree ++ @nil tree)%list.
  eapply (P_seq G _ _ true true false _ [] (g ++ rest) (g ++ rest) [] rest);
    [apply ws_star; [exact Hw|now apply cgap_stops]|reflexivity|now apply cgap_star].
Qed.

Lemma skip_ws w rest : all_chars is_wsc w = true -> tok_next rest -> Skips G false (w ++ rest) rest.
Proof. intros Hw. apply skip_gap. now apply gap_ws. Qed.

(* a non-empty gap starts with a white-space character or a slash *)
Lemma gap_stops_idc rest w : gap rest w -> w <> "" -> stops is_idc (w ++ rest).
Proof.
  intros (w0 & g & -> & Hw & Hg) Hne. destruct w0 as [|x w0].
  - cbn [String.append] in *. destruct Hg; [congruence|reflexivity|reflexivity].
  - cbn in *. apply Bool.andb_true_iff in Hw as [Hx _].
    destruct x as [b0 b1 b2 b3 b4 b5 b6 b7]; destruct b0, b1, b2, b3, b4, b5, b6, b7; try discriminate Hx; reflexivity.
Qed.

(* ---------- tokens ---------- *)

(* a word of identifier characters in front of a text: what a literal made of identifier
   characters can strip from it *)
Lemma strip_word kw : forall n rest r,
  all_chars is_idc kw = true -> stops is_idc rest ->
  strip_prefix kw (n ++ rest) = Some r -> exists n', n = kw ++ n' /\ r = n' ++ rest.
Proof.
  induction kw as [|c kw IH]; intros n rest r Hk Hs H.
  - cbn in H. inversion H; subst. exists n. split; reflexivity.
  - cbn [all_chars] in Hk. apply Bool.andb_true_iff in Hk as [Hc Hk].
    destruct n as [|d n]; cbn [String.append] in H.
    + (* the literal would have to eat into rest, which does not start with an identifier character *)
      destruct rest as [|d rest]; cbn in H; [discriminate|].
      destruct (Ascii.eqb_spec c d) as [->|_]; [|discriminate]. cbn in Hs. congruence.
    + cbn in H. destruct (Ascii.eqb_spec c d) as [->|_]; [|discriminate].
      destruct (IH n rest r Hk Hs H) as [n' [-> ->]]. exists n'. split; reflexivity.
Qed.

Definition idc_exp : pexp :=
  PChoice (PChoice (PRange "0"%char "9"%char) (PChoice (PRange "a"%char "z"%char) (PRange "A"%char "Z"%char))) (PStr "_").

Lemma idc_char c s a q soi : is_idc c = true -> Parses G idc_exp a q soi (String c s) [] s.
Proof.
  intros H. exists 8%nat.
  destruct c as [b0 b1 b2 b3 b4 b5 b6 b7];
    destruct b0, b1, b2, b3, b4, b5, b6, b7; try discriminate H; destruct a, q, soi; reflexivity.
Qed.

Lemma F_idc_char c s a q soi : is_idc c = false -> Fails G idc_exp a q soi (String c s).
Proof.
  intros H. exists 8%nat.
  destruct c as [b0 b1 b2 b3 b4 b5 b6 b7];
    destruct b0, b1, b2, b3, b4, b5, b6, b7; try discriminate H; destruct a, q, soi; reflexivity.
Qed.

Lemma F_idc_nil a q soi : Fails G idc_exp a q soi "".
Proof. exists 8%nat. destruct a, q, soi; reflexivity. Qed.

Lemma F_idc_stop rest a q soi : stops is_idc rest -> Fails G idc_exp a q soi rest.
Proof. destruct rest as [|c r]; intros H; [apply F_idc_nil|now apply F_idc_char]. Qed.

(* a run of characters of one class, in atomic mode *)
Section CharRun.
  Variables (ce : pexp) (p : ascii -> bool).
  Hypothesis Hp : forall c s a q soi, p c = true -> Parses G ce a q soi (String c s) [] s.
  Hypothesis Hf : forall rest a q soi, stops p rest -> Fails G ce a q soi rest.

  Lemma run_rest n : forall rest q, all_chars p n = true -> stops p rest ->
    Parses G (PStarRest ce) true q false (n ++ rest) [] rest.
  Proof.
    induction n as [|c n IH]; intros rest q Hn Hs; cbn [String.append].
    - apply (P_rest_stop G _ true q rest rest); [reflexivity|now apply Hf].
    - cbn [all_chars] in Hn. apply Bool.andb_true_iff in Hn as [Hc Hn].
      change (@nil tree) with (@nil tree ++ @nil tree)%list.
      eapply (P_rest_step G _ true q); [reflexivity|now apply Hp|now apply IH].
  Qed.

  Lemma run_star n rest q soi : all_chars p n = true -> stops p rest ->
    Parses G (PStar ce) true q soi (n ++ rest) [] rest.
  Proof.
    intros Hn Hs. destruct n as [|d n]; cbn [String.append].
    - apply P_star_none. now apply Hf.
    - cbn [all_chars] in Hn. apply Bool.andb_true_iff in Hn as [Hd Hn].
      change (@nil tree) with (@nil tree ++ @nil tree)%list.
      eapply P_star_some; [now apply Hp|now apply run_rest].
  Qed.

  (* ce+ eats exactly a non-empty word *)
  Lemma run_plus n rest q soi : n <> "" -> all_chars p n = true -> stops p rest ->
    Parses G (PPlus ce) true q soi (n ++ rest) [] rest.
  Proof.
    intros Hne Hn Hs. destruct n as [|c n]; [congruence|]. cbn [all_chars] in Hn. apply Bool.andb_true_iff in Hn as [Hc Hn].
    apply P_plus. cbn [String.append].
    change (@nil tree) with (@nil tree ++ @nil tree)%list.
    eapply (P_seq G _ _ true q soi _ [] (n ++ rest) (n ++ rest)); [now apply Hp|reflexivity|].
    now apply run_star.
  Qed.

  Lemma F_run_plus rest q a soi : stops p rest -> Fails G (PPlus ce) a q soi rest.
  Proof. intros Hs. apply F_plus. apply F_seq_l. now apply Hf. Qed.
End CharRun.

Definition idc_plus := run_plus idc_exp is_idc (fun c s a q soi => idc_char c s a q soi) (fun r a q soi => F_idc_stop r a q soi).
Definition F_idc_plus := F_run_plus idc_exp is_idc (fun r a q soi => F_idc_stop r a q soi).

Definition is_dig (c : ascii) : bool := in_range "0" c "9".
Definition dig_exp : pexp := PRange "0"%char "9"%char.
Lemma dig_char c s a q soi : is_dig c = true -> Parses G dig_exp a q soi (String c s) [] s.
Proof. intros H. now apply P_range. Qed.
Lemma F_dig_stop rest a q soi : stops is_dig rest -> Fails G dig_exp a q soi rest.
Proof. destruct rest as [|c r]; intros H; [apply F_range_nil|now apply F_range]. Qed.
Definition dig_plus := run_plus dig_exp is_dig dig_char F_dig_stop.
Definition F_dig_plus := F_run_plus dig_exp is_dig F_dig_stop.

Lemma dig_idc c : is_dig c = true -> is_idc c = true.
Proof. unfold is_dig, is_idc. intros ->. reflexivity. Qed.

Lemma stops_weaken (p1 p2 : ascii -> bool) s : (forall c, p1 c = true -> p2 c = true) -> stops p2 s -> stops p1 s.
Proof. intros H. destruct s as [|c r]; cbn; [trivial|]. intros H2. destruct (p1 c) eqn:E; [|reflexivity]. rewrite (H c E) in H2. discriminate. Qed.

(* WHITESPACE+ inside an atomic rule *)
Definition wsx : pexp := PRef "WHITESPACE".
Lemma ws_plus w rest q soi : w <> "" -> all_chars is_wsc w = true -> stops is_wsc rest ->
  Parses G (PPlus wsx) true q soi (w ++ rest) [] rest.
Proof.
  intros Hne Hw Hn. destruct w as [|c w]; [congruence|]. cbn [all_chars] in Hw. apply Bool.andb_true_iff in Hw as [Hc Hw].
  destruct (ws_step c w rest true q soi Hc Hw Hn) as (w' & P & Hw' & Hl).
  apply P_plus. change (@nil tree) with (@nil tree ++ @nil tree)%list.
  eapply (P_seq G _ _ true q soi _ [] (w' ++ rest) (w' ++ rest)); [exact P|reflexivity|now apply ws_star].
Qed.
Lemma F_ws_plus rest a q soi : stops is_wsc rest -> Fails G (PPlus wsx) a q soi rest.
Proof. intros H. apply F_plus. apply F_seq_l. now apply F_ws_stop. Qed.

Lemma idc_not_ws c : is_idc c = true -> is_wsc c = false.
Proof.
  intros H. destruct c as [b0 b1 b2 b3 b4 b5 b6 b7]; destruct b0, b1, b2, b3, b4, b5, b6, b7; try discriminate H; reflexivity.
Qed.

Lemma idc_tok c : is_idc c = true -> is_tok_start c = true.
Proof. unfold is_tok_start. intros ->. reflexivity. Qed.

(* a keyword followed by WHITESPACE+, against a word that is not that keyword *)
Lemma F_kw_ws kw n rest q soi :
  all_chars is_idc kw = true -> all_chars is_idc n = true -> stops is_idc rest -> n <> kw ->
  Fails G (PSeq (PStr kw) (PPlus wsx)) true q soi (n ++ rest).
Proof.
  intros Hk Hn Hs Hne. destruct (strip_prefix kw (n ++ rest)) as [r|] eqn:E; [|apply F_seq_l; now apply F_str].
  destruct (strip_word kw n rest r Hk Hs E) as [n' [-> ->]].
  eapply (F_seq_r G _ _ true q soi _ [] (n' ++ rest) (n' ++ rest)); [now apply P_str|reflexivity|].
  apply F_ws_plus. destruct n' as [|c n']; [rewrite app_nil_r_s in Hne; congruence|]. cbn.
  apply idc_not_ws. rewrite all_chars_app in Hn. apply Bool.andb_true_iff in Hn as [_ Hn]. cbn in Hn. now apply Bool.andb_true_iff in Hn as [Hn _].
Qed.

(* ---------- basic_type, ident, ident_value ---------- *)

Definition kw2 : pexp := PChoice (PStr "int") (PStr "hyper").
Definition kw4 : pexp := PChoice (PStr "float") (PChoice (PStr "double") (PChoice (PStr "string") (PStr "opaque"))).
Definition uns_opt : pexp := POpt (PSeq (PStr "unsigned") (PPlus wsx)).
Definition bt_body : pexp := PChoice (PSeq uns_opt (PSeq kw2 (PPlus wsx))) (PSeq kw4 (PPlus wsx)).

Lemma bt_lookup : lookup G "basic_type" = Some (Atomic, bt_body).
Proof. reflexivity. Qed.

Definition int_words := ["int"; "hyper"].
Definition flt_words := ["float"; "double"; "string"; "opaque"].
Definition bt_words := "unsigned" :: int_words ++ flt_words.

Lemma P_kw2 k x a q soi : In k int_words -> Parses G kw2 a q soi (k ++ x) [] x.
Proof. intros [<-|[<-|[]]]; exists 3%nat; reflexivity. Qed.
Lemma P_kw4 k x a q soi : In k flt_words -> Parses G kw4 a q soi (k ++ x) [] x.
Proof. intros [<-|[<-|[<-|[<-|[]]]]]; exists 5%nat; reflexivity. Qed.

(* a choice of keywords, then WHITESPACE+, against a word that is none of them *)
Lemma F_kw2_ws n rest q soi : all_chars is_idc n = true -> stops is_idc rest -> ~ In n int_words ->
  Fails G (PSeq kw2 (PPlus wsx)) true q soi (n ++ rest).
Proof.
  intros Hn Hs Hni.
  assert (Hw : forall kw, In kw int_words -> all_chars is_idc kw = true) by (intros kw [<-|[<-|[]]]; reflexivity).
  assert (Hcase : forall kw, In kw int_words ->
            strip_prefix kw (n ++ rest) = None \/ exists r, strip_prefix kw (n ++ rest) = Some r /\ stops is_wsc r /\ r <> "" ).
  { intros kw Hin. destruct (strip_prefix kw (n ++ rest)) as [r|] eqn:E; [right|now left].
    destruct (strip_word kw n rest r (Hw kw Hin) Hs E) as [n' [-> ->]]. exists (n' ++ rest). split; [reflexivity|].
    destruct n' as [|c n']; [rewrite app_nil_r_s in Hni; contradiction|]. cbn. split; [|discriminate].
    apply idc_not_ws. rewrite all_chars_app in Hn. apply Bool.andb_true_iff in Hn as [_ Hn]. cbn in Hn.
    now apply Bool.andb_true_iff in Hn as [Hn _]. }
  destruct (Hcase "int" ltac:(cbn; tauto)) as [E1|[r [E1 [Hr _]]]].
  - destruct (Hcase "hyper" ltac:(cbn; tauto)) as [E2|[r [E2 [Hr _]]]].
    + apply F_seq_l. apply F_choice; now apply F_str.
    + eapply (F_seq_r G _ _ true q soi _ [] r r); [apply P_choice_r; [now apply F_str|now apply P_str]|reflexivity|now apply F_ws_plus].
  - eapply (F_seq_r G _ _ true q soi _ [] r r); [apply P_choice_l; now apply P_str|reflexivity|now apply F_ws_plus].
Qed.

Lemma F_kw4_ws n rest q soi : all_chars is_idc n = true -> stops is_idc rest -> ~ In n flt_words ->
  Fails G (PSeq kw4 (PPlus wsx)) true q soi (n ++ rest).
Proof.
  intros Hn Hs Hni.
  assert (Hw : forall kw, In kw flt_words -> all_chars is_idc kw = true) by (intros kw [<-|[<-|[<-|[<-|[]]]]]; reflexivity).
  assert (Hcase : forall kw, In kw flt_words ->
            strip_prefix kw (n ++ rest) = None \/ exists r, strip_prefix kw (n ++ rest) = Some r /\ stops is_wsc r /\ r <> "" ).
  { intros kw Hin. destruct (strip_prefix kw (n ++ rest)) as [r|] eqn:E; [right|now left].
    destruct (strip_word kw n rest r (Hw kw Hin) Hs E) as [n' [-> ->]]. exists (n' ++ rest). split; [reflexivity|].
    destruct n' as [|c n']; [rewrite app_nil_r_s in Hni; contradiction|]. cbn. split; [|discriminate].
    apply idc_not_ws. rewrite all_chars_app in Hn. apply Bool.andb_true_iff in Hn as [_ Hn]. cbn in Hn.
    now apply Bool.andb_true_iff in Hn as [Hn _]. }
  destruct (Hcase "float" ltac:(cbn; tauto)) as [E1|[r [E1 [Hr _]]]];
    [|eapply (F_seq_r G _ _ true q soi _ [] r r); [apply P_choice_l; now apply P_str|reflexivity|now apply F_ws_plus]].
  destruct (Hcase "double" ltac:(cbn; tauto)) as [E2|[r [E2 [Hr _]]]];
    [|eapply (F_seq_r G _ _ true q soi _ [] r r);
      [apply P_choice_r; [now apply F_str|apply P_choice_l; now apply P_str]|reflexivity|now apply F_ws_plus]].
  destruct (Hcase "string" ltac:(cbn; tauto)) as [E3|[r [E3 [Hr _]]]];
    [|eapply (F_seq_r G _ _ true q soi _ [] r r);
      [apply P_choice_r; [now apply F_str|apply P_choice_r; [now apply F_str|apply P_choice_l; now apply P_str]]|reflexivity|now apply F_ws_plus]].
  destruct (Hcase "opaque" ltac:(cbn; tauto)) as [E4|[r [E4 [Hr _]]]];
    [|eapply (F_seq_r G _ _ true q soi _ [] r r);
      [apply P_choice_r; [now apply F_str|apply P_choice_r; [now apply F_str|apply P_choice_r; [now apply F_str|now apply P_str]]]|reflexivity|now apply F_ws_plus]].
  apply F_seq_l. apply F_choice; [now apply F_str|]. apply F_choice; [now apply F_str|]. apply F_choice; now apply F_str.
Qed.

(* ("unsigned" WHITESPACE+)? gives nothing on a word other than unsigned *)
Lemma uns_none n rest q soi : all_chars is_idc n = true -> stops is_idc rest -> n <> "unsigned" ->
  Parses G uns_opt true q soi (n ++ rest) [] (n ++ rest).
Proof. intros Hn Hs Hne. apply P_opt_none. now apply F_kw_ws. Qed.

(* basic_type fails on a word that is not one of its keywords (the empty word included: on a
   punctuation mark and at the end of the text) *)
Lemma F_basic n rest a q soi : all_chars is_idc n = true -> stops is_idc rest -> ~ In n bt_words ->
  Fails G (PRef "basic_type") a q soi (n ++ rest).
Proof.
  intros Hn Hs Hni. eapply F_ref; [exact bt_lookup|]. cbn [is_atomic orb].
  replace (true || a || (("basic_type" =? "WHITESPACE") || ("basic_type" =? "COMMENT")))%bool with true by (destruct a; reflexivity).
  set (q' := (_ || _ || _ || _)%bool).
  unfold bt_body. apply F_choice.
  - eapply (F_seq_r G _ _ true q' soi _ [] (n ++ rest) (n ++ rest)); [apply uns_none; try assumption|reflexivity|].
    + intros ->. apply Hni. cbn. tauto.
    + apply F_kw2_ws; try assumption. intros H. apply Hni. cbn in *. tauto.
  - apply F_kw4_ws; try assumption. intros H. apply Hni. cbn in *. tauto.
Qed.

(* the spelling of a basic type, white space included *)
Inductive bt_span : string -> Prop :=
| bs_int k w : In k int_words -> w <> "" -> all_chars is_wsc w = true -> bt_span (k ++ w)
| bs_flt k w : In k flt_words -> w <> "" -> all_chars is_wsc w = true -> bt_span (k ++ w)
| bs_uns k w1 w : In k int_words -> w1 <> "" -> all_chars is_wsc w1 = true -> w <> "" -> all_chars is_wsc w = true ->
                  bt_span ("unsigned" ++ w1 ++ k ++ w).

Lemma stops_idc_ws w rest : w <> "" -> all_chars is_wsc w = true -> stops is_idc (w ++ rest).
Proof.
  destruct w as [|c w]; [congruence|]. intros _ H. cbn in *. apply Bool.andb_true_iff in H as [H _].
  destruct c as [b0 b1 b2 b3 b4 b5 b6 b7]; destruct b0, b1, b2, b3, b4, b5, b6, b7; try discriminate H; reflexivity.
Qed.

Lemma P_basic_body sp rest q soi : bt_span sp -> stops is_wsc rest -> Parses G bt_body true q soi (sp ++ rest) [] rest.
Proof.
  intros Hsp Hn. unfold bt_body. destruct Hsp as [k w Hk Hne Hw|k w Hk Hne Hw|k w1 w Hk Hne1 Hw1 Hne Hw].
  - apply P_choice_l. rewrite app_assoc_s.
    change (@nil tree) with (@nil tree ++ (@nil tree ++ @nil tree))%list.
    eapply (P_seq G _ _ true q soi _ [] _ _); [apply uns_none|reflexivity|].
    + destruct Hk as [<-|[<-|[]]]; reflexivity.
    + now apply stops_idc_ws.
    + destruct Hk as [<-|[<-|[]]]; discriminate.
    + eapply (P_seq G _ _ true q _ _ [] _ _); [now apply P_kw2|reflexivity|now apply ws_plus].
  - apply P_choice_r.
    + rewrite app_assoc_s.
      eapply (F_seq_r G _ _ true q soi _ [] _ _); [apply uns_none|reflexivity|apply F_kw2_ws].
      * destruct Hk as [<-|[<-|[<-|[<-|[]]]]]; reflexivity.
      * now apply stops_idc_ws.
      * destruct Hk as [<-|[<-|[<-|[<-|[]]]]]; discriminate.
      * destruct Hk as [<-|[<-|[<-|[<-|[]]]]]; reflexivity.
      * now apply stops_idc_ws.
      * destruct Hk as [<-|[<-|[<-|[<-|[]]]]]; cbn; intuition discriminate.
    + rewrite app_assoc_s. change (@nil tree) with (@nil tree ++ @nil tree)%list.
      eapply (P_seq G _ _ true q _ _ [] _ _); [now apply P_kw4|reflexivity|now apply ws_plus].
  - apply P_choice_l. rewrite !app_assoc_s.
    change (@nil tree) with (@nil tree ++ (@nil tree ++ @nil tree))%list.
    eapply (P_seq G _ _ true q soi _ [] (k ++ w ++ rest) _).
    + unfold uns_opt. apply P_opt_some. change (@nil tree) with (@nil tree ++ @nil tree)%list.
      eapply (P_seq G _ _ true q _ _ [] _ _); [apply P_lit|reflexivity|].
      apply ws_plus; try assumption. destruct Hk as [<-|[<-|[]]]; reflexivity.
    + reflexivity.
    + eapply (P_seq G _ _ true q _ _ [] _ _); [now apply P_kw2|reflexivity|now apply ws_plus].
Qed.

Lemma P_basic sp rest a q soi : bt_span sp -> stops is_wsc rest ->
  Parses G (PRef "basic_type") a q soi (sp ++ rest) (if (q || a)%bool then [] else [Node "basic_type" sp []]) rest.
Proof.
  intros Hsp Hn.
  pose proof (P_ref G "basic_type" Atomic bt_body a q soi (sp ++ rest) [] rest bt_lookup) as H.
  rewrite consumed_app in H. apply H. cbn [is_atomic orb].
  replace (true || a || (("basic_type" =? "WHITESPACE") || ("basic_type" =? "COMMENT")))%bool with true by (destruct a; reflexivity).
  now apply P_basic_body.
Qed.

Definition ident_body : pexp := PSeq (PNot (PRef "basic_type")) (PPlus idc_exp).
Lemma ident_lookup : lookup G "ident" = Some (Atomic, ident_body).
Proof. reflexivity. Qed.

(* an identifier: a non-empty word that is not a basic-type keyword *)
Definition ident_lex (n : string) : Prop := n <> "" /\ all_chars is_idc n = true /\ ~ In n bt_words.

Lemma P_ident_gen n rest a q soi : n <> "" -> all_chars is_idc n = true -> stops is_idc rest ->
  (forall q', Fails G (PRef "basic_type") true q' soi (n ++ rest)) ->
  Parses G (PRef "ident") a q soi (n ++ rest) (if (q || a)%bool then [] else [Node "ident" n []]) rest.
Proof.
  intros Hne Hn Hs Hfb.
  pose proof (P_ref G "ident" Atomic ident_body a q soi (n ++ rest) [] rest ident_lookup) as H.
  rewrite consumed_app in H. apply H. cbn [is_atomic orb].
  replace (true || a || (("ident" =? "WHITESPACE") || ("ident" =? "COMMENT")))%bool with true by (destruct a; reflexivity).
  set (q' := (_ || _ || _ || _)%bool). unfold ident_body.
  change (@nil tree) with (@nil tree ++ @nil tree)%list.
  eapply (P_seq G _ _ true q' soi _ [] (n ++ rest) (n ++ rest)); [|reflexivity|].
  - apply P_not. apply Hfb.
  - now apply idc_plus.
Qed.

Lemma P_ident n rest a q soi : ident_lex n -> stops is_idc rest ->
  Parses G (PRef "ident") a q soi (n ++ rest) (if (q || a)%bool then [] else [Node "ident" n []]) rest.
Proof. intros (Hne & Hn & Hni) Hs. apply P_ident_gen; try assumption. intros q'. now apply F_basic. Qed.

(* ... fails where a basic type stands *)
Lemma F_ident_basic sp rest a q soi : bt_span sp -> stops is_wsc rest -> Fails G (PRef "ident") a q soi (sp ++ rest).
Proof.
  intros Hsp Hn. eapply F_ref; [exact ident_lookup|]. cbn [is_atomic orb].
  replace (true || a || (("ident" =? "WHITESPACE") || ("ident" =? "COMMENT")))%bool with true by (destruct a; reflexivity).
  set (q' := (_ || _ || _ || _)%bool). unfold ident_body. apply F_seq_l.
  eapply F_not. apply (P_basic sp rest true true soi Hsp Hn).
Qed.

(* ... and on a punctuation mark or at the end of the text *)
Lemma F_ident_stop rest a q soi : stops is_idc rest -> Fails G (PRef "ident") a q soi rest.
Proof.
  intros Hs. eapply F_ref; [exact ident_lookup|]. cbn [is_atomic orb].
  replace (true || a || (("ident" =? "WHITESPACE") || ("ident" =? "COMMENT")))%bool with true by (destruct a; reflexivity).
  set (q' := (_ || _ || _ || _)%bool). unfold ident_body.
  eapply (F_seq_r G _ _ true q' soi _ [] rest rest); [|reflexivity|now apply F_idc_plus].
  apply P_not. apply (F_basic "" rest); [reflexivity|exact Hs|]. cbn. intuition discriminate.
Qed.

Lemma F_basic_stop rest a q soi : stops is_idc rest -> Fails G (PRef "basic_type") a q soi rest.
Proof. intros Hs. apply (F_basic "" rest); [reflexivity|exact Hs|]. cbn. intuition discriminate. Qed.

Lemma iv_lookup : lookup G "ident_value" = Some (Atomic, PPlus dig_exp).
Proof. reflexivity. Qed.

Lemma P_ident_value d rest a q soi : d <> "" -> all_chars is_dig d = true -> stops is_dig rest ->
  Parses G (PRef "ident_value") a q soi (d ++ rest) (if (q || a)%bool then [] else [Node "ident_value" d []]) rest.
Proof.
  intros Hne Hd Hs.
  pose proof (P_ref G "ident_value" Atomic (PPlus dig_exp) a q soi (d ++ rest) [] rest iv_lookup) as H.
  rewrite consumed_app in H. apply H. cbn [is_atomic orb].
  replace (true || a || (("ident_value" =? "WHITESPACE") || ("ident_value" =? "COMMENT")))%bool with true by (destruct a; reflexivity).
  now apply dig_plus.
Qed.

Lemma F_ident_value rest a q soi : stops is_dig rest -> Fails G (PRef "ident_value") a q soi rest.
Proof.
  intros Hs. eapply F_ref; [exact iv_lookup|]. cbn [is_atomic orb]. now apply F_dig_plus.
Qed.

(* ident_const = { ident } *)
Lemma P_ident_const n rest soi : ident_lex n -> stops is_idc rest ->
  Parses G (PRef "ident_const") false false soi (n ++ rest) [Node "ident_const" n [Node "ident" n []]] rest.
Proof.
  intros Hn Hs.
  pose proof (P_ref G "ident_const" Normal (PRef "ident") false false soi (n ++ rest) [Node "ident" n []] rest eq_refl) as H.
  rewrite consumed_app in H. apply H. cbn. apply (P_ident n rest false false soi Hn Hs).
Qed.

(* ====================================================================================== *)
(* token streams and their layouts *)

Inductive token := TW (w : string) | TP (p : string) | TB (sp : string).
Definition tok_text (t : token) : string := match t with TW w | TP w | TB w => w end.

Definition puncts : list string := ["{"; "}"; ";"; "="; ","; "<"; ">"; "["; "]"; "*"; "("; ")"; ":"].

Definition tok_wf (t : token) : Prop :=
  match t with
  | TW w => w <> "" /\ all_chars is_idc w = true
  | TP p => In p puncts
  | TB sp => bt_span sp
  end.

(* the gap after a token: it does not start with white space after a basic type (whose span
   owns that), and is not empty between two words *)
Definition gap_ok (t : token) (next : list token) (w : string) : Prop :=
  match t with
  | TB _ => stops is_wsc w
  | TW _ => match next with (TW _ | TB _) :: _ => w <> "" | _ => True end
  | TP _ => True
  end.

Fixpoint lay (ts : list token) (s : string) : Prop :=
  match ts with
  | [] => s = ""
  | t :: ts' => tok_wf t /\ exists w rest, s = tok_text t ++ w ++ rest /\ gap rest w /\ gap_ok t ts' w /\ lay ts' rest
  end.

Definition gapped (ts : list token) (s : string) : Prop :=
  exists w rest, s = w ++ rest /\ gap rest w /\ lay ts rest.

Lemma lay_gapped ts s : lay ts s -> gapped ts s.
Proof. intros H. exists "", s. split; [reflexivity|]. split; [apply gap_nil|exact H]. Qed.

Lemma tok_start t x : tok_wf t -> tok_next (tok_text t ++ x).
Proof.
  destruct t as [w|p|sp]; cbn [tok_wf tok_text].
  - intros [Hne Hw]. destruct w as [|c w]; [congruence|]. cbn in *. apply Bool.andb_true_iff in Hw as [Hc _]. now apply idc_tok.
  - intros Hin. cbn in Hin. repeat (destruct Hin as [<-|Hin]; [reflexivity|]). contradiction.
  - intros Hsp. destruct Hsp as [k w Hk _ _|k w Hk _ _|k w1 w Hk _ _ _ _].
    + destruct Hk as [<-|[<-|[]]]; reflexivity.
    + destruct Hk as [<-|[<-|[<-|[<-|[]]]]]; reflexivity.
    + reflexivity.
Qed.

Lemma lay_next ts s : lay ts s -> tok_next s.
Proof.
  destruct ts as [|t ts]; cbn [lay]; [intros ->; exact I|].
  intros [Hwf (w & rest & -> & _)]. now apply tok_start.
Qed.

Lemma gapped_skip ts s : gapped ts s -> exists rest, Skips G false s rest /\ lay ts rest.
Proof.
  intros (w & rest & -> & Hw & Hl). exists rest. split; [|exact Hl]. apply skip_gap; [exact Hw|]. now apply (lay_next ts).
Qed.

Lemma punct_not_idc p x : In p puncts -> stops is_idc (p ++ x).
Proof. intros Hin. cbn in Hin. repeat (destruct Hin as [<-|Hin]; [reflexivity|]). contradiction. Qed.

(* after a word: the text stops being a word *)
Lemma lay_word n ts s : lay (TW n :: ts) s ->
  n <> "" /\ all_chars is_idc n = true /\ exists r1, s = n ++ r1 /\ stops is_idc r1 /\ gapped ts r1.
Proof.
  cbn [lay tok_wf tok_text]. intros [[Hne Hn] (w & rest & -> & Hw & Hg & Hl)].
  split; [exact Hne|]. split; [exact Hn|]. exists (w ++ rest). split; [reflexivity|]. split.
  - destruct w as [|c w]; [|apply gap_stops_idc; [exact Hw|discriminate]].
    cbn [String.append]. destruct ts as [|t ts]; [cbn in Hl; subst; exact I|].
    cbn [lay] in Hl. destruct Hl as [Hwf (w' & rest' & -> & _)].
    destruct t as [m|p|sp]; cbn [gap_ok] in Hg; try congruence.
    cbn [tok_text tok_wf] in *. now apply punct_not_idc.
  - exists w, rest. repeat split; assumption.
Qed.

(* ---------- parsing against token streams ---------- *)

Section TokRel.
  (* h post-processes the trees: erase (spans of compound nodes forgotten) or the identity *)
  Variable h : tree -> tree.

  Definition TT (e : pexp) (a b : list token) (exp : list tree) : Prop :=
    forall soi s, lay a s -> exists tr s1, Parses G e false false soi s tr s1 /\ gapped b s1 /\ map h tr = exp.

  Definition Fl (e : pexp) (a : list token) : Prop :=
    forall soi s, lay a s -> Fails G e false false soi s.

  Lemma TT_seq e1 e2 a b c x y : TT e1 a b x -> TT e2 b c y -> TT (PSeq e1 e2) a c (x ++ y)%list.
  Proof.
    intros H1 H2 soi s Hs. destruct (H1 soi s Hs) as (t1 & s1 & P1 & G1 & E1).
    destruct (gapped_skip b s1 G1) as (s1' & Hsk & L1).
    destruct (H2 (soi && String.eqb s1' s)%bool s1' L1) as (t2 & s2 & P2 & G2 & E2).
    exists (t1 ++ t2)%list, s2. split; [eapply P_seq; eassumption|]. split; [exact G2|]. rewrite map_app. now rewrite E1, E2.
  Qed.

  Lemma Fl_seq_l e1 e2 a : Fl e1 a -> Fl (PSeq e1 e2) a.
  Proof. intros H soi s Hs. apply F_seq_l. now apply H. Qed.

  Lemma Fl_seq_r e1 e2 a b x : TT e1 a b x -> Fl e2 b -> Fl (PSeq e1 e2) a.
  Proof.
    intros H1 H2 soi s Hs. destruct (H1 soi s Hs) as (t1 & s1 & P1 & G1 & E1).
    destruct (gapped_skip b s1 G1) as (s1' & Hsk & L1).
    eapply F_seq_r; [exact P1|exact Hsk|]. now apply H2.
  Qed.

  Lemma TT_choice_l e1 e2 a b x : TT e1 a b x -> TT (PChoice e1 e2) a b x.
  Proof. intros H soi s Hs. destruct (H soi s Hs) as (t1 & s1 & P1 & G1 & E1). exists t1, s1. split; [now apply P_choice_l|tauto]. Qed.

  Lemma TT_choice_r e1 e2 a b x : Fl e1 a -> TT e2 a b x -> TT (PChoice e1 e2) a b x.
  Proof.
    intros F H soi s Hs. destruct (H soi s Hs) as (t1 & s1 & P1 & G1 & E1). exists t1, s1.
    split; [apply P_choice_r; [now apply F|exact P1]|tauto].
  Qed.

  Lemma Fl_choice e1 e2 a : Fl e1 a -> Fl e2 a -> Fl (PChoice e1 e2) a.
  Proof. intros F1 F2 soi s Hs. apply F_choice; [now apply F1|now apply F2]. Qed.

  Lemma TT_opt_some e a b x : TT e a b x -> TT (POpt e) a b x.
  Proof. intros H soi s Hs. destruct (H soi s Hs) as (t1 & s1 & P1 & G1 & E1). exists t1, s1. split; [now apply P_opt_some|tauto]. Qed.

  Lemma TT_opt_none e a : Fl e a -> TT (POpt e) a a [].
  Proof. intros F soi s Hs. exists [], s. split; [apply P_opt_none; now apply F|]. split; [now apply lay_gapped|reflexivity]. Qed.

  (* a silent rule passes its children through *)
  Lemma TT_ref_silent r body a b x : lookup G r = Some (Silent, body) ->
    String.eqb r "WHITESPACE" = false -> String.eqb r "COMMENT" = false -> TT body a b x -> TT (PRef r) a b x.
  Proof.
    intros Hl N1 N2 H soi s Hs. destruct (H soi s Hs) as (t1 & s1 & P1 & G1 & E1). exists t1, s1.
    split; [|tauto]. pose proof (P_ref G r Silent body false false soi s t1 s1 Hl) as P. cbn in P. rewrite N1, N2 in P. now apply P.
  Qed.

  Lemma Fl_ref r k body a : lookup G r = Some (k, body) -> is_atomic k = false ->
    String.eqb r "WHITESPACE" = false -> String.eqb r "COMMENT" = false -> Fl body a -> Fl (PRef r) a.
  Proof.
    intros Hl Hk N1 N2 H soi s Hs. eapply F_ref; [exact Hl|]. rewrite Hk, N1, N2. cbn. now apply H.
  Qed.

  (* e* : a chain of iterations, then a failure *)
  Inductive Chain (e : pexp) : list token -> list token -> list tree -> Prop :=
  | ch_nil a : Chain e a a []
  | ch_cons a b c x y : TT e a b x -> Chain e b c y -> Chain e a c (x ++ y)%list.

  Lemma TT_rest e a c x : Chain e a c x -> Fl e c ->
    forall s, gapped a s -> exists tr s1, Parses G (PStarRest e) false false false s tr s1 /\ gapped c s1 /\ map h tr = x.
  Proof.
    intros Hc Hf. induction Hc as [a|a b c x y H1 Hc IH]; intros s Hg.
    - destruct (gapped_skip a s Hg) as (s' & Hsk & L). exists [], s. split; [|split; [exact Hg|reflexivity]].
      eapply P_rest_stop; [exact Hsk|]. now apply Hf.
    - destruct (gapped_skip a s Hg) as (s' & Hsk & L).
      destruct (H1 false s' L) as (t1 & s1 & P1 & G1 & E1).
      destruct (IH Hf s1 G1) as (t2 & s2 & P2 & G2 & E2).
      exists (t1 ++ t2)%list, s2. split; [eapply P_rest_step; eassumption|]. split; [exact G2|]. rewrite map_app. now rewrite E1, E2.
  Qed.

  Lemma TT_star e a c x : Chain e a c x -> Fl e c -> TT (PStar e) a c x.
  Proof.
    intros Hc Hf soi s Hs. destruct Hc as [a|a b c x y H1 Hc].
    - exists [], s. split; [apply P_star_none; now apply Hf|]. split; [now apply lay_gapped|reflexivity].
    - destruct (H1 soi s Hs) as (t1 & s1 & P1 & G1 & E1).
      destruct (TT_rest e b c y Hc Hf s1 G1) as (t2 & s2 & P2 & G2 & E2).
      exists (t1 ++ t2)%list, s2. split; [eapply P_star_some; eassumption|]. split; [exact G2|]. rewrite map_app. now rewrite E1, E2.
  Qed.

  Lemma TT_plus e a b c x y : TT e a b x -> Chain e b c y -> Fl e c -> TT (PPlus e) a c (x ++ y)%list.
  Proof.
    intros H1 Hc Hf soi s Hs.
    destruct (TT_seq e (PStar e) a b c x y H1 (TT_star e b c y Hc Hf) soi s Hs) as (tr & s1 & P & G1 & E).
    exists tr, s1. split; [now apply P_plus|tauto].
  Qed.

  (* a literal: a keyword or a punctuation mark *)
  Lemma TT_lit t ts : TT (PStr (tok_text t)) (t :: ts) ts [].
  Proof.
    intros soi s Hs. cbn [lay] in Hs. destruct Hs as [Hwf (w & rest & -> & Hw & Hg & Hl)].
    exists [], (w ++ rest). split; [apply P_lit|]. split; [|reflexivity]. exists w, rest. repeat split; assumption.
  Qed.

  Lemma Fl_lit p t ts : (forall x, strip_prefix p (tok_text t ++ x) = None) -> Fl (PStr p) (t :: ts).
  Proof.
    intros H soi s Hs. cbn [lay] in Hs. destruct Hs as [Hwf (w & rest & -> & _)]. apply F_str. apply H.
  Qed.

  Lemma Fl_lit_nil p : p <> "" -> Fl (PStr p) [].
  Proof. intros H soi s Hs. cbn in Hs. subst s. apply F_str. destruct p; [congruence|reflexivity]. Qed.
End TokRel.

(* ---------- tokens of the grammar against token streams ---------- *)

Definition Raw (e : pexp) (a b : list token) (tr : list tree) : Prop :=
  forall soi s, lay a s -> exists s1, Parses G e false false soi s tr s1 /\ gapped b s1.

Definition idt (t : tree) : tree := t.

Lemma Raw_TT h e a b tr : Raw e a b tr -> TT h e a b (map h tr).
Proof. intros H soi s Hs. destruct (H soi s Hs) as (s1 & P & Gp). exists tr, s1. tauto. Qed.

Lemma TT_Raw e a b tr : TT idt e a b tr -> Raw e a b tr.
Proof.
  intros H soi s Hs. destruct (H soi s Hs) as (tr' & s1 & P & Gp & E). exists s1.
  unfold idt in E. rewrite map_id in E. subst tr'. tauto.
Qed.

Lemma Raw_ident n ts : ~ In n bt_words -> Raw (PRef "ident") (TW n :: ts) ts [Node "ident" n []].
Proof.
  intros Hni soi s Hs. destruct (lay_word n ts s Hs) as (Hne & Hn & r1 & -> & Hst & Hg).
  exists r1. split; [|exact Hg]. apply (P_ident n r1 false false soi); [repeat split; assumption|exact Hst].
Qed.

Lemma lay_basic sp ts s : lay (TB sp :: ts) s ->
  bt_span sp /\ exists r1, s = sp ++ r1 /\ stops is_wsc r1 /\ gapped ts r1.
Proof.
  cbn [lay tok_wf tok_text gap_ok]. intros [Hsp (w & rest & -> & Hw & Hg & Hl)]. split; [exact Hsp|].
  exists (w ++ rest). split; [reflexivity|]. split; [|exists w, rest; repeat split; assumption].
  destruct w as [|c w]; [cbn [String.append]; apply stops_ws_tok; now apply (lay_next ts)|exact Hg].
Qed.

Lemma Raw_basic sp ts : Raw (PRef "basic_type") (TB sp :: ts) ts [Node "basic_type" sp []].
Proof.
  intros soi s Hs. destruct (lay_basic sp ts s Hs) as (Hsp & r1 & -> & Hst & Hg).
  exists r1. split; [|exact Hg]. now apply (P_basic sp r1 false false soi Hsp).
Qed.

(* a bare `unsigned` is an identifier when neither int nor hyper follows it *)
Definition head_ok (ts : list token) : Prop :=
  match ts with TW m :: _ => ~ In m int_words | TP _ :: _ => True | _ => False end.

Lemma F_basic_unsigned w rest a q soi :
  gap rest w -> tok_next rest -> stops is_idc (w ++ rest) ->
  (forall q' soi', Fails G (PSeq kw2 (PPlus wsx)) true q' soi' rest) ->
  Fails G (PRef "basic_type") a q soi ("unsigned" ++ w ++ rest).
Proof.
  intros Hg Hn Hst Hk. eapply F_ref; [exact bt_lookup|]. cbn [is_atomic orb].
  replace (true || a || (("basic_type" =? "WHITESPACE") || ("basic_type" =? "COMMENT")))%bool with true by (destruct a; reflexivity).
  set (q' := (_ || _ || _ || _)%bool). unfold bt_body. apply F_choice.
  - destruct Hg as (w0 & g & -> & Hw0 & Hcg). destruct w0 as [|c w0].
    + (* no white space after `unsigned`: the optional prefix gives nothing *)
      cbn [String.append] in *.
      eapply (F_seq_r G _ _ true q' soi _ [] _ _); [|reflexivity|apply (F_kw2_ws "unsigned" (g ++ rest)); [reflexivity|exact Hst|cbn; intuition discriminate]].
      unfold uns_opt. apply P_opt_none.
      eapply (F_seq_r G _ _ true q' soi _ [] (g ++ rest) _); [apply (P_lit "unsigned")|reflexivity|].
      apply F_ws_plus. now apply cgap_stops.
    + (* the prefix eats the white space *)
      eapply (F_seq_r G _ _ true q' soi _ [] (g ++ rest) (g ++ rest)); [|reflexivity|].
      * unfold uns_opt. apply P_opt_some. change (@nil tree) with (@nil tree ++ @nil tree)%list.
        rewrite app_assoc_s.
        eapply (P_seq G _ _ true q' soi _ [] _ _); [apply (P_lit "unsigned")|reflexivity|].
        apply ws_plus; [discriminate|exact Hw0|now apply cgap_stops].
      * destruct Hcg as [|cc ww gg _ _ _|cc ww gg _ _ _ _]; [apply Hk| |];
          apply F_seq_l; apply F_choice; apply F_str; reflexivity.
  - apply (F_kw4_ws "unsigned" (w ++ rest)); [reflexivity|exact Hst|cbn; intuition discriminate].
Qed.

Lemma lay_head_kw2 ts rest : lay ts rest -> head_ok ts -> forall q soi, Fails G (PSeq kw2 (PPlus wsx)) true q soi rest.
Proof.
  intros Hl Hh q soi. destruct ts as [|[m|p|sp] ts]; cbn [head_ok] in Hh; try contradiction.
  - destruct (lay_word m ts rest Hl) as (Hne & Hm & r1 & -> & Hst & _). now apply F_kw2_ws.
  - cbn [lay tok_wf tok_text] in Hl. destruct Hl as [Hin (w & r & -> & _)].
    apply (F_kw2_ws "" (p ++ w ++ r)); [reflexivity|now apply punct_not_idc|cbn; intuition discriminate].
Qed.

Lemma Raw_ident_unsigned ts : head_ok ts -> Raw (PRef "ident") (TW "unsigned" :: ts) ts [Node "ident" "unsigned" []].
Proof.
  intros Hh soi s Hs. destruct (lay_word "unsigned" ts s Hs) as (Hne & Hn & r1 & E & Hst & Hg).
  exists r1. split; [|exact Hg]. subst s.
  apply (P_ident_gen "unsigned" r1 false false soi Hne Hn Hst). intros q'.
  destruct Hg as (w & rest & -> & Hgap & Hl).
  apply F_basic_unsigned; [exact Hgap|now apply (lay_next ts)|exact Hst|]. intros q2 soi2. now apply (lay_head_kw2 ts).
Qed.

Lemma Raw_value d ts : all_chars is_dig d = true -> Raw (PRef "ident_value") (TW d :: ts) ts [Node "ident_value" d []].
Proof.
  intros Hd soi s Hs. destruct (lay_word d ts s Hs) as (Hne & Hn & r1 & -> & Hst & Hg).
  exists r1. split; [|exact Hg]. apply (P_ident_value d r1 false false soi Hne Hd).
  eapply stops_weaken; [exact dig_idc|exact Hst].
Qed.

Lemma Raw_const n ts : ~ In n bt_words -> Raw (PRef "ident_const") (TW n :: ts) ts [Node "ident_const" n [Node "ident" n []]].
Proof.
  intros Hni soi s Hs. destruct (lay_word n ts s Hs) as (Hne & Hn & r1 & -> & Hst & Hg).
  exists r1. split; [|exact Hg]. apply (P_ident_const n r1 soi); [repeat split; assumption|exact Hst].
Qed.

Section Fails.
  Variable h : tree -> tree.

  Lemma Fl_ident_basic sp ts : Fl (PRef "ident") (TB sp :: ts).
  Proof.
    intros soi s Hs. destruct (lay_basic sp ts s Hs) as (Hsp & r1 & -> & Hst & Hg). now apply F_ident_basic.
  Qed.

  Lemma lay_punct_stops p ts s : lay (TP p :: ts) s -> stops is_idc s.
  Proof. cbn [lay tok_wf tok_text]. intros [Hin (w & rest & -> & _)]. now apply punct_not_idc. Qed.

  Lemma Fl_ident_punct p ts : Fl (PRef "ident") (TP p :: ts).
  Proof. intros soi s Hs. apply F_ident_stop. now apply (lay_punct_stops p ts). Qed.

  Lemma Fl_basic_punct p ts : Fl (PRef "basic_type") (TP p :: ts).
  Proof. intros soi s Hs. apply F_basic_stop. now apply (lay_punct_stops p ts). Qed.

  Lemma Fl_basic_word n ts : ~ In n bt_words -> Fl (PRef "basic_type") (TW n :: ts).
  Proof.
    intros Hni soi s Hs. destruct (lay_word n ts s Hs) as (Hne & Hn & r1 & -> & Hst & Hg). now apply F_basic.
  Qed.

  Lemma Fl_value_punct p ts : Fl (PRef "ident_value") (TP p :: ts).
  Proof.
    intros soi s Hs. apply F_ident_value. eapply stops_weaken; [exact dig_idc|]. now apply (lay_punct_stops p ts).
  Qed.

  Lemma Fl_value_word n ts : stops is_dig n -> Fl (PRef "ident_value") (TW n :: ts).
  Proof.
    intros Hnd soi s Hs. destruct (lay_word n ts s Hs) as (Hne & Hn & r1 & -> & Hst & Hg). apply F_ident_value.
    destruct n as [|c n]; [congruence|exact Hnd].
  Qed.

  Lemma Fl_const_punct p ts : Fl (PRef "ident_const") (TP p :: ts).
  Proof. apply (Fl_ref "ident_const" Normal (PRef "ident")); try reflexivity. apply Fl_ident_punct. Qed.
End Fails.

(* ====================================================================================== *)
(* declarations: the token stream of a declaration list, and its parse *)

From XdrModel Require Import Source.
Open Scope string_scope.

Notation TE := (TT erase).

Lemma TE_ref_node r body a b x : lookup G r = Some (Normal, body) -> leaf_rule r = false -> array_rule r = false ->
  String.eqb r "WHITESPACE" = false -> String.eqb r "COMMENT" = false ->
  TE body a b x -> TE (PRef r) a b [Node r "" x].
Proof.
  intros Hl Hlf Har N1 N2 H soi s Hs. destruct (H soi s Hs) as (t1 & s1 & P1 & G1 & E1).
  exists [Node r (consumed s s1) t1], s1. split; [|split; [exact G1|]].
  - pose proof (P_ref G r Normal body false false soi s t1 s1 Hl) as P. cbn in P. rewrite N1, N2 in P. now apply P.
  - cbn [map erase]. rewrite Hlf, Har, E1. reflexivity.
Qed.

Lemma TE_ref_array r body a b tr : lookup G r = Some (Normal, body) -> leaf_rule r = false -> array_rule r = true ->
  String.eqb r "WHITESPACE" = false -> String.eqb r "COMMENT" = false ->
  Raw body a b tr -> TE (PRef r) a b [Node r "" tr].
Proof.
  intros Hl Hlf Har N1 N2 H soi s Hs. destruct (H soi s Hs) as (s1 & P1 & G1).
  exists [Node r (consumed s s1) tr], s1. split; [|split; [exact G1|]].
  - pose proof (P_ref G r Normal body false false soi s tr s1 Hl) as P. cbn in P. rewrite N1, N2 in P. now apply P.
  - cbn [map erase]. rewrite Hlf, Har. reflexivity.
Qed.

(* a type position *)
Definition ty_exp : pexp := PChoice (PRef "ident") (PRef "basic_type").
Definition toks_ty (t : tytok) : list token := match t with TTBasic sp => [TB sp] | TTIdent n => [TW n] end.
Definition wf_ty (t : tytok) (next : list token) : Prop :=
  match t with TTBasic sp => True | TTIdent n => ~ In n bt_words \/ (n = "unsigned" /\ head_ok next) end.

Lemma head_ok_app a b : head_ok a -> head_ok (a ++ b).
Proof. destruct a as [|[m|p|sp] a]; cbn; tauto. Qed.

Lemma wf_ty_app t a b : wf_ty t a -> wf_ty t (a ++ b).
Proof. destruct t as [sp|n]; cbn; [trivial|]. intros [H|[H1 H2]]; [now left|right; split; [exact H1|now apply head_ok_app]]. Qed.

Lemma TE_ty t ts : wf_ty t ts -> TE ty_exp (toks_ty t ++ ts) ts [t_tytok t].
Proof.
  destruct t as [sp|n]; cbn [toks_ty wf_ty t_tytok app]; intros Hwf.
  - apply TT_choice_r; [apply Fl_ident_basic|]. apply (Raw_TT erase _ _ _ _ (Raw_basic sp ts)).
  - apply TT_choice_l. destruct Hwf as [Hwf|[-> Hh]].
    + apply (Raw_TT erase _ _ _ _ (Raw_ident n ts Hwf)).
    + apply (Raw_TT erase _ _ _ _ (Raw_ident_unsigned ts Hh)).
Qed.

Lemma TE_ident n ts : ~ In n bt_words -> TE (PRef "ident") (TW n :: ts) ts [t_ident n].
Proof. intros H. apply (Raw_TT erase _ _ _ _ (Raw_ident n ts H)). Qed.

Lemma TE_lit t ts : TE (PStr (tok_text t)) (t :: ts) ts [].
Proof. apply TT_lit. Qed.

(* array_length / union_case_value *)
Definition len_exp : pexp := PChoice (PRef "ident_value") (PRef "ident_const").
Definition wf_btok (b : btok) : Prop :=
  match b with BVal d => all_chars is_dig d = true | BConst n => ~ In n bt_words /\ stops is_dig n end.

Lemma Raw_btok b ts : wf_btok b -> Raw len_exp (TW (btok_text b) :: ts) ts [t_btok b].
Proof.
  destruct b as [d|n]; cbn [wf_btok btok_text t_btok]; intros Hwf; apply TT_Raw.
  - apply TT_choice_l. apply (Raw_TT idt _ _ _ _ (Raw_value d ts Hwf)).
  - destruct Hwf as [Hni Hnd]. apply TT_choice_r; [now apply Fl_value_word|].
    apply (Raw_TT idt _ _ _ _ (Raw_const n ts Hni)).
Qed.

Lemma Raw_len r b ts : lookup G r = Some (Silent, len_exp) -> String.eqb r "WHITESPACE" = false -> String.eqb r "COMMENT" = false ->
  wf_btok b -> Raw (PRef r) (TW (btok_text b) :: ts) ts [t_btok b].
Proof.
  intros Hl N1 N2 Hwf. apply TT_Raw. apply (TT_ref_silent idt r len_exp); try assumption.
  apply (Raw_TT idt _ _ _ _ (Raw_btok b ts Hwf)).
Qed.

Lemma erase_btok b : erase (t_btok b) = t_btok b.
Proof. destruct b; reflexivity. Qed.

(* array? before the ";" that always follows it *)
Definition toks_arr (a : sarr) : list token :=
  match a with
  | SNone => []
  | SFixed b => [TP "["; TW (btok_text b); TP "]"]
  | SVar None => [TP "<"; TP ">"]
  | SVar (Some b) => [TP "<"; TW (btok_text b); TP ">"]
  end.
Definition wf_arr (a : sarr) : Prop :=
  match a with SFixed b | SVar (Some b) => wf_btok b | _ => True end.

Lemma TE_arr a ts : wf_arr a -> TE (POpt (PRef "array")) (toks_arr a ++ TP ";" :: ts) (TP ";" :: ts) (t_arr a).
Proof.
  intros Hwf. destruct a as [|b|[b|]]; cbn [toks_arr t_arr app wf_arr] in *.
  - apply TT_opt_none. apply (Fl_ref "array" Silent (PChoice (PRef "array_variable") (PRef "array_fixed"))); try reflexivity.
    apply Fl_choice.
    + eapply Fl_ref; try reflexivity. apply Fl_seq_l. apply Fl_lit. intros x; reflexivity.
    + eapply Fl_ref; try reflexivity. apply Fl_seq_l. apply Fl_lit. intros x; reflexivity.
  - apply TT_opt_some. eapply TT_ref_silent; try reflexivity. apply TT_choice_r.
    + eapply Fl_ref; try reflexivity. apply Fl_seq_l. apply Fl_lit. intros x; reflexivity.
    + eapply (TE_ref_array "array_fixed"); try reflexivity. apply TT_Raw.
      change [t_btok b] with ([] ++ [t_btok b] ++ [])%list.
      eapply TT_seq; [apply (TT_lit idt (TP "["))|]. eapply TT_seq; [|apply (TT_lit idt (TP "]"))].
      apply (Raw_TT idt _ _ _ [t_btok b]). now apply (Raw_len "array_length").
  - apply TT_opt_some. eapply TT_ref_silent; try reflexivity. apply TT_choice_l.
    eapply (TE_ref_array "array_variable"); try reflexivity. apply TT_Raw.
    change [t_btok b] with ([] ++ [t_btok b] ++ [])%list.
    eapply TT_seq; [apply (TT_lit idt (TP "<"))|]. eapply TT_seq; [|apply (TT_lit idt (TP ">"))].
    apply TT_opt_some. apply (Raw_TT idt _ _ _ [t_btok b]). now apply (Raw_len "array_length").
  - apply TT_opt_some. eapply TT_ref_silent; try reflexivity. apply TT_choice_l.
    eapply (TE_ref_array "array_variable"); try reflexivity. apply TT_Raw.
    change (@nil tree) with ([] ++ [] ++ @nil tree)%list.
    eapply TT_seq; [apply (TT_lit idt (TP "<"))|]. eapply TT_seq; [|apply (TT_lit idt (TP ">"))].
    apply TT_opt_none. eapply Fl_ref; try reflexivity. apply Fl_choice; [apply Fl_value_punct|apply Fl_const_punct].
Qed.

(* ---------- data_field ---------- *)

Lemma Fl_punct_word p n ts : In p puncts -> Fl (PStr p) (TW n :: ts).
Proof.
  intros Hin soi s Hs. destruct (lay_word n ts s Hs) as (Hne & Hn & r1 & -> & _). apply F_str.
  destruct n as [|c n]; [congruence|]. cbn in Hn. apply Bool.andb_true_iff in Hn as [Hc _].
  assert (H : forall pc, is_idc pc = false -> strip_prefix (String pc "") (String c n ++ r1) = None).
  { intros pc Hpc. cbn [strip_prefix String.append]. destruct (Ascii.eqb_spec pc c) as [->|_]; [congruence|reflexivity]. }
  cbn in Hin. repeat (destruct Hin as [<-|Hin]; [apply H; reflexivity|]).
  contradiction.
Qed.

Definition field_body : pexp :=
  PSeq ty_exp (PSeq (PChoice (PRef "option") (PRef "ident")) (PSeq (POpt (PRef "array")) (PStr ";"))).
Lemma field_lookup : lookup G "data_field" = Some (Silent, field_body).
Proof. reflexivity. Qed.

Definition toks_name (opt : bool) (n : string) : list token := if opt then [TP "*"; TW n] else [TW n].
Definition toks_field (f : sfield) : list token :=
  (toks_ty (f_ty f) ++ toks_name (f_opt f) (f_name f) ++ toks_arr (f_arr f) ++ [TP ";"])%list.
Definition wf_field (f : sfield) : Prop :=
  wf_ty (f_ty f) (toks_name (f_opt f) (f_name f)) /\ ~ In (f_name f) bt_words /\ wf_arr (f_arr f).

Lemma TE_field f ts : wf_field f -> TE (PRef "data_field") (toks_field f ++ ts) ts (t_field_children f).
Proof.
  intros (Hty & Hn & Ha). eapply TT_ref_silent; [exact field_lookup|reflexivity|reflexivity|].
  unfold toks_field, field_body. rewrite <- !app_assoc.
  replace (t_field_children f)
    with ([t_tytok (f_ty f)] ++ [if f_opt f then Node "option" "" [t_ident (f_name f)] else t_ident (f_name f)] ++ t_arr (f_arr f) ++ [])%list
    by (unfold t_field_children; rewrite app_nil_r; reflexivity).
  eapply TT_seq; [apply TE_ty; now apply wf_ty_app|]. eapply TT_seq; [|eapply TT_seq; [now apply TE_arr|apply (TE_lit (TP ";"))]].
  unfold toks_name. destruct (f_opt f); cbn [app].
  - apply TT_choice_l. eapply (TE_ref_node "option"); try reflexivity.
    change [t_ident (f_name f)] with ([] ++ [t_ident (f_name f)])%list.
    eapply TT_seq; [apply (TE_lit (TP "*"))|now apply TE_ident].
  - apply TT_choice_r; [|now apply TE_ident].
    eapply Fl_ref; try reflexivity. apply Fl_seq_l. apply Fl_punct_word. cbn. tauto.
Qed.

(* where no field starts *)
Lemma Fl_field_punct p ts : Fl (PRef "data_field") (TP p :: ts).
Proof.
  eapply Fl_ref; [exact field_lookup|reflexivity|reflexivity|reflexivity|]. apply Fl_seq_l.
  apply Fl_choice; [apply Fl_ident_punct|apply Fl_basic_punct].
Qed.

Lemma Fl_array_punct p ts : (forall x, strip_prefix "<" (p ++ x) = None) -> (forall x, strip_prefix "[" (p ++ x) = None) ->
  Fl (PRef "array") (TP p :: ts).
Proof.
  intros H1 H2. eapply Fl_ref; try reflexivity. apply Fl_choice.
  - eapply Fl_ref; try reflexivity. apply Fl_seq_l. now apply Fl_lit.
  - eapply Fl_ref; try reflexivity. apply Fl_seq_l. now apply Fl_lit.
Qed.

(* `kw :` and `kw ;` (default:, void;) are not fields *)
Lemma Fl_field_kw_punct kw p ts : ~ In kw bt_words -> (forall x, strip_prefix "*" (p ++ x) = None) ->
  Fl (PRef "data_field") (TW kw :: TP p :: ts).
Proof.
  intros Hkw Hp. eapply Fl_ref; [exact field_lookup|reflexivity|reflexivity|reflexivity|].
  eapply Fl_seq_r; [apply TT_choice_l; apply (TE_ident kw); exact Hkw|]. apply Fl_seq_l. apply Fl_choice.
  - eapply Fl_ref; try reflexivity. apply Fl_seq_l. now apply Fl_lit.
  - apply Fl_ident_punct.
Qed.

(* `case v :` is not a field either *)
Lemma dig_not_bt d : d <> "" -> all_chars is_dig d = true -> ~ In d bt_words.
Proof. intros Hne Hd Hin. cbn in Hin. repeat (destruct Hin as [<-|Hin]; [discriminate Hd|]). contradiction. Qed.

Lemma btok_not_bt b : btok_text b <> "" -> wf_btok b -> ~ In (btok_text b) bt_words.
Proof. destruct b as [d|n]; cbn; intros Hne H; [now apply dig_not_bt|tauto]. Qed.

Lemma Fl_field_case kw b ts : ~ In kw bt_words -> wf_btok b -> Fl (PRef "data_field") (TW kw :: TW (btok_text b) :: TP ":" :: ts).
Proof.
  intros Hkw Hb soi s Hs.
  assert (Hne : btok_text b <> "").
  { cbn [lay] in Hs. destruct Hs as [_ (w & rest & _ & _ & _ & Hl)]. cbn [lay tok_wf] in Hl. tauto. }
  revert soi s Hs. change (Fl (PRef "data_field") (TW kw :: TW (btok_text b) :: TP ":" :: ts)).
  eapply Fl_ref; [exact field_lookup|reflexivity|reflexivity|reflexivity|].
  eapply Fl_seq_r; [apply TT_choice_l; apply (TE_ident kw); exact Hkw|].
  eapply Fl_seq_r.
  - apply TT_choice_r; [|apply TE_ident; now apply btok_not_bt].
    eapply Fl_ref; try reflexivity. apply Fl_seq_l. apply Fl_punct_word. cbn. tauto.
  - eapply (Fl_seq_r erase); [apply TT_opt_none; apply Fl_array_punct; intros x; reflexivity|].
    apply Fl_lit. intros x; reflexivity.
Qed.

(* ---------- declarations ---------- *)

Lemma Chain_app h e a b c x y : Chain h e a b x -> Chain h e b c y -> Chain h e a c (x ++ y)%list.
Proof.
  intros H1 H2. induction H1 as [a|a b0 b x0 y0 H Hc IH]; [exact H2|].
  rewrite <- app_assoc. eapply ch_cons; [exact H|now apply IH].
Qed.

Lemma Chain_one h e a b x : TT h e a b x -> Chain h e a b x.
Proof. intros H. rewrite <- (app_nil_r x). eapply ch_cons; [exact H|apply ch_nil]. Qed.

(* constant *)
Definition toks_const (n v : string) : list token := [TW "const"; TW n; TP "="; TW v; TP ";"].
Lemma TE_const n v ts : ~ In n bt_words -> ~ In v bt_words ->
  TE (PRef "constant") (toks_const n v ++ ts) ts [Node "constant" "" [t_ident n; t_ident v]].
Proof.
  intros Hn Hv. eapply (TE_ref_node "constant"); try reflexivity. cbn [toks_const app].
  change [t_ident n; t_ident v] with ([] ++ [t_ident n] ++ [] ++ [t_ident v] ++ [])%list.
  eapply TT_seq; [apply (TE_lit (TW "const"))|]. eapply TT_seq; [now apply TE_ident|].
  eapply TT_seq; [apply (TE_lit (TP "="))|]. eapply TT_seq; [now apply TE_ident|apply (TE_lit (TP ";"))].
Qed.

(* typedef *)
Definition toks_typedef (ty : tytok) (n : string) (a : sarr) : list token :=
  (TW "typedef" :: toks_ty ty ++ TW n :: toks_arr a ++ [TP ";"])%list.
Lemma TE_typedef ty n a ts : wf_ty ty [TW n] -> ~ In n bt_words -> wf_arr a ->
  TE (PRef "typedef") (toks_typedef ty n a ++ ts) ts [Node "typedef" "" (t_tytok ty :: t_ident n :: t_arr a)].
Proof.
  intros Hty Hn Ha. eapply (TE_ref_node "typedef"); try reflexivity. unfold toks_typedef. cbn [app]. rewrite <- !app_assoc. cbn [app].
  rewrite <- !app_assoc.
  replace (t_tytok ty :: t_ident n :: t_arr a) with ([] ++ [t_tytok ty] ++ [t_ident n] ++ t_arr a ++ [])%list
    by (cbn [app]; now rewrite app_nil_r).
  eapply TT_seq; [apply (TE_lit (TW "typedef"))|]. eapply TT_seq; [apply TE_ty; now apply (wf_ty_app ty [TW n])|].
  eapply TT_seq; [now apply TE_ident|]. eapply TT_seq; [now apply TE_arr|apply (TE_lit (TP ";"))].
Qed.

(* enum *)
Definition variant_body : pexp := PSeq (PRef "ident") (PSeq (PStr "=") (PRef "ident")).
Definition toks_var (m : string * string) : list token := [TW (fst m); TP "="; TW (snd m)].
Definition t_var (m : string * string) : tree := Node "enum_variant" "" [t_ident (fst m); t_ident (snd m)].
Definition wf_var (m : string * string) : Prop := ~ In (fst m) bt_words /\ ~ In (snd m) bt_words.

Lemma TE_var m ts : wf_var m -> TE (PRef "enum_variant") (toks_var m ++ ts) ts [t_var m].
Proof.
  intros [H1 H2]. eapply (TE_ref_node "enum_variant"); try reflexivity. cbn [toks_var app].
  change [t_ident (fst m); t_ident (snd m)] with ([t_ident (fst m)] ++ [] ++ [t_ident (snd m)])%list.
  eapply TT_seq; [now apply TE_ident|]. eapply TT_seq; [apply (TE_lit (TP "="))|now apply TE_ident].
Qed.

Lemma Fl_var_punct p ts : Fl (PRef "enum_variant") (TP p :: ts).
Proof. eapply Fl_ref; try reflexivity. apply Fl_seq_l. apply Fl_ident_punct. Qed.

Definition toks_more (ms : list (string * string)) : list token := flat_map (fun m => TP "," :: toks_var m) ms.

Lemma chain_more ms ts : Forall wf_var ms ->
  Chain erase (PSeq (PStr ",") (PRef "enum_variant")) (toks_more ms ++ ts) ts (map t_var ms).
Proof.
  induction 1 as [|m ms Hm _ IH]; [apply ch_nil|]. cbn [toks_more flat_map map]. rewrite <- app_assoc.
  change (t_var m :: map t_var ms) with ([t_var m] ++ map t_var ms)%list.
  eapply ch_cons; [|exact IH]. cbn [app].
  change [t_var m] with ([] ++ [t_var m])%list. eapply TT_seq; [apply (TE_lit (TP ","))|now apply TE_var].
Qed.

Definition toks_enum (n : string) (ms : list (string * string)) : list token :=
  match ms with
  | [] => []
  | m :: ms' => (TW "enum" :: TW n :: TP "{" :: toks_var m ++ toks_more ms' ++ [TP "}"; TP ";"])%list
  end.

Lemma TE_enum n ms ts : ms <> [] -> ~ In n bt_words -> Forall wf_var ms ->
  TE (PRef "enum_type") (toks_enum n ms ++ ts) ts [Node "enum_type" "" (t_ident n :: map t_var ms)].
Proof.
  intros Hne Hn Hms. destruct ms as [|m ms]; [congruence|]. inversion Hms as [|? ? Hm Hms']; subst.
  eapply (TE_ref_node "enum_type"); try reflexivity. cbn [toks_enum toks_var app]. rewrite <- !app_assoc. cbn [app].
  replace (t_ident n :: map t_var (m :: ms)) with ([] ++ [t_ident n] ++ [] ++ ([t_var m] ++ []) ++ map t_var ms ++ [] ++ [])%list
    by (cbn [app map]; now rewrite app_nil_r).
  eapply TT_seq; [apply (TE_lit (TW "enum"))|]. eapply TT_seq; [now apply TE_ident|].
  eapply TT_seq; [apply (TE_lit (TP "{"))|].
  eapply TT_seq.
  { eapply TT_plus; [apply (TE_var m); exact Hm|apply ch_nil|].
    destruct ms as [|m' ms]; cbn [toks_more flat_map app]; apply Fl_var_punct. }
  eapply TT_seq.
  { apply TT_star; [now apply chain_more|]. cbn [app]. apply Fl_seq_l. apply Fl_lit. intros x; reflexivity. }
  apply (TT_seq erase _ _ _ (TP ";" :: ts) ts [] []); [apply (TE_lit (TP "}"))|apply (TE_lit (TP ";"))].
Qed.

(* struct *)
Definition t_sfield (f : sfield) : tree := Node "struct_data_field" "" (t_field_children f).

Lemma chain_fields fs ts : Forall wf_field fs ->
  Chain erase (PRef "struct_data_field") (flat_map toks_field fs ++ ts) ts (map t_sfield fs).
Proof.
  induction 1 as [|f fs Hf _ IH]; [apply ch_nil|]. cbn [flat_map map]. rewrite <- app_assoc.
  change (t_sfield f :: map t_sfield fs) with ([t_sfield f] ++ map t_sfield fs)%list.
  eapply ch_cons; [|exact IH]. eapply (TE_ref_node "struct_data_field"); try reflexivity. now apply TE_field.
Qed.

Definition toks_struct (n : string) (fs : list sfield) : list token :=
  (TW "struct" :: TW n :: TP "{" :: flat_map toks_field fs ++ [TP "}"; TP ";"])%list.

Lemma TE_struct n fs ts : ~ In n bt_words -> Forall wf_field fs ->
  TE (PRef "struct_type") (toks_struct n fs ++ ts) ts [Node "struct_type" "" (t_ident n :: map t_sfield fs)].
Proof.
  intros Hn Hfs. eapply (TE_ref_node "struct_type"); try reflexivity. unfold toks_struct. cbn [app]. rewrite <- !app_assoc. cbn [app].
  replace (t_ident n :: map t_sfield fs) with ([] ++ [t_ident n] ++ [] ++ map t_sfield fs ++ [] ++ [])%list
    by (cbn [app]; now rewrite app_nil_r).
  eapply TT_seq; [apply (TE_lit (TW "struct"))|]. eapply TT_seq; [now apply TE_ident|].
  eapply TT_seq; [apply (TE_lit (TP "{"))|].
  eapply TT_seq.
  { apply TT_star; [now apply chain_fields|]. eapply Fl_ref; try reflexivity. apply Fl_field_punct. }
  eapply TT_seq; [apply (TE_lit (TP "}"))|apply (TE_lit (TP ";"))].
Qed.

(* union *)
Definition arm_exp : pexp := PChoice (PRef "union_data_field") (PRef "union_void").
Definition group_exp : pexp := PChoice (PRef "union_case") (PRef "union_default").
Definition toks_arm (a : sarm) : list token :=
  match a with ArmVoid => [TW "void"; TP ";"] | ArmData ty n => (toks_ty ty ++ [TW n; TP ";"])%list end.
Definition wf_arm (a : sarm) : Prop := match a with ArmVoid => True | ArmData ty n => wf_ty ty [TW n] /\ ~ In n bt_words end.

Lemma TE_arm a ts : wf_arm a -> TE arm_exp (toks_arm a ++ ts) ts [t_arm a].
Proof.
  destruct a as [|ty n]; cbn [toks_arm wf_arm t_arm]; intros Hwf.
  - apply TT_choice_r.
    + eapply Fl_ref; try reflexivity. apply Fl_field_kw_punct; [cbn; intuition discriminate|intros x; reflexivity].
    + eapply (TE_ref_node "union_void"); try reflexivity. cbn [app].
      apply (TT_seq erase _ _ _ (TP ";" :: ts) ts [] []); [apply (TE_lit (TW "void"))|apply (TE_lit (TP ";"))].
  - destruct Hwf as [Hty Hn]. apply TT_choice_l. eapply (TE_ref_node "union_data_field"); try reflexivity.
    pose proof (TE_field {| f_ty := ty; f_name := n; f_arr := SNone; f_opt := false |} ts) as H.
    unfold toks_field, t_field_children in H. cbn [f_ty f_name f_arr f_opt toks_name toks_arr t_arr app] in H.
    apply H. repeat split; assumption.
Qed.

Definition toks_label (l : btok) : list token := [TW "case"; TW (btok_text l); TP ":"].

Lemma case_lookup : lookup G "union_case" =
  Some (Normal, PSeq (PStr "case") (PSeq (PRef "union_case_value") (PSeq (PStr ":") (POpt arm_exp)))).
Proof. reflexivity. Qed.

Lemma TE_value l ts : wf_btok l -> TE (PRef "union_case_value") (TW (btok_text l) :: ts) ts [t_btok l].
Proof.
  intros Hl. rewrite <- (erase_btok l). apply (Raw_TT erase _ _ _ [t_btok l]). now apply (Raw_len "union_case_value").
Qed.

Lemma TE_case_only l next : wf_btok l -> Fl arm_exp next ->
  TE (PRef "union_case") (toks_label l ++ next) next [Node "union_case" "" [t_btok l]].
Proof.
  intros Hl Hf. eapply (TE_ref_node "union_case"); [exact case_lookup|reflexivity..|]. cbn [toks_label app].
  change [t_btok l] with ([] ++ [t_btok l] ++ [] ++ [])%list.
  eapply TT_seq; [apply (TE_lit (TW "case"))|]. eapply TT_seq; [now apply TE_value|].
  eapply TT_seq; [apply (TE_lit (TP ":"))|now apply TT_opt_none].
Qed.

Lemma TE_case_arm l a ts : wf_btok l -> wf_arm a ->
  TE (PRef "union_case") (toks_label l ++ toks_arm a ++ ts) ts [Node "union_case" "" [t_btok l; t_arm a]].
Proof.
  intros Hl Ha. eapply (TE_ref_node "union_case"); [exact case_lookup|reflexivity..|]. cbn [toks_label app].
  change [t_btok l; t_arm a] with ([] ++ [t_btok l] ++ [] ++ [t_arm a])%list.
  eapply TT_seq; [apply (TE_lit (TW "case"))|]. eapply TT_seq; [now apply TE_value|].
  eapply TT_seq; [apply (TE_lit (TP ":"))|]. apply TT_opt_some. now apply TE_arm.
Qed.

(* after `case v:` another label follows: no arm there *)
Lemma Fl_arm_case l ts : wf_btok l -> Fl arm_exp (toks_label l ++ ts).
Proof.
  intros Hl. cbn [toks_label app]. apply Fl_choice.
  - eapply Fl_ref; try reflexivity. apply Fl_field_case; [cbn; intuition discriminate|exact Hl].
  - eapply Fl_ref; try reflexivity. apply Fl_seq_l. apply Fl_lit. intros x; reflexivity.
Qed.

Lemma Fl_arm_default ts : Fl arm_exp (TW "default" :: TP ":" :: ts).
Proof.
  apply Fl_choice.
  - eapply Fl_ref; try reflexivity. apply Fl_field_kw_punct; [cbn; intuition discriminate|intros x; reflexivity].
  - eapply Fl_ref; try reflexivity. apply Fl_seq_l. apply Fl_lit. intros x; reflexivity.
Qed.

Definition toks_labels (ls : list btok) : list token := flat_map toks_label ls.

Lemma chain_labels ls next : Forall wf_btok ls -> Fl arm_exp next ->
  Chain erase group_exp (toks_labels ls ++ next) next (map (fun l => Node "union_case" "" [t_btok l]) ls).
Proof.
  intros Hls Hnext. induction Hls as [|l ls Hl Hls IH]; [apply ch_nil|].
  cbn [toks_labels flat_map map]. rewrite <- app_assoc.
  change (?t :: map ?f ls) with ([t] ++ map f ls)%list.
  eapply ch_cons; [|exact IH]. apply TT_choice_l. apply TE_case_only; [exact Hl|].
  destruct Hls as [|l' ls' Hl' _]; [exact Hnext|]. cbn [toks_labels flat_map]. rewrite <- app_assoc. now apply Fl_arm_case.
Qed.

Lemma chain_labels_arm ls a ts : ls <> [] -> Forall wf_btok ls -> wf_arm a ->
  Chain erase group_exp (toks_labels ls ++ toks_arm a ++ ts) ts (t_labels ls [t_arm a]).
Proof.
  intros Hne Hls Ha. induction Hls as [|l ls Hl Hls IH]; [congruence|].
  cbn [toks_labels flat_map]. rewrite <- app_assoc. destruct Hls as [|l' ls' Hl' Hls'].
  - cbn [flat_map app t_labels]. apply Chain_one. apply TT_choice_l. now apply (TE_case_arm l a ts).
  - change (t_labels (l :: l' :: ls') [t_arm a]) with ([Node "union_case" "" [t_btok l]] ++ t_labels (l' :: ls') [t_arm a])%list.
    eapply ch_cons; [|apply IH; discriminate]. apply TT_choice_l. apply TE_case_only; [exact Hl|].
    cbn [toks_labels flat_map]. rewrite <- app_assoc. now apply Fl_arm_case.
Qed.

Definition toks_group (g : sgroup) : list token :=
  (toks_labels (g_labels g) ++ (if g_default g then [TW "default"; TP ":"] else []) ++ toks_arm (g_arm g))%list.
Definition wf_group (g : sgroup) : Prop :=
  Forall wf_btok (g_labels g) /\ wf_arm (g_arm g) /\ (g_default g = false -> g_labels g <> []).

Lemma chain_group g ts : wf_group g -> Chain erase group_exp (toks_group g ++ ts) ts (t_group g).
Proof.
  intros (Hls & Ha & Hne). unfold toks_group, t_group. destruct (g_default g); rewrite <- !app_assoc.
  - eapply Chain_app; [apply chain_labels; [exact Hls|cbn [app]; apply Fl_arm_default]|].
    apply Chain_one. cbn [app]. apply TT_choice_r.
    + eapply Fl_ref; try reflexivity. apply Fl_seq_l. apply Fl_lit. intros x; reflexivity.
    + eapply (TE_ref_node "union_default"); try reflexivity.
      change [t_arm (g_arm g)] with ([] ++ [] ++ [t_arm (g_arm g)])%list.
      eapply TT_seq; [apply (TE_lit (TW "default"))|]. eapply TT_seq; [apply (TE_lit (TP ":"))|now apply TE_arm].
  - cbn [app]. apply chain_labels_arm; [now apply Hne|exact Hls|exact Ha].
Qed.

Lemma chain_groups gs ts : Forall wf_group gs ->
  Chain erase group_exp (flat_map toks_group gs ++ ts) ts (flat_map t_group gs).
Proof.
  induction 1 as [|g gs Hg _ IH]; [apply ch_nil|]. cbn [flat_map]. rewrite <- app_assoc.
  eapply Chain_app; [now apply chain_group|exact IH].
Qed.

Definition toks_union (n : string) (dt : tytok) (dn : string) (gs : list sgroup) : list token :=
  (TW "union" :: TW n :: TW "switch" :: TP "(" :: toks_ty dt ++ TW dn :: TP ")" :: TP "{" :: flat_map toks_group gs ++ [TP "}"; TP ";"])%list.

Lemma TE_union n dt dn gs ts : ~ In n bt_words -> wf_ty dt [TW dn] -> ~ In dn bt_words -> Forall wf_group gs ->
  TE (PRef "union") (toks_union n dt dn gs ++ ts) ts [Node "union" "" (t_ident n :: t_tytok dt :: t_ident dn :: flat_map t_group gs)].
Proof.
  intros Hn Hdt Hdn Hgs. eapply (TE_ref_node "union"); try reflexivity. unfold toks_union. cbn [app]. rewrite <- !app_assoc. cbn [app].
  rewrite <- !app_assoc. cbn [app].
  replace (t_ident n :: t_tytok dt :: t_ident dn :: flat_map t_group gs)
    with ([] ++ [t_ident n] ++ [] ++ [] ++ [t_tytok dt] ++ [t_ident dn] ++ [] ++ [] ++ flat_map t_group gs ++ [] ++ [])%list
    by (cbn [app]; now rewrite app_nil_r).
  eapply TT_seq; [apply (TE_lit (TW "union"))|]. eapply TT_seq; [now apply TE_ident|].
  eapply TT_seq; [apply (TE_lit (TW "switch"))|]. eapply TT_seq; [apply (TE_lit (TP "("))|].
  eapply TT_seq; [apply TE_ty; now apply (wf_ty_app dt [TW dn])|]. eapply TT_seq; [now apply TE_ident|].
  eapply TT_seq; [apply (TE_lit (TP ")"))|]. eapply TT_seq; [apply (TE_lit (TP "{"))|].
  eapply TT_seq.
  { apply TT_star; [now apply chain_groups|]. apply Fl_choice.
    - eapply Fl_ref; try reflexivity. apply Fl_seq_l. apply Fl_lit. intros x; reflexivity.
    - eapply Fl_ref; try reflexivity. apply Fl_seq_l. apply Fl_lit. intros x; reflexivity. }
  eapply TT_seq; [apply (TE_lit (TP "}"))|apply (TE_lit (TP ";"))].
Qed.

(* ---------- the declaration list ---------- *)

Definition decl_exp : pexp :=
  PChoice (PRef "constant") (PChoice (PRef "typedef") (PChoice (PRef "enum_type") (PChoice (PRef "struct_type") (PRef "union")))).

Definition toks_decl (d : sdecl) : list token :=
  match d with
  | KConst n v => toks_const n v
  | KEnum n ms => toks_enum n ms
  | KStruct n fs => toks_struct n fs
  | KUnion n dt dn gs => toks_union n dt dn gs
  | KTypedef ty n a => toks_typedef ty n a
  end.

Definition wf_decl (d : sdecl) : Prop :=
  match d with
  | KConst n v => ~ In n bt_words /\ ~ In v bt_words
  | KEnum n ms => ms <> [] /\ ~ In n bt_words /\ Forall wf_var ms
  | KStruct n fs => ~ In n bt_words /\ Forall wf_field fs
  | KUnion n dt dn gs => ~ In n bt_words /\ wf_ty dt [TW dn] /\ ~ In dn bt_words /\ Forall wf_group gs
  | KTypedef ty n a => wf_ty ty [TW n] /\ ~ In n bt_words /\ wf_arr a
  end.

Ltac nokw := eapply Fl_ref; try reflexivity; apply Fl_seq_l; apply Fl_lit; intros ?; reflexivity.

Lemma TE_decl d ts : wf_decl d -> TE decl_exp (toks_decl d ++ ts) ts [t_decl d].
Proof.
  destruct d as [n v|n ms|n fs|n dt dn gs|ty n a]; cbn [wf_decl toks_decl t_decl]; intros Hwf; unfold decl_exp.
  - destruct Hwf as [Hn Hv]. apply TT_choice_l. now apply TE_const.
  - destruct Hwf as (Hne & Hn & Hms). destruct ms as [|m ms]; [congruence|].
    apply TT_choice_r; [cbn [toks_enum app]; nokw|]. apply TT_choice_r; [cbn [toks_enum app]; nokw|].
    apply TT_choice_l. now apply (TE_enum n (m :: ms) ts).
  - destruct Hwf as (Hn & Hfs).
    apply TT_choice_r; [unfold toks_struct; cbn [app]; nokw|]. apply TT_choice_r; [unfold toks_struct; cbn [app]; nokw|].
    apply TT_choice_r; [unfold toks_struct; cbn [app]; nokw|]. apply TT_choice_l.
    change (map (fun f => Node "struct_data_field" "" (t_field_children f)) fs) with (map t_sfield fs). now apply TE_struct.
  - destruct Hwf as (Hn & Hdt & Hdn & Hgs).
    apply TT_choice_r; [unfold toks_union; cbn [app]; nokw|]. apply TT_choice_r; [unfold toks_union; cbn [app]; nokw|].
    apply TT_choice_r; [unfold toks_union; cbn [app]; nokw|]. apply TT_choice_r; [unfold toks_union; cbn [app]; nokw|].
    now apply TE_union.
  - destruct Hwf as (Hty & Hn & Ha).
    apply TT_choice_r; [unfold toks_typedef; cbn [app]; nokw|]. apply TT_choice_l. now apply TE_typedef.
Qed.

Lemma chain_decls ds : Forall wf_decl ds -> Chain erase decl_exp (flat_map toks_decl ds) [] (map t_decl ds).
Proof.
  induction 1 as [|d ds Hd _ IH]; [apply ch_nil|]. cbn [flat_map map].
  change (t_decl d :: map t_decl ds) with ([t_decl d] ++ map t_decl ds)%list.
  eapply ch_cons; [|exact IH]. now apply TE_decl.
Qed.

Lemma Fl_decl_end : Fl decl_exp [].
Proof.
  assert (H : forall r kw body, lookup G r = Some (Normal, PSeq (PStr kw) body) -> kw <> "" ->
              String.eqb r "WHITESPACE" = false -> String.eqb r "COMMENT" = false -> Fl (PRef r) []).
  { intros r kw body Hl Hne N1 N2. eapply Fl_ref; [exact Hl|reflexivity|exact N1|exact N2|]. apply Fl_seq_l. now apply Fl_lit_nil. }
  unfold decl_exp. repeat apply Fl_choice; eapply H; try reflexivity; discriminate.
Qed.

Lemma item_lookup : lookup G "item" = Some (Normal, PSeq PSoi (PSeq (PStar decl_exp) PEoi)).
Proof. reflexivity. Qed.

(* The text theorem: every white-space layout of the token stream of a well-formed declaration
   list parses, whole, into a tree that erases to tree_of ds. *)
Theorem parse_layout ds s :
  Forall wf_decl ds -> gapped (flat_map toks_decl ds) s ->
  exists t, Parses G (PRef "item") false false true s [t] "" /\ erase t = tree_of ds.
Proof.
  intros Hds Hg. destruct (gapped_skip _ s Hg) as (s0 & Hsk & L0).
  destruct (TT_star erase decl_exp _ [] _ (chain_decls ds Hds) Fl_decl_end (true && String.eqb s0 s)%bool s0 L0)
    as (tr & s1 & P1 & G1 & E1).
  destruct (gapped_skip [] s1 G1) as (s2 & Hsk2 & L2). cbn [lay] in L2. subst s2.
  exists (Node "item" (consumed s "") (tr ++ [Node "EOI" "" []])%list). split.
  - pose proof (P_ref G "item" Normal _ false false true s (tr ++ [Node "EOI" "" []])%list "" item_lookup) as P.
    cbn [orb is_atomic] in P. apply P. clear P. cbn [String.eqb Ascii.eqb Bool.eqb orb].
    change (tr ++ [Node "EOI" "" []])%list with ([] ++ (tr ++ [Node "EOI" "" []]))%list.
    eapply (P_seq G _ _ false false true s [] s s0); [apply P_soi|exact Hsk|].
    eapply (P_seq G _ _ false false _ s0 tr s1 ""); [exact P1|exact Hsk2|].
    destruct (P_eoi G false) as [Pa Pb]. destruct (true && (s0 =? s) && ("" =? s0))%bool; assumption.
  - cbn [erase]. change (leaf_rule "item") with false. change (array_rule "item") with false. cbv iota.
    rewrite map_app, E1. reflexivity.
Qed.
