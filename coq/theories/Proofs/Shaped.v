(* C04 groundwork: the shape a decoded value of a declared type has (whatever bytes it was
   decoded from), and the fact that the emitted wire_size() is defined on every such value
   and is a whole number of words -- which is what makes the unguarded
   `self.advance(pad_length(sum))` of read_variable_array harmless. *)
From XdrProofs Require Export MoreProofs.
Open Scope N_scope.
Open Scope list_scope.

Section Shaped.
  Variable A : ast.

  Inductive ShN : string -> rval -> Prop :=
  | SN_struct n s vs :
      get_type A n = Some (TStruct s) -> ShF (st_fields s) vs -> ShN n (RVStruct n vs)
  | SN_union_data n u c l p :
      get_type A n = Some (TUnion u) -> In c (un_cases u) -> In l (uc_values c) ->
      ShP (uc_value c) false p -> ShN n (RVVariant n (variant_name l) (Some p))
  | SN_union_void n u l :
      get_type A n = Some (TUnion u) -> In l (un_void u) -> ShN n (RVVariant n (variant_name l) None)
  | SN_union_default n u c p :
      get_type A n = Some (TUnion u) -> un_default u = Some c ->
      ShP (uc_value c) false p -> ShN n (RVVariant n "default" (Some p))
  | SN_enum n e m v :
      get_type A n = Some (TEnum e) -> In (m, VNum v) (en_variants e) -> ShN n (RVVariant n m None)
  | SN_typedef n t y :
      get_type A n = Some (TTypedef t) -> ShP (typedef_pos t) false y -> ShN n (RVNewtype n y)
  with ShF : list struct_field -> list rval -> Prop :=
  | SF_nil : ShF [] []
  | SF_cons f fs v vs : ShP (sf_value f) (sf_optional f) v -> ShF fs vs -> ShF (f :: fs) (v :: vs)
  with ShP : array_type -> bool -> rval -> Prop :=
  | SP_none t v : ShB t v -> ShP (ANone t) false v
  | SP_opt_none t : ShP (ANone t) true (RVOpt None)
  | SP_opt_some t y : ShB t y -> ShP (ANone t) true (RVOpt (Some y))
  | SP_fixed_opaque s w :
      (forall n, resolve_size A s true = EOk n -> len (vdata w) = n) ->
      ShP (AFixed Opaque s) false (RVBytes w)
  | SP_fixed t s l :
      t <> Opaque -> ShL t l ->
      (forall n, resolve_size A s true = EOk n -> N.of_nat (List.length l) = n) ->
      ShP (AFixed t s) false (RVArr l)
  | SP_var_opaque s w : ShP (AVar Opaque s) false (RVBytes w)
  | SP_var_string s b : ShP (AVar TString s) false (RVString b)
  | SP_var t s l : t <> Opaque -> t <> TString -> ShL t l -> ShP (AVar t s) false (RVVec l)
  with ShL : basic_type -> list rval -> Prop :=
  | SL_nil t : ShL t []
  | SL_cons t x l : ShB t x -> ShL t l -> ShL t (x :: l)
  with ShB : basic_type -> rval -> Prop :=
  | SB_u32 n : n <= u32_max -> ShB U32 (RVU32 n)
  | SB_i32 z : (-2147483648 <= z < 2147483648)%Z -> ShB I32 (RVI32 z)
  | SB_u64 n : ShB U64 (RVU64 n)
  | SB_i64 z : ShB I64 (RVI64 z)
  | SB_f32 n : ShB F32 (RVF32 n)
  | SB_f64 n : ShB F64 (RVF64 n)
  | SB_bool b : ShB TBool (RVBool b)
  | SB_string b : ShB TString (RVString b)
  | SB_opaque w : ShB Opaque (RVBytes w)
  | SB_ident n v : ShN n v -> ShB (Ident n) v.

  Scheme ShN_mind := Induction for ShN Sort Prop
  with ShF_mind := Induction for ShF Sort Prop
  with ShP_mind := Induction for ShP Sort Prop
  with ShL_mind := Induction for ShL Sort Prop
  with ShB_mind := Induction for ShB Sort Prop.
  Combined Scheme Shaped_mutind from ShN_mind, ShF_mind, ShP_mind, ShL_mind, ShB_mind.
End Shaped.

Definition is_rvbytes (v : rval) : bool := match v with RVBytes _ => true | _ => false end.

Section ShapedSize.
  Variable A : ast.
  Variable md : module_ir.
  Hypothesis Hgen : gen A = EOk md.
  Hypothesis Hsup : sup A.

  Let Hcore : sup_core A := sup_c A Hsup.
  Let Hwf : wf_size A := sup_size A Hcore.
  Let Hkeys : keys_ok A := proj1 Hwf.

  Definition QN (n : string) (v : rval) : Prop :=
    is_rvbytes v = false /\ exists w, wsz md v = Some w /\ w mod 4 = 0.
  Definition QF (fs : list struct_field) (vs : list rval) : Prop :=
    Forall (fun f => pos_ok (sf_value f) (sf_optional f)) fs ->
    exists w, zip_sizes (map (fun f => (safe_name (sf_name f), contains_opaque (sf_value f))) fs)
                        (map (wsz md) vs) = Some w /\ w mod 4 = 0.
  Definition QP (a : array_type) (opt : bool) (v : rval) : Prop :=
    pos_ok a opt ->
    exists w, wsz md v = Some w /\ padded (contains_opaque a) w mod 4 = 0.
  Definition QL (t : basic_type) (l : list rval) : Prop :=
    is_opaque t = false ->
    exists x, sum_opt (map (wsz md) l) = Some x /\ x mod 4 = 0.
  Definition QB (t : basic_type) (v : rval) : Prop :=
    exists w, wsz md v = Some w /\ (is_opaque t = false -> w mod 4 = 0 /\ is_rvbytes v = false).

  Lemma padded_true_mult4 w : padded true w mod 4 = 0.
  Proof. unfold padded. pose proof (pad_length_spec w). lia. Qed.

  Theorem shaped_size :
    (forall n v, ShN A n v -> QN n v) /\
    (forall fs vs, ShF A fs vs -> QF fs vs) /\
    (forall a opt v, ShP A a opt v -> QP a opt v) /\
    (forall t l, ShL A t l -> QL t l) /\
    (forall t v, ShB A t v -> QB t v).
  Proof.
    apply Shaped_mutind.
    - (* struct *)
      intros n s vs Hget _ IH. split; [reflexivity|].
      destruct (IH (sup_struct A Hcore n s Hget)) as [w [Hz Hm]]. exists w. cbn [wsz].
      rewrite (find_size_gen A md Hgen Hkeys n _ Hget). cbn [i_body emit_size_body]. split; assumption.
    - (* union: data arm *)
      intros n u c l p Hget Hc Hl _ IH. split; [reflexivity|].
      pose proof (proj2 Hwf _ _ Hget) as [_ [Hnd _]].
      assert (Hpos : pos_ok (uc_value c) false)
        by exact (proj1 (Forall_forall _ _) (proj1 (sup_arms A Hcore n u Hget)) c Hc).
      destruct (IH Hpos) as [w [Hw Hm]].
      exists (4 + padded (contains_opaque (uc_value c)) w). cbn [wsz].
      rewrite (find_size_gen A md Hgen Hkeys n _ Hget). cbn [i_body emit_size_body].
      fold (size_arms u).
      assert (Hin : In (variant_name l, contains_opaque (uc_value c)) (size_arms u)).
      { unfold size_arms. apply in_flat_map. exists c. split; [exact Hc|].
        apply in_map_iff. exists l. split; [reflexivity|exact Hl]. }
      rewrite (assoc_NoDup _ _ _ ltac:(rewrite size_arms_names; exact Hnd) Hin).
      rewrite Hw. cbn [option_map]. split; [reflexivity|lia].
    - (* union: void *)
      intros n u l Hget Hl. split; [reflexivity|]. exists 4. cbn [wsz].
      rewrite (find_size_gen A md Hgen Hkeys n _ Hget). cbn [i_body emit_size_body].
      assert (Hm : mem (variant_name l) (map variant_name (un_void u)) = true)
        by (apply mem_In; now apply in_map).
      rewrite Hm. split; reflexivity.
    - (* union: default with data *)
      intros n u c p Hget Hd _ IH. split; [reflexivity|].
      pose proof (proj2 Hwf _ _ Hget) as [_ [_ Hndef]].
      destruct (IH (proj2 (sup_arms A Hcore n u Hget) c Hd)) as [w [Hw Hm]].
      exists (4 + padded (contains_opaque (uc_value c)) w). cbn [wsz].
      rewrite (find_size_gen A md Hgen Hkeys n _ Hget). cbn [i_body emit_size_body].
      fold (size_arms u).
      rewrite (assoc_notin "default"%string (size_arms u)) by (rewrite size_arms_names; exact Hndef).
      rewrite Hd. cbn [option_map]. rewrite String.eqb_refl, Hw. cbn [option_map]. split; [reflexivity|lia].
    - (* enum *)
      intros n e m v Hget _. split; [reflexivity|]. exists 4. cbn [wsz].
      rewrite (find_size_gen A md Hgen Hkeys n _ Hget). cbn [i_body emit_size_body]. split; reflexivity.
    - (* typedef *)
      intros n t y Hget Sy IH. split; [reflexivity|].
      destruct (sup_typedef A Hcore n t Hget) as [_ [Hpos _]].
      destruct (IH Hpos) as [w [Hw Hm]].
      cbn [wsz]. rewrite (find_size_gen A md Hgen Hkeys n _ Hget). cbn [i_body emit_size_body].
      rewrite Hw. cbn [option_map].
      assert (Hco : contains_opaque (typedef_pos t) = is_opaque (td_target t)).
      { unfold typedef_pos, contains_opaque. destruct (td_alias t); reflexivity. }
      rewrite Hco in Hm. eexists. split; [reflexivity|].
      destruct (is_opaque (td_target t)); cbn [padded] in Hm.
      + destruct (td_alias t); lia.
      + exact Hm.
    - intros _. exists 0. split; reflexivity.
    - intros f fs v vs _ IHv _ IHfs Hall. inversion Hall as [|? ? Hf Hfs]; subst.
      destruct (IHv Hf) as [w [Hw Hm]]. destruct (IHfs Hfs) as [w' [Hz Hm']].
      exists (padded (contains_opaque (sf_value f)) w + w'). cbn [map zip_sizes snd].
      rewrite Hw, Hz. cbn [option_map]. split; [reflexivity|lia].
    - (* plain *)
      intros t v _ IH _. destruct IH as [w [Hw Hc]]. exists w. split; [exact Hw|].
      unfold contains_opaque. cbn [unwrap_array]. destruct (is_opaque t).
      + apply padded_true_mult4.
      + cbn [padded]. exact (proj1 (Hc eq_refl)).
    - (* optional none *)
      intros t _. exists 4. split; [reflexivity|]. unfold padded.
      destruct (contains_opaque (ANone t)); [change (pad_length 4) with 0|]; reflexivity.
    - (* optional some *)
      intros t y _ IH Hpos. destruct Hpos as [_ [Ho _]]. destruct (Ho eq_refl) as [m Hm]. inversion Hm; subst t.
      destruct IH as [w [Hw Hc]]. destruct (Hc eq_refl) as [Hw4 _].
      exists (4 + w). cbn [wsz]. rewrite Hw. cbn [option_map wsz_opt]. split; [reflexivity|].
      cbn [contains_opaque unwrap_array is_opaque padded]. lia.
    - intros s w _ _. exists (wsz_bytes w). split; [reflexivity|]. cbn. apply padded_true_mult4.
    - intros t s l Ht _ IH _ _.
      assert (Ho : is_opaque t = false) by (destruct t; try reflexivity; congruence).
      destruct (IH Ho) as [x [Hx Hm]]. exists (wsz_slice x). cbn [wsz]. rewrite Hx. cbn [option_map].
      split; [reflexivity|]. unfold contains_opaque. cbn [unwrap_array]. rewrite Ho. cbn [padded].
      apply wsz_slice_mult4.
    - intros s w _. exists (wsz_bytes w). split; [reflexivity|]. cbn. apply padded_true_mult4.
    - intros s b _. exists (wsz_string b). split; [reflexivity|]. cbn. apply wsz_string_mult4.
    - intros t s l Ht1 Ht2 _ IH _.
      assert (Ho : is_opaque t = false) by (destruct t; try reflexivity; congruence).
      destruct (IH Ho) as [x [Hx Hm]]. exists (wsz_vec x). cbn [wsz]. rewrite Hx. cbn [option_map].
      split; [reflexivity|]. unfold contains_opaque. cbn [unwrap_array]. rewrite Ho. cbn [padded].
      apply wsz_vec_mult4.
    - intros t _. exists 0. split; reflexivity.
    - intros t x l _ IHx _ IHl Ho. destruct IHx as [w [Hw Hc]]. destruct (Hc Ho) as [Hw4 _].
      destruct (IHl Ho) as [y [Hy Hm]]. exists (w + y). cbn [map sum_opt]. rewrite Hw, Hy. cbn [option_map].
      split; [reflexivity|lia].
    - intros n _. exists 4. split; [reflexivity|]. intros _. split; reflexivity.
    - intros z _. exists 4. split; [reflexivity|]. intros _. split; reflexivity.
    - intros n. exists 8. split; [reflexivity|]. intros _. split; reflexivity.
    - intros z. exists 8. split; [reflexivity|]. intros _. split; reflexivity.
    - intros n. exists 4. split; [reflexivity|]. intros _. split; reflexivity.
    - intros n. exists 8. split; [reflexivity|]. intros _. split; reflexivity.
    - intros b. exists 4. split; [reflexivity|]. intros _. split; reflexivity.
    - intros b. exists (wsz_string b). split; [reflexivity|]. intros _. split; [apply wsz_string_mult4|reflexivity].
    - intros w. exists (wsz_bytes w). split; [reflexivity|]. discriminate.
    - intros n v _ [Hb [w [Hw Hm]]]. exists w. split; [exact Hw|]. intros _. split; assumption.
  Qed.

  Corollary shaped_wsz n v : ShN A n v -> exists w, wsz md v = Some w /\ w mod 4 = 0.
  Proof. intros H. exact (proj2 (proj1 shaped_size n v H)). Qed.
End ShapedSize.
