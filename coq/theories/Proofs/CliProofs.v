From Coq Require Import Lia.
From XdrModel Require Export Cli.
Open Scope list_scope.

Section CliProofs.
  Variable read_to_string : string -> option string.
  Variable generate : string -> option string.

  Definition file_ok (f : string) : option string :=
    match read_to_string f with Some x => generate x | None => None end.

  Lemma cli_loop_all_ok files printed :
    Forall (fun f => file_ok f <> None) files ->
    cli_loop read_to_string generate files printed =
    {| cli_stdout := printed ++ map (fun f => match file_ok f with Some c => (c ++ nl_)%string | None => EmptyString end) files;
       cli_exit := 0; cli_diag := false |}.
  Proof.
    revert printed. induction files as [|f rest IH]; intros printed H; cbn [cli_loop map].
    - now rewrite app_nil_r.
    - inversion H as [|? ? Hf Hr]; subst. unfold file_ok in *.
      destruct (read_to_string f) as [x|]; [|contradiction].
      destruct (generate x) as [c|]; [|contradiction].
      rewrite IH by exact Hr. now rewrite <- app_assoc.
  Qed.

  Lemma cli_loop_first_failure good bad rest printed :
    Forall (fun f => file_ok f <> None) good -> file_ok bad = None ->
    cli_loop read_to_string generate (good ++ bad :: rest) printed =
    {| cli_stdout := printed ++ map (fun f => match file_ok f with Some c => (c ++ nl_)%string | None => EmptyString end) good;
       cli_exit := 1; cli_diag := true |}.
  Proof.
    revert printed. induction good as [|f g IH]; intros printed H Hb; cbn [app cli_loop map].
    - unfold file_ok in Hb. rewrite app_nil_r.
      destruct (read_to_string bad) as [x|]; [|reflexivity]. now rewrite Hb.
    - inversion H as [|? ? Hf Hr]; subst. unfold file_ok in Hf.
      destruct (read_to_string f) as [x|] eqn:E1; [|contradiction].
      destruct (generate x) as [c|] eqn:E2; [|contradiction].
      rewrite IH by assumption. unfold file_ok at 2. rewrite E1, E2. now rewrite <- app_assoc.
  Qed.

  Lemma cli_main_no_args argv0 :
    cli_main read_to_string generate argv0 [] =
    {| cli_stdout := [("usage: " ++ argv0 ++ " ./path/to/spec.x" ++ nl_)%string]; cli_exit := 1; cli_diag := false |}.
  Proof. reflexivity. Qed.

  Lemma cli_main_all_ok argv0 files :
    files <> [] -> Forall (fun f => file_ok f <> None) files ->
    cli_main read_to_string generate argv0 files =
    {| cli_stdout := map (fun f => match file_ok f with Some c => (c ++ nl_)%string | None => EmptyString end) files;
       cli_exit := 0; cli_diag := false |}.
  Proof.
    intros Hne H. destruct files as [|f r]; [contradiction|].
    unfold cli_main. now rewrite cli_loop_all_ok.
  Qed.

  Lemma cli_main_first_failure argv0 good bad rest :
    Forall (fun f => file_ok f <> None) good -> file_ok bad = None ->
    cli_main read_to_string generate argv0 (good ++ bad :: rest) =
    {| cli_stdout := map (fun f => match file_ok f with Some c => (c ++ nl_)%string | None => EmptyString end) good;
       cli_exit := 1; cli_diag := true |}.
  Proof.
    intros H Hb. unfold cli_main.
    destruct (good ++ bad :: rest) eqn:E; [destruct good; discriminate|].
    rewrite <- E. now rewrite cli_loop_first_failure.
  Qed.
End CliProofs.
