(* Text level, decidable side: boolean forms of the hypotheses of TextProofs.parse_layout (a
   lexer `layb` that checks a text against the token stream of a declaration list, the lexical
   well-formedness `wf_declb`), their soundness, and the text-to-Ast theorems obtained by
   chaining parse_layout with WalkProofs.source_tie.  The correspondence check K5 evaluates the
   boolean hypotheses on every specification text it sends through the real parser. *)
From Coq Require Import Lia PeanoNat.
From XdrProofs Require Export TextProofs WalkProofs.
Open Scope string_scope.
Open Scope list_scope.

Fixpoint span_ws (s : string) : string * string :=
  match s with
  | String c r => if is_wsc c then let (w, rest) := span_ws r in (String c w, rest) else (EmptyString, s)
  | EmptyString => (EmptyString, EmptyString)
  end.

Lemma span_ws_spec s : s = (fst (span_ws s) ++ snd (span_ws s))%string /\ all_chars is_wsc (fst (span_ws s)) = true.
Proof.
  induction s as [|c r [IH1 IH2]]; cbn [span_ws]; [split; reflexivity|].
  destruct (is_wsc c) eqn:Hc; [|split; reflexivity].
  destruct (span_ws r) as [w rest]. cbn [fst snd] in *. split; [cbn; now rewrite <- IH1|cbn; now rewrite Hc, IH2].
Qed.

Definition nonemptyb (s : string) : bool := negb (String.eqb s "").
Lemma nonemptyb_sound s : nonemptyb s = true -> s <> "".
Proof. unfold nonemptyb. destruct (String.eqb_spec s ""); [discriminate|auto]. Qed.

Lemma strip_prefix_eq p : forall s r, strip_prefix p s = Some r -> s = (p ++ r)%string.
Proof.
  induction p as [|c p IH]; intros s r H; cbn in H; [inversion H; reflexivity|].
  destruct s as [|d s]; [discriminate|]. destruct (Ascii.eqb_spec c d) as [->|_]; [|discriminate].
  cbn. now rewrite (IH s r H).
Qed.

Definition ws_tail (w : string) : bool := (nonemptyb w && all_chars is_wsc w)%bool.
Definition kw_tail (ks : list string) (s : string) : bool :=
  existsb (fun k => match strip_prefix k s with Some w => ws_tail w | None => false end) ks.

Lemma kw_tail_sound ks s : kw_tail ks s = true -> exists k w, In k ks /\ s = (k ++ w)%string /\ w <> "" /\ all_chars is_wsc w = true.
Proof.
  unfold kw_tail. intros H. apply existsb_exists in H as (k & Hin & Hk).
  destruct (strip_prefix k s) as [w|] eqn:E; [|discriminate]. unfold ws_tail in Hk. apply Bool.andb_true_iff in Hk as [H1 H2].
  exists k, w. repeat split; [exact Hin|now apply strip_prefix_eq|now apply nonemptyb_sound|exact H2].
Qed.

Definition bt_spanb (sp : string) : bool :=
  (kw_tail int_words sp || kw_tail flt_words sp ||
   match strip_prefix "unsigned" sp with
   | Some r => nonemptyb (fst (span_ws r)) && kw_tail int_words (snd (span_ws r))
   | None => false
   end)%bool.

Lemma bt_spanb_sound sp : bt_spanb sp = true -> bt_span sp.
Proof.
  unfold bt_spanb. intros H. apply Bool.orb_true_iff in H as [H|H]; [apply Bool.orb_true_iff in H as [H|H]|].
  - destruct (kw_tail_sound _ _ H) as (k & w & Hk & -> & Hne & Hw). now apply bs_int.
  - destruct (kw_tail_sound _ _ H) as (k & w & Hk & -> & Hne & Hw). now apply bs_flt.
  - destruct (strip_prefix "unsigned" sp) as [r|] eqn:E; [|discriminate]. apply Bool.andb_true_iff in H as [H1 H2].
    destruct (span_ws_spec r) as [Hr Hw1]. destruct (kw_tail_sound _ _ H2) as (k & w & Hk & Hsnd & Hne & Hw).
    rewrite (strip_prefix_eq _ _ _ E), Hr, Hsnd. apply bs_uns; try assumption. now apply nonemptyb_sound.
Qed.

Definition tok_wfb (t : token) : bool :=
  match t with
  | TW w => (nonemptyb w && all_chars is_idc w)%bool
  | TP p => existsb (String.eqb p) puncts
  | TB sp => bt_spanb sp
  end.

Lemma tok_wfb_sound t : tok_wfb t = true -> tok_wf t.
Proof.
  destruct t as [w|p|sp]; cbn [tok_wfb tok_wf]; intros H.
  - apply Bool.andb_true_iff in H as [H1 H2]. split; [now apply nonemptyb_sound|exact H2].
  - apply existsb_exists in H as (x & Hin & Hx). apply String.eqb_eq in Hx. now subst.
  - now apply bt_spanb_sound.
Qed.

(* ---------- a lexer for gaps: white space and comments ---------- *)

Inductive gmode := MWs | MLong | MShort.

Fixpoint lex_gap (m : gmode) (s : string) : option string :=
  match s with
  | EmptyString => match m with MLong => None | _ => Some EmptyString end
  | String c r =>
    match m with
    | MWs => if is_wsc c then lex_gap MWs r
             else if Ascii.eqb c "/" then
               match r with
               | String d r' => if Ascii.eqb d "*" then lex_gap MLong r'
                                else if Ascii.eqb d "/" then lex_gap MShort r' else Some s
               | EmptyString => Some s
               end
             else Some s
    | MLong => if Ascii.eqb c "*" then
                 match r with
                 | String d r' => if Ascii.eqb d "/" then lex_gap MWs r' else lex_gap MLong r
                 | EmptyString => None
                 end
               else lex_gap MLong r
    | MShort => if is_nl c then lex_gap MWs r else lex_gap MShort r
    end
  end.

Lemma gap_cons_ws rest c w : is_wsc c = true -> gap rest w -> gap rest (String c w).
Proof.
  intros Hc (w0 & g & -> & Hw & Hg). exists (String c w0), g. split; [reflexivity|]. split; [cbn; now rewrite Hc, Hw|exact Hg].
Qed.

Lemma cg_long' rest c x : innerb c = true -> gap rest x -> cgap rest ("/*" ++ c ++ "*/" ++ x).
Proof. intros Hc (w0 & g & -> & Hw & Hg). now apply cg_long. Qed.

Lemma cg_short' rest c x : all_chars not_nl c = true -> gap rest x -> line_end (x ++ rest) -> cgap rest ("//" ++ c ++ x).
Proof. intros Hc (w0 & g & -> & Hw & Hg) He. apply cg_short; try assumption. now rewrite <- app_assoc_s. Qed.

Lemma gap_of_cgap rest g : cgap rest g -> gap rest g.
Proof. intros H. exists "", g. repeat split. exact H. Qed.

Definition lexA (s : string) : Prop := forall rest, lex_gap MWs s = Some rest -> exists w, s = (w ++ rest)%string /\ gap rest w.
Definition lexB (s : string) : Prop := forall rest, lex_gap MLong s = Some rest ->
  exists c x, s = (c ++ "*/" ++ x)%string /\ innerb c = true /\ (match c with String y _ => True | EmptyString => True end) /\
              exists w, x = (w ++ rest)%string /\ gap rest w.
Definition lexC (s : string) : Prop := forall rest, lex_gap MShort s = Some rest ->
  exists c w, s = (c ++ w ++ rest)%string /\ all_chars not_nl c = true /\ gap rest w /\ line_end (w ++ rest).

Lemma first_of_inner c x d r : (String d r = c ++ "*/" ++ x)%string -> d <> "/"%char ->
  match c with String y _ => Ascii.eqb y "/" | EmptyString => false end = false.
Proof.
  destruct c as [|y c]; [reflexivity|]. cbn. intros H Hd. inversion H; subst. now apply Ascii.eqb_neq.
Qed.

Lemma lex_gap_sound n : forall s, (String.length s <= n)%nat -> lexA s /\ lexB s /\ lexC s.
Proof.
  induction n as [|n IH]; intros s Hlen.
  { destruct s; [|cbn in Hlen; lia]. repeat split.
    - intros rest H. cbn in H. inversion H; subst. exists "". split; [reflexivity|apply gap_nil].
    - intros rest H. cbn in H. discriminate.
    - intros rest H. cbn in H. inversion H; subst. exists "", "". repeat split. apply gap_nil. }
  destruct s as [|c r].
  { repeat split.
    - intros rest H. cbn in H. inversion H; subst. exists "". split; [reflexivity|apply gap_nil].
    - intros rest H. cbn in H. discriminate.
    - intros rest H. cbn in H. inversion H; subst. exists "", "". repeat split. apply gap_nil. }
  cbn [String.length] in Hlen. assert (Hr : (String.length r <= n)%nat) by lia.
  destruct (IH r Hr) as (Ar & Br & Cr).
  repeat split.
  - (* white space *)
    intros rest H. cbn [lex_gap] in H. destruct (is_wsc c) eqn:Hc.
    { destruct (Ar rest H) as (w & -> & Hg). exists (String c w). split; [reflexivity|now apply gap_cons_ws]. }
    destruct (Ascii.eqb_spec c "/"%char) as [->|Nc]; [|inversion H; subst; exists ""; split; [reflexivity|apply gap_nil]].
    destruct r as [|d r']; [inversion H; subst; exists ""; split; [reflexivity|apply gap_nil]|].
    cbn [String.length] in Hr. assert (Hr' : (String.length r' <= n)%nat) by lia.
    destruct (IH r' Hr') as (Ar' & Br' & Cr').
    destruct (Ascii.eqb_spec d "*"%char) as [->|Nd].
    { destruct (Br' rest H) as (cc & x & -> & Hin & _ & w & -> & Hg).
      exists ("/*" ++ cc ++ "*/" ++ w)%string. split; [cbn; now rewrite !app_assoc_s|].
      apply gap_of_cgap. now apply cg_long'. }
    destruct (Ascii.eqb_spec d "/"%char) as [->|Nd2]; [|inversion H; subst; exists ""; split; [reflexivity|apply gap_nil]].
    destruct (Cr' rest H) as (cc & w & -> & Hcc & Hg & He).
    exists ("//" ++ cc ++ w)%string. split; [cbn; now rewrite !app_assoc_s|].
    apply gap_of_cgap. now apply cg_short'.
  - (* inside a long comment *)
    intros rest H. cbn [lex_gap] in H. destruct (Ascii.eqb_spec c "*"%char) as [->|Nc].
    + destruct r as [|d r']; [discriminate|].
      destruct (Ascii.eqb_spec d "/"%char) as [->|Nd].
      * cbn [String.length] in Hr. assert (Hr' : (String.length r' <= n)%nat) by lia.
        destruct (IH r' Hr') as (Ar' & _ & _). destruct (Ar' rest H) as (w & -> & Hg).
        exists "", (w ++ rest)%string. repeat split. exists w. split; [reflexivity|exact Hg].
      * destruct (Br rest H) as (cc & x & E & Hin & _ & w & -> & Hg).
        exists (String "*" cc), (w ++ rest)%string. split; [cbn; now rewrite E|]. split.
        { cbn [innerb]. rewrite Hin. rewrite (first_of_inner cc (w ++ rest) d r' E Nd). reflexivity. }
        split; [exact I|]. exists w. split; [reflexivity|exact Hg].
    + destruct (Br rest H) as (cc & x & E & Hin & _ & w & -> & Hg).
      exists (String c cc), (w ++ rest)%string. split; [cbn; now rewrite E|]. split.
      { cbn [innerb]. rewrite Hin. apply Ascii.eqb_neq in Nc. rewrite Nc. reflexivity. }
      split; [exact I|]. exists w. split; [reflexivity|exact Hg].
  - (* inside a short comment *)
    intros rest H. cbn [lex_gap] in H. destruct (is_nl c) eqn:Hc.
    + destruct (Ar rest H) as (w & -> & Hg). exists "", (String c w). split; [reflexivity|]. split; [reflexivity|].
      split; [|exact Hc]. apply gap_cons_ws; [|exact Hg].
      unfold is_nl in Hc. unfold is_wsc. apply Bool.orb_true_iff in Hc as [Hc|Hc]; rewrite Hc; now rewrite ?Bool.orb_true_r.
    + destruct (Cr rest H) as (cc & w & -> & Hcc & Hg & He). exists (String c cc), w. split; [reflexivity|].
      split; [cbn; unfold not_nl at 1; now rewrite Hc, Hcc|]. split; assumption.
Qed.

Lemma lex_gap_ws s rest : lex_gap MWs s = Some rest -> exists w, s = (w ++ rest)%string /\ gap rest w.
Proof. intros H. exact (proj1 (lex_gap_sound (String.length s) s (Nat.le_refl _)) rest H). Qed.

Definition stopsb (p : ascii -> bool) (s : string) : bool := match s with String c _ => negb (p c) | EmptyString => true end.

(* r: the text after the token; rest: the text after the gap *)
Definition gap_okb (t : token) (next : list token) (r rest : string) : bool :=
  match t with
  | TB _ => stopsb is_wsc r
  | TW _ => match next with (TW _ | TB _) :: _ => negb (String.eqb r rest) | _ => true end
  | TP _ => true
  end.

Lemma gap_okb_sound t next w rest : gap_okb t next (w ++ rest) rest = true -> gap_ok t next w.
Proof.
  destruct t as [x|x|x]; cbn [gap_okb gap_ok]; intros H; [|exact I|].
  - assert (Hne : negb (String.eqb (w ++ rest) rest) = true -> w <> "").
    { intros H' ->. cbn in H'. now rewrite String.eqb_refl in H'. }
    destruct next as [|[y|y|y] ?]; try exact I; now apply Hne.
  - destruct w as [|c w]; [exact I|]. cbn in *. now apply Bool.negb_true_iff.
Qed.

(* a lexer for layouts: the text is the tokens in order, gaps between them *)
Fixpoint layb (ts : list token) (s : string) : bool :=
  match ts with
  | [] => String.eqb s ""
  | t :: ts' =>
    (tok_wfb t &&
     match strip_prefix (tok_text t) s with
     | None => false
     | Some r =>
       match lex_gap MWs r with
       | None => false
       | Some rest => gap_okb t ts' r rest && layb ts' rest
       end
     end)%bool
  end.

Lemma layb_sound ts : forall s, layb ts s = true -> lay ts s.
Proof.
  induction ts as [|t ts IH]; intros s H; cbn [layb lay] in *; [now apply String.eqb_eq|].
  apply Bool.andb_true_iff in H as [Hwf H]. split; [now apply tok_wfb_sound|].
  destruct (strip_prefix (tok_text t) s) as [r|] eqn:E; [|discriminate]. apply strip_prefix_eq in E. subst s.
  destruct (lex_gap MWs r) as [rest|] eqn:El; [|discriminate].
  destruct (lex_gap_ws r rest El) as (w & -> & Hg). apply Bool.andb_true_iff in H as [Hok Hl].
  exists w, rest. split; [reflexivity|]. split; [exact Hg|]. split; [now apply (gap_okb_sound t ts w rest)|now apply IH].
Qed.

Definition gappedb (ts : list token) (s : string) : bool :=
  match lex_gap MWs s with Some rest => layb ts rest | None => false end.

Lemma gappedb_sound ts s : gappedb ts s = true -> gapped ts s.
Proof.
  unfold gappedb. intros H. destruct (lex_gap MWs s) as [rest|] eqn:El; [|discriminate].
  destruct (lex_gap_ws s rest El) as (w & -> & Hg). exists w, rest. split; [reflexivity|]. split; [exact Hg|now apply layb_sound].
Qed.

(* ---------- lexical well-formedness of a declaration list, decidably ---------- *)

Definition nbt (n : string) : bool := negb (existsb (String.eqb n) bt_words).
Lemma nbt_sound n : nbt n = true -> ~ In n bt_words.
Proof.
  unfold nbt. intros H Hin. apply Bool.negb_true_iff in H.
  assert (existsb (String.eqb n) bt_words = true) by (apply existsb_exists; exists n; split; [exact Hin|apply String.eqb_refl]).
  congruence.
Qed.

Definition head_okb (ts : list token) : bool :=
  match ts with TW m :: _ => negb (existsb (String.eqb m) int_words) | TP _ :: _ => true | _ => false end.
Definition wf_tyb (t : tytok) (next : list token) : bool :=
  match t with TTBasic _ => true | TTIdent n => (nbt n || (String.eqb n "unsigned" && head_okb next))%bool end.
Definition no_digit_start (n : string) : bool := match n with String c _ => negb (is_dig c) | EmptyString => true end.
Definition wf_btokb (b : btok) : bool :=
  match b with BVal d => all_chars is_dig d | BConst n => (nbt n && no_digit_start n)%bool end.
Definition wf_arrb (a : sarr) : bool := match a with SFixed b | SVar (Some b) => wf_btokb b | _ => true end.
Definition wf_fieldb (f : sfield) : bool :=
  (wf_tyb (f_ty f) (toks_name (f_opt f) (f_name f)) && nbt (f_name f) && wf_arrb (f_arr f))%bool.
Definition wf_varb (m : string * string) : bool := (nbt (fst m) && nbt (snd m))%bool.
Definition wf_armb (a : sarm) : bool := match a with ArmVoid => true | ArmData ty n => (wf_tyb ty [TW n] && nbt n)%bool end.
Definition wf_groupb (g : sgroup) : bool :=
  (forallb wf_btokb (g_labels g) && wf_armb (g_arm g) &&
   (g_default g || match g_labels g with [] => false | _ => true end))%bool.
Definition wf_declb (d : sdecl) : bool :=
  match d with
  | KConst n v => (nbt n && nbt v)%bool
  | KEnum n ms => (match ms with [] => false | _ => true end && nbt n && forallb wf_varb ms)%bool
  | KStruct n fs => (nbt n && forallb wf_fieldb fs)%bool
  | KUnion n dt dn gs => (nbt n && wf_tyb dt [TW dn] && nbt dn && forallb wf_groupb gs)%bool
  | KTypedef ty n a => (wf_tyb ty [TW n] && nbt n && wf_arrb a)%bool
  end.

Lemma head_okb_sound ts : head_okb ts = true -> head_ok ts.
Proof.
  destruct ts as [|[m|p|sp] ts]; cbn [head_okb head_ok]; try discriminate; [|trivial]. intros H Hin. apply Bool.negb_true_iff in H.
  assert (existsb (String.eqb m) int_words = true) by (apply existsb_exists; exists m; split; [exact Hin|apply String.eqb_refl]).
  congruence.
Qed.

Lemma wf_tyb_sound t next : wf_tyb t next = true -> wf_ty t next.
Proof.
  destruct t as [sp|n]; cbn [wf_tyb wf_ty]; [trivial|]. intros H. apply Bool.orb_true_iff in H as [H|H]; [left; now apply nbt_sound|].
  apply Bool.andb_true_iff in H as [H1 H2]. right. split; [now apply String.eqb_eq|now apply head_okb_sound].
Qed.

Lemma wf_btokb_sound b : wf_btokb b = true -> wf_btok b.
Proof.
  destruct b as [d|n]; cbn [wf_btokb wf_btok]; [trivial|]. intros H. apply Bool.andb_true_iff in H as [H1 H2].
  split; [now apply nbt_sound|]. destruct n as [|c n]; cbn in *; [exact I|]. now apply Bool.negb_true_iff.
Qed.

Lemma wf_arrb_sound a : wf_arrb a = true -> wf_arr a.
Proof. destruct a as [|b|[b|]]; cbn; trivial; apply wf_btokb_sound. Qed.

Lemma forallb_Forall {A} (p : A -> bool) (P : A -> Prop) l : (forall x, p x = true -> P x) -> forallb p l = true -> Forall P l.
Proof.
  intros H Hl. apply Forall_forall. intros x Hx. apply H. exact (proj1 (forallb_forall _ _) Hl x Hx).
Qed.

Lemma wf_fieldb_sound f : wf_fieldb f = true -> wf_field f.
Proof.
  unfold wf_fieldb, wf_field. intros H. apply Bool.andb_true_iff in H as [H H3]. apply Bool.andb_true_iff in H as [H1 H2].
  repeat split; [now apply wf_tyb_sound|now apply nbt_sound|now apply wf_arrb_sound].
Qed.

Lemma wf_varb_sound m : wf_varb m = true -> wf_var m.
Proof. unfold wf_varb, wf_var. intros H. apply Bool.andb_true_iff in H as [H1 H2]. split; now apply nbt_sound. Qed.

Lemma wf_armb_sound a : wf_armb a = true -> wf_arm a.
Proof.
  destruct a as [|ty n]; cbn; [trivial|]. intros H. apply Bool.andb_true_iff in H as [H1 H2].
  split; [now apply wf_tyb_sound|now apply nbt_sound].
Qed.

Lemma wf_groupb_sound g : wf_groupb g = true -> wf_group g.
Proof.
  unfold wf_groupb, wf_group. intros H. apply Bool.andb_true_iff in H as [H H3]. apply Bool.andb_true_iff in H as [H1 H2].
  split; [exact (forallb_Forall _ _ _ wf_btokb_sound H1)|]. split; [now apply wf_armb_sound|].
  intros Hd. rewrite Hd in H3. destruct (g_labels g); [discriminate|discriminate].
Qed.

Lemma wf_declb_sound d : wf_declb d = true -> wf_decl d.
Proof.
  destruct d as [n v|n ms|n fs|n dt dn gs|ty n a]; cbn [wf_declb wf_decl]; intros H.
  - apply Bool.andb_true_iff in H as [H1 H2]. split; now apply nbt_sound.
  - apply Bool.andb_true_iff in H as [H H3]. apply Bool.andb_true_iff in H as [H1 H2].
    split; [destruct ms; [discriminate|discriminate]|]. split; [now apply nbt_sound|exact (forallb_Forall _ _ _ wf_varb_sound H3)].
  - apply Bool.andb_true_iff in H as [H1 H2]. split; [now apply nbt_sound|exact (forallb_Forall _ _ _ wf_fieldb_sound H2)].
  - apply Bool.andb_true_iff in H as [H H4]. apply Bool.andb_true_iff in H as [H H3]. apply Bool.andb_true_iff in H as [H1 H2].
    repeat split; [now apply nbt_sound|now apply wf_tyb_sound|now apply nbt_sound|exact (forallb_Forall _ _ _ wf_groupb_sound H4)].
  - apply Bool.andb_true_iff in H as [H H3]. apply Bool.andb_true_iff in H as [H1 H2].
    repeat split; [now apply wf_tyb_sound|now apply nbt_sound|now apply wf_arrb_sound].
Qed.

(* ---------- the text theorems ---------- *)

Definition toks_spec (ds : list sdecl) : list token := flat_map toks_decl ds.

(* does `text` read as the declaration list ds, laid out with white space only? *)
Definition reads_as (ds : list sdecl) (text : string) : bool :=
  (forallb wf_declb ds && gappedb (toks_spec ds) text)%bool.

Theorem text_to_tree ds text :
  reads_as ds text = true ->
  exists t, (exists fuel, parse G fuel text = POk [t] "") /\ erase t = tree_of ds.
Proof.
  unfold reads_as. intros H. apply Bool.andb_true_iff in H as [Hwf Hl].
  apply (parse_layout ds text); [exact (forallb_Forall _ _ _ wf_declb_sound Hwf)|now apply gappedb_sound].
Qed.

(* ... whatever fuel the parser is given, as long as it does not run out *)
Theorem text_parse_any_fuel ds text fuel :
  reads_as ds text = true -> parse G fuel text <> PFuel ->
  exists t, parse G fuel text = POk [t] "" /\ erase t = tree_of ds.
Proof.
  intros H Hf. destruct (text_to_tree ds text H) as (t & [f0 P] & E). exists t. split; [|exact E].
  rewrite <- P. apply parse_fuel_irrelevant; [exact Hf|rewrite P; discriminate].
Qed.

(* text to Ast: the Ast of the text is the Ast of the items ds declares *)
Theorem text_to_ast ds text items :
  reads_as ds text = true -> forallb decl_okb ds = true -> emapM item_of ds = EOk items ->
  exists t, (exists fuel, parse G fuel text = POk [t] "") /\ ast_new t = ast_of_root (NRoot (items ++ [NEOF])).
Proof.
  intros H Hok Hit. destruct (text_to_tree ds text H) as (t & P & E). exists t. split; [exact P|].
  now apply (source_tie t ds items).
Qed.

(* layout independence: two white-space layouts of one declaration list have the same Ast *)
Theorem layout_independent ds text1 text2 :
  reads_as ds text1 = true -> reads_as ds text2 = true ->
  exists t1 t2, (exists fuel, parse G fuel text1 = POk [t1] "") /\ (exists fuel, parse G fuel text2 = POk [t2] "") /\
                ast_new t1 = ast_new t2.
Proof.
  intros H1 H2. destruct (text_to_tree ds text1 H1) as (t1 & P1 & E1). destruct (text_to_tree ds text2 H2) as (t2 & P2 & E2).
  exists t1, t2. split; [exact P1|]. split; [exact P2|]. unfold ast_new. rewrite <- (walk_erase t1), <- (walk_erase t2). now rewrite E1, E2.
Qed.

(* ---------- layouts that spell a basic type differently ----------
   The span of a basic type is part of the declaration list (TTBasic sp: "unsigned   int ", the
   white space included), so two layouts of one specification read as declaration lists that
   differ in those spans.  sim_decl relates two declarations that agree on everything but the
   spelling of their types, which must denote the same basic type. *)

Definition sim_ty (a b : tytok) : Prop := bt_of a = bt_of b.
Definition sim_field (f g : sfield) : Prop :=
  sim_ty (f_ty f) (f_ty g) /\ f_name f = f_name g /\ f_arr f = f_arr g /\ f_opt f = f_opt g.
Definition sim_arm (a b : sarm) : Prop :=
  match a, b with
  | ArmVoid, ArmVoid => True
  | ArmData t n, ArmData u m => sim_ty t u /\ n = m
  | _, _ => False
  end.
Definition sim_group (g h : sgroup) : Prop :=
  g_labels g = g_labels h /\ g_default g = g_default h /\ sim_arm (g_arm g) (g_arm h).
Definition sim_decl (d e : sdecl) : Prop :=
  match d, e with
  | KConst n v, KConst n' v' => n = n' /\ v = v'
  | KEnum n ms, KEnum n' ms' => n = n' /\ ms = ms'
  | KStruct n fs, KStruct n' gs => n = n' /\ Forall2 sim_field fs gs
  | KUnion n dt dn gs, KUnion n' dt' dn' hs => n = n' /\ sim_ty dt dt' /\ dn = dn' /\ Forall2 sim_group gs hs
  | KTypedef ty n a, KTypedef ty' n' a' => sim_ty ty ty' /\ n = n' /\ a = a'
  | _, _ => False
  end.

Lemma sim_field_of f g : sim_field f g -> field_of f = field_of g.
Proof. intros (H1 & H2 & H3 & H4). unfold field_of. unfold sim_ty in H1. now rewrite H1, H2, H3, H4. Qed.

Lemma sim_fields fs gs : Forall2 sim_field fs gs -> map field_of fs = map field_of gs.
Proof. induction 1 as [|f g fs gs H _ IH]; [reflexivity|]. cbn. now rewrite (sim_field_of f g H), IH. Qed.

Lemma sim_group_labels g h : sim_group g h -> group_labels g = group_labels h.
Proof. intros (H1 & H2 & _). unfold group_labels. now rewrite H1, H2. Qed.

Lemma sim_cases gs hs : Forall2 sim_group gs hs -> cases_of gs = cases_of hs.
Proof.
  induction 1 as [|g h gs hs H _ IH]; [reflexivity|]. unfold cases_of in *. cbn [flat_map]. rewrite IH. f_equal.
  pose proof (sim_group_labels g h H) as Hl. destruct H as (H1 & H2 & H3).
  destruct (g_arm g) as [|t n], (g_arm h) as [|u m]; cbn in H3; try contradiction; [reflexivity|].
  destruct H3 as [Ht ->]. unfold sim_ty in Ht. now rewrite H2, Hl, Ht.
Qed.

Lemma sim_voids gs hs : Forall2 sim_group gs hs -> voids_of gs = voids_of hs.
Proof.
  induction 1 as [|g h gs hs H _ IH]; [reflexivity|]. unfold voids_of in *. cbn [flat_map]. rewrite IH. f_equal.
  pose proof (sim_group_labels g h H) as Hl. destruct H as (H1 & H2 & H3).
  destruct (g_arm g) as [|t n], (g_arm h) as [|u m]; cbn in H3; try contradiction; [exact Hl|reflexivity].
Qed.

Lemma sim_default gs hs : Forall2 sim_group gs hs -> default_of gs = default_of hs.
Proof.
  intros HF. unfold default_of. generalize (@None union_case). induction HF as [|g h gs hs H _ IH]; intros acc; [reflexivity|].
  cbn [fold_left]. pose proof (sim_group_labels g h H) as Hl. destruct H as (H1 & H2 & H3).
  destruct (g_arm g) as [|t n], (g_arm h) as [|u m]; cbn in H3; try contradiction; [apply IH|].
  destruct H3 as [Ht ->]. unfold sim_ty in Ht. rewrite H2, Hl, Ht. apply IH.
Qed.

Lemma sim_item d e : sim_decl d e -> item_of d = item_of e.
Proof.
  destruct d as [n v|n ms|n fs|n dt dn gs|ty n a], e as [n' v'|n' ms'|n' fs'|n' dt' dn' gs'|ty' n' a']; cbn [sim_decl]; try contradiction.
  - intros [-> ->]. reflexivity.
  - intros [-> ->]. reflexivity.
  - intros [-> H]. cbn [item_of]. now rewrite (sim_fields fs fs' H).
  - intros (-> & Hdt & -> & H). cbn [item_of]. unfold sim_ty in Hdt.
    now rewrite (sim_cases gs gs' H), (sim_voids gs gs' H), (sim_default gs gs' H), Hdt.
  - intros (Hty & -> & ->). cbn [item_of]. unfold sim_ty in Hty. now rewrite Hty.
Qed.

Lemma sim_items ds es : Forall2 sim_decl ds es -> emapM item_of ds = emapM item_of es.
Proof.
  induction 1 as [|d e ds es H _ IH]; [reflexivity|]. cbn [emapM]. now rewrite (sim_item d e H), IH.
Qed.

(* the same, decidably *)
Definition btok_eqb (a b : btok) : bool :=
  match a, b with BVal x, BVal y | BConst x, BConst y => String.eqb x y | _, _ => false end.
Lemma btok_eqb_eq a b : btok_eqb a b = true -> a = b.
Proof. destruct a, b; cbn; try discriminate; intros H; apply String.eqb_eq in H; now subst. Qed.

Definition sarr_eqb (a b : sarr) : bool :=
  match a, b with
  | SNone, SNone => true
  | SFixed x, SFixed y => btok_eqb x y
  | SVar None, SVar None => true
  | SVar (Some x), SVar (Some y) => btok_eqb x y
  | _, _ => false
  end.
Lemma sarr_eqb_eq a b : sarr_eqb a b = true -> a = b.
Proof.
  destruct a as [|x|[x|]], b as [|y|[y|]]; cbn; try discriminate; try reflexivity; intros H; apply btok_eqb_eq in H; now subst.
Qed.

Fixpoint forall2b {A} (p : A -> A -> bool) (l1 l2 : list A) : bool :=
  match l1, l2 with
  | [], [] => true
  | x :: r1, y :: r2 => (p x y && forall2b p r1 r2)%bool
  | _, _ => false
  end.
Lemma forall2b_Forall2 {A} (p : A -> A -> bool) (P : A -> A -> Prop) :
  (forall x y, p x y = true -> P x y) -> forall l1 l2, forall2b p l1 l2 = true -> Forall2 P l1 l2.
Proof.
  intros Hp. induction l1 as [|x r1 IH]; destruct l2 as [|y r2]; cbn; try discriminate; [constructor|].
  intros H. apply Bool.andb_true_iff in H as [H1 H2]. constructor; [now apply Hp|now apply IH].
Qed.
Lemma forall2b_eq {A} (p : A -> A -> bool) : (forall x y, p x y = true -> x = y) -> forall l1 l2, forall2b p l1 l2 = true -> l1 = l2.
Proof.
  intros Hp. induction l1 as [|x r1 IH]; destruct l2 as [|y r2]; cbn; try discriminate; [reflexivity|].
  intros H. apply Bool.andb_true_iff in H as [H1 H2]. now rewrite (Hp x y H1), (IH r2 H2).
Qed.

Definition sim_tyb (a b : tytok) : bool := basic_type_eqb (bt_of a) (bt_of b).
Lemma sim_tyb_sound a b : sim_tyb a b = true -> sim_ty a b.
Proof. apply basic_type_eqb_eq. Qed.

Definition sim_fieldb (f g : sfield) : bool :=
  (sim_tyb (f_ty f) (f_ty g) && String.eqb (f_name f) (f_name g) && sarr_eqb (f_arr f) (f_arr g) && Bool.eqb (f_opt f) (f_opt g))%bool.
Lemma sim_fieldb_sound f g : sim_fieldb f g = true -> sim_field f g.
Proof.
  unfold sim_fieldb, sim_field. intros H. apply Bool.andb_true_iff in H as [H H4]. apply Bool.andb_true_iff in H as [H H3].
  apply Bool.andb_true_iff in H as [H1 H2].
  repeat split; [now apply sim_tyb_sound|now apply String.eqb_eq|now apply sarr_eqb_eq|now apply Bool.eqb_prop].
Qed.

Definition sim_armb (a b : sarm) : bool :=
  match a, b with
  | ArmVoid, ArmVoid => true
  | ArmData t n, ArmData u m => (sim_tyb t u && String.eqb n m)%bool
  | _, _ => false
  end.
Lemma sim_armb_sound a b : sim_armb a b = true -> sim_arm a b.
Proof.
  destruct a as [|t n], b as [|u m]; cbn; try discriminate; [trivial|]. intros H. apply Bool.andb_true_iff in H as [H1 H2].
  split; [now apply sim_tyb_sound|now apply String.eqb_eq].
Qed.

Definition sim_groupb (g h : sgroup) : bool :=
  (forall2b btok_eqb (g_labels g) (g_labels h) && Bool.eqb (g_default g) (g_default h) && sim_armb (g_arm g) (g_arm h))%bool.
Lemma sim_groupb_sound g h : sim_groupb g h = true -> sim_group g h.
Proof.
  unfold sim_groupb, sim_group. intros H. apply Bool.andb_true_iff in H as [H H3]. apply Bool.andb_true_iff in H as [H1 H2].
  repeat split; [exact (forall2b_eq _ btok_eqb_eq _ _ H1)|now apply Bool.eqb_prop|now apply sim_armb_sound].
Qed.

Definition pair_eqb (a b : string * string) : bool := (String.eqb (fst a) (fst b) && String.eqb (snd a) (snd b))%bool.
Lemma pair_eqb_eq a b : pair_eqb a b = true -> a = b.
Proof.
  destruct a, b. unfold pair_eqb. cbn. intros H. apply Bool.andb_true_iff in H as [H1 H2].
  apply String.eqb_eq in H1, H2. now subst.
Qed.

Definition sim_declb (d e : sdecl) : bool :=
  match d, e with
  | KConst n v, KConst n' v' => (String.eqb n n' && String.eqb v v')%bool
  | KEnum n ms, KEnum n' ms' => (String.eqb n n' && forall2b pair_eqb ms ms')%bool
  | KStruct n fs, KStruct n' gs => (String.eqb n n' && forall2b sim_fieldb fs gs)%bool
  | KUnion n dt dn gs, KUnion n' dt' dn' hs =>
    (String.eqb n n' && sim_tyb dt dt' && String.eqb dn dn' && forall2b sim_groupb gs hs)%bool
  | KTypedef ty n a, KTypedef ty' n' a' => (sim_tyb ty ty' && String.eqb n n' && sarr_eqb a a')%bool
  | _, _ => false
  end.

Lemma sim_declb_sound d e : sim_declb d e = true -> sim_decl d e.
Proof.
  destruct d as [n v|n ms|n fs|n dt dn gs|ty n a], e as [n' v'|n' ms'|n' fs'|n' dt' dn' gs'|ty' n' a'];
    cbn [sim_declb sim_decl]; try discriminate; intros H.
  - apply Bool.andb_true_iff in H as [H1 H2]. split; now apply String.eqb_eq.
  - apply Bool.andb_true_iff in H as [H1 H2]. split; [now apply String.eqb_eq|exact (forall2b_eq _ pair_eqb_eq _ _ H2)].
  - apply Bool.andb_true_iff in H as [H1 H2]. split; [now apply String.eqb_eq|exact (forall2b_Forall2 _ _ sim_fieldb_sound _ _ H2)].
  - apply Bool.andb_true_iff in H as [H H4]. apply Bool.andb_true_iff in H as [H H3]. apply Bool.andb_true_iff in H as [H1 H2].
    repeat split; [now apply String.eqb_eq|now apply sim_tyb_sound|now apply String.eqb_eq|exact (forall2b_Forall2 _ _ sim_groupb_sound _ _ H4)].
  - apply Bool.andb_true_iff in H as [H H3]. apply Bool.andb_true_iff in H as [H1 H2].
    repeat split; [now apply sim_tyb_sound|now apply String.eqb_eq|now apply sarr_eqb_eq].
Qed.

Definition same_declarations (ds es : list sdecl) : bool := forall2b sim_declb ds es.

(* Layout independence in full: two texts that read as declaration lists which agree up to the
   spelling of their basic types (white space inside `unsigned   int`, after a keyword) have the
   same Ast -- the Ast of the declared items. *)
Theorem layout_independent_full ds1 ds2 text1 text2 items :
  reads_as ds1 text1 = true -> reads_as ds2 text2 = true -> same_declarations ds1 ds2 = true ->
  forallb decl_okb ds1 = true -> forallb decl_okb ds2 = true -> emapM item_of ds1 = EOk items ->
  exists t1 t2, (exists fuel, parse G fuel text1 = POk [t1] "") /\ (exists fuel, parse G fuel text2 = POk [t2] "") /\
                ast_new t1 = ast_of_root (NRoot (items ++ [NEOF])) /\ ast_new t2 = ast_new t1.
Proof.
  intros R1 R2 Hs O1 O2 Hit.
  assert (Hit2 : emapM item_of ds2 = EOk items).
  { rewrite <- Hit. symmetry. apply sim_items. exact (forall2b_Forall2 _ _ sim_declb_sound _ _ Hs). }
  destruct (text_to_ast ds1 text1 items R1 O1 Hit) as (t1 & P1 & A1).
  destruct (text_to_ast ds2 text2 items R2 O2 Hit2) as (t2 & P2 & A2).
  exists t1, t2. split; [exact P1|]. split; [exact P2|]. split; [exact A1|now rewrite A1, A2].
Qed.
