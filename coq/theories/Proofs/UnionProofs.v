(* C01/C06: the match patterns the emitter writes for the labels of a union select exactly
   the arm the specification assigns to each discriminant value (hypothesis Hsel of
   RoundTrip.v), under syntactic conditions on the labels. *)
From XdrProofs Require Export RoundTrip.
Open Scope N_scope.
Open Scope list_scope.

(* ---------- literals: the reference reading = rustc's reading ---------- *)

Lemma lit_hex_eq r : forall acc any z,
  (fix hex (s : string) (acc : N) (any : bool) {struct s} : option Z :=
     match s with
     | EmptyString => if any then Some (Z.of_N acc) else None
     | String c r =>
       let n := Ascii.nat_of_ascii c in
       let d := if (Nat.leb 48 n && Nat.leb n 57)%bool then Some (N.of_nat (n - 48))
                else if (Nat.leb 97 n && Nat.leb n 102)%bool then Some (N.of_nat (n - 87))
                else if (Nat.leb 65 n && Nat.leb n 70)%bool then Some (N.of_nat (n - 55))
                else None in
       match d with Some d => hex r (acc * 16 + d) true | None => None end
     end) r acc any = Some z ->
  (any = true \/ r <> EmptyString) /\ hex_value r acc = Some (Z.to_N z) /\ (0 <= z)%Z.
Proof.
  induction r as [|c r IH]; intros acc any z H.
  - destruct any; [|discriminate]. inversion H; subst. split; [now left|]. cbn [hex_value].
    rewrite N2Z.id. split; [reflexivity|lia].
  - cbn [hex_value]. unfold hex_digit. cbv zeta in H |- *.
    destruct ((Nat.leb 48 (Ascii.nat_of_ascii c) && Nat.leb (Ascii.nat_of_ascii c) 57)%bool).
    + apply IH in H as [_ [H1 H2]]. split; [right; discriminate|]. split; assumption.
    + destruct ((Nat.leb 97 (Ascii.nat_of_ascii c) && Nat.leb (Ascii.nat_of_ascii c) 102)%bool).
      * apply IH in H as [_ [H1 H2]]. split; [right; discriminate|]. split; assumption.
      * destruct ((Nat.leb 65 (Ascii.nat_of_ascii c) && Nat.leb (Ascii.nat_of_ascii c) 70)%bool); [|discriminate].
        apply IH in H as [_ [H1 H2]]. split; [right; discriminate|]. split; assumption.
Qed.

Lemma lit_value_int_literal s z : lit_value s = Some z -> int_literal s = Some z.
Proof.
  unfold lit_value. destruct s as [|c r]; [discriminate|].
  destruct c as [[] [] [] [] [] [] [] []];
    try (intros H; destruct (parse_u32 _) eqn:E; [|discriminate]; inversion H; subst;
         now apply int_literal_decimal).
  (* c = "0" *)
  destruct r as [|c2 r2].
  - intros H. destruct (parse_u32 _) eqn:E; [|discriminate]. inversion H; subst. now apply int_literal_decimal.
  - destruct c2 as [[] [] [] [] [] [] [] []];
      try (intros H; destruct (parse_u32 _) eqn:E; [|discriminate]; inversion H; subst;
           now apply int_literal_decimal).
    (* "0x..." *)
    intros H. apply lit_hex_eq in H as [[C|Hne] [Hh Hz]]; [discriminate|].
    unfold int_literal. destruct r2; [contradiction|]. rewrite Hh. cbn [option_map]. f_equal. lia.
Qed.

(* no escaped word is a numeral (checked against the regenerated tables) *)
Lemma keywords_not_numerals :
  forallb (fun k => match int_literal k with None => true | Some _ => false end)
          (safe_keywords ++ safe_lowercase) = true.
Proof. vm_compute. reflexivity. Qed.

Lemma safe_name_numeral s z : int_literal s = Some z -> safe_name s = s.
Proof.
  intros H. apply safe_name_other.
  - destruct (mem s safe_keywords) eqn:E; [|reflexivity]. apply mem_In in E.
    pose proof (proj1 (forallb_forall _ _) keywords_not_numerals s (in_or_app _ _ _ (or_introl E))) as X.
    cbv beta in X. rewrite H in X. discriminate.
  - destruct (mem s safe_lowercase) eqn:E; [|reflexivity]. apply mem_In in E.
    pose proof (proj1 (forallb_forall _ _) keywords_not_numerals s (in_or_app _ _ _ (or_intror E))) as X.
    cbv beta in X. rewrite H in X. discriminate.
Qed.

Lemma safe_name_true_false :
  safe_name "TRUE" = "true"%string /\ safe_name "FALSE" = "false"%string.
Proof. split; vm_compute; reflexivity. Qed.

(* ---------- conditions on the labels of a union ---------- *)

Definition int_disc (A : ast) (u : union_t) : Prop := disc_type A u = U32 \/ disc_type A u = I32.

Definition label_ok (A : ast) (u : union_t) (l : string) : Prop :=
  match get_const A l with
  | Some (ConstValue v) => int_disc A u /\ exists z, lit_value v = Some z
  | Some (EnumValue e m) => (un_sw_type u = Ident e \/ un_sw_type u = U32 \/ un_sw_type u = I32) /\
                            exists en vv, get_type A e = Some (TEnum en) /\ In (m, vv) (en_variants en)
  | None => (disc_type A u = TBool /\ (l = "TRUE" \/ l = "FALSE")%string) \/
            (int_disc A u /\ exists z, lit_value l = Some z)
  end.

Definition union_ok (A : ast) (u : union_t) : Prop :=
  (forall c l, In c (un_cases u) -> In l (uc_values c) -> label_ok A u l) /\
  (forall l, In l (un_void u) -> l <> "default"%string -> label_ok A u l) /\
  (forall c, un_default u = Some c -> ~ In "default"%string (un_void u)).

Record sup (A : ast) : Prop := {
  sup_c : sup_core A;
  sup_unions : forall n u, get_type A n = Some (TUnion u) -> union_ok A u
}.

(* ---------- the emitted enum declarations ---------- *)

Definition enum_texts (e : enum_t) : list (string * string) :=
  map (fun v => (fst v, match snd v with VNum z => string_of_Z z | VStr s => s end)) (en_variants e).

Lemma assoc_map_first {X Y} (g : X -> Y) m (l : list (string * X)) y :
  In (m, y) l -> exists y', assoc m (map (fun v => (fst v, g (snd v))) l) = Some (g y') /\ In (m, y') l.
Proof.
  induction l as [|[k x] r IH]; intros H; [contradiction|]. cbn [map assoc fst snd].
  destruct (String.eqb_spec m k) as [->|N].
  - exists x. split; [reflexivity|now left].
  - destruct H as [E|H]; [inversion E; congruence|]. destruct (IH H) as [y' [H1 H2]].
    exists y'. split; [exact H1|now right].
Qed.

Section Sel.
  Variable A : ast.
  Variable md : module_ir.
  Hypothesis Hgen : gen A = EOk md.
  Hypothesis Hsup : sup A.

  Let Hcore : sup_core A := sup_c A Hsup.
  Let Hwf : wf_size A := sup_size A Hcore.
  Let Hkeys : keys_ok A := proj1 Hwf.

  Lemma gen_types :
    m_types md = flat_map (fun kv => match emit_type A (snd kv) with Some d => [d] | None => [] end) (types A).
  Proof.
    unfold gen in Hgen. destruct (emit_from A); cbn [ebind] in Hgen; try discriminate.
    inversion Hgen. reflexivity.
  Qed.

  Lemma find_enum_decl e en :
    get_type A e = Some (TEnum en) ->
    find (fun d => match d with DEnum n _ => String.eqb n e | _ => false end) (m_types md)
    = Some (DEnum e (enum_texts en)).
  Proof.
    rewrite gen_types. unfold get_type. pose proof Hkeys as K. unfold keys_ok in K.
    induction (types A) as [|[k t] r IH]; intros H; cbn [assoc] in H; [discriminate|].
    cbn [flat_map snd].
    destruct (String.eqb_spec e k) as [->|N].
    - inversion H; subst t. cbn [emit_type app find].
      pose proof (K k (TEnum en) (or_introl eq_refl)) as Kn. cbn in Kn. rewrite Kn, String.eqb_refl.
      reflexivity.
    - assert (Kr : forall k0 t0, In (k0, t0) r -> ast_type_name t0 = k0) by (intros; apply K; now right).
      pose proof (K k t (or_introl eq_refl)) as Kt.
      destruct (emit_type A t) as [d|] eqn:Ed; cbn [app]; [|now apply IH].
      cbn [find].
      assert (Hd : match d with DEnum n _ => String.eqb n e | _ => false end = false).
      { destruct t as [s|u|e0|td]; cbn [emit_type] in Ed.
        - inversion Ed; reflexivity.
        - inversion Ed; reflexivity.
        - inversion Ed; subst d. cbn in Kt. rewrite Kt. apply String.eqb_neq. congruence.
        - destruct (basic_type_eqb _ _); [discriminate|].
          destruct (is_opaque (td_target td)); [inversion Ed; reflexivity|].
          destruct (is_generic A _); inversion Ed; reflexivity. }
      rewrite Hd. now apply IH.
  Qed.

  Lemma enum_value_member e en m vv :
    get_type A e = Some (TEnum en) -> In (m, vv) (en_variants en) ->
    exists x, enum_value md e m = Some x.
  Proof.
    intros Hget Hin. unfold enum_value. rewrite (find_enum_decl e en Hget).
    destruct (assoc_map_first (fun v => match v with VNum z => string_of_Z z | VStr s => s end) m
                              (en_variants en) vv Hin) as [vv' [Ha Hin']].
    unfold enum_texts. rewrite Ha.
    destruct (proj1 (sup_enum A Hcore e en Hget) (m, vv') Hin') as [x [Hx Hx0]]. cbn [snd] in Hx. subst vv'.
    rewrite (int_literal_string_of_Z x ltac:(lia)). eauto.
  Qed.

  Lemma assoc_map_snd {X Y} (g : X -> Y) m (l : list (string * X)) :
    assoc m (map (fun v => (fst v, g (snd v))) l) = option_map g (assoc m l).
  Proof. induction l as [|[k x] r IH]; [reflexivity|]. cbn [map assoc fst snd]. destruct (String.eqb m k); [reflexivity|exact IH]. Qed.

  (* the value the emitted enum gives a member is the value of the first member of that name *)
  Lemma enum_value_val e en m vv :
    get_type A e = Some (TEnum en) -> In (m, vv) (en_variants en) ->
    exists x, enum_value md e m = Some x /\ enum_member_val A e m = Some x /\ (0 <= x < 2147483648)%Z.
  Proof.
    intros Hget Hin. unfold enum_value, enum_member_val. rewrite (find_enum_decl e en Hget), Hget.
    unfold enum_texts.
    rewrite (assoc_map_snd (fun sv => match sv with VNum z => string_of_Z z | VStr s => s end) m (en_variants en)).
    destruct (assoc m (en_variants en)) as [v0|] eqn:Ea.
    - apply assoc_In in Ea.
      destruct (proj1 (sup_enum A Hcore e en Hget) (m, v0) Ea) as [x [Hx Hr]]. cbn [snd] in Hx. subst v0.
      cbn [option_map]. rewrite (int_literal_string_of_Z x ltac:(lia)). exists x. repeat split; lia.
    - exfalso. clear - Hin Ea. induction (en_variants en) as [|[k v] r IH]; [contradiction|].
      cbn [assoc] in Ea. destruct (String.eqb_spec m k) as [->|N]; [discriminate|].
      destruct Hin as [E|Hin]; [inversion E; congruence|now apply IH].
  Qed.

  (* ---------- a label's pattern matches exactly the values the label stands for ---------- *)

  Lemma label_agree u l d dd :
    label_ok A u l -> disc_ok A u -> TypedB A (disc_type A u) d -> dval_of (rv 0 0 d) = Some dd ->
    matches md (label_matcher A (un_sw_type u) l) dd = Some (label_selects A l d).
  Proof.
    intros Hl Hdisc Td Hdd. unfold label_ok in Hl. unfold label_matcher, label_selects.
    destruct (get_const A l) as [[v|e m]|] eqn:Ec.
    - (* a named constant: the pattern is the text of its value *)
      destruct Hl as [Hint [z Hz]]. pose proof (lit_value_int_literal v z Hz) as Hi.
      rewrite (safe_name_numeral v z Hi). rewrite Hz. cbn [matches]. unfold classify. rewrite Hi.
      destruct Hint as [E|E]; rewrite E in Td; inversion Td; subst; cbn in Hdd; inversion Hdd; reflexivity.
    - (* an enum member *)
      destruct Hl as [Hsw [en [vv [Hen Hin]]]]. destruct Hsw as [Hsw|Hsw].
      + assert (Hdt : disc_type A u = Ident e) by (unfold disc_type; now rewrite Hsw, Hen).
        rewrite Hdt in Td. inversion Td as [| | | | | | | | |? ? Tn]; subst.
        inversion Tn; subst; try congruence. cbn in Hdd. inversion Hdd; subst dd.
        rewrite Hsw. cbn [matches].
        match goal with Hen' : get_type A ?e' = Some (TEnum en) |- _ =>
          rewrite (sup_keys_safe A Hcore e' _ Hen'); rewrite !String.eqb_refl; cbn [andb];
          destruct (enum_value_member e' en m vv Hen' Hin) as [x Hx]; rewrite Hx; reflexivity
        end.
      + (* on an integer discriminant: `c if c == E::M as u32` *)
        pose proof (enum_value_val e en m vv Hen Hin) as [x [Hx [Hv Hr]]].
        assert (Hw32 : wrap_u32 x = x) by (unfold wrap_u32; rewrite Z.mod_small; lia).
        assert (Hwi : wrap_i32 x = x).
        { unfold wrap_i32, to_i32. rewrite Z.mod_small by lia.
          destruct (N.ltb_spec (Z.to_N x) 2147483648); lia. }
        destruct Hsw as [Hsw|Hsw]; rewrite Hsw in *;
          (assert (Hdt : disc_type A u = un_sw_type u) by (unfold disc_type; rewrite Hsw; reflexivity));
          rewrite Hdt, Hsw in Td; inversion Td; subst; cbn in Hdd; inversion Hdd; subst dd;
          cbn [matches as_safe_string bt_as_str]; rewrite Hx; cbn [option_map]; rewrite Hv.
        * cbn. now rewrite Hw32.
        * cbn. now rewrite Hwi.
    - destruct Hl as [[Hb Hl]|[Hint [z Hz]]].
      + (* TRUE / FALSE *)
        rewrite Hb in Td. inversion Td; subst. cbn in Hdd. inversion Hdd; subst dd.
        destruct safe_name_true_false as [St Sf].
        destruct Hl as [->| ->]; [rewrite St|rewrite Sf]; destruct b; reflexivity.
      + pose proof (lit_value_int_literal l z Hz) as Hi.
        rewrite (safe_name_numeral l z Hi). cbn [matches]. unfold classify. rewrite Hi.
        destruct Hint as [E|E]; rewrite E in Td; inversion Td; subst; cbn in Hdd; inversion Hdd; rewrite Hz; reflexivity.
  Qed.

  (* ---------- from labels to the emitted arm list ---------- *)

  Lemma find_split {X} (p : X -> bool) (l : list X) :
    match find p l with
    | Some x => exists p1 p2, l = p1 ++ x :: p2 /\ Forall (fun y => p y = false) p1 /\ p x = true
    | None => Forall (fun y => p y = false) l
    end.
  Proof.
    induction l as [|y r IH]; cbn [find]; [constructor|].
    destruct (p y) eqn:E.
    - exists [], r. split; [reflexivity|]. split; [constructor|exact E].
    - destruct (find p r) as [x|].
      + destruct IH as [p1 [p2 [-> [H1 H2]]]]. exists (y :: p1), p2. split; [reflexivity|].
        split; [constructor; assumption|exact H2].
      + constructor; assumption.
  Qed.

  Definition nomatch (dd : dval) (a : matcher * string * option dexp) : Prop :=
    matches md (fst (fst a)) dd = Some false.

  Definition data_entry (u : union_t) (e : dexp) (l : string) : matcher * string * option dexp :=
    (label_matcher A (un_sw_type u) l, variant_name l, Some e).

  Lemma row_shape u c row :
    emapM (fun l => ebind (decode_array A (uc_value c) UseAlias)
                          (fun e => EOk (label_matcher A (un_sw_type u) l, variant_name l, Some e)))
          (uc_values c) = EOk row ->
    (uc_values c = [] /\ row = []) \/
    exists e, decode_array A (uc_value c) UseAlias = EOk e /\ row = map (data_entry u e) (uc_values c).
  Proof.
    destruct (decode_array A (uc_value c) UseAlias) as [e| |] eqn:E.
    - intros H. right. exists e. split; [reflexivity|]. revert row H.
      induction (uc_values c) as [|l r IH]; intros row H; cbn [emapM ebind map] in *.
      + inversion H. reflexivity.
      + destruct (emapM _ r) as [ys| |]; cbn [ebind] in H; try discriminate.
        inversion H. f_equal. now apply IH.
    - destruct (uc_values c); cbn [emapM ebind]; [intros H; inversion H; now left|discriminate].
    - destruct (uc_values c); cbn [emapM ebind]; [intros H; inversion H; now left|discriminate].
  Qed.

  Section OneUnion.
    Variable u : union_t.
    Variable d : xval.
    Variable dd : dval.
    Hypothesis Hok : union_ok A u.
    Hypothesis Hdisc : disc_ok A u.
    Hypothesis Td : TypedB A (disc_type A u) d.
    Hypothesis Hdd : dval_of (rv 0 0 d) = Some dd.

    Let sel (l : string) : bool := label_selects A l d.

    Lemma agree_false l : label_ok A u l -> sel l = false -> forall e, nomatch dd (data_entry u e l).
    Proof.
      intros Hl Hs e. unfold nomatch, data_entry. cbn [fst].
      rewrite (label_agree u l d dd Hl Hdisc Td Hdd). unfold sel in Hs. now rewrite Hs.
    Qed.

    Lemma data_sel cases : forall rows,
      (forall c l, In c cases -> In l (uc_values c) -> label_ok A u l) ->
      emapM (fun c => emapM (fun l => ebind (decode_array A (uc_value c) UseAlias)
                                            (fun e => EOk (label_matcher A (un_sw_type u) l, variant_name l, Some e)))
                            (uc_values c)) cases = EOk rows ->
      match find (fun c => existsb sel (uc_values c)) cases with
      | Some c => exists l e pre post,
                  find sel (uc_values c) = Some l /\
                  concat rows = pre ++ data_entry u e l :: post /\
                  Forall (nomatch dd) pre /\ matches md (label_matcher A (un_sw_type u) l) dd = Some true /\
                  decode_array A (uc_value c) UseAlias = EOk e
      | None => Forall (nomatch dd) (concat rows)
      end.
    Proof.
      induction cases as [|c cases IH]; intros rows Hlab Hm; cbn [emapM] in Hm.
      - inversion Hm. cbn. constructor.
      - destruct (emapM _ (uc_values c)) as [row| |] eqn:Erow; cbn [ebind] in Hm; try discriminate.
        destruct (emapM _ cases) as [rows'| |] eqn:Erows; cbn [ebind] in Hm; try discriminate.
        inversion Hm; subst rows. clear Hm. cbn [find concat].
        assert (Hlab' : forall c0 l, In c0 cases -> In l (uc_values c0) -> label_ok A u l)
          by (intros; eapply Hlab; [right|]; eassumption).
        assert (Hlc : forall l, In l (uc_values c) -> label_ok A u l)
          by (intros; eapply Hlab; [left; reflexivity|assumption]).
        pose proof (find_split sel (uc_values c)) as Hfs.
        destruct (existsb sel (uc_values c)) eqn:Eex.
        + (* this case has the selecting label *)
          destruct (find sel (uc_values c)) as [l|] eqn:Efind.
          * destruct Hfs as [p1 [p2 [Eq [Hp1 Hl]]]].
            destruct (row_shape u c row Erow) as [[Hnil _]|[e [He Hrow]]].
            { rewrite Hnil in Eq. destruct p1; discriminate. }
            exists l, e, (map (data_entry u e) p1), (map (data_entry u e) p2 ++ concat rows').
            split; [reflexivity|]. split.
            { rewrite Hrow, Eq, map_app. cbn [map]. rewrite <- app_assoc. reflexivity. }
            split.
            { apply Forall_forall. intros x Hx. apply in_map_iff in Hx as [l' [<- Hl']].
              apply agree_false; [apply Hlc; rewrite Eq; apply in_or_app; now left|].
              exact (proj1 (Forall_forall _ _) Hp1 l' Hl'). }
            split; [|exact He].
            rewrite (label_agree u l d dd (Hlc l ltac:(rewrite Eq; apply in_or_app; right; now left)) Hdisc Td Hdd).
            unfold sel in Hl. now rewrite Hl.
          * exfalso. apply existsb_exists in Eex as [x [Hx1 Hx2]].
            pose proof (proj1 (Forall_forall _ _) Hfs x Hx1). congruence.
        + (* no label of this case selects d *)
          assert (Hrow : Forall (nomatch dd) row).
          { destruct (row_shape u c row Erow) as [[_ ->]|[e [_ ->]]]; [constructor|].
            apply Forall_forall. intros x Hx. apply in_map_iff in Hx as [l' [<- Hl']].
            apply agree_false; [now apply Hlc|].
            destruct (sel l') eqn:Es; [|reflexivity].
            assert (existsb sel (uc_values c) = true) by (apply existsb_exists; eauto). congruence. }
          specialize (IH rows' Hlab' eq_refl).
          destruct (find (fun c0 => existsb sel (uc_values c0)) cases) as [c'|].
          * destruct IH as [l [e [pre [post [H1 [H2 [H3 [H4 H5]]]]]]]].
            exists l, e, (row ++ pre), post. split; [exact H1|]. split; [rewrite H2, <- app_assoc; reflexivity|].
            split; [apply Forall_app; split; assumption|]. split; assumption.
          * apply Forall_app. split; assumption.
    Qed.

    Definition void_entry (l : string) : matcher * string * option dexp :=
      (label_matcher A (un_sw_type u) l, variant_name l, @None dexp).

    Let nd (l : string) : bool := negb (String.eqb l "default").

    Lemma void_nomatch l : In l (un_void u) -> l <> "default"%string -> sel l = false -> nomatch dd (void_entry l).
    Proof.
      intros Hin Hnd Hs. unfold nomatch, void_entry. cbn [fst].
      rewrite (label_agree u l d dd (proj1 (proj2 Hok) l Hin Hnd) Hdisc Td Hdd). unfold sel in Hs. now rewrite Hs.
    Qed.

    Lemma find_filter {X} (p q : X -> bool) L : find (fun x => (p x && q x)%bool) L = find q (filter p L).
    Proof.
      induction L as [|x L IH]; [reflexivity|]. cbn [find filter].
      destruct (p x); cbn [andb find]; [destruct (q x); [reflexivity|exact IH]|exact IH].
    Qed.

    Lemma voids_nomatch L :
      (forall l, In l L -> In l (un_void u) /\ l <> "default"%string /\ sel l = false) ->
      Forall (nomatch dd) (map void_entry L).
    Proof.
      intros H. apply Forall_forall. intros x Hx. apply in_map_iff in Hx as [l [<- Hl]].
      destruct (H l Hl) as [H1 [H2 H3]]. now apply void_nomatch.
    Qed.

    Lemma in_voids l : In l (filter nd (un_void u)) -> In l (un_void u) /\ l <> "default"%string.
    Proof.
      intros H. apply filter_In in H as [H1 H2]. split; [exact H1|].
      unfold nd in H2. apply Bool.negb_true_iff, String.eqb_neq in H2. exact H2.
    Qed.

    (* Hsel for this union *)
    Lemma sel_union dv disc arms fb variant ty :
      emit_from_body A (TUnion u) = EOk (BUnion dv disc arms fb) ->
      arm_for A u d = Some (variant, ty) ->
      exists payload, selects md arms fb dd variant payload /\
                      match ty with
                      | Some t => exists e, payload = Some e /\ decode_array A t UseAlias = EOk e
                      | None => payload = None
                      end.
    Proof.
      intros Hb Harm. cbn [emit_from_body] in Hb.
      destruct (decode_basic A (un_sw_type u) UseTarget) as [disc'| |]; cbn [ebind] in Hb; try discriminate.
      destruct (emapM _ (un_cases u)) as [rows| |] eqn:Erows; cbn [ebind] in Hb; try discriminate.
      destruct (match un_default u with Some d0 => _ | None => _ end) as [fb'| |] eqn:Efb; cbn [ebind] in Hb; try discriminate.
      inversion Hb; subst dv disc arms fb. clear Hb.
      fold nd. fold void_entry.
      change (map (fun l => (label_matcher A (un_sw_type u) l, variant_name l, @None dexp)))
        with (map void_entry).
      destruct Hok as [Hlab [Hvoid Hdef]].
      pose proof (data_sel (un_cases u) rows Hlab Erows) as Hdata.
      unfold arm_for in Harm. fold sel in Harm.
      change (fun c => existsb (fun l => label_selects A l d) (uc_values c))
        with (fun c => existsb sel (uc_values c)) in Harm.
      destruct (find (fun c => existsb sel (uc_values c)) (un_cases u)) as [c|].
      - (* a data arm *)
        destruct Hdata as [l [e [pre [post [Hfind [Hcat [Hpre [Hm He]]]]]]]].
        change (fun l0 => label_selects A l0 d) with sel in Harm. rewrite Hfind in Harm.
        inversion Harm; subst variant ty. exists (Some e). split; [|eauto].
        left. eexists pre, (label_matcher A (un_sw_type u) l), _.
        split; [|split; assumption].
        rewrite Hcat, documented_variant_eq. unfold data_entry. rewrite <- app_assoc. reflexivity.
      - (* no data arm: void labels, then default *)
        change (fun l0 => (negb (l0 =? "default")%string && label_selects A l0 d)%bool)
          with (fun l0 => (nd l0 && sel l0)%bool) in Harm.
        rewrite find_filter in Harm.
        pose proof (find_split sel (filter nd (un_void u))) as Hv.
        destruct (find sel (filter nd (un_void u))) as [l|].
        + destruct Hv as [p1 [p2 [Eq [Hp1 Hl]]]].
          assert (Hinl : In l (filter nd (un_void u))) by (rewrite Eq; apply in_or_app; right; now left).
          destruct (in_voids l Hinl) as [Hl0 Hl1].
          inversion Harm; subst variant ty. exists None. split; [|reflexivity].
          left. eexists (concat rows ++ map void_entry p1), (label_matcher A (un_sw_type u) l), _.
          split.
          { rewrite Eq, map_app. cbn [map]. unfold void_entry at 2.
            rewrite <- !app_assoc. cbn [app]. reflexivity. }
          split.
          { apply Forall_app. split; [exact Hdata|]. apply voids_nomatch. intros l' Hl'.
            assert (Hin' : In l' (filter nd (un_void u))) by (rewrite Eq; apply in_or_app; now left).
            destruct (in_voids l' Hin') as [Ha Hb]. split; [exact Ha|]. split; [exact Hb|].
            exact (proj1 (Forall_forall _ _) Hp1 l' Hl'). }
          rewrite (label_agree u l d dd (Hvoid l Hl0 Hl1) Hdisc Td Hdd).
          unfold sel in Hl. now rewrite Hl.
        + (* default *)
          assert (Hall : Forall (nomatch dd) (map void_entry (filter nd (un_void u)))).
          { apply voids_nomatch. intros l' Hl'. destruct (in_voids l' Hl') as [Ha Hb].
            split; [exact Ha|]. split; [exact Hb|]. exact (proj1 (Forall_forall _ _) Hv l' Hl'). }
          destruct (un_default u) as [dc|] eqn:Edc.
          * inversion Harm; subst variant ty.
            destruct (decode_array A (uc_value dc) UseAlias) as [e| |] eqn:Ee; cbn [ebind] in Efb; try discriminate.
            inversion Efb; subst fb'. exists (Some e). split; [|eauto].
            right. split; [|split; [reflexivity|eauto]].
            assert (Em : mem "default" (un_void u) = false).
            { destruct (mem "default" (un_void u)) eqn:Em; [|reflexivity].
              apply mem_In in Em. exfalso. exact (Hdef dc eq_refl Em). }
            rewrite Em, app_nil_r.
            apply Forall_app. split; [exact Hdata|exact Hall].
          * destruct (mem "default" (un_void u)) eqn:Em; [|discriminate].
            inversion Harm; subst variant ty. exists None. split; [|reflexivity].
            left. exists (concat rows ++ map void_entry (filter nd (un_void u))), MWild, [].
            split; [rewrite <- app_assoc; reflexivity|].
            split; [|reflexivity].
            apply Forall_app. split; [exact Hdata|exact Hall].
    Qed.
  End OneUnion.

  (* ---------- C01, closed ---------- *)

  Theorem roundtrip_closed n x fuel a o rest l :
    TypedN A n x -> (need x <= fuel)%nat -> step_exact x = true ->
    exists l', dec md fuel n (mk a o (enc x ++ rest) l)
               = Ok (rv a o x) (mk a (o + len (enc x)) rest l').
  Proof.
    apply (roundtrip A md Hgen Hcore).
    intros n0 u dv disc arms fb Hget Hb d variant ty dd Td Harm Hdd.
    eapply sel_union; try eassumption.
    - exact (sup_unions A Hsup n0 u Hget).
    - exact (proj1 (proj2 Hwf n0 _ Hget)).
  Qed.
End Sel.
