(* C04: for every specification satisfying sup4 (sup + every referenced type is declared),
   every declared type, EVERY byte string and every fuel: the emitted decoder never panics --
   no Buf::advance / Bytes::slice / Buf::get_* out of bounds, and never reaches a state in which
   the model has no meaning (Stuck) -- and what it returns on success has the shape of the
   declared type.  (Fuel exhaustion, i.e. termination, is not covered here.) *)
From XdrProofs Require Export Shaped.
Open Scope N_scope.
Open Scope list_scope.

Definition bok (s : st) : Prop := bytes_ok (s_rem s).

Definition safe {X} (P : X -> Prop) (m : M X) : Prop :=
  forall s, bok s -> match m s with
                     | Ok v s' => P v /\ bok s'
                     | Panic _ => False
                     | _ => True
                     end.

Lemma safe_ret {X} (P : X -> Prop) x : P x -> safe P (ret x).
Proof. intros H s Hs. cbn. split; assumption. Qed.
Lemma safe_fail {X} (P : X -> Prop) e : safe P (fail e).
Proof. intros s _. exact I. Qed.

Lemma safe_bind {X Y} (P : X -> Prop) (Q : Y -> Prop) m k :
  safe P m -> (forall a, P a -> safe Q (k a)) -> safe Q (bind m k).
Proof.
  intros Hm Hk s Hs. unfold bind. specialize (Hm s Hs). destruct (m s) as [a s1|e s1|p|]; try exact I.
  - destruct Hm as [Pa Hs1]. exact (Hk a Pa s1 Hs1).
  - contradiction.
Qed.

Lemma safe_impl {X} (P Q : X -> Prop) m : (forall x, P x -> Q x) -> safe P m -> safe Q m.
Proof. intros H Hm s Hs. specialize (Hm s Hs). destruct (m s); try exact I; [|contradiction]. destruct Hm; split; auto. Qed.

Lemma bytes_ok_drop k l : bytes_ok l -> bytes_ok (drop k l).
Proof. unfold bytes_ok, drop. intros H. apply Forall_forall. intros x Hx.
  apply (proj1 (Forall_forall _ _) H). rewrite <- (firstn_skipn (N.to_nat k) l). apply in_or_app. now right. Qed.
Lemma bytes_ok_take k l : bytes_ok l -> bytes_ok (take k l).
Proof. unfold bytes_ok, take. intros H. apply Forall_forall. intros x Hx.
  apply (proj1 (Forall_forall _ _) H). rewrite <- (firstn_skipn (N.to_nat k) l). apply in_or_app. now left. Qed.

Lemma bok_with_rem s k : bok s -> bok (with_rem s k).
Proof. unfold bok. cbn. apply bytes_ok_drop. Qed.

(* ---------- readers ---------- *)

Lemma safe_read_be k : safe (fun n => n < 256 ^ k) (read_be k).
Proof.
  intros s Hs. unfold read_be, get_be. case_if; [exact I|]. case_if; [|lia].
  split; [|now apply bok_with_rem].
  pose proof (be_dec_bound (take k (s_rem s)) (bytes_ok_take k _ Hs)) as B.
  rewrite len_take in B by (unfold remaining in *; lia). exact B.
Qed.

Lemma safe_advance k : safe (fun _ => True) (advance k) -> True.
Proof. trivial. Qed.

Lemma advance_guarded k s : k <= remaining s -> bok s ->
  advance k s = Ok tt (with_rem s k) /\ bok (with_rem s k).
Proof. intros H Hs. unfold advance. case_if; [|lia]. split; [reflexivity|now apply bok_with_rem]. Qed.

Lemma to_i32_range n : n < 4294967296 -> (-2147483648 <= to_i32 n < 2147483648)%Z.
Proof. intros H. unfold to_i32. case_if; lia. Qed.

Lemma safe_read_i32 : safe (fun z => (-2147483648 <= z < 2147483648)%Z) read_i32.
Proof.
  unfold read_i32. eapply safe_bind; [apply (safe_read_be 4)|]. intros n Hn. apply safe_ret.
  apply to_i32_range. exact Hn.
Qed.

Lemma safe_read_bool : safe (fun _ => True) read_bool.
Proof.
  intros s Hs. unfold read_bool. case_if; [exact I|]. unfold bind, get_be. case_if; [|lia].
  destruct (to_i32 _) as [|p|p]; unfold ret, fail; try exact I.
  - split; [exact I|now apply bok_with_rem].
  - destruct p; try exact I. split; [exact I|now apply bok_with_rem].
Qed.

Lemma safe_read_bytes n : safe (fun _ => True) (read_bytes n).
Proof.
  intros s Hs. unfold read_bytes. case_if; [exact I|]. case_if; [exact I|].
  unfold bind, slice_to. case_if; [|lia]. unfold advance. case_if; [|lia].
  unfold ret. split; [exact I|now apply bok_with_rem].
Qed.

Lemma safe_read_bytes_len n : safe (fun w => len (vdata w) = n) (read_bytes n).
Proof.
  intros s Hs. unfold read_bytes. case_if; [exact I|]. case_if; [exact I|].
  unfold bind, slice_to. case_if; [|lia]. unfold advance. case_if; [|lia].
  unfold ret. split; [|now apply bok_with_rem]. case_if.
  - apply N.eqb_eq in E3. subst n. reflexivity.
  - cbn [vdata]. apply len_take. unfold remaining in *. lia.
Qed.

Lemma safe_check_max n max : safe (fun _ => True) (check_max n max).
Proof. unfold check_max. destruct max; [case_if; [apply safe_fail|now apply safe_ret]|now apply safe_ret]. Qed.

Lemma safe_read_variable_bytes max : safe (fun _ => True) (read_variable_bytes max).
Proof.
  unfold read_variable_bytes. eapply safe_bind; [apply (safe_read_be 4)|]. intros n _.
  eapply safe_bind; [apply safe_check_max|]. intros _ _. apply safe_read_bytes.
Qed.

Lemma safe_read_string max : safe (fun _ => True) (read_string max).
Proof.
  unfold read_string. eapply safe_bind; [apply safe_read_variable_bytes|]. intros w _.
  eapply safe_bind with (P := fun _ => True).
  - intros s Hs. unfold reserve. split; [exact I|exact Hs].
  - intros _ _. destruct (utf8_valid (vdata w)); [now apply safe_ret|apply safe_fail].
Qed.

Section VarArraySafe.
  Variable elem_name : string.
  Variable dec_elem : M rval.
  Variable wsz_elem : rval -> option N.
  Variable P : rval -> Prop.
  Hypothesis Hdec : safe P dec_elem.
  Hypothesis Hwsz : forall v, P v -> exists w, wsz_elem v = Some w /\ w mod 4 = 0.

  Lemma safe_on_clone : safe P (on_clone dec_elem).
  Proof.
    intros s Hs. unfold on_clone. specialize (Hdec s Hs). destruct (dec_elem s) as [v s1| | |]; try exact I; [|contradiction].
    destruct Hdec as [Pv _]. split; [exact Pv|exact Hs].
  Qed.

  Lemma safe_rva_loop fuel : forall n sum acc,
    sum mod 4 = 0 -> Forall P acc ->
    safe (fun r => Forall P (fst r) /\ snd r mod 4 = 0) (rva_loop dec_elem wsz_elem fuel n sum acc).
  Proof.
    induction fuel as [|f IH]; intros n sum acc Hsum Hacc; cbn [rva_loop].
    - destruct (n =? 0); [apply safe_ret; split; [now apply Forall_rev|exact Hsum]| intros s _; exact I].
    - destruct (n =? 0); [apply safe_ret; split; [now apply Forall_rev|exact Hsum]|].
      eapply safe_bind; [apply safe_on_clone|]. intros t Pt.
      destruct (Hwsz t Pt) as [w [Hw Hw4]]. rewrite Hw.
      intros s Hs. case_if; [exact I|].
      unfold bind. destruct (advance_guarded w s ltac:(lia) Hs) as [Ea Hb]. rewrite Ea.
      apply IH; [lia|constructor; assumption|exact Hb].
  Qed.

  Lemma safe_read_variable_array fuel max :
    safe (Forall P) (read_variable_array elem_name dec_elem wsz_elem fuel max).
  Proof.
    unfold read_variable_array. eapply safe_bind; [apply (safe_read_be 4)|]. intros n _.
    eapply safe_bind; [apply safe_check_max|]. intros _ _.
    intros s Hs.
    eapply (safe_bind (fun _ => True)); [| |exact Hs].
    - intros s0 Hs0. unfold reserve. split; [exact I|exact Hs0].
    - intros _ _. eapply safe_bind; [apply safe_rva_loop; [reflexivity|constructor]|].
      intros r [Hr Hsum]. rewrite (pad_length_mult4 _ Hsum).
      intros s1 Hs1. unfold bind. destruct (advance_guarded 0 s1 ltac:(lia) Hs1) as [Ea Hb]. rewrite Ea.
      unfold ret. split; [exact Hr|exact Hb].
  Qed.
End VarArraySafe.

(* ---------- the hypothesis: sup + every referenced type is declared ---------- *)

Definition ref_ok (A : ast) (t : basic_type) : Prop :=
  match t with Ident m => exists ty, get_type A m = Some ty | _ => True end.

Definition refs_ok (A : ast) : Prop :=
  forall n t, get_type A n = Some t ->
    match t with
    | TStruct s => Forall (fun f => ref_ok A (unwrap_array (sf_value f))) (st_fields s)
    | TUnion u => Forall (fun c => ref_ok A (unwrap_array (uc_value c))) (un_cases u) /\
                  (forall c, un_default u = Some c -> ref_ok A (unwrap_array (uc_value c)))
    | TTypedef t => ref_ok A (td_target t)
    | TEnum _ => True
    end.

Record sup4 (A : ast) : Prop := { sup4_sup : sup A; sup4_refs : refs_ok A }.

Definition ref_okb (A : ast) (t : basic_type) : bool :=
  match t with Ident m => match get_type A m with Some _ => true | None => false end | _ => true end.

Definition refs_okb (A : ast) : bool :=
  forallb (fun kv => match snd kv with
                     | TStruct s => forallb (fun f => ref_okb A (unwrap_array (sf_value f))) (st_fields s)
                     | TUnion u => forallb (fun c => ref_okb A (unwrap_array (uc_value c))) (un_cases u) &&
                                   match un_default u with Some c => ref_okb A (unwrap_array (uc_value c)) | None => true end
                     | TTypedef t => ref_okb A (td_target t)
                     | TEnum _ => true
                     end) (types A).

Definition sup4_b (A : ast) : bool := sup_b A && refs_okb A.

Lemma ref_okb_ok A t : ref_okb A t = true -> ref_ok A t.
Proof. destruct t; cbn; try (intros; exact I). destruct (get_type A s); [eauto|discriminate]. Qed.

Theorem sup4_b_sound A : sup4_b A = true -> sup4 A.
Proof.
  unfold sup4_b. intros H. apply Bool.andb_true_iff in H as [H1 H2]. constructor; [now apply sup_b_sound|].
  intros n t G. apply assoc_In in G. pose proof (proj1 (forallb_forall _ _) H2 (n, t) G) as X. cbn [snd] in X.
  destruct t as [s|u|e|td]; try exact I.
  - apply Forall_forall. intros f Hf. apply ref_okb_ok. exact (proj1 (forallb_forall _ _) X f Hf).
  - apply Bool.andb_true_iff in X as [X1 X2]. split.
    + apply Forall_forall. intros c Hc. apply ref_okb_ok. exact (proj1 (forallb_forall _ _) X1 c Hc).
    + intros c Hc. rewrite Hc in X2. now apply ref_okb_ok.
  - now apply ref_okb_ok.
Qed.

(* ---------- the emitted fragment ---------- *)

Section Frag.
  Variable A : ast.
  Variable md : module_ir.
  Hypothesis Hgen : gen A = EOk md.
  Hypothesis Hsup4 : sup4 A.

  Let Hsup : sup A := sup4_sup A Hsup4.
  Let Hcore : sup_core A := sup_c A Hsup.
  Let Hwf : wf_size A := sup_size A Hcore.
  Let Hkeys : keys_ok A := proj1 Hwf.

  Section Body.
    Variable rec : string -> M rval.
    Variable lf : nat.
    Hypothesis Hrec : forall m ty, get_type A m = Some ty -> safe (ShN A m) (rec m).

    Lemma safe_basic t e :
      decode_basic A t UseAlias = EOk e -> ref_ok A t -> safe (ShB A t) (eval_dexp md rec lf e).
    Proof.
      intros He Hr. apply decode_basic_alias in He as [He|[m [-> ->]]].
      - destruct t; cbn [prim_dexp] in He; inversion He; subst e; cbn [eval_dexp read_prim].
        + eapply safe_bind; [apply (safe_read_be 4)|]. intros n Hn. apply safe_ret. constructor.
          cbv beta in Hn. unfold u32_max. change (256 ^ 4) with 4294967296 in Hn. lia.
        + eapply safe_bind; [apply (safe_read_be 8)|]. intros n _. apply safe_ret. constructor.
        + eapply safe_bind; [apply safe_read_i32|]. intros z Hz. apply safe_ret. constructor. exact Hz.
        + unfold read_i64. eapply safe_bind; [eapply (safe_bind _ (fun _ : Z => True)); [apply (safe_read_be 8)|intros n _; apply safe_ret; exact I]|].
          intros z _. apply safe_ret. constructor.
        + eapply safe_bind; [apply (safe_read_be 4)|]. intros n _. apply safe_ret. constructor.
        + eapply safe_bind; [apply (safe_read_be 8)|]. intros n _. apply safe_ret. constructor.
        + eapply safe_bind; [apply safe_read_string|]. intros b _. apply safe_ret. constructor.
        + eapply safe_bind; [apply safe_read_bool|]. intros b _. apply safe_ret. constructor.
        + eapply safe_bind; [apply safe_read_variable_bytes|]. intros w _. apply safe_ret. constructor.
      - cbn [eval_dexp]. destruct Hr as [ty Hty]. eapply safe_impl; [|eapply Hrec; exact Hty].
        intros v Hv. now constructor.
    Qed.

    Lemma safe_seq_n t n m : safe (ShB A t) m -> safe (fun l => ShL A t l /\ List.length l = n) (seq_n n m).
    Proof.
      intros Hm. induction n as [|n IH]; cbn [seq_n]; [apply safe_ret; split; [constructor|reflexivity]|].
      eapply safe_bind; [exact Hm|]. intros x Hx. eapply safe_bind; [exact IH|]. intros xs [Hxs Hlen].
      apply safe_ret. split; [now constructor|cbn; now rewrite Hlen].
    Qed.

    Lemma safe_pos a e :
      decode_array A a UseAlias = EOk e -> pos_ok a false -> ref_ok A (unwrap_array a) ->
      safe (ShP A a false) (eval_dexp md rec lf e).
    Proof.
      intros He Hpos Hr. destruct a as [t|t s|t s]; cbn [decode_array unwrap_array] in *.
      - eapply safe_impl; [|eapply safe_basic; eassumption]. intros v Hv. now constructor.
      - destruct (resolve_size A s true) as [n| |] eqn:Ers; cbn [ebind] in He; try discriminate.
        unfold decode_fixed in He. destruct Hpos as [_ [_ [Hts _]]].
        assert (Hcase : t = Opaque \/ t <> Opaque) by (destruct t; (now left) || (right; discriminate)).
        destruct Hcase as [->|Hno].
        + inversion He; subst e. cbn [eval_dexp]. eapply safe_bind; [apply safe_read_bytes_len|].
          intros w Hw. apply safe_ret. apply SP_fixed_opaque. intros n0 E0. rewrite Ers in E0. inversion E0; subst. exact Hw.
        + assert (He' : (if n =? 0 then EOk (EArr 0 (EPrim PU32))
                         else ebind (decode_basic A t UseAlias) (fun e0 => EOk (EArr n e0))) = EOk e).
          { destruct t; try exact He; congruence. }
          clear He. destruct (n =? 0) eqn:En0.
          * inversion He'; subst e. cbn [eval_dexp]. change (N.to_nat 0) with 0%nat. cbn [seq_n].
            eapply (safe_bind (fun l => l = [])); [apply safe_ret; reflexivity|]. intros l ->. apply safe_ret.
            apply SP_fixed; [assumption|apply SL_nil|]. intros n0 E0. rewrite Ers in E0. inversion E0; subst.
            apply N.eqb_eq in En0. subst. reflexivity.
          * destruct (decode_basic A t UseAlias) as [e0| |] eqn:E0; cbn [ebind] in He'; try discriminate.
            inversion He'; subst e. cbn [eval_dexp].
            eapply safe_bind; [apply safe_seq_n; eapply safe_basic; eassumption|].
            intros l [Hl Hlen]. apply safe_ret. apply SP_fixed; [assumption|assumption|].
            intros n0 E1. rewrite Ers in E1. inversion E1; subst. rewrite Hlen. apply N2Nat.id.
      - destruct Hpos as [Hsafe [_ [[Ht|[Ht|[m Ht]]] _]]]; subst t.
        + assert (Hx : exists mx, e = EVarBytes mx).
          { destruct s as [sz|]; [destruct (resolve_size A sz false); cbn [ebind] in He; try discriminate|];
              unfold decode_variable in He; inversion He; eauto. }
          destruct Hx as [mx ->]. cbn [eval_dexp]. eapply safe_bind; [apply safe_read_variable_bytes|].
          intros w _. apply safe_ret. constructor.
        + assert (Hx : exists mx, e = EString mx).
          { destruct s as [sz|]; [destruct (resolve_size A sz false); cbn [ebind] in He; try discriminate|];
              unfold decode_variable in He; inversion He; eauto. }
          destruct Hx as [mx ->]. cbn [eval_dexp]. eapply safe_bind; [apply safe_read_string|].
          intros b _. apply safe_ret. constructor.
        + cbn [unwrap_array safe_ref] in Hsafe.
          assert (Hx : exists mx, e = EVarArray m (is_generic A m) mx).
          { destruct s as [sz|]; [destruct (resolve_size A sz false); cbn [ebind] in He; try discriminate|];
              unfold decode_variable in He; rewrite Hsafe in He; inversion He; eauto. }
          destruct Hx as [mx ->]. cbn [eval_dexp]. destruct Hr as [ty Hty].
          eapply safe_bind.
          * eapply safe_read_variable_array with (P := ShN A m); [eapply Hrec; exact Hty|].
            intros v Hv. eapply shaped_wsz; eassumption.
          * intros l Hl. apply safe_ret. constructor; try discriminate.
            induction Hl; constructor; [now constructor|assumption].
    Qed.

    Lemma safe_fexp a opt fe :
      fexp_of A a opt = EOk fe -> pos_ok a opt -> ref_ok A (unwrap_array a) ->
      safe (ShP A a opt) (eval_fexp md rec lf fe).
    Proof.
      intros Hfe Hpos Hr. destruct opt.
      - unfold fexp_of in Hfe. inversion Hfe; subst fe.
        destruct Hpos as [Hsafe [Ho _]]. destruct (Ho eq_refl) as [m ->].
        cbn [unwrap_array safe_ref] in *. rewrite Hsafe. cbn [eval_fexp].
        eapply safe_bind; [apply (safe_read_be 4)|]. intros d _.
        destruct (d =? 0); [apply safe_ret; constructor|].
        destruct (d =? 1); [|apply safe_fail].
        destruct Hr as [ty Hty]. eapply safe_bind; [eapply Hrec; exact Hty|]. intros x Hx.
        eapply (safe_bind (fun _ => True)).
        + intros s Hs. unfold reserve. split; [exact I|exact Hs].
        + intros _ _. apply safe_ret. constructor. now constructor.
      - apply fexp_of_plain in Hfe as [e [He ->]]. cbn [eval_fexp]. now apply safe_pos.
    Qed.

    Lemma safe_fields fs : forall ps,
      Forall2 (fun fd p => fexp_of A (sf_value fd) (sf_optional fd) = EOk (snd p)) fs ps ->
      Forall (fun f => pos_ok (sf_value f) (sf_optional f)) fs ->
      Forall (fun f => ref_ok A (unwrap_array (sf_value f))) fs ->
      safe (ShF A fs) (eval_fields md rec lf ps).
    Proof.
      induction fs as [|f fs IH]; intros ps Hps Hpos Hr; inversion Hps; subst; cbn [eval_fields].
      - apply safe_ret. constructor.
      - inversion Hpos; subst. inversion Hr; subst.
        eapply safe_bind; [eapply safe_fexp; eassumption|]. intros x Hx.
        eapply safe_bind; [eapply IH; eassumption|]. intros xs Hxs. apply safe_ret. now constructor.
    Qed.

    Lemma safe_enum self e z : forall arms,
      Forall (fun a => exists m v, In (m, VNum v) (en_variants e) /\ snd a = m /\ int_literal (fst a) <> None) arms ->
      (forall m v, In (m, VNum v) (en_variants e) -> ShN A self (RVVariant self m None)) ->
      safe (ShN A self) (eval_enum self z arms).
    Proof.
      intros arms Hall Hsh. induction Hall as [|[text name] arms [m [v [Hin [Hn Hlit]]]] _ IH]; cbn [eval_enum].
      - apply safe_fail.
      - cbn [fst snd] in *. subst name. destruct (int_literal text); [|contradiction].
        destruct (Z.eqb z0 z); [apply safe_ret; eapply Hsh; eassumption|exact IH].
    Qed.
  
    (* ---------- unions ---------- *)

    Lemma disc_emit u disc :
      disc_ok A u -> decode_basic A (un_sw_type u) UseTarget = EOk disc ->
      decode_basic A (disc_type A u) UseAlias = EOk disc.
    Proof.
      intros Hdisc Edisc. unfold disc_type in *. destruct (un_sw_type u) as [| | | | | | | | |c] eqn:Esw;
        try (cbn in Edisc |- *; exact Edisc).
      unfold decode_basic in Edisc. cbn [prim_dexp] in Edisc.
      destruct (get_type A c) as [[s|u0|e|t]|] eqn:Ec.
      - cbn. pose proof (Hkeys _ _ (assoc_In _ _ _ Ec)) as K. cbn in K. now rewrite <- K.
      - cbn. pose proof (Hkeys _ _ (assoc_In _ _ _ Ec)) as K. cbn in K. now rewrite <- K.
      - cbn. pose proof (Hkeys _ _ (assoc_In _ _ _ Ec)) as K. cbn in K. now rewrite <- K.
      - destruct (prim_dexp_cases (td_target t)) as [[e1 He1]|[m Hm]].
        + rewrite He1 in Edisc. now rewrite (decode_basic_prim _ _ _ He1).
        + rewrite Hm in *. exact Edisc.
      - discriminate.
    Qed.

    (* a decoded discriminant is the image of a well-typed discriminant value *)
    Lemma disc_back u dv :
      disc_ok A u -> ShB A (disc_type A u) dv ->
      exists d dd, TypedB A (disc_type A u) d /\ dval_of dv = Some dd /\ dval_of (rv 0 0 d) = Some dd.
    Proof.
      intros [E|[E|[E|[e [en [E Hen]]]]]] H; rewrite E in *; inversion H; subst.
      - exists (XU32 n), (DvU32 n). split; [now constructor|split; reflexivity].
      - exists (XI32 z), (DvI32 z). split; [now constructor|split; reflexivity].
      - exists (XBool b), (DvBool b). split; [constructor|split; reflexivity].
      - match goal with HN : ShN _ _ _ |- _ => inversion HN; subst end; try congruence.
        match goal with Hg : get_type A e = Some (TEnum ?e') |- _ =>
          assert (e' = en) by congruence; subst e' end.
        match goal with Hin : In (?m, VNum ?v) (en_variants en) |- _ =>
          exists (XEnum e m v), (DvEnum e m); split; [|split; reflexivity];
          constructor; eapply TN_enum; [exact Hen| |exact Hin|] end.
        + pose proof (Hkeys _ _ (assoc_In _ _ _ Hen)) as K. exact K.
        + match goal with Hin : In (?m, VNum ?v) (en_variants en) |- _ =>
            destruct (proj1 (sup_enum A Hcore e en Hen) (m, VNum v) Hin) as [x [Hx Hr]]; cbn in Hx; inversion Hx; subst; exact Hr end.
    Qed.

    Section OneUnionSafe.
      Variable n : string.
      Variable u : union_t.
      Hypothesis Hget : get_type A n = Some (TUnion u).
      Variable dd : dval.
      Variable d : xval.
      Hypothesis Td : TypedB A (disc_type A u) d.
      Hypothesis Hdd : dval_of (rv 0 0 d) = Some dd.

      Let Hok : union_ok A u := sup_unions A Hsup n u Hget.
      Let Hdisc : disc_ok A u := proj1 (proj2 Hwf n _ Hget).

      (* every arm the emitter writes for this union *)
      Definition entry_ok (en : matcher * string * option dexp) : Prop :=
        (exists c l e, In c (un_cases u) /\ In l (uc_values c) /\ en = data_entry A u e l /\
                       decode_array A (uc_value c) UseAlias = EOk e) \/
        (exists l, In l (un_void u) /\ l <> "default"%string /\ en = void_entry A u l) \/
        (In "default"%string (un_void u) /\ en = (MWild, variant_name "default", @None dexp)).

      Lemma entry_matches en : entry_ok en -> exists b, matches md (fst (fst en)) dd = Some b.
      Proof.
        intros [[c [l [e [Hc [Hl [-> _]]]]]]|[[l [Hl [Hnd ->]]]|[_ ->]]].
        - unfold data_entry. cbn [fst].
          rewrite (label_agree A md Hgen Hsup u l d dd (proj1 Hok c l Hc Hl) Hdisc Td Hdd). eauto.
        - unfold void_entry. cbn [fst].
          rewrite (label_agree A md Hgen Hsup u l d dd (proj1 (proj2 Hok) l Hl Hnd) Hdisc Td Hdd). eauto.
        - cbn. eauto.
      Qed.

      Definition fb_ok (arms : list (matcher * string * option dexp)) (fb : fallback) : Prop :=
        match fb with
        | FbDefault e => exists c, un_default u = Some c /\ decode_array A (uc_value c) UseAlias = EOk e
        | FbUnknown => True
        | FbNone => exists en, In en arms /\ fst (fst en) = MWild
        end.

      Lemma dd_as_i32 : exists z, dval_as_i32 md dd = Some z.
      Proof.
        destruct Hdisc as [E|[E|[E|[e [en [E He]]]]]]; rewrite E in Td; inversion Td; subst;
          cbn in Hdd; inversion Hdd; subst; try (eexists; reflexivity).
        match goal with HN : TypedN _ _ _ |- _ => inversion HN; subst end; try congruence.
        cbn in Hdd. inversion Hdd; subst. cbn [dval_as_i32].
        match goal with Hen : get_type A ?e' = Some (TEnum ?en'), Hin : In (?m, VNum ?v) _ |- _ =>
          destruct (enum_value_member A md Hgen Hsup e' en' m (VNum v) Hen Hin) as [x Hx]; rewrite Hx; eexists; reflexivity end.
      Qed.

      Lemma safe_arms arms fb :
        Forall entry_ok arms -> fb_ok arms fb ->
        safe (ShN A n) (eval_arms md rec lf n dd arms fb).
      Proof.
        intros Hall. induction Hall as [|en arms Hen _ IH]; intros Hfb; cbn [eval_arms].
        - destruct fb as [e| |]; cbn [fb_ok] in Hfb.
          + destruct Hfb as [c [Hc He]].
            eapply safe_bind.
            * eapply safe_pos; [exact He|exact (proj2 (sup_arms A Hcore n u Hget) c Hc)|].
              exact (proj2 (sup4_refs A Hsup4 n _ Hget) c Hc).
            * intros p Hp. apply safe_ret. eapply SN_union_default; eassumption.
          + destruct dd_as_i32 as [z Hz]. rewrite Hz. apply safe_fail.
          + destruct Hfb as [en [[] _]].
        - destruct en as [[m variant] payload].
          destruct (entry_matches _ Hen) as [b Hb]. cbn [fst] in Hb. rewrite Hb. destruct b.
          + destruct Hen as [[c [l [e [Hc [Hl [E He]]]]]]|[[l [Hl [Hnd E]]]|[Hl E]]]; inversion E; subst.
            * eapply safe_bind.
              -- eapply safe_pos; [exact He|exact (proj1 (Forall_forall _ _) (proj1 (sup_arms A Hcore n u Hget)) c Hc)|].
                 exact (proj1 (Forall_forall _ _) (proj1 (sup4_refs A Hsup4 n _ Hget)) c Hc).
              -- intros p Hp. apply safe_ret. eapply SN_union_data; eassumption.
            * apply safe_ret. eapply SN_union_void; eassumption.
            * apply safe_ret. change "default"%string with (variant_name "default"). eapply SN_union_void; eassumption.
          + apply IH. destruct fb as [e| |]; cbn [fb_ok] in *; try exact Hfb.
            destruct Hfb as [en' [[<-|Hin] Hw]]; [|eauto].
            cbn [fst] in Hw. subst m. cbn in Hb. discriminate.
      Qed.
    End OneUnionSafe.

    Lemma safe_body n t b :
      get_type A n = Some t -> emit_from_body A t = EOk b ->
      safe (ShN A n) (eval_body md rec lf n b).
    Proof.
      intros Hget Hb. destruct t as [s|u|e|td]; cbn [emit_from_body] in Hb.
      - (* struct *)
        destruct (emapM _ (st_fields s)) as [ps| |] eqn:Eps; cbn [ebind] in Hb; try discriminate.
        inversion Hb; subst b. cbn [eval_body].
        assert (Hps : Forall2 (fun fd p => fexp_of A (sf_value fd) (sf_optional fd) = EOk (snd p)) (st_fields s) ps).
        { eapply emapM_Forall2; [|exact Eps]. intros fd p Hp. cbv beta in Hp. unfold fexp_of.
          destruct (sf_optional fd); [inversion Hp; reflexivity|].
          destruct (decode_array A (sf_value fd) UseAlias); cbn [ebind] in Hp |- *; try discriminate.
          inversion Hp. reflexivity. }
        eapply safe_bind.
        + eapply safe_fields; [exact Hps|exact (sup_struct A Hcore n s Hget)|exact (sup4_refs A Hsup4 n _ Hget)].
        + intros vs Hvs. apply safe_ret. pose proof (Hkeys _ _ (assoc_In _ _ _ Hget)) as K. cbn in K.
          rewrite K. eapply SN_struct; [exact Hget|exact Hvs].
      - (* union *)
        destruct (decode_basic A (un_sw_type u) UseTarget) as [disc| |] eqn:Edisc; cbn [ebind] in Hb; try discriminate.
        destruct (emapM _ (un_cases u)) as [rows| |] eqn:Erows; cbn [ebind] in Hb; try discriminate.
        destruct (match un_default u with Some d0 => _ | None => _ end) as [fb| |] eqn:Efb; cbn [ebind] in Hb; try discriminate.
        inversion Hb; subst b. clear Hb. cbn [eval_body].
        pose proof (proj1 (proj2 Hwf n _ Hget)) as Hdisc.
        pose proof (disc_emit u disc Hdisc Edisc) as Hde.
        assert (Hrd : ref_ok A (disc_type A u)).
        { destruct Hdisc as [E|[E|[E|[e [en [E He]]]]]]; rewrite E; cbn; eauto. }
        eapply safe_bind; [eapply safe_basic; eassumption|]. intros dv Hdv.
        destruct (disc_back u dv Hdisc Hdv) as [d [dd [Td [Hdv1 Hdd]]]]. rewrite Hdv1.
        eapply safe_arms; try eassumption.
        + (* every emitted arm is one of the declared ones *)
          apply Forall_app. split.
          * assert (G : forall cases rws, incl cases (un_cases u) ->
                      emapM (fun c => emapM (fun l => ebind (decode_array A (uc_value c) UseAlias)
                                    (fun e => EOk (label_matcher A (un_sw_type u) l, variant_name l, Some e))) (uc_values c)) cases = EOk rws ->
                      Forall (entry_ok u) (concat rws)).
            { induction cases as [|c cases IH]; intros rws Hincl Hm; cbn [emapM] in Hm.
              - inversion Hm. constructor.
              - destruct (emapM _ (uc_values c)) as [row| |] eqn:Erow; cbn [ebind] in Hm; try discriminate.
                destruct (emapM _ cases) as [rows'| |] eqn:Erows'; cbn [ebind] in Hm; try discriminate.
                inversion Hm; subst rws. cbn [concat]. apply Forall_app. split.
                + destruct (row_shape A u c row Erow) as [[_ ->]|[e [He ->]]]; [constructor|].
                  apply Forall_forall. intros x Hx. apply in_map_iff in Hx as [l [<- Hl]].
                  left. exists c, l, e. split; [apply Hincl; now left|]. split; [exact Hl|]. split; [reflexivity|exact He].
                + apply IH; [intros y Hy; apply Hincl; now right|reflexivity]. }
            exact (G (un_cases u) rows (incl_refl _) Erows).
          * apply Forall_app. split.
            -- apply Forall_forall. intros x Hx. apply in_map_iff in Hx as [l [<- Hl]]. apply filter_In in Hl as [Hl Hnd].
               right. left. exists l. split; [exact Hl|]. split; [|reflexivity].
               apply Bool.negb_true_iff, String.eqb_neq in Hnd. exact Hnd.
            -- destruct (mem "default" (un_void u)) eqn:Em; [|constructor].
               constructor; [|constructor]. right. right. split; [now apply mem_In|reflexivity].
        + (* the fallback *)
          destruct (un_default u) as [dc|] eqn:Edc.
          * destruct (decode_array A (uc_value dc) UseAlias) as [e| |] eqn:Ee; cbn [ebind] in Efb; try discriminate.
            inversion Efb; subst fb. cbn [fb_ok]. eauto.
          * inversion Efb; subst fb. destruct (mem "default" (un_void u)) eqn:Em; cbn [fb_ok]; [|exact I].
            exists (MWild, variant_name "default", @None dexp). split; [|reflexivity].
            apply in_or_app. right. apply in_or_app. right. now left.
      - (* enum *)
        inversion Hb; subst b. cbn [eval_body].
        eapply safe_bind; [apply safe_read_i32|]. intros z _.
        eapply safe_enum with (e := e).
        + apply Forall_forall. intros a Ha. apply in_map_iff in Ha as [[m vv] [<- Hin]]. cbn [fst snd].
          destruct (proj1 (sup_enum A Hcore n e Hget) (m, vv) Hin) as [x [Hx Hr]]. cbn in Hx. subst vv.
          exists m, x. split; [exact Hin|]. split; [reflexivity|].
          rewrite (int_literal_string_of_Z x ltac:(lia)). discriminate.
        + intros m v Hin. eapply SN_enum; eassumption.
      - (* typedef *)
        pose proof (sup_typedef A Hcore n td Hget) as Htd.
        rewrite (typedef_emit A Hcore n td Hget Htd) in Hb.
        destruct (decode_array A (typedef_pos td) UseAlias) as [e0| |] eqn:Ee; cbn [ebind] in Hb; try discriminate.
        inversion Hb; subst b. cbn [eval_body].
        eapply safe_bind.
        + eapply safe_pos; [exact Ee|exact (proj1 (proj2 Htd))|].
          pose proof (sup4_refs A Hsup4 n _ Hget) as R. cbn in R. unfold typedef_pos. destruct (td_alias td); exact R.
        + intros y Hy. apply safe_ret. eapply SN_typedef; eassumption.
    Qed.
  End Body.

  (* C04: never a panic, whatever the bytes and the fuel; success has the declared shape *)
  Theorem dec_safe fuel : forall n t, get_type A n = Some t -> safe (ShN A n) (dec md fuel n).
  Proof.
    induction fuel as [|f IH]; intros n t Hget; cbn [dec]; [intros s _; exact I|].
    destruct (find_from_gen A md Hgen Hkeys n t Hget) as [b [Hb Hfind]]. rewrite Hfind. cbn [i_name i_body].
    eapply safe_body; eassumption.
  Qed.
End Frag.
