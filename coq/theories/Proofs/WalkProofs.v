(* C12 (tree level): walking the token tree of a declaration list yields exactly the items the
   list declares -- constants, enums, structs with their fields in order, unions with the
   complete label set of every arm, typedefs -- and each is retrievable by name from the
   indexes. *)
From Coq Require Import Lia.
From XdrModel Require Export Source.
From XdrProofs Require Export IndexProofs.
Open Scope string_scope.
Open Scope list_scope.

(* a name that is not a primitive spelling and contains no blank *)
Definition plain (s : string) : Prop := bt_from_str s = Ident s.

Definition tok_ok (b : btok) : Prop := trim (btok_text b) = btok_text b /\ btok_text b <> "".

Definition field_ok (f : sfield) : Prop :=
  plain (f_name f) /\ (f_opt f = true -> f_arr f = SNone) /\
  match f_arr f with SFixed b | SVar (Some b) => tok_ok b | _ => True end.

Definition arm_ok (a : sarm) : Prop := match a with ArmData _ n => plain n | ArmVoid => True end.
Definition group_ok (g : sgroup) : Prop := arm_ok (g_arm g) /\ (g_default g = false -> g_labels g <> []).

Lemma plain_str s : plain s -> bt_as_str (bt_from_str s) = s.
Proof. unfold plain. now intros ->. Qed.

Lemma walk_ident n : walk (t_ident n) = EOk (NType (bt_from_str n)).
Proof. reflexivity. Qed.

Lemma walk_tytok t : walk (t_tytok t) = EOk (NType (bt_of t)).
Proof. destruct t; reflexivity. Qed.

Lemma walk_btok b : walk (t_btok b) = EOk (NType (bt_from_str (btok_text b))).
Proof. destruct b; reflexivity. Qed.

(* the generic shape of walk on a compound node *)
Fixpoint walk_list (l : list tree) : eres (list node) :=
  match l with
  | [] => EOk []
  | c :: rest => ebind (walk c) (fun n => ebind (walk_list rest) (fun ns => EOk (n :: ns)))
  end.

Lemma walk_list_app a b na nb :
  walk_list a = EOk na -> walk_list b = EOk nb -> walk_list (a ++ b) = EOk (na ++ nb).
Proof.
  revert na. induction a as [|x a IH]; intros na Ha Hb; cbn [walk_list app] in *.
  - inversion Ha. exact Hb.
  - destruct (walk x) as [n| |]; cbn [ebind] in *; try discriminate.
    destruct (walk_list a) as [ns| |]; cbn [ebind] in *; try discriminate.
    inversion Ha; subst. now rewrite (IH ns eq_refl Hb).
Qed.

Lemma walk_list_map {X} (f : X -> tree) (g : X -> node) l :
  (forall x, In x l -> walk (f x) = EOk (g x)) -> walk_list (map f l) = EOk (map g l).
Proof.
  induction l as [|x l IH]; intros H; cbn [map walk_list]; [reflexivity|].
  rewrite (H x (or_introl eq_refl)). cbn [ebind]. rewrite IH by (intros; apply H; now right). reflexivity.
Qed.

Definition arr_nodes (a : sarr) : list node :=
  match a with
  | SNone => []
  | SFixed b => [NArrayFixed (btok_text b)]
  | SVar None => [NArrayVariable ""]
  | SVar (Some b) => [NArrayVariable (btok_text b)]
  end.

Lemma walk_arr a : walk_list (t_arr a) = EOk (arr_nodes a).
Proof. destruct a as [|b|[b|]]; try reflexivity; destruct b; reflexivity. Qed.

Lemma mk_array_var_tok t b : tok_ok b -> mk_array_var t (btok_text b) = AVar t (Some (size_of b)).
Proof.
  intros [Ht Hne]. unfold mk_array_var, size_of. rewrite Ht.
  destruct (btok_text b); [contradiction|reflexivity].
Qed.

Lemma walk_field f :
  field_ok f ->
  walk (Node "struct_data_field" "" (t_field_children f)) = EOk (NStructDataField
     (NType (bt_of (f_ty f)) :: (if f_opt f then NOption [NType (bt_from_str (f_name f))] else NType (bt_from_str (f_name f)))
      :: arr_nodes (f_arr f))).
Proof.
  intros _. unfold t_field_children.
  change (walk (Node "struct_data_field" "" ?cs)) with (ebind (walk_list cs) (fun l => EOk (NStructDataField l))).
  cbn [walk_list]. rewrite walk_tytok. cbn [ebind].
  destruct (f_opt f).
  - change (walk (Node "option" "" [t_ident (f_name f)])) with (EOk (NOption [NType (bt_from_str (f_name f))])).
    cbn [ebind]. rewrite walk_arr. reflexivity.
  - rewrite walk_ident. cbn [ebind]. rewrite walk_arr. reflexivity.
Qed.

Lemma struct_field_of f :
  field_ok f ->
  struct_field_new (NStructDataField
     (NType (bt_of (f_ty f)) :: (if f_opt f then NOption [NType (bt_from_str (f_name f))] else NType (bt_from_str (f_name f)))
      :: arr_nodes (f_arr f))) = EOk (field_of f).
Proof.
  intros [Hp [Ho Ha]]. unfold field_of. rewrite Hp. destruct (f_opt f).
  - rewrite (Ho eq_refl). reflexivity.
  - destruct (f_arr f) as [|b|[b|]]; cbn [arr_nodes arr_of]; try reflexivity.
    cbn [struct_field_new]. now rewrite (mk_array_var_tok _ b Ha).
Qed.

(* ---------- unions: the loop over fall-through groups ---------- *)

Fixpoint ft_nodes (arm : node) (ls : list btok) : list node :=
  match ls with
  | [] => []
  | [l] => [NUnionCase [NType (bt_from_str (btok_text l)); arm]]
  | l :: r => NUnionCase [NType (bt_from_str (btok_text l))] :: ft_nodes arm r
  end.

Lemma ft_nodes_cons arm l l2 r :
  ft_nodes arm (l :: l2 :: r) = NUnionCase [NType (bt_from_str (btok_text l))] :: ft_nodes arm (l2 :: r).
Proof. reflexivity. Qed.

Definition arm_node (a : sarm) : node :=
  match a with
  | ArmVoid => NUnionVoid
  | ArmData ty n => NUnionDataField [NType (bt_of ty); NType (bt_from_str n)]
  end.

Definition group_nodes (g : sgroup) : list node :=
  if g_default g
  then map (fun l => NUnionCase [NType (bt_from_str (btok_text l))]) (g_labels g) ++ [NUnionDefault [arm_node (g_arm g)]]
  else ft_nodes (arm_node (g_arm g)) (g_labels g).

Lemma walk_arm a : walk (t_arm a) = EOk (arm_node a).
Proof.
  destruct a as [|ty n]; [reflexivity|]. cbn [t_arm arm_node].
  change (walk (Node "union_data_field" "" ?cs)) with (ebind (walk_list cs) (fun l => EOk (NUnionDataField l))).
  cbn [walk_list]. rewrite walk_tytok, walk_ident. reflexivity.
Qed.

Lemma walk_case_ft l : walk (Node "union_case" "" [t_btok l]) = EOk (NUnionCase [NType (bt_from_str (btok_text l))]).
Proof.
  change (walk (Node "union_case" "" ?cs)) with (ebind (walk_list cs) (fun l => EOk (NUnionCase l))).
  cbn [walk_list]. rewrite walk_btok. reflexivity.
Qed.

Lemma walk_group g : walk_list (t_group g) = EOk (group_nodes g).
Proof.
  unfold t_group, group_nodes. destruct (g_default g).
  - apply walk_list_app.
    + apply walk_list_map. intros l _. apply walk_case_ft.
    + cbn [walk_list].
      change (walk (Node "union_default" "" ?cs)) with (ebind (walk_list cs) (fun l => EOk (NUnionDefault l))).
      cbn [walk_list]. rewrite walk_arm. reflexivity.
  - induction (g_labels g) as [|l r IH]; [reflexivity|]. destruct r as [|l2 r].
    + cbn [t_labels walk_list ft_nodes].
      change (walk (Node "union_case" "" ?cs)) with (ebind (walk_list cs) (fun l => EOk (NUnionCase l))).
      cbn [walk_list]. rewrite walk_btok, walk_arm. reflexivity.
    + change (t_labels (l :: l2 :: r) [t_arm (g_arm g)])
        with (Node "union_case" "" [t_btok l] :: t_labels (l2 :: r) [t_arm (g_arm g)]).
      rewrite ft_nodes_cons. cbn [walk_list]. rewrite walk_case_ft. cbn [ebind]. rewrite IH. reflexivity.
Qed.

Definition acc_add (a : union_acc) (g : sgroup) : union_acc :=
  {| ua_cases := ua_cases a ++ cases_of [g];
     ua_default := match default_of [g] with Some c => Some c | None => ua_default a end;
     ua_void := ua_void a ++ voids_of [g];
     ua_pending := [] |}.

(* labels accumulate in order while the chain falls through *)
Lemma union_loop_ft ls rest a :
  ua_pending a = [] \/ True ->
  union_loop (map (fun l => NUnionCase [NType (bt_from_str (btok_text l))]) ls ++ rest) a =
  union_loop rest {| ua_cases := ua_cases a; ua_default := ua_default a; ua_void := ua_void a;
                     ua_pending := ua_pending a ++ map label_of ls |}.
Proof.
  intros _. revert a. induction ls as [|l ls IH]; intros a; cbn [map app].
  - rewrite app_nil_r. destruct a; reflexivity.
  - cbn [union_loop case_stmt_parse ebind]. rewrite IH. cbn [ua_cases ua_default ua_void ua_pending].
    rewrite <- app_assoc. reflexivity.
Qed.

Lemma union_loop_group g rest a :
  group_ok g -> ua_pending a = [] ->
  union_loop (group_nodes g ++ rest) a = union_loop rest (acc_add a g).
Proof.
  intros [Harm Hne] Hp. unfold group_nodes, acc_add, cases_of, voids_of, default_of, group_labels.
  cbn [flat_map fold_left]. rewrite !app_nil_r.
  destruct (g_default g) eqn:Ed.
  - rewrite <- app_assoc. rewrite union_loop_ft by now left. rewrite Hp. cbn [app ua_pending].
    cbn [union_loop]. cbn [ua_pending ua_cases ua_default ua_void].
    destruct (g_arm g) as [|ty n]; cbn [arm_node case_stmt_parse ebind app].
    + rewrite ?app_nil_r. reflexivity.
    + cbn [arm_ok] in Harm. unfold plain in Harm. rewrite Harm. cbn [union_case_new ebind].
      rewrite ?app_nil_r. reflexivity.
  - specialize (Hne eq_refl).
    assert (G : forall ls pend, ls <> [] ->
              union_loop (ft_nodes (arm_node (g_arm g)) ls ++ rest)
                         {| ua_cases := ua_cases a; ua_default := ua_default a; ua_void := ua_void a; ua_pending := pend |}
              = union_loop rest
                  {| ua_cases := ua_cases a ++ match g_arm g with
                                              | ArmData ty n => [{| uc_values := pend ++ map label_of ls; uc_name := n; uc_value := ANone (bt_of ty) |}]
                                              | ArmVoid => []
                                              end;
                     ua_default := ua_default a;
                     ua_void := ua_void a ++ match g_arm g with ArmVoid => pend ++ map label_of ls | _ => [] end;
                     ua_pending := [] |}).
    { induction ls as [|l r IHl]; intros pend Hn; [contradiction|]. destruct r as [|l2 r].
      - cbn [ft_nodes app union_loop]. cbn [ua_pending ua_cases ua_default ua_void].
        destruct (g_arm g) as [|ty n]; cbn [arm_node case_stmt_parse ebind map].
        + rewrite !app_nil_r. reflexivity.
        + cbn [arm_ok] in Harm. unfold plain in Harm. rewrite Harm. cbn [union_case_new ebind]. rewrite ?app_nil_r. reflexivity.
      - rewrite ft_nodes_cons. cbn [app]. cbn [union_loop case_stmt_parse ebind]. cbn [ua_pending ua_cases ua_default ua_void].
        change (bt_as_str (bt_from_str (btok_text l))) with (label_of l).
        rewrite (IHl (pend ++ [label_of l]) ltac:(discriminate)).
        cbn [map]. rewrite <- !app_assoc. reflexivity. }
    destruct a as [ac ad av ap]. cbn [ua_pending] in Hp. subst ap.
    pose proof (G (g_labels g) [] Hne) as G'. cbn [ua_cases ua_default ua_void] in G'. rewrite G'. cbn [app ua_cases ua_default ua_void].
    destruct (g_arm g); rewrite ?app_nil_r; reflexivity.
Qed.

Lemma union_loop_groups gs a :
  Forall group_ok gs -> ua_pending a = [] ->
  union_loop (flat_map group_nodes gs) a = EOk (fold_left acc_add gs a).
Proof.
  revert a. induction gs as [|g gs IH]; intros a Hall Hp; cbn [flat_map fold_left]; [reflexivity|].
  inversion Hall; subst. rewrite union_loop_group by assumption. apply IH; [assumption|reflexivity].
Qed.

Definition dstep (acc : option union_case) (g0 : sgroup) : option union_case :=
  match g_arm g0 with
  | ArmVoid => acc
  | ArmData ty n => if g_default g0
                    then Some {| uc_values := group_labels g0; uc_name := n; uc_value := ANone (bt_of ty) |}
                    else acc
  end.

Lemma default_of_fold gs : default_of gs = fold_left dstep gs None.
Proof. reflexivity. Qed.

Lemma dstep_fold l : forall init,
  fold_left dstep l init = match fold_left dstep l None with Some c => Some c | None => init end.
Proof.
  induction l as [|x l IHl]; intros init; cbn [fold_left]; [reflexivity|].
  rewrite (IHl (dstep init x)), (IHl (dstep None x)).
  destruct (fold_left dstep l None); [reflexivity|]. unfold dstep.
  destruct (g_arm x); [reflexivity|]. destruct (g_default x); reflexivity.
Qed.

Lemma default_of_cons g gs :
  default_of (g :: gs) = match default_of gs with Some c => Some c | None => default_of [g] end.
Proof. rewrite !default_of_fold. cbn [fold_left]. now rewrite dstep_fold. Qed.

Lemma fold_acc_add gs : forall a,
  fold_left acc_add gs a =
  {| ua_cases := ua_cases a ++ cases_of gs;
     ua_default := match default_of gs with Some c => Some c | None => ua_default a end;
     ua_void := ua_void a ++ voids_of gs; ua_pending := match gs with [] => ua_pending a | _ => [] end |}.
Proof.
  induction gs as [|g gs IH]; intros a; cbn [fold_left].
  - unfold cases_of, voids_of, default_of. cbn. rewrite !app_nil_r. destruct a; reflexivity.
  - rewrite IH. unfold acc_add. cbn [ua_cases ua_default ua_void ua_pending].
    rewrite (default_of_cons g gs).
    unfold cases_of, voids_of. cbn [flat_map]. rewrite !app_nil_r, <- !app_assoc.
    f_equal.
    + destruct (default_of gs); [reflexivity|]. destruct (default_of [g]); reflexivity.
    + destruct gs; reflexivity.
Qed.

(* ---------- declarations ---------- *)

Definition decl_ok (d : sdecl) : Prop :=
  match d with
  | KConst _ _ => True
  | KEnum n ms => plain n /\ Forall (fun m => plain (fst m) /\ plain (snd m)) ms
  | KStruct n fs => plain n /\ Forall field_ok fs
  | KUnion n dt dn gs => plain n /\ plain dn /\ Forall group_ok gs
  | KTypedef ty n a => match a with SFixed b | SVar (Some b) => tok_ok b | _ => True end
  end.

Lemma emapM_map_ok {X Y} (f : X -> eres Y) (g : X -> Y) l :
  (forall x, In x l -> f x = EOk (g x)) -> emapM f l = EOk (map g l).
Proof.
  induction l as [|x l IH]; intros H; cbn [emapM map]; [reflexivity|].
  rewrite (H x (or_introl eq_refl)). cbn [ebind]. rewrite IH by (intros; apply H; now right). reflexivity.
Qed.

Lemma emapM_ext {X Y} (f g : X -> eres Y) l :
  (forall x, In x l -> f x = g x) -> emapM f l = emapM g l.
Proof.
  induction l as [|x l IH]; intros H; cbn [emapM]; [reflexivity|].
  rewrite (H x (or_introl eq_refl)). rewrite IH by (intros; apply H; now right). reflexivity.
Qed.

Lemma emapM_map {X Y Z} (h : X -> Y) (f : Y -> eres Z) l : emapM f (map h l) = emapM (fun x => f (h x)) l.
Proof. induction l as [|x l IH]; cbn [map emapM]; [reflexivity|]. now rewrite IH. Qed.

Theorem walk_decl d : decl_ok d -> walk (t_decl d) = item_of d.
Proof.
  destruct d as [n v|n ms|n fs|n dt dn gs|ty n a]; intros Hok; cbn [t_decl item_of decl_ok] in *.
  - reflexivity.
  - (* enum *)
    destruct Hok as [Hn Hms].
    change (walk (Node "enum_type" "" ?cs)) with (ebind (walk_list cs) (fun l => ebind (enum_new l) (fun x => EOk (NEnum x)))).
    cbn [walk_list]. rewrite walk_ident. cbn [ebind].
    rewrite (walk_list_map _ (fun m => NEnumVariant [NType (bt_from_str (fst m)); NType (bt_from_str (snd m))])) by reflexivity.
    cbn [ebind enum_new ident_str]. rewrite (plain_str n Hn). cbn [ebind].
    rewrite emapM_map.
    rewrite (emapM_ext _ member_vv).
    + destruct (emapM member_vv ms); reflexivity.
    + intros m Hm. destruct (proj1 (Forall_forall _ _) Hms m Hm) as [H1 H2].
      cbn [variant_new ident_str ebind]. rewrite (plain_str _ H1), (plain_str _ H2). unfold member_vv.
      destruct (variant_value_from (snd m)); reflexivity.
  - (* struct *)
    destruct Hok as [Hn Hfs].
    change (walk (Node "struct_type" "" ?cs)) with (ebind (walk_list cs) (fun l => ebind (struct_new l) (fun x => EOk (NStruct x)))).
    cbn [walk_list]. rewrite walk_ident. cbn [ebind].
    rewrite (walk_list_map _ (fun f => NStructDataField
       (NType (bt_of (f_ty f)) :: (if f_opt f then NOption [NType (bt_from_str (f_name f))] else NType (bt_from_str (f_name f)))
        :: arr_nodes (f_arr f)))).
    2:{ intros f Hf. apply walk_field. exact (proj1 (Forall_forall _ _) Hfs f Hf). }
    cbn [ebind struct_new ident_str]. rewrite (plain_str n Hn). cbn [ebind].
    rewrite emapM_map. rewrite (emapM_map_ok _ field_of).
    + reflexivity.
    + intros f Hf. apply struct_field_of. exact (proj1 (Forall_forall _ _) Hfs f Hf).
  - (* union *)
    destruct Hok as [Hn [Hdn Hgs]].
    change (walk (Node "union" "" ?cs)) with (ebind (walk_list cs) (fun l => ebind (union_new l) (fun x => EOk (NUnion x)))).
    cbn [walk_list]. rewrite walk_ident, walk_tytok, walk_ident. cbn [ebind].
    assert (Hw : walk_list (flat_map t_group gs) = EOk (flat_map group_nodes gs)).
    { clear. induction gs as [|g gs IH]; [reflexivity|]. cbn [flat_map]. apply walk_list_app; [apply walk_group|exact IH]. }
    rewrite Hw. cbn [ebind union_new ident_str]. rewrite (plain_str n Hn), (plain_str dn Hdn). cbn [ebind].
    rewrite union_loop_groups by (assumption || reflexivity). cbn [ebind]. rewrite fold_acc_add.
    cbn [ua_cases ua_default ua_void app]. destruct (default_of gs); reflexivity.
  - (* typedef *)
    change (walk (Node "typedef" "" ?cs)) with (ebind (walk_list cs) (fun l => ebind (typedef_new l) (fun x => EOk (NTypedef x)))).
    cbn [walk_list]. rewrite walk_tytok, walk_ident. cbn [ebind]. rewrite walk_arr. cbn [ebind].
    unfold typedef_alias. destruct a as [|b|[b|]]; cbn [arr_nodes typedef_new arr_of]; try reflexivity.
    + destruct (is_opaque (bt_of ty)); [reflexivity|]. now rewrite (mk_array_var_tok _ b Hok).
    + destruct (is_opaque (bt_of ty)); reflexivity.
Qed.

(* the whole specification: every item, in order *)
Theorem walk_spec ds items :
  Forall decl_ok ds -> emapM item_of ds = EOk items ->
  walk (tree_of ds) = EOk (NRoot (items ++ [NEOF])).
Proof.
  intros Hok Hit. unfold tree_of.
  change (walk (Node "item" "" ?cs)) with (ebind (walk_list cs) (fun l => EOk (NRoot l))).
  assert (Hw : walk_list (map t_decl ds) = EOk items).
  { revert items Hit. induction Hok as [|d ds Hd _ IH]; intros items Hit; cbn [map walk_list emapM] in *.
    - inversion Hit. reflexivity.
    - rewrite (walk_decl d Hd). destruct (item_of d) as [it| |]; cbn [ebind] in *; try discriminate.
      destruct (emapM item_of ds) as [its| |]; cbn [ebind] in *; try discriminate.
      inversion Hit; subst. now rewrite (IH its eq_refl). }
  rewrite (walk_list_app _ [Node "EOI" "" []] _ [NEOF] Hw eq_refl). reflexivity.
Qed.

(* ---------- each declared type is retrievable by name ---------- *)

Lemma assoc_map_insert {V} k k' (v : V) l :
  assoc k (fst (map_insert k' v l)) = if String.eqb k k' then Some v else assoc k l.
Proof.
  induction l as [|[k'' v''] r IH]; cbn [map_insert fst assoc].
  - destruct (String.eqb k k'); reflexivity.
  - destruct (String.compare k' k'') eqn:E; cbn [fst assoc].
    + apply String.compare_eq_iff in E. subst k''. destruct (String.eqb k k'); reflexivity.
    + destruct (String.eqb k k'); reflexivity.
    + destruct (map_insert k' v r) as [r' dup] eqn:Er. cbn [fst assoc] in *.
      destruct (String.eqb_spec k k'') as [->|N].
      * destruct (String.eqb_spec k'' k') as [->|_]; [|reflexivity].
        pose proof (String.compare_antisym k' k') as Ha. rewrite E in Ha. discriminate.
      * exact IH.
Qed.

Definition type_entry (nd : node) : option (string * ast_type) :=
  match nd with
  | NTypedef v => Some (bt_as_str (unwrap_array (td_alias v)), TTypedef v)
  | NStruct v => Some (st_name v, TStruct v)
  | NUnion v => Some (un_name v, TUnion v)
  | NEnum v => Some (en_name v, TEnum v)
  | _ => None
  end.

(* the last declaration of that name, if any *)
Definition last_type (k : string) (items : list node) : option ast_type :=
  fold_left (fun acc nd => match type_entry nd with
                           | Some (k', t) => if String.eqb k k' then Some t else acc
                           | None => acc
                           end) items None.

Lemma type_index_lookup k items : forall acc,
  assoc k (type_index items acc) =
  fold_left (fun a nd => match type_entry nd with
                         | Some (k', t) => if String.eqb k k' then Some t else a
                         | None => a
                         end) items (assoc k acc).
Proof.
  induction items as [|nd items IH]; intros acc; cbn [type_index fold_left]; [reflexivity|].
  destruct nd; cbn [type_entry]; try apply IH; rewrite IH, assoc_map_insert; reflexivity.
Qed.

Theorem types_by_name k items : assoc k (type_index items []) = last_type k items.
Proof. apply type_index_lookup. Qed.

(* ---------- constants and enum members by name ---------- *)

Definition const_entries (nd : node) : list (string * constant_type) :=
  match nd with
  | NConstant (a :: b :: _) =>
    match ident_str a, ident_str b with
    | EOk k, EOk v => [(k, ConstValue v)]
    | _, _ => []
    end
  | NEnum e => map (fun mv => (fst mv, EnumValue (en_name e) (fst mv))) (en_variants e)
  | _ => []
  end.

Definition override {V} (k : string) (a : option V) (kv : string * V) : option V :=
  if String.eqb k (fst kv) then Some (snd kv) else a.

Definition last_const (k : string) (items : list node) : option constant_type :=
  fold_left (override k) (flat_map const_entries items) None.

Fixpoint enum_consts (en : string) (vs : list (string * variant_value)) (acc : list (string * constant_type))
  : eres (list (string * constant_type)) :=
  match vs with
  | [] => EOk acc
  | (m, _) :: r =>
    let (acc', dup) := map_insert m (EnumValue en m) acc in
    if dup then EPanic "constants.rs:new" else enum_consts en r acc'
  end.

Lemma const_index_enum e rest acc :
  const_index (NEnum e :: rest) acc = ebind (enum_consts (en_name e) (en_variants e) acc) (fun acc' => const_index rest acc').
Proof.
  cbn [const_index]. f_equal. generalize acc. induction (en_variants e) as [|[m v] r IH]; intros a; [reflexivity|].
  cbn [enum_consts]. destruct (map_insert m (EnumValue (en_name e) m) a) as [a' dup]. destruct dup; [reflexivity|apply IH].
Qed.

Lemma enum_consts_lookup k en vs : forall acc cs,
  enum_consts en vs acc = EOk cs ->
  assoc k cs = fold_left (override k) (map (fun mv => (fst mv, EnumValue en (fst mv))) vs) (assoc k acc).
Proof.
  induction vs as [|[m v] r IH]; intros acc cs H; cbn [enum_consts map fold_left] in *.
  - inversion H. reflexivity.
  - pose proof (assoc_map_insert k m (EnumValue en m) acc) as Hi.
    destruct (map_insert m (EnumValue en m) acc) as [acc' dup]. destruct dup; [discriminate|].
    rewrite (IH _ _ H). cbn [fst] in Hi. rewrite Hi. reflexivity.
Qed.

Lemma const_index_lookup k items : forall acc cs,
  const_index items acc = EOk cs ->
  assoc k cs = fold_left (override k) (flat_map const_entries items) (assoc k acc).
Proof.
  induction items as [|nd items IH]; intros acc cs H.
  - cbn in H. inversion H. reflexivity.
  - cbn [flat_map]. rewrite fold_left_app.
    destruct nd; try (cbn [const_index const_entries fold_left] in *; now apply IH).
    + (* constant *)
      cbn [const_index const_entries] in *.
      destruct l as [|a [|b l]]; try discriminate.
      destruct (ident_str a) as [ka| |]; cbn [ebind] in H; try discriminate.
      destruct (ident_str b) as [vb| |]; cbn [ebind] in H; try discriminate.
      pose proof (assoc_map_insert k ka (ConstValue vb) acc) as Hi.
      destruct (map_insert ka (ConstValue vb) acc) as [acc' dup]. destruct dup; [discriminate|].
      rewrite (IH _ _ H). cbn [fold_left override fst snd] in *. rewrite Hi. reflexivity.
    + (* enum *)
      rewrite const_index_enum in H.
      destruct (enum_consts (en_name e) (en_variants e) acc) as [acc'| |] eqn:E; cbn [ebind] in H; try discriminate.
      rewrite (IH _ _ H). cbn [const_entries]. now rewrite (enum_consts_lookup k _ _ _ _ E).
Qed.

Theorem consts_by_name k items cs : const_index items [] = EOk cs -> assoc k cs = last_const k items.
Proof. intros H. apply (const_index_lookup k items [] cs H). Qed.

(* ---------- the theorem: from declaration list to Ast ---------- *)

Theorem ast_of_spec ds items A :
  Forall decl_ok ds -> emapM item_of ds = EOk items -> ast_new (tree_of ds) = EOk A ->
  (forall k, assoc k (types A) = last_type k items) /\
  (forall k, assoc k (constants A) = last_const k items) /\
  (no_prim_names (items ++ [NEOF]) -> forall n, mem n (generics A) = true <-> Reach (items ++ [NEOF]) n).
Proof.
  intros Hok Hit HA. unfold ast_new in HA. rewrite (walk_spec ds items Hok Hit) in HA.
  cbn [ebind ast_of_root] in HA.
  destruct (const_index (items ++ [NEOF]) []) as [cs| |] eqn:Ec; cbn [ebind] in HA; try discriminate.
  inversion HA; subst A; clear HA. cbn [types constants generics].
  assert (Hlt : forall k, last_type k (items ++ [NEOF]) = last_type k items).
  { intros k. unfold last_type. rewrite fold_left_app. reflexivity. }
  assert (Hlc : forall k, last_const k (items ++ [NEOF]) = last_const k items).
  { intros k. unfold last_const. rewrite flat_map_app, fold_left_app. reflexivity. }
  split; [|split].
  - intros k. rewrite types_by_name. apply Hlt.
  - intros k. rewrite (consts_by_name k _ _ Ec). apply Hlc.
  - intros Hn n. apply generic_index_reach. exact Hn.
Qed.

(* the only ways Ast::new can fail on a conforming declaration list: an enum value that is
   neither numeral nor name (F11), or a constant / enum member name declared twice *)
Theorem ast_of_spec_total ds items :
  Forall decl_ok ds -> emapM item_of ds = EOk items ->
  ast_new (tree_of ds) = ebind (const_index (items ++ [NEOF]) [])
    (fun cs => EOk {| constants := cs; types := type_index (items ++ [NEOF]) []; generics := generic_index (items ++ [NEOF]) |}).
Proof. intros Hok Hit. unfold ast_new. rewrite (walk_spec ds items Hok Hit). reflexivity. Qed.

(* ---------- the tie K5: an actual pest tree versus tree_of ---------- *)

Lemma tree_ind' (P : tree -> Prop) :
  (forall r sp cs, Forall P cs -> P (Node r sp cs)) -> forall t, P t.
Proof.
  intros H. fix IH 1. intros [r sp cs]. apply H.
  induction cs as [|c cs IHcs]; constructor; [apply IH|exact IHcs].
Qed.

Lemma walk_node r sp cs :
  walk (Node r sp cs) =
    let kids := walk_list cs in
    if String.eqb r "item" then ebind kids (fun l => EOk (NRoot l))
    else if String.eqb r "typedef" then ebind kids (fun l => ebind (typedef_new l) (fun x => EOk (NTypedef x)))
    else if String.eqb r "constant" then ebind kids (fun l => EOk (NConstant l))
    else if (String.eqb r "ident" || String.eqb r "ident_const" || String.eqb r "ident_value")%bool
         then EOk (NType (bt_from_str sp))
    else if String.eqb r "enum_type" then ebind kids (fun l => ebind (enum_new l) (fun x => EOk (NEnum x)))
    else if String.eqb r "enum_variant" then ebind kids (fun l => EOk (NEnumVariant l))
    else if String.eqb r "array_variable" then EOk (NArrayVariable (inner_str (Node r sp cs)))
    else if String.eqb r "array_fixed" then EOk (NArrayFixed (inner_str (Node r sp cs)))
    else if String.eqb r "struct_type" then ebind kids (fun l => ebind (struct_new l) (fun x => EOk (NStruct x)))
    else if String.eqb r "struct_data_field" then ebind kids (fun l => EOk (NStructDataField l))
    else if String.eqb r "union_data_field" then ebind kids (fun l => EOk (NUnionDataField l))
    else if String.eqb r "union" then ebind kids (fun l => ebind (union_new l) (fun x => EOk (NUnion x)))
    else if String.eqb r "union_case" then ebind kids (fun l => EOk (NUnionCase l))
    else if String.eqb r "union_default" then ebind kids (fun l => EOk (NUnionDefault l))
    else if String.eqb r "union_void" then EOk NUnionVoid
    else if String.eqb r "option" then ebind kids (fun l => EOk (NOption l))
    else if String.eqb r "basic_type" then EOk (NType (bt_from_str sp))
    else if String.eqb r "EOI" then EOk NEOF
    else EPanic "mod.rs:walk".
Proof. reflexivity. Qed.

(* the walker does not look at the spans `erase` blanks *)
Theorem walk_erase t : walk (erase t) = walk t.
Proof.
  induction t as [r sp cs IH] using tree_ind'.
  cbn [erase]. rewrite !walk_node. cbv zeta.
  assert (Hk : array_rule r = false -> walk_list (map erase cs) = walk_list cs).
  { intros _. induction IH as [|c cs Hc _ IHcs]; [reflexivity|]. cbn [map walk_list]. now rewrite Hc, IHcs. }
  unfold inner_str, leaf_rule, array_rule in *. cbn [children].
  destruct (String.eqb r "ident") eqn:E1; [apply String.eqb_eq in E1; subst r; reflexivity|].
  destruct (String.eqb r "ident_const") eqn:E2; [apply String.eqb_eq in E2; subst r; reflexivity|].
  destruct (String.eqb r "ident_value") eqn:E3; [apply String.eqb_eq in E3; subst r; reflexivity|].
  destruct (String.eqb r "basic_type") eqn:E4; [apply String.eqb_eq in E4; subst r; reflexivity|].
  cbn [orb].
  destruct (String.eqb r "array_variable") eqn:E5.
  { apply String.eqb_eq in E5. subst r. reflexivity. }
  destruct (String.eqb r "array_fixed") eqn:E6.
  { apply String.eqb_eq in E6. subst r. reflexivity. }
  cbn [orb]. rewrite Hk by reflexivity. reflexivity.
Qed.

Lemma basic_type_eqb_eq a b : basic_type_eqb a b = true -> a = b.
Proof. destruct a, b; cbn; try discriminate; try reflexivity. intros H. apply String.eqb_eq in H. now subst. Qed.

Lemma plainb_sound s : plainb s = true -> plain s.
Proof. apply basic_type_eqb_eq. Qed.

Lemma tok_okb_sound b : tok_okb b = true -> tok_ok b.
Proof.
  unfold tok_okb, tok_ok. intros H. apply andb_prop in H. destruct H as [H1 H2]. split.
  - now apply String.eqb_eq.
  - intros E. rewrite E in H2. discriminate.
Qed.

Lemma decl_okb_sound d : decl_okb d = true -> decl_ok d.
Proof.
  destruct d as [n v|n ms|n fs|n dt dn gs|ty n a]; cbn [decl_okb decl_ok]; intros H.
  - exact I.
  - apply andb_prop in H. destruct H as [H1 H2]. split; [now apply plainb_sound|].
    apply Forall_forall. intros m Hm. pose proof (proj1 (forallb_forall _ _) H2 m Hm) as Hx. cbv beta in Hx.
    apply andb_prop in Hx. destruct Hx. split; now apply plainb_sound.
  - apply andb_prop in H. destruct H as [H1 H2]. split; [now apply plainb_sound|].
    apply Forall_forall. intros f Hf. pose proof (proj1 (forallb_forall _ _) H2 f Hf) as Hx.
    unfold field_okb in Hx. apply andb_prop in Hx. destruct Hx as [Hx H5]. apply andb_prop in Hx. destruct Hx as [H3 H4].
    unfold field_ok. split; [now apply plainb_sound|]. split.
    + intros Ho. rewrite Ho in H4. destruct (f_arr f); [reflexivity|discriminate|discriminate].
    + unfold arr_okb in H5. destruct (f_arr f) as [|b|[b|]]; try exact I; now apply tok_okb_sound.
  - apply andb_prop in H. destruct H as [H H3]. apply andb_prop in H. destruct H as [H1 H2].
    split; [now apply plainb_sound|]. split; [now apply plainb_sound|].
    apply Forall_forall. intros g Hg. pose proof (proj1 (forallb_forall _ _) H3 g Hg) as Hx.
    unfold group_okb in Hx. apply andb_prop in Hx. destruct Hx as [H4 H5]. unfold group_ok, arm_ok. split.
    + destruct (g_arm g); [exact I|now apply plainb_sound].
    + intros Hd. rewrite Hd in H5. destruct (g_labels g); [discriminate|discriminate].
  - unfold arr_okb in H. destruct a as [|b|[b|]]; try exact I; now apply tok_okb_sound.
Qed.

(* what K5 evaluates per specification: if the (model) parse tree of a text erases to tree_of ds
   and ds passes decl_okb, the Ast of that text is the Ast of the items ds declares *)
Theorem source_tie t ds items :
  erase t = tree_of ds -> forallb decl_okb ds = true -> emapM item_of ds = EOk items ->
  ast_new t = ast_of_root (NRoot (items ++ [NEOF])).
Proof.
  intros He Hok Hit. unfold ast_new. rewrite <- walk_erase, He.
  rewrite (walk_spec ds items); [reflexivity| |exact Hit].
  apply Forall_forall. intros d Hd. apply decl_okb_sound. exact (proj1 (forallb_forall _ _) Hok d Hd).
Qed.
