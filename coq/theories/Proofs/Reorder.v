(* C11 (reordering): the Ast does not depend on the order of the top-level declarations.  The
   type and constant indexes are BTreeMaps -- key-sorted association lists in the model -- so a
   permutation of the items with pairwise distinct names yields the very same lists; the generic
   index is a set (C13).  With C12_walk (walking a permuted declaration list yields the permuted
   items) the whole front end is order independent at tree level. *)
From Coq Require Import Lia Permutation Sorted.
From Coq Require OrderedTypeEx.
From XdrProofs Require Export WalkProofs FrontTotal MiscProofs.
Open Scope string_scope.
Open Scope list_scope.

Definition slt (a b : string) : Prop := String.compare a b = Lt.

Lemma slt_trans a b c : slt a b -> slt b c -> slt a c.
Proof.
  unfold slt. intros H1 H2. apply OrderedTypeEx.String_as_OT.cmp_lt in H1. apply OrderedTypeEx.String_as_OT.cmp_lt in H2.
  apply OrderedTypeEx.String_as_OT.cmp_lt. eapply OrderedTypeEx.String_as_OT.lt_trans; eassumption.
Qed.

Lemma slt_irrefl a : ~ slt a a.
Proof. unfold slt. intros H. pose proof (String.compare_antisym a a) as X. rewrite H in X. discriminate. Qed.

Lemma compare_gt_lt a b : String.compare a b = Gt -> slt b a.
Proof. unfold slt. intros H. rewrite String.compare_antisym, H. reflexivity. Qed.

Section Sorted.
  Context {V : Type}.

  Definition ksorted (l : list (string * V)) : Prop := StronglySorted (fun a b => slt (fst a) (fst b)) l.

  Lemma ksorted_assoc_lt k (l : list (string * V)) :
    ksorted l -> Forall (fun b => slt k (fst b)) l -> assoc k l = None.
  Proof.
    induction l as [|[k' v'] r IH]; intros Hs Hf; [reflexivity|]. cbn [assoc].
    inversion Hf as [|? ? H1 H2]; subst. cbn [fst] in H1.
    destruct (String.eqb_spec k k') as [->|_]; [exfalso; exact (slt_irrefl _ H1)|].
    inversion Hs; subst. now apply IH.
  Qed.

  Lemma map_insert_keys k (v : V) l x :
    In x (map fst (fst (map_insert k v l))) <-> x = k \/ In x (map fst l).
  Proof.
    induction l as [|[k' v'] r IH]; cbn [map_insert fst map In].
    - intuition.
    - destruct (String.compare k k') eqn:E; cbn [fst map In].
      + apply String.compare_eq_iff in E. subst k'. intuition.
      + intuition.
      + destruct (map_insert k v r) as [r' dup]. cbn [fst map In] in *. rewrite IH. intuition.
  Qed.

  Lemma map_insert_sorted k (v : V) l : ksorted l -> ksorted (fst (map_insert k v l)).
  Proof.
    induction l as [|[k' v'] r IH]; intros Hs; cbn [map_insert fst].
    - repeat constructor.
    - inversion Hs as [|? ? Hr Hall]; subst.
      destruct (String.compare k k') eqn:E; cbn [fst].
      + apply String.compare_eq_iff in E. subst k'. constructor; assumption.
      + constructor; [exact Hs|]. constructor; [exact E|].
        eapply Forall_impl; [|exact Hall]. intros b Hb. cbn [fst] in *. eapply slt_trans; [exact E|exact Hb].
      + pose proof (IH Hr) as Hs'. pose proof (map_insert_keys k v r) as Hk.
        destruct (map_insert k v r) as [r' dup]. cbn [fst] in *.
        constructor; [exact Hs'|]. apply Forall_forall. intros b Hb.
        assert (Hin : In (fst b) (map fst r')) by (apply in_map; exact Hb).
        apply Hk in Hin as [->|Hin]; cbn [fst]; [now apply compare_gt_lt|].
        apply in_map_iff in Hin as [b' [Eb Hb']]. rewrite <- Eb.
        exact (proj1 (Forall_forall _ _) Hall b' Hb').
  Qed.

  (* a key-sorted association list is determined by its lookups *)
  Lemma ksorted_ext (l1 l2 : list (string * V)) :
    ksorted l1 -> ksorted l2 -> (forall k, assoc k l1 = assoc k l2) -> l1 = l2.
  Proof.
    revert l2. induction l1 as [|[k1 v1] r1 IH]; intros l2 H1 H2 Hx.
    - destruct l2 as [|[k2 v2] r2]; [reflexivity|]. specialize (Hx k2). cbn [assoc] in Hx.
      rewrite String.eqb_refl in Hx. discriminate.
    - destruct l2 as [|[k2 v2] r2].
      + specialize (Hx k1). cbn [assoc] in Hx. rewrite String.eqb_refl in Hx. discriminate.
      + inversion H1 as [|? ? Hr1 Ha1]; subst. inversion H2 as [|? ? Hr2 Ha2]; subst.
        assert (Hk : k1 = k2).
        { destruct (String.compare k1 k2) eqn:E.
          - now apply String.compare_eq_iff.
          - (* k1 < k2: k1 is not in l2 *)
            pose proof (Hx k1) as X. cbn [assoc] in X. rewrite String.eqb_refl in X.
            destruct (String.eqb_spec k1 k2) as [->|_]; [reflexivity|].
            rewrite (ksorted_assoc_lt k1 r2 Hr2) in X; [discriminate|].
            eapply Forall_impl; [|exact Ha2]. intros b Hb. cbn [fst] in *. eapply slt_trans; [exact E|exact Hb].
          - apply compare_gt_lt in E.
            pose proof (Hx k2) as X. cbn [assoc] in X. rewrite String.eqb_refl in X.
            destruct (String.eqb_spec k2 k1) as [->|_]; [reflexivity|].
            rewrite (ksorted_assoc_lt k2 r1 Hr1) in X; [discriminate|].
            eapply Forall_impl; [|exact Ha1]. intros b Hb. cbn [fst] in *. eapply slt_trans; [exact E|exact Hb]. }
        subst k2. pose proof (Hx k1) as X. cbn [assoc] in X. rewrite String.eqb_refl in X. inversion X; subst v2.
        f_equal. apply IH; [assumption|assumption|].
        intros k. specialize (Hx k). cbn [assoc] in Hx.
        destruct (String.eqb_spec k k1) as [E|_]; [|exact Hx]. subst k.
        rewrite (ksorted_assoc_lt k1 r1 Hr1 Ha1), (ksorted_assoc_lt k1 r2 Hr2 Ha2). reflexivity.
  Qed.
End Sorted.

(* ---------- lookups through a duplicate-free entry list do not depend on its order ---------- *)

Section Entries.
  Context {V : Type}.

  Lemma fold_override_notin k (es : list (string * V)) a :
    ~ In k (map fst es) -> fold_left (override k) es a = a.
  Proof.
    revert a. induction es as [|[k' v'] r IH]; intros a H; [reflexivity|]. cbn [fold_left]. unfold override at 2. cbn [fst snd].
    destruct (String.eqb_spec k k') as [->|_]; [exfalso; apply H; now left|]. apply IH. intros X. apply H. now right.
  Qed.

  Lemma fold_override_in k v (es : list (string * V)) a :
    NoDup (map fst es) -> In (k, v) es -> fold_left (override k) es a = Some v.
  Proof.
    revert a. induction es as [|[k' v'] r IH]; intros a Hnd Hin; [contradiction|].
    cbn [fold_left map fst] in *. unfold override at 2. cbn [fst snd]. inversion Hnd as [|? ? Hni Hnd']; subst.
    destruct Hin as [E|Hin].
    - inversion E; subst. rewrite String.eqb_refl. now apply fold_override_notin.
    - destruct (String.eqb_spec k k') as [->|_].
      + exfalso. apply Hni. apply in_map_iff. exists (k', v). split; [reflexivity|exact Hin].
      + now apply IH.
  Qed.

  Lemma fold_override_perm k (es1 es2 : list (string * V)) a :
    Permutation es1 es2 -> NoDup (map fst es1) ->
    fold_left (override k) es1 a = fold_left (override k) es2 a.
  Proof.
    intros Hp Hnd.
    assert (Hnd2 : NoDup (map fst es2)) by (eapply Permutation_NoDup; [apply Permutation_map; exact Hp|exact Hnd]).
    destruct (in_dec string_dec k (map fst es1)) as [Hin|Hni].
    - apply in_map_iff in Hin as [[k' v] [E Hin]]. cbn in E. subst k'.
      rewrite (fold_override_in k v es1 a Hnd Hin).
      rewrite (fold_override_in k v es2 a Hnd2 (Permutation_in _ Hp Hin)). reflexivity.
    - rewrite (fold_override_notin k es1 a Hni). rewrite fold_override_notin; [reflexivity|].
      intros X. apply Hni. eapply Permutation_in; [apply Permutation_sym; apply Permutation_map; exact Hp|exact X].
  Qed.
End Entries.

(* ---------- the type index ---------- *)

Definition tentries (items : list node) : list (string * ast_type) :=
  flat_map (fun nd => match type_entry nd with Some p => [p] | None => [] end) items.

Lemma last_type_entries k items a :
  fold_left (fun acc nd => match type_entry nd with
                           | Some (k', t) => if String.eqb k k' then Some t else acc
                           | None => acc
                           end) items a
  = fold_left (override k) (tentries items) a.
Proof.
  revert a. induction items as [|nd items IH]; intros a; [reflexivity|].
  cbn [fold_left tentries flat_map]. rewrite fold_left_app. fold (tentries items). rewrite <- IH.
  destruct (type_entry nd) as [[k' t]|]; reflexivity.
Qed.

Lemma type_index_sorted items : forall acc, ksorted acc -> ksorted (type_index items acc).
Proof.
  induction items as [|nd items IH]; intros acc Hs; [exact Hs|].
  destruct nd; cbn [type_index]; try (apply IH; exact Hs); apply IH; now apply map_insert_sorted.
Qed.

Lemma Permutation_flat_map {X Y} (f : X -> list Y) l1 l2 :
  Permutation l1 l2 -> Permutation (flat_map f l1) (flat_map f l2).
Proof.
  induction 1; cbn [flat_map].
  - constructor.
  - now apply Permutation_app_head.
  - rewrite !app_assoc. apply Permutation_app_tail. apply Permutation_app_comm.
  - eapply Permutation_trans; eassumption.
Qed.

(* the type index of a permutation of items with pairwise distinct names is the same list *)
Theorem type_index_perm items1 items2 :
  Permutation items1 items2 -> NoDup (map fst (tentries items1)) ->
  type_index items1 [] = type_index items2 [].
Proof.
  intros Hp Hnd. apply ksorted_ext; try (apply type_index_sorted; constructor).
  intros k. rewrite !types_by_name. unfold last_type. rewrite !last_type_entries.
  apply fold_override_perm; [|exact Hnd]. unfold tentries. now apply Permutation_flat_map.
Qed.

(* ---------- the constant index ---------- *)

Section Dup.
  Context {V : Type}.

  Lemma map_insert_dup k (v : V) l : ksorted l -> (snd (map_insert k v l) = true <-> In k (map fst l)).
  Proof.
    induction l as [|[k' v'] r IH]; intros Hs; cbn [map_insert snd map In fst].
    - split; [discriminate|contradiction].
    - inversion Hs as [|? ? Hr Hall]; subst.
      destruct (String.compare k k') eqn:E; cbn [snd].
      + apply String.compare_eq_iff in E. subst. split; [intros _; now left|reflexivity].
      + split; [discriminate|]. intros [->|Hin]; [exfalso; exact (slt_irrefl _ E)|].
        apply in_map_iff in Hin as [b [Eb Hb]]. pose proof (proj1 (Forall_forall _ _) Hall b Hb) as X. cbn [fst] in X.
        rewrite Eb in X. exfalso. exact (slt_irrefl _ (slt_trans _ _ _ E X)).
      + specialize (IH Hr). destruct (map_insert k v r) as [r' dup]. cbn [snd] in *. rewrite IH.
        split; [intros H; now right|]. intros [->|H]; [|exact H].
        exfalso. pose proof (String.compare_antisym k k) as X. rewrite E in X. discriminate.
  Qed.
End Dup.

(* ConstantIndex::new as one loop over the entries *)
Fixpoint cinsert_all (es : list (string * constant_type)) (acc : list (string * constant_type))
  : eres (list (string * constant_type)) :=
  match es with
  | [] => EOk acc
  | (k, v) :: r => let (acc', dup) := map_insert k v acc in
                   if dup then EPanic "constants.rs:new" else cinsert_all r acc'
  end.

Lemma cinsert_all_app es1 es2 acc :
  cinsert_all (es1 ++ es2) acc = ebind (cinsert_all es1 acc) (cinsert_all es2).
Proof.
  revert acc. induction es1 as [|[k v] r IH]; intros acc; cbn [app cinsert_all ebind]; [reflexivity|].
  destruct (map_insert k v acc) as [acc' dup]. destruct dup; [reflexivity|apply IH].
Qed.

Lemma enum_consts_cinsert en vs acc :
  enum_consts en vs acc = cinsert_all (map (fun mv => (fst mv, EnumValue en (fst mv))) vs) acc.
Proof.
  revert acc. induction vs as [|[m v] r IH]; intros acc; cbn [enum_consts map cinsert_all fst]; [reflexivity|].
  destruct (map_insert m (EnumValue en m) acc) as [acc' dup]. destruct dup; [reflexivity|apply IH].
Qed.

Lemma const_index_cinsert items : Forall const_shaped items -> forall acc,
  const_index items acc = cinsert_all (flat_map const_entries items) acc.
Proof.
  induction 1 as [|nd items Hs _ IH]; intros acc; [reflexivity|].
  cbn [flat_map]. rewrite cinsert_all_app.
  destruct nd; try (cbn [const_index const_entries cinsert_all ebind]; apply IH).
  - destruct Hs as [a [b ->]]. cbn [const_index const_entries ident_str ebind cinsert_all].
    destruct (map_insert (bt_as_str a) (ConstValue (bt_as_str b)) acc) as [acc' dup]. destruct dup; [reflexivity|]. cbn [ebind]. apply IH.
  - rewrite const_index_enum. cbn [const_entries]. rewrite enum_consts_cinsert.
    destruct (cinsert_all _ acc); cbn [ebind]; try reflexivity. apply IH.
Qed.

Lemma cinsert_all_spec es : forall acc cs,
  ksorted acc -> cinsert_all es acc = EOk cs ->
  ksorted cs /\ NoDup (map fst es) /\ (forall k, In k (map fst es) -> ~ In k (map fst acc)) /\
  (forall k, assoc k cs = fold_left (override k) es (assoc k acc)).
Proof.
  induction es as [|[k v] r IH]; intros acc cs Hs H; cbn [cinsert_all] in H.
  - inversion H; subst. split; [exact Hs|]. split; [constructor|]. split; [intros k []|reflexivity].
  - pose proof (map_insert_dup k v acc Hs) as Hd. pose proof (map_insert_sorted k v acc Hs) as Hs'.
    pose proof (map_insert_keys k v acc) as Hk.
    destruct (map_insert k v acc) as [acc' dup] eqn:Em. cbn [fst snd] in *.
    destruct dup; [discriminate|].
    destruct (IH acc' cs Hs' H) as [C1 [C2 [C3 C4]]].
    assert (Hnk : ~ In k (map fst acc)) by (intros X; apply Hd in X; discriminate).
    split; [exact C1|]. split.
    + cbn [map fst]. constructor; [|exact C2]. intros X. apply (C3 k X). apply Hk. now left.
    + split.
      * intros k0 [<-|Hin]; [exact Hnk|]. intros X. apply (C3 k0 Hin). apply Hk. now right.
      * intros k0. rewrite C4. cbn [fold_left]. f_equal. unfold override. cbn [fst snd].
        pose proof (assoc_map_insert k0 k v acc) as Y. rewrite Em in Y. cbn [fst] in Y. exact Y.
Qed.

Lemma cinsert_all_ok es : forall acc,
  ksorted acc -> NoDup (map fst es) -> (forall k, In k (map fst es) -> ~ In k (map fst acc)) ->
  exists cs, cinsert_all es acc = EOk cs.
Proof.
  induction es as [|[k v] r IH]; intros acc Hs Hnd Hdis; cbn [cinsert_all]; [eauto|].
  pose proof (map_insert_dup k v acc Hs) as Hd. pose proof (map_insert_sorted k v acc Hs) as Hs'.
  pose proof (map_insert_keys k v acc) as Hk.
  destruct (map_insert k v acc) as [acc' dup]. cbn [fst snd] in *.
  destruct dup.
  - exfalso. apply (Hdis k); [now left|]. now apply Hd.
  - cbn [map fst] in Hnd. inversion Hnd as [|? ? Hni Hnd']; subst. apply IH; [exact Hs'|exact Hnd'|].
    intros k0 Hin X. apply Hk in X as [->|X]; [exact (Hni Hin)|]. apply (Hdis k0); [now right|exact X].
Qed.

(* constants: if one order of the declarations is accepted, every order is, with the same index *)
Theorem const_index_perm items1 items2 cs :
  Permutation items1 items2 -> Forall const_shaped items1 ->
  const_index items1 [] = EOk cs -> const_index items2 [] = EOk cs.
Proof.
  intros Hp Hsh H.
  assert (Hsh2 : Forall const_shaped items2).
  { apply Forall_forall. intros x Hx. apply (proj1 (Forall_forall _ _) Hsh). eapply Permutation_in; [apply Permutation_sym; exact Hp|exact Hx]. }
  rewrite const_index_cinsert in * by assumption.
  assert (Hs0 : @ksorted constant_type []) by constructor.
  destruct (cinsert_all_spec _ _ _ Hs0 H) as [C1 [C2 [_ C4]]].
  pose proof (Permutation_flat_map const_entries _ _ Hp) as Hpe.
  assert (Hnd2 : NoDup (map fst (flat_map const_entries items2)))
    by (eapply Permutation_NoDup; [apply Permutation_map; exact Hpe|exact C2]).
  destruct (cinsert_all_ok _ [] Hs0 Hnd2 ltac:(intros k _ [])) as [cs2 H2].
  rewrite H2. f_equal.
  destruct (cinsert_all_spec _ _ _ Hs0 H2) as [D1 [_ [_ D4]]].
  apply ksorted_ext; [exact D1|exact C1|]. intros k. rewrite C4, D4. symmetry.
  now apply fold_override_perm.
Qed.

(* ---------- the whole Ast ---------- *)

Theorem ast_reorder items1 items2 A1 :
  Permutation items1 items2 -> Forall const_shaped items1 ->
  NoDup (map fst (tentries items1)) -> no_prim_names items1 ->
  ast_of_root (NRoot items1) = EOk A1 ->
  exists A2, ast_of_root (NRoot items2) = EOk A2 /\
             constants A2 = constants A1 /\ types A2 = types A1 /\
             forall n, mem n (generics A2) = mem n (generics A1).
Proof.
  intros Hp Hsh Hnd Hnp H. cbn [ast_of_root] in *.
  destruct (const_index items1 []) as [cs| |] eqn:Ec; cbn [ebind] in H; try discriminate.
  inversion H; subst A1. clear H.
  rewrite (const_index_perm items1 items2 cs Hp Hsh Ec). cbn [ebind].
  eexists. split; [reflexivity|]. cbn [constants types generics]. split; [reflexivity|]. split.
  - symmetry. now apply type_index_perm.
  - intros n. symmetry. apply generic_index_perm; [exact Hnp|].
    intros x. split; intros Hx; [eapply Permutation_in; [exact Hp|exact Hx]|eapply Permutation_in; [apply Permutation_sym; exact Hp|exact Hx]].
Qed.

Lemma emapM_perm {X Y} (f : X -> eres Y) l1 l2 r1 :
  Permutation l1 l2 -> emapM f l1 = EOk r1 -> exists r2, emapM f l2 = EOk r2 /\ Permutation r1 r2.
Proof.
  intros Hp. revert r1. induction Hp as [|x l1 l2 Hp IH|x y l|l1 l2 l3 Hp1 IH1 Hp2 IH2]; intros r1 H.
  - cbn in H. inversion H. exists []. split; [reflexivity|constructor].
  - cbn [emapM] in *. destruct (f x) as [fx| |]; cbn [ebind] in *; try discriminate.
    destruct (emapM f l1) as [t1| |]; cbn [ebind] in *; try discriminate. inversion H; subst.
    destruct (IH t1 eq_refl) as [t2 [E2 P2]]. rewrite E2. cbn [ebind]. exists (fx :: t2). split; [reflexivity|now constructor].
  - cbn [emapM] in *. destruct (f y) as [fy| |]; cbn [ebind] in *; try discriminate.
    destruct (f x) as [fx| |]; cbn [ebind] in *; try discriminate.
    destruct (emapM f l) as [t| |]; cbn [ebind] in *; try discriminate. inversion H; subst.
    exists (fx :: fy :: t). split; [reflexivity|apply perm_swap].
  - destruct (IH1 r1 H) as [r2 [E2 P2]]. destruct (IH2 r2 E2) as [r3 [E3 P3]].
    exists r3. split; [exact E3|eapply Permutation_trans; eassumption].
Qed.

(* C11 at tree level: reordering the declarations of a specification does not change its Ast *)
Theorem spec_reorder ds1 ds2 A1 :
  Permutation ds1 ds2 -> Forall decl_ok ds1 ->
  (forall items, emapM item_of ds1 = EOk items ->
                 NoDup (map fst (tentries items)) /\ no_prim_names (items ++ [NEOF])) ->
  ast_new (tree_of ds1) = EOk A1 ->
  exists A2, ast_new (tree_of ds2) = EOk A2 /\
             constants A2 = constants A1 /\ types A2 = types A1 /\
             forall n, mem n (generics A2) = mem n (generics A1).
Proof.
  intros Hp Hok Hnames H.
  assert (Hok2 : Forall decl_ok ds2).
  { apply Forall_forall. intros d Hd. apply (proj1 (Forall_forall _ _) Hok). eapply Permutation_in; [apply Permutation_sym; exact Hp|exact Hd]. }
  destruct (emapM item_of ds1) as [items1| |w] eqn:E1.
  - destruct (emapM_perm item_of ds1 ds2 items1 Hp E1) as [items2 [E2 Pi]].
    rewrite (ast_of_spec_total ds1 items1 Hok E1) in H. rewrite (ast_of_spec_total ds2 items2 Hok2 E2).
    destruct (Hnames items1 eq_refl) as [Hnd Hnp].
    change (ebind (const_index (items1 ++ [NEOF]) []) _) with (ast_of_root (NRoot (items1 ++ [NEOF]))) in H.
    change (ebind (const_index (items2 ++ [NEOF]) []) _) with (ast_of_root (NRoot (items2 ++ [NEOF]))).
    eapply ast_reorder; [apply Permutation_app_tail; exact Pi| | |exact Hnp|exact H].
    + apply Forall_app. split; [|repeat constructor].
      eapply emapM_all; [|exact E1]. intros d it. apply item_of_shaped.
    + unfold tentries in *. rewrite flat_map_app, map_app. cbn. rewrite app_nil_r. exact Hnd.
  - exfalso. assert (X : only_panics [E_ENUM] (emapM item_of ds1)) by (apply op_emapM; intros; apply item_of_outcome).
    rewrite E1 in X. inversion X.
  - exfalso. unfold ast_new, tree_of in H.
    change (walk (Node "item" "" ?cs)) with (ebind (walk_list cs) (fun l => EOk (NRoot l))) in H.
    rewrite walk_list_app_gen, (walk_list_emapM ds1 Hok), E1 in H. cbn [ebind] in H. discriminate.
Qed.
