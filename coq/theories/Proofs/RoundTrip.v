(* C01: decoding the RFC 4506 encoding of any well-typed value with the emitted decoder
   returns exactly that value and leaves the cursor right after it.  By mutual induction over
   the typing derivation.  The selection of union arms by the emitted match patterns is
   isolated in the hypothesis Hsel, discharged in UnionProofs.v. *)
From XdrProofs Require Export RoundTripBase MiscProofs.
Open Scope N_scope.
Open Scope list_scope.

(* ---------- hypotheses on the specification ---------- *)

Definition safe_ref (t : basic_type) : Prop :=
  match t with Ident n => as_safe_string (Ident n) = n | _ => True end.

(* a literal bound is a u32 (in the Rust AST it is one by type) *)
Definition bound_ok (s : array_size) : Prop :=
  match s with Known k => k < 4294967296 | Constant _ => True end.

Definition pos_ok (a : array_type) (opt : bool) : Prop :=
  safe_ref (unwrap_array a) /\
  (opt = true -> exists n, a = ANone (Ident n)) /\
  match a with
  | AVar t s => (t = Opaque \/ t = TString \/ exists n, t = Ident n) /\
                match s with Some s => bound_ok s | None => True end
  | AFixed t s => t <> TString /\ bound_ok s
  | ANone _ => True
  end.

Definition typedef_ok (n : string) (t : typedef_t) : Prop :=
  unwrap_array (td_alias t) = Ident n /\
  pos_ok (typedef_pos t) false /\
  match td_alias t with AVar _ _ => exists m, td_target t = Ident m | _ => True end.

Definition enum_ok (e : enum_t) : Prop :=
  (forall p, In p (en_variants e) -> exists x, snd p = VNum x /\ (0 <= x < 2147483648)%Z) /\
  NoDup (map snd (en_variants e)).

Definition selects (md : module_ir) (arms : list (matcher * string * option dexp)) (fb : fallback)
           (dd : dval) (variant : string) (payload : option dexp) : Prop :=
  (exists pre m post,
      arms = pre ++ (m, variant, payload) :: post /\
      Forall (fun a => matches md (fst (fst a)) dd = Some false) pre /\
      matches md m dd = Some true)
  \/ (Forall (fun a => matches md (fst (fst a)) dd = Some false) arms /\
      variant = "default"%string /\ exists e, fb = FbDefault e /\ payload = Some e).

Record sup_core (A : ast) : Prop := {
  sup_size : wf_size A;
  sup_keys_safe : forall n t, get_type A n = Some t -> as_safe_string (Ident n) = n;
  sup_struct : forall n s, get_type A n = Some (TStruct s) ->
                           Forall (fun f => pos_ok (sf_value f) (sf_optional f)) (st_fields s);
  sup_typedef : forall n t, get_type A n = Some (TTypedef t) -> typedef_ok n t;
  sup_enum : forall n e, get_type A n = Some (TEnum e) -> enum_ok e;
  sup_arms : forall n u, get_type A n = Some (TUnion u) ->
                         Forall (fun c => pos_ok (uc_value c) false) (un_cases u) /\
                         (forall c, un_default u = Some c -> pos_ok (uc_value c) false)
}.

(* ---------- generic facts ---------- *)

Lemma mkview_if a o bs :
  (if len bs =? 0 then empty_view else {| valloc := a; voff := o; vdata := bs |}) = mkview a o bs.
Proof. destruct bs; [reflexivity|]. rewrite len_cons. destruct (N.eqb_spec (1 + len bs) 0); [lia|reflexivity]. Qed.

Lemma eval_arms_selects md rec lf self dd arms fb variant payload :
  selects md arms fb dd variant payload ->
  eval_arms md rec lf self dd arms fb =
  match payload with
  | Some e => bind (eval_dexp md rec lf e) (fun x => ret (RVVariant self variant (Some x)))
  | None => ret (RVVariant self variant None)
  end.
Proof.
  intros [[pre [m [post [-> [Hpre Hm]]]]]|[Hall [-> [e [-> ->]]]]].
  - induction Hpre as [|[[m' v'] p'] pre Hx _ IH]; cbn [app eval_arms].
    + rewrite Hm. destruct payload; reflexivity.
    + cbn [fst] in Hx. rewrite Hx. exact IH.
  - induction Hall as [|[[m' v'] p'] arms Hx _ IH]; cbn [eval_arms]; [reflexivity|].
    cbn [fst] in Hx. rewrite Hx. exact IH.
Qed.

Lemma need_list_le l x f : In x l -> (need_list l <= f)%nat -> (need x <= f)%nat.
Proof.
  induction l as [|y r IH]; intros Hin Hf; [contradiction|]. cbn [need_list] in Hf.
  destruct Hin as [->|Hin]; [lia|apply IH; [exact Hin|lia]].
Qed.

Lemma size_val_lt A s n : bound_ok s -> size_val A s = Some n -> n < 4294967296.
Proof.
  unfold size_val, bound_ok. destruct s as [k|c]; [intros H E; inversion E; subst; exact H|].
  intros _. destruct (get_const A c) as [[v|? ?]|]; try discriminate. unfold parse_u32.
  destruct v; [discriminate|]. destruct (NilEmpty.uint_of_string _); [|discriminate].
  destruct (N.ltb_spec (N.of_uint u) 4294967296); [|discriminate]. intros E; inversion E; subst. assumption.
Qed.

(* size_val / max_val of the reference vs resolve_size of the emitter *)
Lemma size_val_resolve A s n b : size_val A s = Some n -> resolve_size A s b = EOk n.
Proof.
  unfold size_val, resolve_size. destruct s as [k|c]; [intros H; inversion H; reflexivity|].
  destruct (get_const A c) as [[v|e v]|]; try discriminate. cbn [const_display]. intros ->. reflexivity.
Qed.

Section RT.
  Variable A : ast.
  Variable md : module_ir.
  Hypothesis Hgen : gen A = EOk md.
  Hypothesis Hsup : sup_core A.

  Let Hwf : wf_size A := sup_size A Hsup.
  Let Hkeys : keys_ok A := proj1 Hwf.

  Hypothesis Hsel :
    forall n u dv disc arms fb,
      get_type A n = Some (TUnion u) ->
      emit_from_body A (TUnion u) = EOk (BUnion dv disc arms fb) ->
      forall d variant ty dd,
        TypedB A (disc_type A u) d -> arm_for A u d = Some (variant, ty) ->
        dval_of (rv 0 0 d) = Some dd ->
        exists payload, selects md arms fb dd variant payload /\
                        match ty with
                        | Some t => exists e, payload = Some e /\ decode_array A t UseAlias = EOk e
                        | None => payload = None
                        end.

  (* the fexp the struct emitter writes for a field *)
  Definition fexp_of (a : array_type) (opt : bool) : eres fexp :=
    if opt then EOk (FOpt (as_safe_string (unwrap_array a)))
    else ebind (decode_array A a UseAlias) (fun e => EOk (FPlain e)).

  (* ---------- readers on encodings ---------- *)

  Lemma dec_u32 rec lf n : n <= u32_max -> decodes (eval_dexp md rec lf (EPrim PU32)) (XU32 n).
  Proof.
    intros Hn a o rest l. exists l. cbn [eval_dexp read_prim enc rv]. unfold bind, read_u32.
    rewrite read_be_app by (now rewrite len_be_enc). rewrite be_dec_enc4 by (unfold u32_max in Hn; lia).
    unfold ret. now rewrite len_be_enc4.
  Qed.

  Lemma dec_prims rec lf t x :
    TypedB A t x -> forall e, prim_dexp t = Some e -> decodes (eval_dexp md rec lf e) x.
  Proof.
    intros H e He a o rest l. inversion H; subst; cbn [prim_dexp] in He; inversion He; subst e;
      cbn [eval_dexp read_prim enc rv]; unfold bind, read_u32, read_u64, read_i32, read_i64, read_f32, read_f64.
    - exists l. rewrite read_be_app by (now rewrite len_be_enc). rewrite be_dec_enc4 by (unfold u32_max in *; lia).
      unfold ret. now rewrite len_be_enc4.
    - exists l. unfold bind. rewrite read_be_app by (now rewrite len_be_enc).
      rewrite be_dec_enc4 by apply of_i32_bound. unfold ret. rewrite to_i32_of_i32 by assumption. now rewrite len_be_enc4.
    - exists l. rewrite read_be_app by (now rewrite len_be_enc). rewrite be_dec_enc8 by assumption.
      unfold ret. now rewrite len_be_enc8.
    - exists l. unfold bind. rewrite read_be_app by (now rewrite len_be_enc).
      rewrite be_dec_enc8 by apply of_i64_bound. unfold ret. rewrite to_i64_of_i64 by assumption. now rewrite len_be_enc8.
    - exists l. rewrite read_be_app by (now rewrite len_be_enc). rewrite be_dec_enc4 by (unfold u32_max in *; lia).
      unfold ret. now rewrite len_be_enc4.
    - exists l. rewrite read_be_app by (now rewrite len_be_enc). rewrite be_dec_enc8 by assumption.
      unfold ret. now rewrite len_be_enc8.
    - exists l. rewrite read_bool_valid. unfold ret. now rewrite len_be_enc4.
    - eexists. unfold enc_bytes. rewrite <- !app_assoc. rewrite read_string_app; [|unfold u32_max in *; lia|discriminate].
      match goal with Hu : utf8_valid _ = true |- _ => rewrite Hu end. unfold ret.
      rewrite len_app, len_be_enc4, len_app, len_zeros. f_equal. f_equal. lia.
    - exists l. unfold enc_bytes. rewrite <- !app_assoc. rewrite read_variable_bytes_app; [|unfold u32_max in *; lia|discriminate].
      unfold ret. rewrite mkview_if. rewrite len_app, len_be_enc4, len_app, len_zeros. f_equal. f_equal. lia.
  Qed.

  (* ---------- the induction ---------- *)

  Definition PN (n : string) (x : xval) : Prop :=
    forall fuel, (need x <= fuel)%nat -> step_exact x = true -> decodes (dec md fuel n) x.

  Definition PB (t : basic_type) (x : xval) : Prop :=
    forall e, decode_basic A t UseAlias = EOk e ->
    forall f, (need x <= f)%nat -> step_exact x = true -> decodes (eval_dexp md (dec md f) f e) x.

  Definition PP (t : array_type) (opt : bool) (x : xval) : Prop :=
    pos_ok t opt ->
    forall fe, fexp_of t opt = EOk fe ->
    forall f, (need x <= f)%nat -> step_exact x = true -> decodes (eval_fexp md (dec md f) f fe) x.

  Definition PArm (ty : option array_type) (arm : option xval) : Prop :=
    match ty, arm with
    | Some t, Some y =>
      pos_ok t false ->
      forall e, decode_array A t UseAlias = EOk e ->
      forall f, (need y <= f)%nat -> step_exact y = true -> decodes (eval_dexp md (dec md f) f e) y
    | _, _ => True
    end.

  Definition PF (fs : list struct_field) (vs : list xval) : Prop :=
    Forall (fun f => pos_ok (sf_value f) (sf_optional f)) fs ->
    forall ps, Forall2 (fun fd p => fexp_of (sf_value fd) (sf_optional fd) = EOk (snd p)) fs ps ->
    forall f, (need_list vs <= f)%nat -> step_exact_all vs = true ->
              decodes_list (eval_fields md (dec md f) f ps) vs.

  Definition PL (t : basic_type) (l : list xval) : Prop :=
    (forall e, decode_basic A t UseAlias = EOk e ->
     forall f, (need_list l <= f)%nat -> step_exact_all l = true ->
               decodes_list (seq_n (List.length l) (eval_dexp md (dec md f) f e)) l) /\
    (forall n, t = Ident n ->
     forall f, (need_list l <= f)%nat -> step_exact_all l = true -> noF1_all l = true ->
     forall a o rest led sum acc fuel, (List.length l <= fuel)%nat ->
       exists led',
         rva_loop (dec md f n) (wsz md) fuel (len l) sum acc
                  (mk a o (concat (map enc l) ++ rest) led)
         = Ok (rev acc ++ rv_list a o l, sum + len (concat (map enc l)))
              (mk a (o + len (concat (map enc l))) rest led')).

  Lemma decode_basic_ident n : decode_basic A (Ident n) UseAlias = EOk (ETryFrom n).
  Proof. reflexivity. Qed.

  Lemma decode_basic_prim t e : prim_dexp t = Some e -> decode_basic A t UseAlias = EOk e.
  Proof. unfold decode_basic. now intros ->. Qed.

  Lemma prim_dexp_cases t : (exists e, prim_dexp t = Some e) \/ (exists n, t = Ident n).
  Proof. destruct t; cbn; eauto. Qed.

  Lemma decode_basic_alias t e :
    decode_basic A t UseAlias = EOk e ->
    prim_dexp t = Some e \/ exists n, t = Ident n /\ e = ETryFrom n.
  Proof.
    destruct (prim_dexp_cases t) as [[e' He]|[n ->]].
    - rewrite (decode_basic_prim _ _ He). intros H. inversion H; subst. now left.
    - cbn. intros H. inversion H. right. eauto.
  Qed.

  (* typedef: the declarator is decoded through the alias exactly as the same declarator on
     the target would be decoded in a struct field *)
  Lemma typedef_emit n t :
    get_type A n = Some (TTypedef t) -> typedef_ok n t ->
    decode_array A (td_alias t) UseTarget = decode_array A (typedef_pos t) UseAlias.
  Proof.
    intros Hget [Hal [Hpos Hvar]]. unfold typedef_pos in *.
    assert (Htt : typedef_target A n = Some t) by (unfold typedef_target; now rewrite Hget).
    destruct (td_alias t) as [b|b s|b s] eqn:Ea; cbn [unwrap_array] in Hal; subst b.
    - (* ANone *) cbn [decode_array]. unfold decode_basic at 1. cbn [prim_dexp]. rewrite Hget.
      destruct (prim_dexp_cases (td_target t)) as [[e He]|[m Hm]].
      + rewrite He. now rewrite (decode_basic_prim _ _ He).
      + rewrite Hm. reflexivity.
    - (* AFixed *) cbn [decode_array]. destruct (resolve_size A s true) as [k| |]; cbn [ebind]; try reflexivity.
      unfold decode_fixed. cbn [bt_as_str]. rewrite Htt.
      destruct (td_target t) eqn:Et; try reflexivity;
        destruct (k =? 0); try reflexivity; unfold decode_basic; cbn [prim_dexp]; rewrite Hget, Et; reflexivity.
    - (* AVar: the target is a named type *)
      destruct Hvar as [m Hm]. destruct Hpos as [Hsafe _]. rewrite Hm in *. cbn [unwrap_array safe_ref] in Hsafe.
      assert (Hsn : as_safe_string (Ident n) = n) by (eapply sup_keys_safe; eassumption).
      cbn [decode_array]. destruct s as [sz|].
      + destruct (resolve_size A sz false) as [k| |]; cbn [ebind]; try reflexivity.
        unfold decode_variable. rewrite Hsn, Hget. cbn [ast_type_display]. rewrite Hm. cbn [bt_as_str].
        rewrite Hsafe. reflexivity.
      + unfold decode_variable. rewrite Hsn, Hget. cbn [ast_type_display]. rewrite Hm. cbn [bt_as_str].
        rewrite Hsafe. reflexivity.
  Qed.

  Lemma enum_split e m v :
    enum_ok e -> In (m, VNum v) (en_variants e) ->
    exists pre post, en_variants e = pre ++ (m, VNum v) :: post /\
                     Forall (fun p => exists x, snd p = VNum x /\ x <> v /\ (0 <= x)%Z) pre /\ (0 <= v)%Z.
  Proof.
    intros [Hnum Hnd] Hin. apply in_split in Hin as [pre [post E]]. exists pre, post.
    split; [exact E|]. rewrite E in Hnd, Hnum. split.
    - apply Forall_forall. intros p Hp. destruct (Hnum p) as [x [Hx Hx0]]; [apply in_or_app; now left|].
      exists x. split; [exact Hx|]. split; [|lia]. intros ->.
      rewrite map_app in Hnd. cbn [map snd] in Hnd. apply NoDup_remove_2 in Hnd. apply Hnd.
      apply in_or_app. left. apply in_map_iff. exists p. split; [exact Hx|exact Hp].
    - destruct (Hnum (m, VNum v)) as [x [Hx Hx0]]; [apply in_or_app; right; now left|].
      cbn in Hx. inversion Hx; subst. lia.
  Qed.

  Lemma fexp_of_plain a fe :
    fexp_of a false = EOk fe -> exists e, decode_array A a UseAlias = EOk e /\ fe = FPlain e.
  Proof.
    unfold fexp_of. destruct (decode_array A a UseAlias) as [e| |]; cbn [ebind]; try discriminate.
    intros H. inversion H. eauto.
  Qed.

  Theorem roundtrip_all :
    (forall n x, TypedN A n x -> PN n x) /\
    (forall fs vs, TypedF A fs vs -> PF fs vs) /\
    (forall ty arm, TypedArm A ty arm -> PArm ty arm) /\
    (forall t opt x, TypedP A t opt x -> PP t opt x) /\
    (forall t l, TypedL A t l -> PL t l) /\
    (forall t x, TypedB A t x -> PB t x).
  Proof.
    apply Typed_mutind.
    - (* struct *)
      intros n s vs Hget Hname _ IH fuel Hf Hse a o rest l.
      rewrite need_struct in Hf. destruct fuel as [|f]; [lia|].
      destruct (find_from_gen A md Hgen Hkeys n _ Hget) as [b [Hb Hfind]].
      cbn [emit_from_body] in Hb.
      destruct (emapM _ (st_fields s)) as [ps| |] eqn:Eps; cbn [ebind] in Hb; try discriminate.
      inversion Hb; subst b. clear Hb.
      assert (Hps : Forall2 (fun fd p => fexp_of (sf_value fd) (sf_optional fd) = EOk (snd p)) (st_fields s) ps).
      { eapply emapM_Forall2; [|exact Eps]. intros fd p Hp. cbv beta in Hp. unfold fexp_of.
        destruct (sf_optional fd); [inversion Hp; reflexivity|].
        destruct (decode_array A (sf_value fd) UseAlias); cbn [ebind] in Hp |- *; try discriminate.
        inversion Hp. reflexivity. }
      rewrite step_exact_struct in Hse.
      destruct (IH (sup_struct A Hsup n s Hget) ps Hps f ltac:(lia) Hse a o rest l) as [l' Hd].
      exists l'. cbn [dec]. rewrite Hfind. cbn [i_body i_name eval_body]. unfold bind.
      cbn [enc]. rewrite Hd. unfold ret. rewrite rv_struct, Hname. reflexivity.
    - (* union *)
      intros n u d variant ty arm Hget Hname Td IHd Harm Tarm IHarm fuel Hf Hse a o rest l.
      destruct fuel as [|f]; [destruct arm; cbn [need] in Hf; lia|].
      destruct (find_from_gen A md Hgen Hkeys n _ Hget) as [b [Hb Hfind]].
      assert (Hb' := Hb). cbn [emit_from_body] in Hb.
      destruct (decode_basic A (un_sw_type u) UseTarget) as [disc| |] eqn:Edisc; cbn [ebind] in Hb; try discriminate.
      destruct (emapM _ (un_cases u)) as [arms| |] eqn:Earms; cbn [ebind] in Hb; try discriminate.
      destruct (match un_default u with Some d0 => _ | None => _ end) as [fb| |] eqn:Efb; cbn [ebind] in Hb; try discriminate.
      inversion Hb; subst b. clear Hb.
      pose proof (proj2 Hwf _ _ Hget) as [Hdisc _].
      (* the discriminant *)
      assert (Hdisc_emit : decode_basic A (disc_type A u) UseAlias = EOk disc).
      { clear - Edisc Hdisc Hkeys. unfold disc_type in *. destruct (un_sw_type u) as [| | | | | | | | |c] eqn:Esw;
          try (cbn in Edisc |- *; exact Edisc).
        unfold decode_basic in Edisc. cbn [prim_dexp] in Edisc.
        destruct (get_type A c) as [[s|u0|e|t]|] eqn:Ec.
        - cbn. pose proof (Hkeys _ _ (assoc_In _ _ _ Ec)) as K. cbn in K. now rewrite <- K.
        - cbn. pose proof (Hkeys _ _ (assoc_In _ _ _ Ec)) as K. cbn in K. now rewrite <- K.
        - cbn. pose proof (Hkeys _ _ (assoc_In _ _ _ Ec)) as K. cbn in K. now rewrite <- K.
        - destruct (prim_dexp_cases (td_target t)) as [[e1 He1]|[m Hm]].
          + rewrite He1 in Edisc. now rewrite (decode_basic_prim _ _ He1).
          + rewrite Hm in *. exact Edisc.
        - discriminate. }
      assert (Hnd : (need d <= f)%nat) by (destruct arm; cbn [need] in Hf; lia).
      assert (Hsd : step_exact d = true).
      { destruct (disc_shape A u d Hdisc Td) as [_ _]. clear - Td Hdisc.
        destruct Hdisc as [E|[E|[E|[e [en [E He]]]]]]; rewrite E in Td; inversion Td; subst; try reflexivity.
        match goal with HN : TypedN _ _ _ |- _ => inversion HN; subst end; try congruence; reflexivity. }
      destruct (IHd disc Hdisc_emit f Hnd Hsd a o (match arm with Some y => enc y | None => [] end ++ rest) l) as [l1 Hd1].
      assert (Hdv : exists dd, dval_of (rv a o d) = Some dd /\ dval_of (rv 0 0 d) = Some dd).
      { clear - Td Hdisc. destruct Hdisc as [E|[E|[E|[e [en [E He]]]]]]; rewrite E in Td; inversion Td; subst;
          try (eexists; split; reflexivity).
        match goal with HN : TypedN _ _ _ |- _ => inversion HN; subst end; try congruence.
        eexists; split; reflexivity. }
      destruct Hdv as [dd [Hdd Hdd0]].
      destruct (Hsel n u _ _ _ _ Hget Hb' d variant ty dd Td Harm Hdd0) as [payload [Hselx Hpay]].
      cbn [dec]. rewrite Hfind. cbn [i_body i_name eval_body]. unfold bind at 1.
      destruct arm as [y|]; destruct ty as [t|]; try (inversion Tarm; fail).
      + (* data arm *)
        cbn [enc]. rewrite <- app_assoc. rewrite Hd1. rewrite Hdd.
        rewrite (eval_arms_selects md _ _ _ _ _ _ _ _ Hselx).
        destruct Hpay as [e [-> He]]. cbn [PArm] in IHarm.
        assert (Hpos : pos_ok t false).
        { destruct (sup_arms A Hsup n u Hget) as [Hc Hdf]. clear - Harm Hc Hdf.
          unfold arm_for in Harm.
          destruct (find _ (un_cases u)) as [c|] eqn:Ec.
          - destruct (find _ (uc_values c)); [|discriminate]. inversion Harm; subst.
            apply find_some in Ec as [Hin _]. exact (proj1 (Forall_forall _ _) Hc c Hin).
          - destruct (find _ (un_void u)); [discriminate|].
            destruct (un_default u) as [dc|] eqn:Ed; [|destruct (mem "default" (un_void u)); discriminate].
            inversion Harm; subst. now apply Hdf. }
        cbn [need] in Hf. cbn [step_exact] in Hse.
        destruct (IHarm Hpos e He f ltac:(lia) Hse a (o + len (enc d)) rest l1) as [l2 Hd2].
        exists l2. unfold bind. rewrite Hd2. unfold ret. cbn [rv]. rewrite len_app.
        rewrite N.add_assoc. reflexivity.
      + (* void arm *)
        cbn [enc]. cbn [app] in Hd1. rewrite Hd1. rewrite Hdd.
        rewrite (eval_arms_selects md _ _ _ _ _ _ _ _ Hselx). subst payload.
        exists l1. unfold ret. cbn [rv]. reflexivity.
    - (* enum *)
      intros n e m v Hget Hname Hin Hv fuel Hf _ a o rest l. cbn [need] in Hf.
      destruct fuel as [|f]; [lia|].
      destruct (find_from_gen A md Hgen Hkeys n _ Hget) as [b [Hb Hfind]].
      cbn [emit_from_body] in Hb. inversion Hb; subst b. clear Hb.
      destruct (enum_split e m v (sup_enum A Hsup n e Hget) Hin) as [pre [post [Esplit [Hpre Hv0]]]].
      exists l. cbn [dec]. rewrite Hfind. cbn [i_body i_name eval_body]. unfold bind, read_i32, bind.
      cbn [enc]. rewrite read_be_app by (now rewrite len_be_enc). rewrite be_dec_enc4 by apply of_i32_bound.
      unfold ret. rewrite to_i32_of_i32 by lia.
      rewrite Esplit, map_app. cbn [map fst snd].
      rewrite eval_enum_member.
      + cbn [rv]. now rewrite len_be_enc4.
      + apply Forall_forall. intros p Hp. apply in_map_iff in Hp as [q [<- Hq]].
        destruct (proj1 (Forall_forall _ _) Hpre q Hq) as [x [Hx [Hne Hx0]]].
        exists x. cbn [fst]. rewrite Hx. split; [now apply int_literal_string_of_Z|exact Hne].
      + now apply int_literal_string_of_Z.
    - (* typedef *)
      intros n t y Hget Hname Ty IH fuel Hf Hse a o rest l. cbn [need] in Hf. cbn [step_exact] in Hse.
      destruct fuel as [|f]; [lia|].
      destruct (find_from_gen A md Hgen Hkeys n _ Hget) as [b [Hb Hfind]].
      cbn [emit_from_body] in Hb.
      pose proof (sup_typedef A Hsup n t Hget) as Htd.
      rewrite (typedef_emit n t Hget Htd) in Hb.
      destruct (decode_array A (typedef_pos t) UseAlias) as [e| |] eqn:Ee; cbn [ebind] in Hb; try discriminate.
      inversion Hb; subst b. clear Hb.
      assert (Hfe : fexp_of (typedef_pos t) false = EOk (FPlain e)) by (unfold fexp_of; now rewrite Ee).
      destruct (IH (proj1 (proj2 Htd)) _ Hfe f ltac:(lia) Hse a o rest l) as [l' Hd].
      exists l'. cbn [dec]. rewrite Hfind. cbn [i_body i_name eval_body]. unfold bind.
      cbn [enc eval_fexp] in *. rewrite Hd. unfold ret. reflexivity.
    - (* fields: nil *)
      intros _ ps Hps f _ _ a o rest l. inversion Hps; subst. exists l. cbn. unfold ret.
      rewrite N.add_0_r. reflexivity.
    - (* fields: cons *)
      intros fd fs v vs Tv IHv _ IHfs Hall ps Hps f Hf Hse a o rest l.
      inversion Hall as [|? ? Hfd Hfs]; subst. inversion Hps as [|? p ? ps' Hp Hps']; subst.
      cbn [need_list] in Hf. cbn [step_exact_all] in Hse. apply Bool.andb_true_iff in Hse as [Hs1 Hs2].
      cbn [map concat]. rewrite <- app_assoc.
      destruct (IHv Hfd _ Hp f ltac:(lia) Hs1 a o (concat (map enc vs) ++ rest) l) as [l1 Hd1].
      destruct (IHfs Hfs ps' Hps' f ltac:(lia) Hs2 a (o + len (enc v)) rest l1) as [l2 Hd2].
      exists l2. cbn [eval_fields]. unfold bind. rewrite Hd1, Hd2. unfold ret. cbn [rv_list].
      rewrite len_app, N.add_assoc. reflexivity.
    - (* arm: void *) exact I.
    - (* arm: data *)
      intros t y Ty IH. cbn [PArm]. intros Hpos e He f Hf Hse.
      assert (Hfe : fexp_of t false = EOk (FPlain e)) by (unfold fexp_of; now rewrite He).
      exact (IH Hpos _ Hfe f Hf Hse).
    - (* position: plain *)
      intros t x Tb IH Hpos fe Hfe f Hf Hse. apply fexp_of_plain in Hfe as [e [He ->]].
      cbn [decode_array] in He. cbn [eval_fexp]. exact (IH e He f Hf Hse).
    - (* optional: none *)
      intros t Hpos fe Hfe f _ _ a o rest l. unfold fexp_of in Hfe. inversion Hfe; subst fe.
      exists l. cbn [enc rv]. rewrite opt_marker_none. now rewrite len_be_enc4.
    - (* optional: some *)
      intros t y Tb IH Hpos fe Hfe f Hf Hse a o rest l. unfold fexp_of in Hfe. inversion Hfe; subst fe.
      destruct Hpos as [Hsafe [Hopt _]]. destruct (Hopt eq_refl) as [n Hn]. inversion Hn; subst t.
      cbn [unwrap_array safe_ref] in Hsafe. cbn [unwrap_array]. rewrite Hsafe.
      cbn [need] in Hf. cbn [step_exact] in Hse.
      destruct (IH _ (decode_basic_ident n) f Hf Hse a (o + 4) rest l) as [l1 Hd1].
      cbn [eval_dexp] in Hd1.
      eexists. cbn [eval_fexp enc]. unfold bind at 1, read_u32.
      rewrite <- app_assoc. rewrite read_be_app by (now rewrite len_be_enc). rewrite be_dec_enc4 by lia.
      change (1 =? 0) with false. change (1 =? 1) with true. cbv iota.
      unfold bind at 1. rewrite Hd1. unfold bind, reserve, ret. cbn [rv].
      rewrite len_app, len_be_enc4, N.add_assoc. reflexivity.
    - (* fixed opaque *)
      intros s n bs Hs Hl Hb Hpos fe Hfe f _ _ a o rest l. apply fexp_of_plain in Hfe as [e [He ->]].
      cbn [decode_array] in He. rewrite (size_val_resolve A s n true Hs) in He. cbn [ebind] in He.
      unfold decode_fixed in He. inversion He; subst e.
      exists l. cbn [eval_fexp eval_dexp enc rv]. unfold bind. unfold enc_bytes. rewrite <- app_assoc.
      rewrite <- Hl. rewrite read_bytes_app.
      + unfold ret. rewrite mkview_if, len_app, len_zeros. reflexivity.
      + pose proof (pad_length_spec (len bs)). unfold usize_max.
        destruct Hpos as [_ [_ [_ Hbd]]]. pose proof (size_val_lt A s n Hbd Hs). lia.
    - (* fixed array *)
      intros t s n l Ht1 Ht2 Hs Hl TL IH Hpos fe Hfe f Hf Hse a o rest led.
      apply fexp_of_plain in Hfe as [e [He ->]].
      cbn [decode_array] in He. rewrite (size_val_resolve A s n true Hs) in He. cbn [ebind] in He.
      rewrite need_arrf in Hf. rewrite step_exact_arrf in Hse.
      assert (Hnl : N.to_nat n = List.length l) by (rewrite <- Hl; unfold len; lia).
      unfold decode_fixed in He.
      assert (He' : (if n =? 0 then EOk (EArr 0 (EPrim PU32))
                     else ebind (decode_basic A t UseAlias) (fun e0 => EOk (EArr n e0))) = EOk e).
      { destruct t; try exact He; congruence. }
      clear He. destruct (N.eqb_spec n 0) as [Z|NZ].
      + inversion He'; subst e. rewrite Z in Hl. apply len_0_nil in Hl. subst l.
        exists led. cbn. unfold ret. rewrite N.add_0_r. reflexivity.
      + destruct (decode_basic A t UseAlias) as [e0| |] eqn:E0; cbn [ebind] in He'; try discriminate.
        inversion He'; subst e.
        destruct (proj1 IH e0 E0 f Hf Hse a o rest led) as [l' Hd].
        exists l'. cbn [eval_fexp eval_dexp enc]. unfold bind. rewrite Hnl, Hd. unfold ret.
        rewrite rv_arrf. reflexivity.
    - (* variable opaque *)
      intros s m bs Hm Hlm Hlu Hb Hpos fe Hfe f _ _ a o rest led.
      apply fexp_of_plain in Hfe as [e [He ->]].
      assert (Hmax : exists mx, e = EVarBytes mx /\ forall m', mx = Some m' -> len bs <= m').
      { cbn [decode_array] in He. destruct s as [sz|].
        - cbn [max_val] in Hm. rewrite (size_val_resolve A sz m false Hm) in He. cbn [ebind] in He.
          unfold decode_variable in He. inversion He. eexists; split; [reflexivity|].
          intros m' E; inversion E; subst; exact Hlm.
        - unfold decode_variable in He. inversion He. eexists; split; [reflexivity|]. discriminate. }
      destruct Hmax as [mx [-> Hmx]].
      exists led. cbn [eval_fexp eval_dexp enc rv]. unfold bind, enc_bytes. rewrite <- !app_assoc.
      rewrite read_variable_bytes_app; [|unfold u32_max in Hlu; lia|exact Hmx].
      unfold ret. rewrite mkview_if, len_app, len_be_enc4, len_app, len_zeros. f_equal. f_equal. lia.
    - (* variable string *)
      intros s m bs Hm Hlm Hlu Hb Hu Hpos fe Hfe f _ _ a o rest led.
      apply fexp_of_plain in Hfe as [e [He ->]].
      assert (Hmax : exists mx, e = EString mx /\ forall m', mx = Some m' -> len bs <= m').
      { cbn [decode_array] in He. destruct s as [sz|].
        - cbn [max_val] in Hm. rewrite (size_val_resolve A sz m false Hm) in He. cbn [ebind] in He.
          unfold decode_variable in He. inversion He. eexists; split; [reflexivity|].
          intros m' E; inversion E; subst; exact Hlm.
        - unfold decode_variable in He. inversion He. eexists; split; [reflexivity|]. discriminate. }
      destruct Hmax as [mx [-> Hmx]].
      eexists. cbn [eval_fexp eval_dexp enc rv]. unfold bind, enc_bytes. rewrite <- !app_assoc.
      rewrite read_string_app; [|unfold u32_max in Hlu; lia|exact Hmx]. rewrite Hu.
      unfold ret. rewrite len_app, len_be_enc4, len_app, len_zeros. f_equal. f_equal. lia.
    - (* counted array *)
      intros t s m l Ht1 Ht2 Hm Hlm Hlu TL IH Hpos fe Hfe f Hf Hse a o rest led.
      apply fexp_of_plain in Hfe as [e [He ->]].
      destruct Hpos as [Hsafe [_ [[Hc|[Hc|[n Hn]]] _]]]; try congruence. subst t.
      cbn [unwrap_array safe_ref] in Hsafe.
      assert (Hmax : exists mx, e = EVarArray n (is_generic A n) mx /\ forall m', mx = Some m' -> len l <= m').
      { cbn [decode_array] in He. destruct s as [sz|].
        - cbn [max_val] in Hm. rewrite (size_val_resolve A sz m false Hm) in He. cbn [ebind] in He.
          unfold decode_variable in He. rewrite Hsafe in He. inversion He. eexists; split; [reflexivity|].
          intros m' E; inversion E; subst; exact Hlm.
        - unfold decode_variable in He. rewrite Hsafe in He. inversion He. eexists; split; [reflexivity|]. discriminate. }
      destruct Hmax as [mx [-> Hmx]].
      rewrite need_arrv in Hf. rewrite step_exact_arrv in Hse. apply Bool.andb_true_iff in Hse as [Hse1 Hse2].
      cbn [eval_fexp eval_dexp enc]. unfold bind at 1. unfold read_variable_array, bind at 1, read_u32.
      rewrite <- app_assoc. rewrite read_be_app by (now rewrite len_be_enc).
      rewrite be_dec_enc4 by (unfold u32_max in Hlu; lia).
      unfold bind at 1. rewrite check_max_ok by exact Hmx.
      unfold bind at 1, reserve. cbn [s_alloc s_off s_rem s_led mk].
      set (led1 := led ++ [ResVec (N.min (len l) (remaining (mk a (o + 4) (concat (map enc l) ++ rest) led))) n]).
      fold (mk a (o + 4) (concat (map enc l) ++ rest) led1).
      destruct (proj2 IH n eq_refl f ltac:(lia) Hse1 Hse2 a (o + 4) rest led1 0 [] f ltac:(lia)) as [l' Hloop].
      exists l'. unfold bind at 1. rewrite Hloop. cbn [snd fst rev app].
      rewrite N.add_0_l.
      assert (Hp : pad_length (len (concat (map enc l))) = 0).
      { apply pad_length_mult4. apply len_concat_mult4. apply Forall_map. apply Forall_forall.
        intros x _. apply enc_mult4. }
      rewrite Hp. unfold bind, advance. rewrite remaining_mk.
      destruct (N.leb_spec 0 (len rest)) as [_|C]; [|lia].
      rewrite with_rem_mk, drop_0. unfold ret. rewrite rv_arrv.
      rewrite len_app, len_be_enc4. f_equal. f_equal. lia.
    - (* list: nil *)
      intros t. split.
      + intros e _ f _ _ a o rest led. exists led. cbn. unfold ret. rewrite N.add_0_r. reflexivity.
      + intros n _ f _ _ _ a o rest led sum acc fuel _. exists led.
        destruct fuel; cbn; unfold ret; rewrite ?app_nil_r, ?N.add_0_r; reflexivity.
    - (* list: cons *)
      intros t x l Tb IHx TL IHl. split.
      + intros e He f Hf Hse a o rest led. cbn [need_list] in Hf. cbn [step_exact_all] in Hse.
        apply Bool.andb_true_iff in Hse as [Hs1 Hs2].
        cbn [map concat]. rewrite <- app_assoc.
        destruct (IHx e He f ltac:(lia) Hs1 a o (concat (map enc l) ++ rest) led) as [l1 Hd1].
        destruct (proj1 IHl e He f ltac:(lia) Hs2 a (o + len (enc x)) rest l1) as [l2 Hd2].
        exists l2. cbn [List.length seq_n]. unfold bind. rewrite Hd1, Hd2. unfold ret. cbn [rv_list].
        rewrite len_app, N.add_assoc. reflexivity.
      + intros n Hn f Hf Hse Hnf a o rest led sum acc fuel Hfuel. subst t.
        cbn [need_list] in Hf. cbn [step_exact_all] in Hse. cbn [noF1_all] in Hnf.
        apply Bool.andb_true_iff in Hse as [Hs1 Hs2]. apply Bool.andb_true_iff in Hnf as [Hn1 Hn2].
        apply N.eqb_eq in Hn1.
        destruct fuel as [|fuel']; [cbn in Hfuel; lia|].
        cbn [rva_loop]. rewrite len_cons.
        destruct (N.eqb_spec (1 + len l) 0) as [C|_]; [lia|].
        cbn [map concat]. rewrite <- app_assoc.
        destruct (IHx (ETryFrom n) (decode_basic_ident n) f ltac:(lia) Hs1 a o (concat (map enc l) ++ rest) led)
          as [l1 Hd1]. cbn [eval_dexp] in Hd1.
        unfold bind at 1, on_clone. rewrite Hd1. cbn [s_alloc s_off s_rem s_led mk].
        assert (Tn : TypedN A n x) by (inversion Tb; assumption).
        rewrite (wsz_exact A md Hgen Hwf n x a o Tn Hn1).
        fold (mk a o (enc x ++ concat (map enc l) ++ rest) l1). rewrite remaining_mk.
        destruct (N.ltb_spec (len (enc x ++ concat (map enc l) ++ rest)) (len (enc x))) as [C|_];
          [rewrite len_app in C; lia|].
        unfold bind, advance. rewrite remaining_mk.
        destruct (N.leb_spec (len (enc x)) (len (enc x ++ concat (map enc l) ++ rest))) as [_|C];
          [|rewrite len_app in C; lia].
        rewrite with_rem_mk, drop_app_exact.
        replace (1 + len l - 1) with (len l) by lia.
        destruct (proj2 IHl n eq_refl f ltac:(lia) Hs2 Hn2 a (o + len (enc x)) rest l1
                        (sum + len (enc x)) (rv a o x :: acc) fuel' ltac:(cbn in Hfuel; lia)) as [l2 Hd2].
        exists l2. rewrite Hd2. cbn [rev rv_list]. rewrite <- !app_assoc. cbn [app].
        rewrite len_app. f_equal; [f_equal; lia|]. f_equal; lia.
    - intros n Hn e He f _ _. apply decode_basic_alias in He as [He|[m [C _]]]; [|discriminate].
      eapply dec_prims; [constructor; exact Hn|exact He].
    - intros z Hz e He f _ _. apply decode_basic_alias in He as [He|[m [C _]]]; [|discriminate].
      eapply dec_prims; [constructor; exact Hz|exact He].
    - intros n Hn e He f _ _. apply decode_basic_alias in He as [He|[m [C _]]]; [|discriminate].
      eapply dec_prims; [constructor; exact Hn|exact He].
    - intros z Hz e He f _ _. apply decode_basic_alias in He as [He|[m [C _]]]; [|discriminate].
      eapply dec_prims; [constructor; exact Hz|exact He].
    - intros b Hb e He f _ _. apply decode_basic_alias in He as [He|[m [C _]]]; [|discriminate].
      eapply dec_prims; [constructor; exact Hb|exact He].
    - intros b Hb e He f _ _. apply decode_basic_alias in He as [He|[m [C _]]]; [|discriminate].
      eapply dec_prims; [constructor; exact Hb|exact He].
    - intros b e He f _ _. apply decode_basic_alias in He as [He|[m [C _]]]; [|discriminate].
      eapply dec_prims; [constructor|exact He].
    - intros bs H1 H2 H3 e He f _ _. apply decode_basic_alias in He as [He|[m [C _]]]; [|discriminate].
      eapply dec_prims; [constructor; assumption|exact He].
    - intros bs H1 H2 e He f _ _. apply decode_basic_alias in He as [He|[m [C _]]]; [|discriminate].
      eapply dec_prims; [constructor; assumption|exact He].
    - intros n x Tn IH e He f Hf Hse. cbn in He. inversion He; subst e. cbn [eval_dexp].
      exact (IH f Hf Hse).
  Qed.

  (* C01: the round trip for a declared type *)
  Theorem roundtrip n x fuel a o rest l :
    TypedN A n x -> (need x <= fuel)%nat -> step_exact x = true ->
    exists l', dec md fuel n (mk a o (enc x ++ rest) l)
               = Ok (rv a o x) (mk a (o + len (enc x)) rest l').
  Proof. intros T Hf Hs. exact (proj1 roundtrip_all n x T fuel Hf Hs a o rest l). Qed.
End RT.
