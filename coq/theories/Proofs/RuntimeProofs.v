(* Contracts of the header.rs readers (C10), for every buffer, length and maximum. *)
From XdrProofs Require Export BytesProofs.
From XdrModel Require Export Runtime.
Open Scope N_scope.

Definition mk (a o : N) (r : bytes) (l : list resv) : st :=
  {| s_alloc := a; s_off := o; s_rem := r; s_led := l |}.

Lemma st_eta s : s = mk (s_alloc s) (s_off s) (s_rem s) (s_led s).
Proof. destruct s; reflexivity. Qed.

Lemma with_rem_mk a o r l k : with_rem (mk a o r l) k = mk a (o + k) (drop k r) l.
Proof. reflexivity. Qed.

Lemma remaining_mk a o r l : remaining (mk a o r l) = len r.
Proof. reflexivity. Qed.

(* ---------- integers and floats ---------- *)

(* Err exactly when fewer than k bytes remain; otherwise the big-endian value of the first k
   bytes, and the buffer advanced by k. *)
Lemma read_be_short k s : remaining s < k -> read_be k s = Err InvalidLength s.
Proof. unfold read_be. intros H. case_if; [reflexivity|lia]. Qed.

Lemma read_be_ok k s :
  k <= remaining s -> read_be k s = Ok (be_dec (take k (s_rem s))) (with_rem s k).
Proof.
  unfold read_be, get_be. intros H. case_if; [lia|]. case_if; [reflexivity|lia].
Qed.

Lemma read_be_app k a o w rest l :
  len w = k -> read_be k (mk a o (w ++ rest) l) = Ok (be_dec w) (mk a (o + k) rest l).
Proof.
  intros H. rewrite read_be_ok.
  - cbn [s_rem mk]. rewrite with_rem_mk. subst k. now rewrite take_app_exact, drop_app_exact.
  - rewrite remaining_mk, len_app. lia.
Qed.

Lemma read_be_total k s :
  (remaining s < k /\ read_be k s = Err InvalidLength s) \/
  (k <= remaining s /\ read_be k s = Ok (be_dec (take k (s_rem s))) (with_rem s k)).
Proof.
  destruct (N.ltb_spec (remaining s) k) as [H|H].
  - left; split; [exact H| now apply read_be_short].
  - right; split; [exact H| now apply read_be_ok].
Qed.

Lemma read_i32_short s : remaining s < 4 -> read_i32 s = Err InvalidLength s.
Proof. intros H. unfold read_i32, bind. now rewrite read_be_short. Qed.

Lemma read_i32_ok s :
  4 <= remaining s -> read_i32 s = Ok (to_i32 (be_dec (take 4 (s_rem s)))) (with_rem s 4).
Proof. intros H. unfold read_i32, bind. now rewrite read_be_ok. Qed.

Lemma read_i64_short s : remaining s < 8 -> read_i64 s = Err InvalidLength s.
Proof. intros H. unfold read_i64, bind. now rewrite read_be_short. Qed.

Lemma read_i64_ok s :
  8 <= remaining s -> read_i64 s = Ok (to_i64 (be_dec (take 8 (s_rem s)))) (with_rem s 8).
Proof. intros H. unfold read_i64, bind. now rewrite read_be_ok. Qed.

(* ---------- booleans: every 32-bit word ---------- *)

Lemma read_bool_short s : remaining s < 4 -> read_bool s = Err InvalidLength s.
Proof. unfold read_bool. intros H. case_if; [reflexivity|lia]. Qed.

Lemma read_bool_word s :
  4 <= remaining s ->
  let w := be_dec (take 4 (s_rem s)) in
  read_bool s = if w =? 0 then Ok false (with_rem s 4)
                else if w =? 1 then Ok true (with_rem s 4)
                else if w <? 4294967296 then Err InvalidBoolean (with_rem s 4)
                else read_bool s.
Proof.
  intros H w. unfold read_bool. case_if; [lia|].
  unfold bind, get_be. case_if; [|lia]. fold w.
  destruct (N.eqb_spec w 0) as [Ew0|Ew0]; [rewrite Ew0; reflexivity|].
  destruct (N.eqb_spec w 1) as [Ew1|Ew1]; [rewrite Ew1; reflexivity|].
  destruct (N.ltb_spec w 4294967296) as [L|L]; [|reflexivity].
  unfold to_i32. case_if.
  - destruct (Z.of_N w) eqn:Ez; [lia| |lia].
    destruct p; try reflexivity. lia.
  - destruct (Z.of_N w - 4294967296)%Z eqn:Ez; [lia|lia|reflexivity].
Qed.

(* any word other than 0 and 1 is rejected with InvalidBoolean *)
Lemma read_bool_invalid a o w rest l :
  len w = 4 -> bytes_ok w -> be_dec w <> 0 -> be_dec w <> 1 ->
  read_bool (mk a o (w ++ rest) l) = Err InvalidBoolean (mk a (o + 4) rest l).
Proof.
  intros Hl Hb H0 H1.
  pose proof (be_dec_bound w Hb) as B. rewrite Hl in B. change (256 ^ 4) with 4294967296 in B.
  rewrite read_bool_word by (rewrite remaining_mk, len_app; lia).
  rewrite with_rem_mk. cbn [s_rem mk].
  replace (take 4 (w ++ rest)) with w by (rewrite <- Hl; now rewrite take_app_exact).
  replace (drop 4 (w ++ rest)) with rest by (rewrite <- Hl; now rewrite drop_app_exact).
  destruct (N.eqb_spec (be_dec w) 0); [contradiction|].
  destruct (N.eqb_spec (be_dec w) 1); [contradiction|].
  destruct (N.ltb_spec (be_dec w) 4294967296); [reflexivity|lia].
Qed.

Lemma read_bool_valid a o (b : bool) rest l :
  read_bool (mk a o (be_enc 4 (if b then 1 else 0) ++ rest) l) = Ok b (mk a (o + 4) rest l).
Proof.
  rewrite read_bool_word by (rewrite remaining_mk, len_app, len_be_enc; lia).
  cbn [s_rem mk]. rewrite with_rem_mk.
  replace (take 4 (be_enc 4 (if b then 1 else 0) ++ rest)) with (be_enc 4 (if b then 1 else 0))
    by (now rewrite <- (take_app_exact (be_enc 4 (if b then 1 else 0)) rest) at 1).
  replace (drop 4 (be_enc 4 (if b then 1 else 0) ++ rest)) with rest
    by (now rewrite <- (drop_app_exact (be_enc 4 (if b then 1 else 0)) rest) at 1).
  destruct b; reflexivity.
Qed.

(* ---------- fixed opaque ---------- *)

(* read_bytes n: Err exactly when the padded length does not fit (or overflows usize);
   otherwise the first n bytes as a view at the cursor and an advance of n + pad n. *)
Lemma read_bytes_short n s :
  remaining s < n + pad_length n -> read_bytes n s = Err InvalidLength s.
Proof. unfold read_bytes. intros H. case_if; [reflexivity|]. case_if; [reflexivity|lia]. Qed.

Lemma read_bytes_overflow n s :
  usize_max < n + pad_length n -> read_bytes n s = Err InvalidLength s.
Proof. unfold read_bytes. intros H. case_if; [reflexivity|lia]. Qed.

Lemma read_bytes_ok n s :
  n + pad_length n <= usize_max -> n + pad_length n <= remaining s ->
  read_bytes n s =
    Ok (if n =? 0 then empty_view
        else {| valloc := s_alloc s; voff := s_off s; vdata := take n (s_rem s) |})
       (with_rem s (n + pad_length n)).
Proof.
  unfold read_bytes. intros H1 H2. case_if; [lia|]. case_if; [lia|].
  unfold bind, slice_to. case_if; [|lia]. unfold advance. case_if; [|lia]. reflexivity.
Qed.

Lemma read_bytes_total n s :
  (remaining s < n + pad_length n \/ usize_max < n + pad_length n) /\
    read_bytes n s = Err InvalidLength s
  \/ exists w, read_bytes n s = Ok w (with_rem s (n + pad_length n)) /\
               vdata w = take n (s_rem s) /\ len (vdata w) = n /\
               (n <> 0 -> valloc w = s_alloc s /\ voff w = s_off s) /\
               (n + pad_length n) mod 4 = 0.
Proof.
  destruct (N.ltb_spec usize_max (n + pad_length n)) as [O|O].
  { left. split; [now right|now apply read_bytes_overflow]. }
  destruct (N.ltb_spec (remaining s) (n + pad_length n)) as [H|H].
  { left. split; [now left|now apply read_bytes_short]. }
  right. rewrite read_bytes_ok by assumption. eexists; split; [reflexivity|].
  destruct (N.eqb_spec n 0) as [E|E].
  - subst n. cbn [vdata empty_view]. rewrite take_0.
    split; [reflexivity|]. split; [reflexivity|]. split; [intros C; contradiction|reflexivity].
  - cbn [vdata valloc voff]. split; [reflexivity|].
    split; [apply len_take; unfold remaining in H; lia|].
    split; [intros _; split; reflexivity|apply pad_length_spec].
Qed.

Lemma read_bytes_app a o d rest l :
  len d + pad_length (len d) <= usize_max ->
  read_bytes (len d) (mk a o (d ++ zeros (pad_length (len d)) ++ rest) l)
  = Ok (if len d =? 0 then empty_view else {| valloc := a; voff := o; vdata := d |})
       (mk a (o + (len d + pad_length (len d))) rest l).
Proof.
  intros H. rewrite read_bytes_ok; [|exact H|].
  - cbn [s_alloc s_off s_rem mk]. rewrite with_rem_mk. rewrite take_app_exact.
    f_equal. f_equal. rewrite app_assoc.
    replace (len d + pad_length (len d)) with (len (d ++ zeros (pad_length (len d))))
      by (rewrite len_app, len_zeros; reflexivity).
    apply drop_app_exact.
  - rewrite remaining_mk, !len_app, len_zeros. lia.
Qed.

(* ---------- counted opaque and strings ---------- *)

Lemma check_max_ok n max s :
  (forall m, max = Some m -> n <= m) -> check_max n max s = Ok tt s.
Proof.
  unfold check_max. destruct max as [m|]; [|reflexivity].
  intros H. specialize (H m eq_refl). case_if; [lia|reflexivity].
Qed.

Lemma check_max_err n m s : m < n -> check_max n (Some m) s = Err InvalidLength s.
Proof. unfold check_max. intros H. case_if; [reflexivity|lia]. Qed.

(* a count above the declared maximum is rejected, whatever follows *)
Lemma read_variable_bytes_over_max a o w rest l m :
  len w = 4 -> m < be_dec w ->
  read_variable_bytes (Some m) (mk a o (w ++ rest) l) = Err InvalidLength (mk a (o + 4) rest l).
Proof.
  intros Hw Hm. unfold read_variable_bytes, bind, read_u32.
  rewrite read_be_app by exact Hw. now rewrite check_max_err.
Qed.

(* a count above the bytes present is rejected *)
Lemma read_variable_bytes_short a o w rest l max :
  len w = 4 -> len rest < be_dec w + pad_length (be_dec w) ->
  exists s', read_variable_bytes max (mk a o (w ++ rest) l) = Err InvalidLength s'.
Proof.
  intros Hw Hm. unfold read_variable_bytes, bind, read_u32.
  rewrite read_be_app by exact Hw.
  unfold check_max. destruct max as [m|].
  - case_if; [eexists; reflexivity|]. unfold ret.
    rewrite read_bytes_short by (rewrite remaining_mk; exact Hm). eexists; reflexivity.
  - unfold ret. rewrite read_bytes_short by (rewrite remaining_mk; exact Hm).
    eexists; reflexivity.
Qed.

Lemma read_variable_bytes_app a o d rest l max :
  len d < 4294967296 -> (forall m, max = Some m -> len d <= m) ->
  read_variable_bytes max
    (mk a o (be_enc 4 (len d) ++ d ++ zeros (pad_length (len d)) ++ rest) l)
  = Ok (if len d =? 0 then empty_view else {| valloc := a; voff := o + 4; vdata := d |})
       (mk a (o + 4 + (len d + pad_length (len d))) rest l).
Proof.
  intros Hd Hm. unfold read_variable_bytes, bind, read_u32.
  rewrite read_be_app by (rewrite len_be_enc; reflexivity).
  rewrite be_dec_enc4 by exact Hd.
  rewrite check_max_ok by exact Hm.
  apply read_bytes_app. pose proof (pad_length_spec (len d)). unfold usize_max. lia.
Qed.

Lemma read_string_app a o d rest l max :
  len d < 4294967296 -> (forall m, max = Some m -> len d <= m) ->
  read_string max (mk a o (be_enc 4 (len d) ++ d ++ zeros (pad_length (len d)) ++ rest) l)
  = if utf8_valid d
    then Ok d (mk a (o + 4 + (len d + pad_length (len d))) rest (l ++ [ResStr (len d)]))
    else Err NonUtf8String
           (mk a (o + 4 + (len d + pad_length (len d))) rest (l ++ [ResStr (len d)])).
Proof.
  intros Hd Hm. unfold read_string, bind.
  rewrite read_variable_bytes_app by assumption.
  assert (V : vdata (if len d =? 0 then empty_view
                     else {| valloc := a; voff := o + 4; vdata := d |}) = d).
  { destruct (N.eqb_spec (len d) 0) as [E|E]; [|reflexivity].
    apply len_0_nil in E. now subst d. }
  rewrite V. unfold reserve. cbn [s_alloc s_off s_rem s_led mk].
  destruct (utf8_valid d); reflexivity.
Qed.

(* ---------- counted arrays ---------- *)

(* The element decoder's contract, as the trait bound `T: TryFrom<Bytes> + WireSize` is used:
   decoding the encoding e of an element (whatever follows it) yields the value v, and
   v.wire_size() is the length of e. *)
Section VarArrayContract.
  Variable elem_name : string.
  Variable dec_elem : M rval.
  Variable wsz_elem : rval -> option N.

  (* (encoding, value, ledger delta) per element *)
  Definition elem_ok (e : bytes) (v : rval) (d : list resv) : Prop :=
    wsz_elem v = Some (len e) /\
    forall a o rest l, exists s',
        dec_elem (mk a o (e ++ rest) l) = Ok v s' /\ s_led s' = l ++ d.

  Lemma rva_loop_ok (items : list (bytes * rval * list resv)) :
    Forall (fun i => elem_ok (fst (fst i)) (snd (fst i)) (snd i)) items ->
    forall fuel a o rest l sum acc,
      (length items <= fuel)%nat ->
      rva_loop dec_elem wsz_elem fuel (len items) sum acc
               (mk a o (concat (map (fun i => fst (fst i)) items) ++ rest) l)
      = Ok (rev acc ++ map (fun i => snd (fst i)) items,
            sum + len (concat (map (fun i => fst (fst i)) items)))
           (mk a (o + len (concat (map (fun i => fst (fst i)) items))) rest
               (l ++ concat (map (fun i => snd i) items))).
  Proof.
    induction 1 as [|[[e v] d] items [Hw Hd] _ IH]; intros fuel a o rest l sum acc Hf.
    - destruct fuel; cbn; unfold ret; rewrite ?app_nil_r, ?len_nil, ?N.add_0_r; reflexivity.
    - destruct fuel as [|fuel]; [cbn in Hf; lia|].
      cbn [rva_loop]. rewrite len_cons.
      destruct (N.eqb_spec (1 + len items) 0) as [E|_]; [lia|].
      cbn [map concat fst snd] in *.
      unfold bind at 1. unfold on_clone.
      rewrite <- app_assoc.
      destruct (Hd a o (concat (map (fun i => fst (fst i)) items) ++ rest) l) as [s' [Hs' Hl']].
      rewrite Hs'. cbn [s_alloc s_off s_rem mk]. rewrite Hw, Hl'.
      fold (mk a o (e ++ concat (map (fun i => fst (fst i)) items) ++ rest) (l ++ d)).
      rewrite remaining_mk.
      destruct (N.ltb_spec (len (e ++ concat (map (fun i => fst (fst i)) items) ++ rest)) (len e))
        as [C|_]; [rewrite len_app in C; lia|].
      unfold bind, advance. rewrite remaining_mk.
      destruct (N.leb_spec (len e) (len (e ++ concat (map (fun i => fst (fst i)) items) ++ rest)))
        as [_|C]; [|rewrite len_app in C; lia].
      rewrite with_rem_mk, drop_app_exact.
      replace (1 + len items - 1) with (len items) by lia.
      rewrite IH by (cbn in Hf; lia).
      cbn [rev]. rewrite <- !app_assoc. cbn [app].
      rewrite len_app. f_equal; [f_equal; lia|]. f_equal; lia.
  Qed.

  (* The count, then every element in order, then (vacuous for 4-aligned elements) padding. *)
  Lemma read_variable_array_ok (items : list (bytes * rval * list resv)) max fuel a o rest l :
    Forall (fun i => elem_ok (fst (fst i)) (snd (fst i)) (snd i)) items ->
    len items < 4294967296 -> (forall m, max = Some m -> len items <= m) ->
    (length items <= fuel)%nat ->
    let body := concat (map (fun i => fst (fst i)) items) in
    len body mod 4 = 0 ->
    read_variable_array elem_name dec_elem wsz_elem fuel max
      (mk a o (be_enc 4 (len items) ++ body ++ rest) l)
    = Ok (map (fun i => snd (fst i)) items)
         (mk a (o + 4 + len body) rest
             (l ++ [ResVec (N.min (len items) (len (body ++ rest))) elem_name]
                ++ concat (map (fun i => snd i) items))).
  Proof.
    intros Hall Hn Hm Hf body Hmod.
    unfold read_variable_array, bind at 1, read_u32.
    rewrite read_be_app by (rewrite len_be_enc; reflexivity).
    rewrite be_dec_enc4 by exact Hn.
    unfold bind at 1. rewrite check_max_ok by exact Hm.
    unfold bind at 1, reserve. cbn [s_alloc s_off s_rem s_led mk].
    fold (mk a (o + 4) (body ++ rest) (l ++ [ResVec (N.min (len items) (remaining (mk a (o + 4) (body ++ rest) l))) elem_name])).
    unfold bind at 1. subst body.
    rewrite (rva_loop_ok items Hall) by exact Hf.
    cbn [snd fst]. rewrite N.add_0_l.
    rewrite pad_length_mult4 by exact Hmod.
    unfold bind, advance. rewrite remaining_mk.
    destruct (N.leb_spec 0 (len rest)) as [_|C]; [|lia].
    rewrite with_rem_mk, drop_0. unfold ret. cbn [rev app].
    rewrite remaining_mk. f_equal. f_equal; [lia|]. now rewrite <- app_assoc.
  Qed.

  (* a count above the maximum is rejected before anything is reserved or decoded *)
  Lemma read_variable_array_over_max a o w rest l m fuel :
    len w = 4 -> m < be_dec w ->
    read_variable_array elem_name dec_elem wsz_elem fuel (Some m) (mk a o (w ++ rest) l)
    = Err InvalidLength (mk a (o + 4) rest l).
  Proof.
    intros Hw Hm. unfold read_variable_array, bind at 1, read_u32.
    rewrite read_be_app by exact Hw. unfold bind. now rewrite check_max_err.
  Qed.

End VarArrayContract.

(* ---------- blanket WireSize impls against the RFC 4506 sizes ---------- *)

Definition roundup4 (n : N) : N := 4 * ((n + 3) / 4).

Lemma wsz_string_rfc s : wsz_string s = 4 + roundup4 (len s).
Proof. unfold wsz_string, roundup4. rewrite <- padded_roundup. lia. Qed.

Lemma wsz_vec_rfc x : x mod 4 = 0 -> wsz_vec x = 4 + x.
Proof. intros H. unfold wsz_vec. rewrite pad_length_mult4 by exact H. lia. Qed.

Lemma wsz_slice_rfc x : x mod 4 = 0 -> wsz_slice x = x.
Proof. intros H. unfold wsz_slice. rewrite pad_length_mult4 by exact H. lia. Qed.

Lemma wsz_vec_mult4 x : wsz_vec x mod 4 = 0.
Proof. unfold wsz_vec. pose proof (pad_length_spec x). lia. Qed.

Lemma wsz_slice_mult4 x : wsz_slice x mod 4 = 0.
Proof. unfold wsz_slice. pose proof (pad_length_spec x). lia. Qed.

Lemma wsz_string_mult4 s : wsz_string s mod 4 = 0.
Proof. unfold wsz_string. pose proof (pad_length_spec (len s)). lia. Qed.
