(* C03, third sentence, for EVERY accepted input: the result of a successful decode depends
   neither on the bytes that follow the consumed ones nor on where the view sits inside its
   allocation.  Two runs of the same decoder on buffers that share the prefix the first run
   consumed give the same value up to relocation of the opaque views, consume the same number
   of bytes and leave their own suffixes untouched.  The only hypothesis on the module: the
   decoder of every counted-array element consumes exactly wire_size() of what it returns
   (Consumed.v: true when the element's reachable types hold no F1 position) -- without it the
   element decoder reads past what the caller is advanced by (finding F1). *)
From Coq Require Import Lia.
From XdrProofs Require Export Consumed.
Open Scope N_scope.
Open Scope list_scope.

Section Local.
  Variables a1 o1 a2 o2 : N.

  Definition vrelv (w1 w2 : view) : Prop :=
    vdata w1 = vdata w2 /\
    ((w1 = empty_view /\ w2 = empty_view) \/
     (valloc w1 = a1 /\ valloc w2 = a2 /\ exists k, voff w1 = o1 + k /\ voff w2 = o2 + k)).

  Inductive vrel : rval -> rval -> Prop :=
  | VR_u32 n : vrel (RVU32 n) (RVU32 n)
  | VR_u64 n : vrel (RVU64 n) (RVU64 n)
  | VR_i32 z : vrel (RVI32 z) (RVI32 z)
  | VR_i64 z : vrel (RVI64 z) (RVI64 z)
  | VR_f32 n : vrel (RVF32 n) (RVF32 n)
  | VR_f64 n : vrel (RVF64 n) (RVF64 n)
  | VR_bool b : vrel (RVBool b) (RVBool b)
  | VR_string s : vrel (RVString s) (RVString s)
  | VR_bytes w1 w2 : vrelv w1 w2 -> vrel (RVBytes w1) (RVBytes w2)
  | VR_vec l1 l2 : Forall2 vrel l1 l2 -> vrel (RVVec l1) (RVVec l2)
  | VR_arr l1 l2 : Forall2 vrel l1 l2 -> vrel (RVArr l1) (RVArr l2)
  | VR_none : vrel (RVOpt None) (RVOpt None)
  | VR_some x1 x2 : vrel x1 x2 -> vrel (RVOpt (Some x1)) (RVOpt (Some x2))
  | VR_struct n l1 l2 : Forall2 vrel l1 l2 -> vrel (RVStruct n l1) (RVStruct n l2)
  | VR_var0 t v : vrel (RVVariant t v None) (RVVariant t v None)
  | VR_var1 t v x1 x2 : vrel x1 x2 -> vrel (RVVariant t v (Some x1)) (RVVariant t v (Some x2))
  | VR_new n x1 x2 : vrel x1 x2 -> vrel (RVNewtype n x1) (RVNewtype n x2).

  Lemma Forall2_map_eq {Y} (f : rval -> Y) l1 : forall l2,
    Forall (fun x => forall y, vrel x y -> f x = f y) l1 -> Forall2 vrel l1 l2 -> map f l1 = map f l2.
  Proof.
    induction l1 as [|x l1 IH]; intros l2 Hf H2; inversion H2; subst; [reflexivity|].
    inversion Hf; subst. cbn [map]. f_equal; [now apply H3|now apply IH].
  Qed.

  (* related values have the same wire_size() and the same discriminant reading *)
  Lemma vrel_wsz md : forall v1 v2, vrel v1 v2 -> wsz md v1 = wsz md v2.
  Proof.
    induction v1 using rval_ind'; intros v2 Hv; inversion Hv; subst; try reflexivity.
    - match goal with X : vrelv _ _ |- _ => destruct X as [E _] end. cbn. unfold wsz_bytes. now rewrite E.
    - cbn [wsz]. now rewrite (Forall2_map_eq (wsz md) l l2 H ltac:(assumption)).
    - cbn [wsz]. now rewrite (Forall2_map_eq (wsz md) l l2 H ltac:(assumption)).
    - cbn [wsz]. now rewrite (IHv1 _ ltac:(eassumption)).
    - cbn [wsz]. now rewrite (Forall2_map_eq (wsz md) l l2 H ltac:(assumption)).
    - cbn [wsz]. now rewrite (IHv1 _ ltac:(eassumption)).
    - cbn [wsz]. now rewrite (IHv1 _ ltac:(eassumption)).
  Qed.

  Lemma vrel_dval v1 v2 : vrel v1 v2 -> dval_of v1 = dval_of v2.
  Proof. intros H. inversion H; subst; reflexivity. Qed.

  Lemma drop_app_le' (b r : bytes) k : k <= len b -> drop k (b ++ r) = drop k b ++ r.
  Proof.
    intros H. unfold drop, len in *. rewrite skipn_app.
    replace (N.to_nat k - length b)%nat with 0%nat by lia. reflexivity.
  Qed.

  (* two cursors over buffers that share the prefix b *)
  Definition srel (b r1 r2 : bytes) (s1 s2 : st) : Prop :=
    s_alloc s1 = a1 /\ s_alloc s2 = a2 /\
    (exists k, s_off s1 = o1 + k /\ s_off s2 = o2 + k) /\
    s_rem s1 = b ++ r1 /\ s_rem s2 = b ++ r2 /\ bok s1.

  Lemma bok_drop_app (b r : bytes) c : bytes_ok (b ++ r) -> c <= len b -> bytes_ok (drop c b ++ r).
  Proof.
    intros H Hc. rewrite <- (drop_app_le' b r c Hc). now apply bytes_ok_drop.
  Qed.

  Definition framed {X} (m : M X) : Prop := forall s v s', m s = Ok v s' -> ext s s'.

  (* if the first run succeeds and consumed no more than the shared prefix, the second run
     succeeds too, with a related result, having consumed the same bytes *)
  Definition sim {X} (R : X -> X -> Prop) (m1 m2 : M X) : Prop :=
    forall b r1 r2 s1 s2 v1 s1',
      srel b r1 r2 s1 s2 -> m1 s1 = Ok v1 s1' -> ext s1 s1' ->
      remaining s1 - remaining s1' <= len b ->
      exists v2 s2', m2 s2 = Ok v2 s2' /\ R v1 v2 /\
                     srel (drop (remaining s1 - remaining s1') b) r1 r2 s1' s2'.

  (* what ext says about the first run, in terms of the shared prefix *)
  Lemma ext_consumed b r1 r2 s1 s2 s1' :
    srel b r1 r2 s1 s2 -> ext s1 s1' -> remaining s1 - remaining s1' <= len b ->
    let c := remaining s1 - remaining s1' in
    s_alloc s1' = a1 /\ s_off s1' = s_off s1 + c /\ s_rem s1' = drop c b ++ r1 /\ remaining s1' <= remaining s1.
  Proof.
    intros [A1 [A2 [K [R1 [R2 _]]]]] [A [k [L [O [R _]]]]] Hc c.
    assert (Hk : c = k).
    { unfold c, remaining. rewrite R, len_drop. lia. }
    assert (Hkb : k <= len b) by (rewrite <- Hk; exact Hc).
    rewrite Hk in *. clear c Hk.
    split; [congruence|]. split; [exact O|]. split.
    - rewrite R, R1. unfold drop, len in *. rewrite skipn_app.
      replace (N.to_nat k - length b)%nat with 0%nat by lia. reflexivity.
    - unfold remaining. rewrite R, len_drop. lia.
  Qed.

  Lemma srel_step b r1 r2 s1 s2 s1' s2' c :
    srel b r1 r2 s1 s2 -> c <= len b ->
    s_alloc s1' = a1 -> s_alloc s2' = a2 ->
    s_off s1' = s_off s1 + c -> s_off s2' = s_off s2 + c ->
    s_rem s1' = drop c b ++ r1 -> s_rem s2' = drop c b ++ r2 ->
    srel (drop c b) r1 r2 s1' s2'.
  Proof.
    intros [A1 [A2 [[k [K1 K2]] [R1 [R2 Hb]]]]] Hc B1 B2 O1 O2 E1 E2.
    split; [exact B1|]. split; [exact B2|]. split; [exists (k + c); lia|]. split; [exact E1|]. split; [exact E2|].
    unfold bok in *. rewrite E1. rewrite R1 in Hb. now apply bok_drop_app.
  Qed.

  Lemma sim_ret {X} (R : X -> X -> Prop) x1 x2 : R x1 x2 -> sim R (ret x1) (ret x2).
  Proof.
    intros HR b r1 r2 s1 s2 v1 s1' Hs H _ _. unfold ret in *. inversion H; subst.
    exists x2, s2. split; [reflexivity|]. split; [exact HR|]. rewrite N.sub_diag. now rewrite drop_0.
  Qed.

  Lemma sim_bind {X Y} (P : X -> X -> Prop) (Q : Y -> Y -> Prop) m1 m2 k1 k2 :
    sim P m1 m2 -> framed m1 -> (forall x, framed (k1 x)) ->
    (forall x1 x2, P x1 x2 -> sim Q (k1 x1) (k2 x2)) ->
    sim Q (bind m1 k1) (bind m2 k2).
  Proof.
    intros Hm Fm Fk Hk b r1 r2 s1 s2 v1 s1' Hs H Hext Hc. unfold bind in H.
    destruct (m1 s1) as [x1 sa| | |] eqn:E1; try discriminate.
    pose proof (Fm _ _ _ E1) as Xa. pose proof (Fk _ _ _ _ H) as Xb.
    (* consumption of the two parts *)
    assert (Ha : remaining sa <= remaining s1 /\ remaining s1' <= remaining sa).
    { destruct Xa as [_ [ka [La [_ [Ra _]]]]]. destruct Xb as [_ [kb [Lb [_ [Rb _]]]]].
      unfold remaining. rewrite Rb, Ra, !len_drop. lia. }
    destruct (Hm b r1 r2 s1 s2 x1 sa Hs E1 Xa ltac:(lia)) as [x2 [sb [E2 [HP Hs']]]].
    destruct (Hk x1 x2 HP _ r1 r2 sa sb v1 s1' Hs' H Xb) as [v2 [s2' [E3 [HQ Hs'']]]].
    { rewrite len_drop. lia. }
    exists v2, s2'. unfold bind. rewrite E2. split; [exact E3|]. split; [exact HQ|].
    rewrite drop_drop in Hs''.
    replace (remaining s1 - remaining sa + (remaining sa - remaining s1')) with (remaining s1 - remaining s1') in Hs'' by lia.
    exact Hs''.
  Qed.

  Lemma sim_impl {X} (P Q : X -> X -> Prop) m1 m2 : (forall x y, P x y -> Q x y) -> sim P m1 m2 -> sim Q m1 m2.
  Proof.
    intros H Hm b r1 r2 s1 s2 v1 s1' Hs E Hx Hc. destruct (Hm b r1 r2 s1 s2 v1 s1' Hs E Hx Hc) as [v2 [s2' [E2 [HP Hs']]]].
    exists v2, s2'. split; [exact E2|]. split; [now apply H|exact Hs'].
  Qed.

  Lemma sim_fail {X} (R : X -> X -> Prop) e1 e2 : sim R (fail e1) (fail e2).
  Proof. intros b r1 r2 s1 s2 v1 s1' _ H. discriminate. Qed.

  (* ---------- readers ---------- *)

  Lemma take_app_le (b r : bytes) k : k <= len b -> take k (b ++ r) = take k b.
  Proof.
    intros H. unfold take, len in *. rewrite firstn_app.
    replace (N.to_nat k - length b)%nat with 0%nat by lia. cbn. now rewrite app_nil_r.
  Qed.

  Lemma drop_app_le (b r : bytes) k : k <= len b -> drop k (b ++ r) = drop k b ++ r.
  Proof.
    intros H. unfold drop, len in *. rewrite skipn_app.
    replace (N.to_nat k - length b)%nat with 0%nat by lia. reflexivity.
  Qed.

  Lemma srel_rem b r1 r2 s1 s2 : srel b r1 r2 s1 s2 -> remaining s1 = len b + len r1 /\ remaining s2 = len b + len r2.
  Proof. intros [_ [_ [_ [R1 [R2 _]]]]]. unfold remaining. rewrite R1, R2, !len_app. lia. Qed.

  Lemma srel_with_rem b r1 r2 s1 s2 k :
    srel b r1 r2 s1 s2 -> k <= len b -> srel (drop k b) r1 r2 (with_rem s1 k) (with_rem s2 k).
  Proof.
    intros Hs Hk. pose proof Hs as [A1 [A2 [K [R1 [R2 _]]]]].
    eapply srel_step; try eassumption; try reflexivity; cbn [with_rem s_rem].
    - rewrite R1. now apply drop_app_le.
    - rewrite R2. now apply drop_app_le.
  Qed.

  Lemma sim_read_be k : sim eq (read_be k) (read_be k).
  Proof.
    intros b r1 r2 s1 s2 v1 s1' Hs H _ Hc. destruct (srel_rem _ _ _ _ _ Hs) as [L1 L2].
    unfold read_be, get_be in *. case_if_in H; [discriminate|]. case_if_in H; [|discriminate].
    inversion H; subst. clear H. rewrite remaining_with_rem' in Hc.
    assert (Hk : k <= len b) by lia.
    case_if; [lia|]. case_if; [|lia].
    eexists _, _. split; [reflexivity|]. split.
    - destruct Hs as [_ [_ [_ [R1 [R2 _]]]]]. rewrite R1, R2, !take_app_le by exact Hk. reflexivity.
    - rewrite remaining_with_rem'. replace (remaining s1 - (remaining s1 - k)) with k by lia.
      now apply srel_with_rem.
  Qed.

  Lemma framed_read_be k : framed (read_be k).
  Proof. intros s v s' H. eapply read_be_ext; exact H. Qed.
  Lemma framed_ret {X} (x : X) : framed (ret x).
  Proof. intros s v s' H. inversion H; subst. apply ext_refl. Qed.

  Lemma sim_read_i32 : sim eq read_i32 read_i32.
  Proof.
    unfold read_i32. eapply sim_bind; [apply sim_read_be|apply framed_read_be|intros; apply framed_ret|].
    intros x1 x2 ->. now apply sim_ret.
  Qed.

  Lemma sim_read_bool : sim eq read_bool read_bool.
  Proof.
    intros b r1 r2 s1 s2 v1 s1' Hs H _ Hc. destruct (srel_rem _ _ _ _ _ Hs) as [L1 L2].
    unfold read_bool in *. case_if_in H; [discriminate|]. unfold bind, get_be in *. case_if_in H; [|discriminate].
    assert (Hv : be_dec (take 4 (s_rem s1)) = be_dec (take 4 (s_rem s2)) -> 4 <= len b ->
                 srel (drop 4 b) r1 r2 (with_rem s1 4) (with_rem s2 4)) by (intros _ Hk; now apply srel_with_rem).
    destruct (to_i32 (be_dec (take 4 (s_rem s1)))) as [|p|p] eqn:Ez; unfold ret, fail in H; try discriminate.
    - inversion H; subst. rewrite remaining_with_rem' in Hc. assert (Hk : 4 <= len b) by lia.
      assert (Et : take 4 (s_rem s1) = take 4 (s_rem s2)).
      { destruct Hs as [_ [_ [_ [R1 [R2 _]]]]]. now rewrite R1, R2, !take_app_le. }
      case_if; [lia|]. case_if; [|lia]. rewrite <- Et, Ez. unfold ret.
      eexists _, _. split; [reflexivity|]. split; [reflexivity|].
      rewrite remaining_with_rem'. replace (remaining s1 - (remaining s1 - 4)) with 4 by lia. now apply srel_with_rem.
    - destruct p; try discriminate. inversion H; subst. rewrite remaining_with_rem' in Hc. assert (Hk : 4 <= len b) by lia.
      assert (Et : take 4 (s_rem s1) = take 4 (s_rem s2)).
      { destruct Hs as [_ [_ [_ [R1 [R2 _]]]]]. now rewrite R1, R2, !take_app_le. }
      case_if; [lia|]. case_if; [|lia]. rewrite <- Et, Ez. unfold ret.
      eexists _, _. split; [reflexivity|]. split; [reflexivity|].
      rewrite remaining_with_rem'. replace (remaining s1 - (remaining s1 - 4)) with 4 by lia. now apply srel_with_rem.
  Qed.

  Lemma sim_read_bytes n : sim vrelv (read_bytes n) (read_bytes n).
  Proof.
    intros b r1 r2 s1 s2 v1 s1' Hs H _ Hc. destruct (srel_rem _ _ _ _ _ Hs) as [L1 L2].
    unfold read_bytes in H. case_if_in H; [discriminate|]. case_if_in H; [discriminate|].
    unfold bind, slice_to in H. case_if_in H; [|discriminate]. unfold advance in H. case_if_in H; [|discriminate].
    unfold ret in H. inversion H; subst. clear H. rewrite remaining_with_rem' in Hc.
    assert (Hk : n + pad_length n <= len b) by lia.
    set (w2 := if n =? 0 then empty_view else {| valloc := s_alloc s2; voff := s_off s2; vdata := take n (s_rem s2) |}).
    assert (E2' : read_bytes n s2 = Ok w2 (with_rem s2 (n + pad_length n))).
    { unfold read_bytes. rewrite E.
      assert (X1 : (remaining s2 <? n + pad_length n) = false) by (apply N.ltb_ge; lia). rewrite X1.
      unfold bind, slice_to.
      assert (X2 : (n <=? remaining s2) = true) by (apply N.leb_le; lia). rewrite X2.
      unfold advance.
      assert (X3 : (n + pad_length n <=? remaining s2) = true) by (apply N.leb_le; lia). rewrite X3. reflexivity. }
    exists w2, (with_rem s2 (n + pad_length n)). split; [exact E2'|]. split.
    - destruct Hs as [A1 [A2 [[k [K1 K2]] [R1 [R2 _]]]]]. unfold w2. destruct (n =? 0).
      + split; [reflexivity|]. left. split; reflexivity.
      + split.
        * cbn [vdata]. rewrite R1, R2, !take_app_le by lia. reflexivity.
        * right. cbn [valloc voff]. split; [exact A1|]. split; [exact A2|]. exists k. split; assumption.
    - rewrite remaining_with_rem'. replace (remaining s1 - (remaining s1 - (n + pad_length n))) with (n + pad_length n) by lia.
      now apply srel_with_rem.
  Qed.

  Lemma sim_check_max n max : sim eq (check_max n max) (check_max n max).
  Proof. unfold check_max. destruct max; [case_if; [apply sim_fail|now apply sim_ret]|now apply sim_ret]. Qed.

  Lemma framed_check_max n max : framed (check_max n max).
  Proof.
    intros s v s' H. unfold check_max in H. destruct max; [case_if_in H|]; unfold fail, ret in H; try discriminate;
      inversion H; subst; apply ext_refl.
  Qed.

  Lemma framed_read_bytes n : framed (read_bytes n).
  Proof. intros s v s' H. exact (proj1 (read_bytes_snd _ _ _ _ H)). Qed.

  Lemma sim_read_variable_bytes max : sim vrelv (read_variable_bytes max) (read_variable_bytes max).
  Proof.
    unfold read_variable_bytes.
    eapply sim_bind; [apply sim_read_be|apply framed_read_be| |].
    - intros x s v s' H. unfold bind in H. destruct (check_max x max s) as [u sa| | |] eqn:E; try discriminate.
      eapply ext_trans; [eapply framed_check_max; exact E|eapply framed_read_bytes; exact H].
    - intros n1 n2 ->. eapply sim_bind; [apply sim_check_max|apply framed_check_max|intros; apply framed_read_bytes|].
      intros _ _ _. apply sim_read_bytes.
  Qed.

  Lemma sim_reserve x1 x2 : sim eq (reserve x1) (reserve x2).
  Proof.
    intros b r1 r2 s1 s2 v1 s1' Hs H _ _. unfold reserve in *. inversion H; subst.
    eexists _, _. split; [reflexivity|]. split; [reflexivity|].
    unfold remaining. cbn [s_rem]. rewrite N.sub_diag, drop_0. exact Hs.
  Qed.

  Lemma sim_read_string max : sim eq (read_string max) (read_string max).
  Proof.
    intros b r1 r2 s1 s2 v1 s1' Hs H Hx Hc. unfold read_string, bind in H.
    destruct (read_variable_bytes max s1) as [w1 sa| | |] eqn:E1; try discriminate.
    pose proof (proj1 (read_variable_bytes_snd _ _ _ _ E1)) as Xa.
    assert (Hra : remaining s1' = remaining sa).
    { unfold reserve in H. destruct (utf8_valid (vdata w1)); unfold ret, fail in H; inversion H; reflexivity. }
    destruct (sim_read_variable_bytes max b r1 r2 s1 s2 w1 sa Hs E1 Xa ltac:(lia)) as [w2 [sb [E2 [[Hd _] Hs']]]].
    unfold read_string, bind. rewrite E2. unfold reserve in *. rewrite <- Hd.
    destruct (utf8_valid (vdata w1)); unfold ret, fail in *; [|discriminate].
    inversion H; subst. eexists _, _. split; [reflexivity|]. split; [reflexivity|].
    unfold remaining in *. cbn [s_rem] in *. destruct Hs' as [B1 [B2 [K [R1 [R2 Hb]]]]].
    split; [exact B1|]. split; [exact B2|]. split; [exact K|]. split; [exact R1|]. split; [exact R2|exact Hb].
  Qed.

  (* ---------- the counted-array reader ---------- *)

  Section VarArrayLocal.
    Variable elem_name : string.
    Variable dec_elem : M rval.
    Variable wsz_elem : rval -> option N.
    Hypothesis Hsim : sim vrel dec_elem dec_elem.
    Hypothesis Hsnd : snd1 dec_elem.
    (* the element decoder consumes, on its clone, exactly the wire_size() the caller steps by *)
    Hypothesis Hcons : forall s t s', bok s -> dec_elem s = Ok t s' -> wsz_elem t = Some (remaining s - remaining s').
    Hypothesis Hwv : forall v1 v2, vrel v1 v2 -> wsz_elem v1 = wsz_elem v2.

    Lemma Forall2_app' {X Y} (R : X -> Y -> Prop) a1' a2' b1 b2 :
      Forall2 R a1' a2' -> Forall2 R b1 b2 -> Forall2 R (a1' ++ b1) (a2' ++ b2).
    Proof. induction 1; intros Hb; cbn; [exact Hb|constructor; auto]. Qed.

    Lemma Forall2_rev {X Y} (R : X -> Y -> Prop) l1 l2 : Forall2 R l1 l2 -> Forall2 R (rev l1) (rev l2).
    Proof. induction 1; cbn; [constructor|]. apply Forall2_app'; [assumption|repeat constructor; assumption]. Qed.

    Lemma ext_remaining s s' : ext s s' -> remaining s' <= remaining s.
    Proof. intros [_ [k [L [_ [R _]]]]]. unfold remaining. rewrite R, len_drop. lia. Qed.

    Lemma rva_loop_ext fuel : forall n sum acc s r s',
      rva_loop dec_elem wsz_elem fuel n sum acc s = Ok r s' -> ext s s'.
    Proof.
      induction fuel as [|f IH]; intros n sum acc s r s' H; cbn [rva_loop] in H.
      - destruct (n =? 0); [|discriminate]. unfold ret in H. inversion H; subst. apply ext_refl.
      - destruct (n =? 0); [unfold ret in H; inversion H; subst; apply ext_refl|].
        unfold bind at 1 in H. unfold on_clone in H.
        destruct (dec_elem s) as [t sx| | |] eqn:E1; try discriminate.
        destruct (proj1 (Hsnd _ _ _ E1)) as [_ [k [_ [_ [_ [d D]]]]]].
        destruct (wsz_elem t) as [w|]; [|discriminate].
        set (sc := {| s_alloc := s_alloc s; s_off := s_off s; s_rem := s_rem s; s_led := s_led sx |}) in *.
        destruct (remaining sc <? w); [discriminate|].
        unfold bind at 1, advance in H. destruct (w <=? remaining sc) eqn:Ele; [|discriminate].
        apply IH in H. eapply ext_trans; [|eapply ext_trans; [|exact H]].
        + instantiate (1 := sc). unfold sc. rewrite D. apply ext_led.
        + apply ext_with_rem. now apply N.leb_le.
    Qed.

    Lemma sim_rva_loop fuel : forall n sum acc1 acc2 b r1 r2 s1 s2 res s1',
      srel b r1 r2 s1 s2 -> Forall2 vrel acc1 acc2 ->
      rva_loop dec_elem wsz_elem fuel n sum acc1 s1 = Ok res s1' ->
      remaining s1 - remaining s1' <= len b ->
      exists res2 s2', rva_loop dec_elem wsz_elem fuel n sum acc2 s2 = Ok res2 s2' /\
                       Forall2 vrel (fst res) (fst res2) /\ snd res = snd res2 /\
                       srel (drop (remaining s1 - remaining s1') b) r1 r2 s1' s2'.
    Proof.
      induction fuel as [|f IH]; intros n sum acc1 acc2 b r1 r2 s1 s2 res s1' Hs Hacc H Hc; cbn [rva_loop] in *.
      - destruct (n =? 0); [|discriminate]. unfold ret in *. inversion H; subst.
        eexists _, _. split; [reflexivity|]. cbn [fst snd]. split; [now apply Forall2_rev|]. split; [reflexivity|].
        rewrite N.sub_diag. now rewrite drop_0.
      - destruct (n =? 0).
        { unfold ret in *. inversion H; subst.
          eexists _, _. split; [reflexivity|]. cbn [fst snd]. split; [now apply Forall2_rev|]. split; [reflexivity|].
          rewrite N.sub_diag. now rewrite drop_0. }
        unfold bind at 1 in H. unfold on_clone in H.
        destruct (dec_elem s1) as [t sx| | |] eqn:E1; try discriminate.
        pose proof (proj1 (Hsnd _ _ _ E1)) as Xe.
        pose proof Hs as [A1 [A2 [K [R1 [R2 Hb]]]]].
        pose proof (Hcons s1 t sx Hb E1) as Hw. rewrite Hw in H.
        set (w := remaining s1 - remaining sx) in *.
        set (s1c := {| s_alloc := s_alloc s1; s_off := s_off s1; s_rem := s_rem s1; s_led := s_led sx |}) in *.
        assert (Rc : remaining s1c = remaining s1) by reflexivity.
        destruct (remaining s1c <? w) eqn:Elt; [discriminate|]. apply N.ltb_ge in Elt.
        unfold bind at 1, advance in H. destruct (w <=? remaining s1c) eqn:Ele; [|discriminate].
        (* the rest of the loop *)
        assert (Xr : ext (with_rem s1c w) s1') by (eapply rva_loop_ext; exact H).
        pose proof (ext_remaining _ _ Xr) as Hr'. rewrite remaining_with_rem' in Hr'.
        assert (Hwb : w <= len b) by lia.
        (* second run: the element *)
        destruct (Hsim b r1 r2 s1 s2 t sx Hs E1 Xe ltac:(fold w; lia)) as [t2 [sy [E2 [Ht Hs']]]].
        unfold bind at 1. unfold on_clone. rewrite E2. rewrite <- (Hwv _ _ Ht), Hw. fold w.
        set (s2c := {| s_alloc := s_alloc s2; s_off := s_off s2; s_rem := s_rem s2; s_led := s_led sy |}).
        destruct (srel_rem _ _ _ _ _ Hs) as [L1 L2].
        assert (Rc2 : remaining s2c = remaining s2) by reflexivity.
        assert (X1 : (remaining s2c <? w) = false) by (apply N.ltb_ge; lia). rewrite X1.
        unfold bind at 1, advance. assert (X2 : (w <=? remaining s2c) = true) by (apply N.leb_le; lia). rewrite X2.
        assert (Hs2 : srel (drop w b) r1 r2 (with_rem s1c w) (with_rem s2c w)).
        { eapply srel_step; [exact Hs|exact Hwb|exact A1|exact A2|reflexivity|reflexivity| |]; cbn [with_rem s_rem s1c s2c].
          - rewrite R1. now apply drop_app_le.
          - rewrite R2. now apply drop_app_le. }
        destruct (IH (n - 1) (sum + w) (t :: acc1) (t2 :: acc2) _ r1 r2 _ _ res s1' Hs2 ltac:(constructor; assumption) H)
          as [res2 [s2' [E3 [F1 [F2 Hs3]]]]].
        { rewrite remaining_with_rem', len_drop. lia. }
        exists res2, s2'. split; [exact E3|]. split; [exact F1|]. split; [exact F2|].
        rewrite drop_drop, remaining_with_rem' in Hs3.
        replace (w + (remaining s1c - w - remaining s1')) with (remaining s1 - remaining s1') in Hs3 by lia.
        exact Hs3.
    Qed.

    Lemma sim_read_variable_array fuel max :
      sim (Forall2 vrel) (read_variable_array elem_name dec_elem wsz_elem fuel max)
                         (read_variable_array elem_name dec_elem wsz_elem fuel max).
    Proof.
      intros b r1 r2 s1 s2 v1 s1' Hs H Hx Hc. unfold read_variable_array in H. unfold bind at 1 in H.
      change read_u32 with (read_be 4) in H.
      destruct (read_be 4 s1) as [n sa| | |] eqn:E1; try discriminate.
      pose proof (read_be_ext _ _ _ _ E1) as Xa. unfold bind at 1 in H.
      destruct (check_max n max sa) as [u sa'| | |] eqn:E2; try discriminate.
      assert (sa' = sa).
      { unfold check_max in E2. destruct max; [case_if_in E2; unfold fail, ret in E2; congruence|unfold ret in E2; congruence]. }
      subst sa'. unfold bind at 1, reserve in H.
      set (sb := {| s_alloc := s_alloc sa; s_off := s_off sa; s_rem := s_rem sa;
                    s_led := s_led sa ++ [ResVec (N.min n (remaining sa)) elem_name] |}) in H.
      unfold bind at 1 in H.
      destruct (rva_loop dec_elem wsz_elem fuel n 0 [] sb) as [r sc| | |] eqn:E4; try discriminate.
      pose proof (rva_loop_ext _ _ _ _ _ _ _ E4) as Xc.
      unfold bind, advance in H. destruct (pad_length (snd r) <=? remaining sc) eqn:Ep; [|discriminate].
      unfold ret in H. inversion H; subst v1 s1'. clear H.
      pose proof (ext_remaining _ _ Xa) as La. pose proof (ext_remaining _ _ Xc) as Lc.
      assert (Rb : remaining sb = remaining sa) by reflexivity.
      rewrite remaining_with_rem' in Hc.
      (* second run *)
      destruct (sim_read_be 4 b r1 r2 s1 s2 n sa Hs E1 Xa ltac:(lia)) as [n2 [ta [F1 [<- Hs1]]]].
      unfold read_variable_array. unfold bind at 1. change read_u32 with (read_be 4). rewrite F1.
      unfold bind at 1.
      assert (F2 : check_max n max ta = Ok u ta).
      { unfold check_max in *. destruct max as [mx|]; [destruct (mx <? n); [discriminate|]|];
          unfold ret in *; inversion E2; subst; reflexivity. }
      rewrite F2. unfold bind at 1, reserve.
      set (tb := {| s_alloc := s_alloc ta; s_off := s_off ta; s_rem := s_rem ta;
                    s_led := s_led ta ++ [ResVec (N.min n (remaining ta)) elem_name] |}).
      assert (Hs2 : srel (drop (remaining s1 - remaining sa) b) r1 r2 sb tb).
      { destruct Hs1 as [B1 [B2 [K [R1 [R2 Hb]]]]]. split; [exact B1|]. split; [exact B2|]. split; [exact K|].
        split; [exact R1|]. split; [exact R2|exact Hb]. }
      destruct (sim_rva_loop fuel n 0 [] [] _ r1 r2 sb tb r sc Hs2 ltac:(constructor) E4) as [res2 [tc [F4 [G1 [G2 Hs3]]]]].
      { rewrite len_drop. lia. }
      unfold bind at 1. rewrite F4. rewrite <- G2.
      unfold bind, advance.
      destruct (srel_rem _ _ _ _ _ Hs3) as [M1 M2].
      assert (Hpl : pad_length (snd r) <= len (drop (remaining sb - remaining sc) (drop (remaining s1 - remaining sa) b))).
      { apply N.leb_le in Ep. rewrite !len_drop. lia. }
      assert (F5 : (pad_length (snd r) <=? remaining tc) = true) by (apply N.leb_le; lia).
      rewrite F5. unfold ret. eexists _, _. split; [reflexivity|]. split; [exact G1|].
      pose proof (srel_with_rem _ _ _ _ _ (pad_length (snd r)) Hs3 Hpl) as Hs4.
      rewrite !drop_drop in Hs4. rewrite remaining_with_rem'.
      replace (remaining s1 - (remaining sc - pad_length (snd r)))
        with (remaining s1 - remaining sa + (remaining sb - remaining sc + pad_length (snd r))) by (apply N.leb_le in Ep; lia).
      exact Hs4.
    Qed.
  End VarArrayLocal.

  (* ---------- the emitted fragment ---------- *)

  Section DecLocal.
    Variable md : module_ir.
    Variable R : string -> Prop.        (* the decoders that may be called *)

    Fixpoint calls_ok (e : dexp) : Prop :=
      match e with
      | ETryFrom ty => R ty
      | EVarArray elem _ _ => R elem
      | EArr _ e' => calls_ok e'
      | _ => True
      end.
    Definition fcalls_ok (f : fexp) : Prop := match f with FPlain e => calls_ok e | FOpt ty => R ty end.
    Definition body_ok (b : dbody) : Prop :=
      match b with
      | BStruct _ fs => Forall (fun f => fcalls_ok (snd f)) fs
      | BUnion _ disc arms fb =>
        calls_ok disc /\
        Forall (fun a => match snd a with Some e => calls_ok e | None => True end) arms /\
        match fb with FbDefault e => calls_ok e | _ => True end
      | BEnum _ => True
      | BTypedef e => calls_ok e
      end.

    Section Body.
      Variable rec : string -> M rval.
      Variable lf : nat.
      Hypothesis Hrec_sim : forall ty, R ty -> sim vrel (rec ty) (rec ty).
      Hypothesis Hrec_snd : forall ty, snd1 (rec ty).
      Hypothesis Hrec_cons : forall ty, R ty -> forall s t s', bok s -> rec ty s = Ok t s' ->
                                                         wsz md t = Some (remaining s - remaining s').

      Let fr_dexp e : framed (eval_dexp md rec lf e).
      Proof. intros s v s' H. exact (proj1 (eval_dexp_snd md rec lf Hrec_snd e s v s' H)). Qed.

      Lemma sim_seq_n n m : sim vrel m m -> snd1 m -> sim (Forall2 vrel) (seq_n n m) (seq_n n m).
      Proof.
        intros Hm Hs. induction n as [|n IH]; cbn [seq_n]; [apply sim_ret; constructor|].
        eapply sim_bind; [exact Hm|intros s v s' H; exact (proj1 (Hs s v s' H))| |].
        - intros x s v s' H. unfold bind in H. destruct (seq_n n m s) as [xs sa| | |] eqn:E; try discriminate.
          unfold ret in H. inversion H; subst. exact (proj1 (seq_n_snd n m Hs s xs s' E)).
        - intros x1 x2 Hx. eapply sim_bind; [exact IH| |intros; apply framed_ret|].
          + intros s v s' H. exact (proj1 (seq_n_snd n m Hs s v s' H)).
          + intros l1 l2 Hl. apply sim_ret. now constructor.
      Qed.

      Lemma sim_prim p : sim vrel (read_prim p) (read_prim p).
      Proof.
        destruct p; cbn [read_prim];
          (eapply sim_bind; [|intros s v s' H|intros; apply framed_ret|intros x1 x2 ->; apply sim_ret; constructor]).
        all: try apply sim_read_be; try apply sim_read_i32; try apply sim_read_bool.
        all: try (eapply read_be_ext; exact H); try (eapply read_i32_ext; exact H); try (eapply read_bool_ext; exact H).
        - unfold read_i64. eapply sim_bind; [apply sim_read_be|apply framed_read_be|intros; apply framed_ret|].
          intros x1 x2 ->. now apply sim_ret.
        - eapply read_i64_ext; exact H.
      Qed.

      Lemma sim_dexp e : calls_ok e -> sim vrel (eval_dexp md rec lf e) (eval_dexp md rec lf e).
      Proof.
        induction e as [p|max|max|n|elem g max|ty|n e IH]; intros Hok; cbn [eval_dexp calls_ok] in *.
        - apply sim_prim.
        - eapply sim_bind; [apply sim_read_string| |intros; apply framed_ret|].
          + intros s v s' H. eapply read_string_ext; exact H.
          + intros x1 x2 ->. apply sim_ret. constructor.
        - eapply sim_bind; [apply sim_read_variable_bytes| |intros; apply framed_ret|].
          + intros s v s' H. exact (proj1 (read_variable_bytes_snd _ _ _ _ H)).
          + intros w1 w2 Hw. apply sim_ret. now constructor.
        - eapply sim_bind; [apply sim_read_bytes|apply framed_read_bytes|intros; apply framed_ret|].
          intros w1 w2 Hw. apply sim_ret. now constructor.
        - eapply sim_bind; [| |intros; apply framed_ret|].
          + apply sim_read_variable_array; [now apply Hrec_sim|apply Hrec_snd|intros; eapply Hrec_cons; eassumption|apply vrel_wsz].
          + intros s v s' H. exact (proj1 (read_variable_array_snd elem (rec elem) (wsz md) (Hrec_snd elem) lf max s v s' H)).
          + intros l1 l2 Hl. apply sim_ret. now constructor.
        - now apply Hrec_sim.
        - eapply sim_bind; [apply sim_seq_n; [now apply IH|]| |intros; apply framed_ret|].
          + apply eval_dexp_snd. exact Hrec_snd.
          + intros s v s' H. exact (proj1 (seq_n_snd _ _ (eval_dexp_snd md rec lf Hrec_snd e) s v s' H)).
          + intros l1 l2 Hl. apply sim_ret. now constructor.
      Qed.

      Let snd_dexp e := eval_dexp_snd md rec lf Hrec_snd e.

      Lemma framed_of_snd1 (m : M rval) : snd1 m -> framed m.
      Proof. intros H s v s' E. exact (proj1 (H s v s' E)). Qed.

      Lemma sim_fexp f : fcalls_ok f -> sim vrel (eval_fexp md rec lf f) (eval_fexp md rec lf f).
      Proof.
        destruct f as [e|ty]; intros Hok; cbn [eval_fexp fcalls_ok] in *; [now apply sim_dexp|].
        change read_u32 with (read_be 4).
        eapply sim_bind; [apply sim_read_be|apply framed_read_be| |].
        - intros d. apply framed_of_snd1.
          intros s v s' H. pose proof (eval_fexp_snd md rec lf Hrec_snd (FOpt ty)) as X. cbn [eval_fexp] in X.
          (* the continuation after the marker is itself sound: rebuild it from the pieces *)
          destruct (d =? 0); [unfold ret in H; inversion H; subst; split; [apply ext_refl|exact I]|].
          destruct (d =? 1); [|discriminate].
          unfold bind in H. destruct (rec ty s) as [x sa| | |] eqn:E; try discriminate.
          unfold reserve, ret in H. inversion H; subst. destruct (Hrec_snd ty s x sa E) as [Xa Ga].
          split; [eapply ext_trans; [exact Xa|apply ext_led]|exact Ga].
        - intros d1 d2 ->. destruct (d2 =? 0); [apply sim_ret; constructor|].
          destruct (d2 =? 1); [|apply sim_fail].
          eapply sim_bind; [now apply Hrec_sim|apply framed_of_snd1; apply Hrec_snd| |].
          + intros x s v s' H. unfold bind, reserve, ret in H. inversion H; subst. apply ext_led.
          + intros x1 x2 Hx. eapply sim_bind; [apply sim_reserve| |intros; apply framed_ret|].
            * intros s v s' H. unfold reserve in H. inversion H; subst. apply ext_led.
            * intros _ _ _. apply sim_ret. now constructor.
      Qed.

      Lemma sim_fields fs : Forall (fun f => fcalls_ok (snd f)) fs ->
        sim (Forall2 vrel) (eval_fields md rec lf fs) (eval_fields md rec lf fs).
      Proof.
        induction 1 as [|f fs Hf _ IH]; cbn [eval_fields]; [apply sim_ret; constructor|].
        eapply sim_bind; [now apply sim_fexp|apply framed_of_snd1; apply eval_fexp_snd; exact Hrec_snd| |].
        - intros x s v s' H. unfold bind in H. destruct (eval_fields md rec lf fs s) as [xs sa| | |] eqn:E; try discriminate.
          unfold ret in H. inversion H; subst. exact (proj1 (eval_fields_snd md rec lf Hrec_snd fs s xs s' E)).
        - intros x1 x2 Hx. eapply sim_bind; [exact IH| |intros; apply framed_ret|].
          + intros s v s' H. exact (proj1 (eval_fields_snd md rec lf Hrec_snd fs s v s' H)).
          + intros l1 l2 Hl. apply sim_ret. now constructor.
      Qed.

      Lemma sim_arms self d arms fb :
        Forall (fun a => match snd a with Some e => calls_ok e | None => True end) arms ->
        match fb with FbDefault e => calls_ok e | _ => True end ->
        sim vrel (eval_arms md rec lf self d arms fb) (eval_arms md rec lf self d arms fb).
      Proof.
        intros Ha Hfb. induction Ha as [|[[m variant] payload] arms Hp _ IH]; cbn [eval_arms].
        - destruct fb as [e| |].
          + eapply sim_bind; [now apply sim_dexp|apply fr_dexp|intros; apply framed_ret|].
            intros x1 x2 Hx. apply sim_ret. now constructor.
          + destruct (dval_as_i32 md d); [apply sim_fail|]. intros b r1 r2 s1 s2 v1 s1' _ H. discriminate.
          + intros b r1 r2 s1 s2 v1 s1' _ H. discriminate.
        - destruct (matches md m d) as [[|]|].
          + cbn [snd] in Hp. destruct payload as [e|].
            * eapply sim_bind; [now apply sim_dexp|apply fr_dexp|intros; apply framed_ret|].
              intros x1 x2 Hx. apply sim_ret. now constructor.
            * apply sim_ret. constructor.
          + exact IH.
          + intros b r1 r2 s1 s2 v1 s1' _ H. discriminate.
      Qed.

      Lemma sim_enum self z arms : sim vrel (eval_enum self z arms) (eval_enum self z arms).
      Proof.
        induction arms as [|[text name] arms IH]; cbn [eval_enum]; [apply sim_fail|].
        destruct (int_literal text); [|intros b r1 r2 s1 s2 v1 s1' _ H; discriminate].
        destruct (Z.eqb z0 z); [apply sim_ret; constructor|exact IH].
      Qed.

      Lemma sim_body self b : body_ok b -> sim vrel (eval_body md rec lf self b) (eval_body md rec lf self b).
      Proof.
        destruct b as [name fs|dv disc arms fb|arms|e]; intros Hok; cbn [eval_body body_ok] in *.
        - eapply sim_bind; [now apply sim_fields| |intros; apply framed_ret|].
          + intros s v s' H. exact (proj1 (eval_fields_snd md rec lf Hrec_snd fs s v s' H)).
          + intros l1 l2 Hl. apply sim_ret. now constructor.
        - destruct Hok as [Hd [Ha Hf]].
          eapply sim_bind; [now apply sim_dexp|apply fr_dexp| |].
          + intros x. destruct (dval_of x); [|intros s v s' H; discriminate].
            apply framed_of_snd1. apply eval_arms_snd. exact Hrec_snd.
          + intros x1 x2 Hx. rewrite <- (vrel_dval _ _ Hx). destruct (dval_of x1); [now apply sim_arms|].
            intros b r1 r2 s1 s2 v1 s1' _ H. discriminate.
        - eapply sim_bind; [apply sim_read_i32| | |].
          + intros s v s' H. eapply read_i32_ext; exact H.
          + intros x. apply framed_of_snd1. apply eval_enum_snd.
          + intros z1 z2 ->. apply sim_enum.
        - eapply sim_bind; [now apply sim_dexp|apply fr_dexp|intros; apply framed_ret|].
          intros x1 x2 Hx. apply sim_ret. now constructor.
      Qed.
    End Body.

    Hypothesis Hclosed : forall ty i, R ty -> find_from md ty = Some i -> body_ok (i_body i).
    Hypothesis Hcons : forall fuel ty, R ty -> forall s t s', bok s -> dec md fuel ty s = Ok t s' ->
                                                       wsz md t = Some (remaining s - remaining s').

    Theorem dec_sim fuel : forall ty, R ty -> sim vrel (dec md fuel ty) (dec md fuel ty).
    Proof.
      induction fuel as [|f IH]; intros ty HR; cbn [dec].
      - intros b r1 r2 s1 s2 v1 s1' _ H. discriminate.
      - destruct (find_from md ty) as [i|] eqn:Ef; [|intros b r1 r2 s1 s2 v1 s1' _ H; discriminate].
        apply sim_body; [exact IH|apply dec_snd|apply Hcons|exact (Hclosed ty i HR Ef)].
    Qed.
  End DecLocal.
End Local.

(* C03: what the first run consumed determines the result *)
Theorem dec_local md (R : string -> Prop) :
  (forall ty i, R ty -> find_from md ty = Some i -> body_ok R (i_body i)) ->
  (forall fuel ty, R ty -> forall s t s', bok s -> dec md fuel ty s = Ok t s' ->
                                           wsz md t = Some (remaining s - remaining s')) ->
  forall fuel ty a1 o1 a2 o2 b r1 r2 l1 l2 v1 s1',
    R ty -> bytes_ok (b ++ r1) ->
    dec md fuel ty (mk a1 o1 (b ++ r1) l1) = Ok v1 s1' ->
    len (b ++ r1) - remaining s1' <= len b ->            (* the first run stayed inside b *)
    let c := len (b ++ r1) - remaining s1' in
    exists v2 s2',
      dec md fuel ty (mk a2 o2 (b ++ r2) l2) = Ok v2 s2' /\
      vrel a1 o1 a2 o2 v1 v2 /\
      s_rem s1' = drop c b ++ r1 /\ s_rem s2' = drop c b ++ r2 /\
      s_off s1' = o1 + c /\ s_off s2' = o2 + c /\ s_alloc s1' = a1 /\ s_alloc s2' = a2.
Proof.
  intros Hcl Hco fuel ty a1 o1 a2 o2 b r1 r2 l1 l2 v1 s1' HR Hb H Hc c.
  assert (Hs : srel a1 o1 a2 o2 b r1 r2 (mk a1 o1 (b ++ r1) l1) (mk a2 o2 (b ++ r2) l2)).
  { split; [reflexivity|]. split; [reflexivity|]. split; [exists 0; cbn; split; lia|]. split; [reflexivity|]. split; [reflexivity|exact Hb]. }
  pose proof (proj1 (dec_snd md fuel ty _ _ _ H)) as Hx.
  destruct (dec_sim a1 o1 a2 o2 md R Hcl Hco fuel ty HR b r1 r2 _ _ v1 s1' Hs H Hx Hc) as [v2 [s2' [E2 [Hv Hs']]]].
  exists v2, s2'. split; [exact E2|]. split; [exact Hv|].
  destruct Hs' as [B1 [B2 [[k [K1 K2]] [R1 [R2 _]]]]].
  destruct (ext_consumed a1 o1 a2 o2 b r1 r2 _ _ s1' Hs Hx Hc) as [_ [O1 _]]. cbn [s_off] in O1.
  change (remaining (mk a1 o1 (b ++ r1) l1)) with (len (b ++ r1)) in *. fold c in O1, R1, R2.
  change (s_off (mk a1 o1 (b ++ r1) l1)) with o1 in O1.
  assert (k = c) by lia. subst k.
  repeat split; assumption.
Qed.

(* ---------- decidable form ---------- *)

Fixpoint calls_okb (L : list string) (e : dexp) : bool :=
  match e with
  | ETryFrom ty => mem ty L
  | EVarArray elem _ _ => mem elem L
  | EArr _ e' => calls_okb L e'
  | _ => true
  end.
Definition fcalls_okb (L : list string) (f : fexp) : bool :=
  match f with FPlain e => calls_okb L e | FOpt ty => mem ty L end.
Definition body_okb (L : list string) (b : dbody) : bool :=
  match b with
  | BStruct _ fs => forallb (fun f => fcalls_okb L (snd f)) fs
  | BUnion _ disc arms fb =>
    calls_okb L disc &&
    forallb (fun a => match snd a with Some e => calls_okb L e | None => true end) arms &&
    match fb with FbDefault e => calls_okb L e | _ => true end
  | BEnum _ => true
  | BTypedef e => calls_okb L e
  end.

Lemma calls_okb_ok L e : calls_okb L e = true -> calls_ok (fun m => In m L) e.
Proof. induction e; cbn; try (intros; exact I); try (intros H; now apply mem_In). exact IHe. Qed.

Lemma body_okb_ok L b : body_okb L b = true -> body_ok (fun m => In m L) b.
Proof.
  destruct b as [name fs|dv disc arms fb|arms|e]; cbn [body_okb body_ok]; intros H.
  - apply Forall_forall. intros f Hf. pose proof (proj1 (forallb_forall _ _) H f Hf) as X. cbv beta in X.
    destruct (snd f) as [e|ty]; cbn [fcalls_okb fcalls_ok] in *; [now apply calls_okb_ok|now apply mem_In].
  - apply Bool.andb_true_iff in H as [H H3]. apply Bool.andb_true_iff in H as [H1 H2]. split; [now apply calls_okb_ok|]. split.
    + apply Forall_forall. intros a Ha. pose proof (proj1 (forallb_forall _ _) H2 a Ha) as X. cbv beta in X.
      destruct (snd a); [now apply calls_okb_ok|exact I].
    + destruct fb; try exact I. now apply calls_okb_ok.
  - exact I.
  - now apply calls_okb_ok.
Qed.

(* the emitted decoders of the types reachable from n call only decoders of that set *)
Definition closed_ir_b (md : module_ir) (L : list string) : bool :=
  forallb (fun ty => match find_from md ty with Some i => body_okb L (i_body i) | None => true end) L.

Definition local_from_b (A : ast) (md : module_ir) (n : string) : bool :=
  sup4_b A && nof1_from_b A n && closed_ir_b md (reach_of A n) &&
  forallb (fun m => match get_type A m with Some _ => true | None => false end) (reach_of A n).

Theorem local_b A md n fuel a1 o1 a2 o2 b r1 r2 l1 l2 v1 s1' :
  gen A = EOk md -> local_from_b A md n = true ->
  bytes_ok (b ++ r1) ->
  dec md fuel n (mk a1 o1 (b ++ r1) l1) = Ok v1 s1' ->
  len (b ++ r1) - remaining s1' <= len b ->
  let c := len (b ++ r1) - remaining s1' in
  exists v2 s2',
    dec md fuel n (mk a2 o2 (b ++ r2) l2) = Ok v2 s2' /\
    vrel a1 o1 a2 o2 v1 v2 /\
    s_rem s1' = drop c b ++ r1 /\ s_rem s2' = drop c b ++ r2 /\
    s_off s1' = o1 + c /\ s_off s2' = o2 + c /\ s_alloc s1' = a1 /\ s_alloc s2' = a2.
Proof.
  intros Hgen Hb Hbytes H Hc. unfold local_from_b in Hb.
  apply Bool.andb_true_iff in Hb as [Hb H4]. apply Bool.andb_true_iff in Hb as [Hb H3].
  apply Bool.andb_true_iff in Hb as [H1 H2].
  pose proof H2 as H2'. unfold nof1_from_b in H2.
  apply Bool.andb_true_iff in H2 as [H2 H2c]. apply Bool.andb_true_iff in H2 as [H2a H2b].
  set (L := reach_of A n) in *.
  assert (Hn1 : forall m t0, In m L -> get_type A m = Some t0 -> nof1_type t0).
  { intros m t0 Hm G. pose proof (proj1 (forallb_forall _ _) H2c m Hm) as X. cbv beta in X. rewrite G in X.
    now apply nof1_typeb_sound. }
  eapply (dec_local md (fun m => In m L)); try eassumption.
  - intros ty i Hty Hf. pose proof (proj1 (forallb_forall _ _) H3 ty Hty) as X. cbv beta in X. rewrite Hf in X.
    now apply body_okb_ok.
  - intros fuel0 ty Hty s t s' Hs Hd.
    pose proof (proj1 (forallb_forall _ _) H4 ty Hty) as X. cbv beta in X.
    destruct (get_type A ty) as [t0|] eqn:G; [|discriminate].
    pose proof (dec_consumed A md Hgen (sup4_b_sound A H1) (fun m => In m L) (closed_b_sound A L H2b) Hn1
                  fuel0 ty t0 Hty G s Hs) as Y.
    rewrite Hd in Y. exact (proj2 (proj1 Y)).
  - now apply mem_In.
Qed.
