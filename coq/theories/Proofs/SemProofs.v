(* Properties of the semantics that hold for EVERY emitted module (no hypothesis on the
   specification): a successful decode only moves the cursor forward inside the buffer it
   was given (C03 frame), and every non-empty opaque payload of the result is a view into
   that buffer at the offset where its bytes lie (C08). *)
From XdrProofs Require Export RuntimeProofs.
From XdrModel Require Export Sem.
Open Scope N_scope.
Open Scope list_scope.

(* ---------- induction on decoded values ---------- *)

Section rval_ind'.
  Variable P : rval -> Prop.
  Hypothesis Hu32 : forall n, P (RVU32 n).
  Hypothesis Hu64 : forall n, P (RVU64 n).
  Hypothesis Hi32 : forall z, P (RVI32 z).
  Hypothesis Hi64 : forall z, P (RVI64 z).
  Hypothesis Hf32 : forall n, P (RVF32 n).
  Hypothesis Hf64 : forall n, P (RVF64 n).
  Hypothesis Hbool : forall b, P (RVBool b).
  Hypothesis Hstr : forall s, P (RVString s).
  Hypothesis Hbytes : forall w, P (RVBytes w).
  Hypothesis Hvec : forall l, Forall P l -> P (RVVec l).
  Hypothesis Harr : forall l, Forall P l -> P (RVArr l).
  Hypothesis Hnone : P (RVOpt None).
  Hypothesis Hsome : forall x, P x -> P (RVOpt (Some x)).
  Hypothesis Hstruct : forall n l, Forall P l -> P (RVStruct n l).
  Hypothesis Hvar0 : forall t v, P (RVVariant t v None).
  Hypothesis Hvar1 : forall t v x, P x -> P (RVVariant t v (Some x)).
  Hypothesis Hnew : forall n x, P x -> P (RVNewtype n x).

  Fixpoint rval_ind' (v : rval) : P v :=
    let fix go (l : list rval) : Forall P l :=
        match l with
        | [] => Forall_nil P
        | x :: r => Forall_cons x (rval_ind' x) (go r)
        end in
    match v with
    | RVU32 n => Hu32 n | RVU64 n => Hu64 n | RVI32 z => Hi32 z | RVI64 z => Hi64 z
    | RVF32 n => Hf32 n | RVF64 n => Hf64 n | RVBool b => Hbool b
    | RVString s => Hstr s | RVBytes w => Hbytes w
    | RVVec l => Hvec l (go l)
    | RVArr l => Harr l (go l)
    | RVOpt None => Hnone
    | RVOpt (Some x) => Hsome x (rval_ind' x)
    | RVStruct n l => Hstruct n l (go l)
    | RVVariant t v None => Hvar0 t v
    | RVVariant t v (Some x) => Hvar1 t v x (rval_ind' x)
    | RVNewtype n x => Hnew n x (rval_ind' x)
    end.
End rval_ind'.

(* every opaque payload inside a value satisfies P *)
Fixpoint views (P : view -> Prop) (v : rval) : Prop :=
  let fix all (l : list rval) : Prop :=
      match l with [] => True | x :: r => views P x /\ all r end in
  match v with
  | RVBytes w => P w
  | RVVec l | RVArr l | RVStruct _ l => all l
  | RVOpt (Some x) | RVVariant _ _ (Some x) | RVNewtype _ x => views P x
  | _ => True
  end.

Lemma views_list P l :
  (fix all (l : list rval) : Prop := match l with [] => True | x :: r => views P x /\ all r end) l
  <-> Forall (views P) l.
Proof.
  induction l as [|x r IH]; split; intros H.
  - constructor.
  - exact I.
  - destruct H as [H1 H2]. constructor; [exact H1| now apply IH].
  - inversion H as [|? ? H1 H2]; subst. split; [exact H1| now apply IH].
Qed.

Lemma views_vec P l : views P (RVVec l) <-> Forall (views P) l.
Proof. apply views_list. Qed.
Lemma views_arr P l : views P (RVArr l) <-> Forall (views P) l.
Proof. apply views_list. Qed.
Lemma views_struct P n l : views P (RVStruct n l) <-> Forall (views P) l.
Proof. apply views_list. Qed.

Lemma views_impl (P Q : view -> Prop) :
  (forall w, P w -> Q w) -> forall v, views P v -> views Q v.
Proof.
  intros HPQ v. induction v using rval_ind'; intros Hv; try exact I; cbn [views] in *;
    try (apply HPQ; exact Hv);
    try (apply views_list; apply views_list in Hv;
         induction H as [|x r Hx Hr IHr]; [constructor|];
         inversion Hv as [|? ? H1 H2]; subst; constructor; [now apply Hx| now apply IHr]);
    try (now apply IHv).
Qed.

(* ---------- the frame relation ---------- *)

(* s' is s after consuming k bytes (k may be 0) and possibly more allocator requests *)
Definition ext (s s' : st) : Prop :=
  s_alloc s' = s_alloc s /\
  exists k, k <= len (s_rem s) /\ s_off s' = s_off s + k /\ s_rem s' = drop k (s_rem s) /\
            exists d, s_led s' = s_led s ++ d.

Lemma ext_refl s : ext s s.
Proof.
  split; [reflexivity|]. exists 0.
  split; [lia|]. split; [lia|]. split; [now rewrite drop_0|].
  exists []. now rewrite app_nil_r.
Qed.

Lemma ext_trans s1 s2 s3 : ext s1 s2 -> ext s2 s3 -> ext s1 s3.
Proof.
  intros [A1 [k1 [L1 [O1 [R1 [d1 D1]]]]]] [A2 [k2 [L2 [O2 [R2 [d2 D2]]]]]].
  split; [congruence|]. exists (k1 + k2).
  rewrite R1, len_drop in L2.
  split; [lia|]. split; [lia|]. split; [rewrite R2, R1; apply drop_drop|].
  exists (d1 ++ d2). rewrite D2, D1. now rewrite app_assoc.
Qed.

Lemma ext_with_rem s k : k <= remaining s -> ext s (with_rem s k).
Proof.
  intros H. split; [reflexivity|]. exists k.
  split; [exact H|]. split; [reflexivity|]. split; [reflexivity|].
  exists []. cbn [with_rem s_led]. now rewrite app_nil_r.
Qed.

Lemma ext_led s r :
  ext s {| s_alloc := s_alloc s; s_off := s_off s; s_rem := s_rem s; s_led := s_led s ++ r |}.
Proof.
  split; [reflexivity|]. exists 0. cbn [s_alloc s_off s_rem s_led].
  split; [lia|]. split; [lia|]. split; [now rewrite drop_0|]. now exists r.
Qed.

(* a view lies in the buffer s decodes from, at the offset where its bytes are *)
Definition vin (s : st) (w : view) : Prop :=
  vdata w = [] \/
  (valloc w = s_alloc s /\ s_off s <= voff w /\
   voff w + len (vdata w) <= s_off s + len (s_rem s) /\
   vdata w = take (len (vdata w)) (drop (voff w - s_off s) (s_rem s))).

Lemma vin_ext s s' w : ext s s' -> vin s' w -> vin s w.
Proof.
  intros [A [k [L [O [R _]]]]] [E|[Va [Vo [Vl Vd]]]]; [now left|right].
  rewrite R, len_drop in Vl. rewrite A in Va. rewrite O in Vo, Vl.
  repeat split; try lia; try assumption.
  rewrite Vd at 1. rewrite R, drop_drop. f_equal. f_equal. lia.
Qed.

Definition good (s : st) (v : rval) : Prop := views (vin s) v.

Lemma good_ext s s' v : ext s s' -> good s' v -> good s v.
Proof. intros E. apply views_impl. intros w. now apply vin_ext. Qed.

(* a computation is sound when success only moves forward and yields good values *)
Definition snd1 (m : M rval) : Prop :=
  forall s v s', m s = Ok v s' -> ext s s' /\ good s v.
Definition sndl (m : M (list rval)) : Prop :=
  forall s l s', m s = Ok l s' -> ext s s' /\ Forall (good s) l.

Ltac bind_inv H :=
  unfold bind in H;
  match type of H with
  | context [match ?m ?s with _ => _ end] =>
    let E := fresh "E" in destruct (m s) eqn:E; try discriminate
  end.

(* ---------- readers ---------- *)

Lemma read_be_ext k s n s' : read_be k s = Ok n s' -> ext s s'.
Proof.
  unfold read_be, get_be. intros H. case_if_in H; [discriminate|]. case_if_in H; [|discriminate].
  inversion H; subst. apply ext_with_rem. lia.
Qed.

Lemma read_i32_ext s n s' : read_i32 s = Ok n s' -> ext s s'.
Proof.
  unfold read_i32, bind, ret. intros H. destruct (read_be 4 s) eqn:E; try discriminate.
  inversion H; subst. eapply read_be_ext; eassumption.
Qed.

Lemma read_i64_ext s n s' : read_i64 s = Ok n s' -> ext s s'.
Proof.
  unfold read_i64, bind, ret. intros H. destruct (read_be 8 s) eqn:E; try discriminate.
  inversion H; subst. eapply read_be_ext; eassumption.
Qed.

Lemma read_bool_ext s b s' : read_bool s = Ok b s' -> ext s s'.
Proof.
  unfold read_bool, bind, get_be. intros H. case_if_in H; [discriminate|]. case_if_in H; [|discriminate].
  assert (X : ext s (with_rem s 4)) by (apply ext_with_rem; lia).
  destruct (to_i32 (be_dec (take 4 (s_rem s)))) as [|p|p]; unfold ret, fail in H.
  - inversion H; subst. exact X.
  - destruct p; try discriminate. inversion H; subst. exact X.
  - discriminate.
Qed.

Lemma read_prim_snd p : snd1 (read_prim p).
Proof.
  intros s v s' H. destruct p; cbn [read_prim] in H; unfold bind, ret in H.
  - unfold read_u32 in H. destruct (read_be 4 s) eqn:E; try discriminate. inversion H; subst.
    split; [eapply read_be_ext; eassumption| exact I].
  - unfold read_u64 in H. destruct (read_be 8 s) eqn:E; try discriminate. inversion H; subst.
    split; [eapply read_be_ext; eassumption| exact I].
  - destruct (read_i32 s) eqn:E; try discriminate. inversion H; subst.
    split; [eapply read_i32_ext; eassumption| exact I].
  - destruct (read_i64 s) eqn:E; try discriminate. inversion H; subst.
    split; [eapply read_i64_ext; eassumption| exact I].
  - unfold read_f32 in H. destruct (read_be 4 s) eqn:E; try discriminate. inversion H; subst.
    split; [eapply read_be_ext; eassumption| exact I].
  - unfold read_f64 in H. destruct (read_be 8 s) eqn:E; try discriminate. inversion H; subst.
    split; [eapply read_be_ext; eassumption| exact I].
  - destruct (read_bool s) eqn:E; try discriminate. inversion H; subst.
    split; [eapply read_bool_ext; eassumption| exact I].
Qed.

Lemma read_bytes_snd n s w s' : read_bytes n s = Ok w s' -> ext s s' /\ vin s w.
Proof.
  intros H. destruct (read_bytes_total n s) as [[_ E]|[w' [E [Hd [Hl [Hv Hm]]]]]].
  - rewrite E in H. discriminate.
  - rewrite E in H. inversion H; subst w' s'. clear H.
    assert (Hr : n + pad_length n <= remaining s).
    { unfold read_bytes in E. case_if_in E; [discriminate|]. case_if_in E; [discriminate|]. lia. }
    split; [now apply ext_with_rem|].
    destruct (N.eq_dec (len (vdata w)) 0) as [Z|NZ].
    + left. now apply len_0_nil.
    + right. assert (NZ' : n <> 0) by (rewrite <- Hl; exact NZ).
      destruct (Hv NZ') as [Va Vo]. rewrite Va, Vo.
      unfold remaining in Hr.
      split; [reflexivity|]. split; [lia|]. split; [lia|].
      rewrite N.sub_diag, drop_0, Hl. exact Hd.
Qed.

Lemma read_variable_bytes_snd max s w s' :
  read_variable_bytes max s = Ok w s' -> ext s s' /\ vin s w.
Proof.
  unfold read_variable_bytes, bind, read_u32. intros H.
  destruct (read_be 4 s) as [n s1| | |] eqn:E1; try discriminate.
  destruct (check_max n max s1) as [u s2| | |] eqn:E2; try discriminate.
  assert (s2 = s1).
  { unfold check_max in E2. destruct max; [case_if_in E2; unfold fail, ret in E2; congruence|
                                          unfold ret in E2; congruence]. }
  subst s2. apply read_bytes_snd in H as [X V].
  pose proof (read_be_ext _ _ _ _ E1) as X1.
  split; [eapply ext_trans; eassumption| eapply vin_ext; eassumption].
Qed.

Lemma read_string_ext max s b s' : read_string max s = Ok b s' -> ext s s'.
Proof.
  unfold read_string, bind. intros H.
  destruct (read_variable_bytes max s) as [w s1| | |] eqn:E1; try discriminate.
  apply read_variable_bytes_snd in E1 as [X _].
  unfold reserve in H. cbn in H.
  destruct (utf8_valid (vdata w)); unfold ret, fail in H; [|discriminate].
  inversion H; subst. eapply ext_trans; [exact X| apply ext_led].
Qed.

(* ---------- counted arrays ---------- *)

Section VarArraySnd.
  Variable elem_name : string.
  Variable dec_elem : M rval.
  Variable wsz_elem : rval -> option N.
  Hypothesis Hdec : snd1 dec_elem.

  Lemma on_clone_snd s v s' :
    on_clone dec_elem s = Ok v s' -> ext s s' /\ good s v.
  Proof.
    unfold on_clone. intros H. destruct (dec_elem s) as [a s1| | |] eqn:E; try discriminate.
    inversion H; subst. destruct (Hdec _ _ _ E) as [[_ [k [_ [_ [_ [d D]]]]]] G].
    split; [|exact G]. rewrite D. apply ext_led.
  Qed.

  Lemma rva_loop_snd fuel : forall n sum acc s r s',
    rva_loop dec_elem wsz_elem fuel n sum acc s = Ok r s' ->
    forall s0, ext s0 s -> Forall (good s0) acc ->
    ext s0 s' /\ Forall (good s0) (fst r).
  Proof.
    induction fuel as [|f IH]; intros n sum acc s r s' H s0 X0 G0; cbn [rva_loop] in H.
    - destruct (n =? 0); [|discriminate]. unfold ret in H. inversion H; subst.
      split; [exact X0|]. cbn. now apply Forall_rev.
    - destruct (n =? 0).
      { unfold ret in H. inversion H; subst. split; [exact X0|]. cbn. now apply Forall_rev. }
      unfold bind at 1 in H.
      destruct (on_clone dec_elem s) as [t s1| | |] eqn:E1; try discriminate.
      apply on_clone_snd in E1 as [X1 G1].
      destruct (wsz_elem t) as [w|]; [|discriminate].
      destruct (remaining s1 <? w) eqn:Ew; [discriminate|].
      unfold bind, advance in H. destruct (w <=? remaining s1) eqn:Ew2; [|discriminate].
      eapply IH in H; [exact H| |].
      + eapply ext_trans; [exact X0|]. eapply ext_trans; [exact X1|]. apply ext_with_rem. lia.
      + constructor; [|exact G0]. eapply good_ext; [exact X0| exact G1].
  Qed.

  Lemma read_variable_array_snd fuel max : sndl (read_variable_array elem_name dec_elem wsz_elem fuel max).
  Proof.
    intros s l s' H. unfold read_variable_array, bind at 1, read_u32 in H.
    destruct (read_be 4 s) as [n s1| | |] eqn:E1; try discriminate.
    pose proof (read_be_ext _ _ _ _ E1) as X1.
    unfold bind at 1 in H.
    destruct (check_max n max s1) as [u s2| | |] eqn:E2; try discriminate.
    assert (s2 = s1).
    { unfold check_max in E2. destruct max; [case_if_in E2; unfold fail, ret in E2; congruence|
                                            unfold ret in E2; congruence]. }
    subst s2. unfold bind at 1, reserve in H.
    set (s3 := {| s_alloc := s_alloc s1; s_off := s_off s1; s_rem := s_rem s1;
                  s_led := s_led s1 ++ [ResVec (N.min n (remaining s1)) elem_name] |}) in H.
    assert (X3 : ext s s3) by (eapply ext_trans; [exact X1| apply ext_led]).
    unfold bind at 1 in H.
    destruct (rva_loop dec_elem wsz_elem fuel n 0 [] s3) as [r s4| | |] eqn:E4; try discriminate.
    eapply rva_loop_snd in E4 as [X4 G4]; [|exact X3|constructor].
    unfold bind, advance in H.
    destruct (pad_length (snd r) <=? remaining s4) eqn:Ep; [|discriminate].
    unfold ret in H. inversion H; subst.
    split; [|exact G4]. eapply ext_trans; [exact X4| apply ext_with_rem; lia].
  Qed.
End VarArraySnd.

(* ---------- the emitted fragment ---------- *)

Section DecSnd.
  Variable md : module_ir.

  Section Body.
    Variable rec : string -> M rval.
    Variable loop_fuel : nat.
    Hypothesis Hrec : forall ty, snd1 (rec ty).

    Lemma seq_n_snd n m : snd1 m -> sndl (seq_n n m).
    Proof.
      intros Hm. induction n as [|n IH]; intros s l s' H; cbn [seq_n] in H.
      - unfold ret in H. inversion H; subst. split; [apply ext_refl|constructor].
      - unfold bind at 1 in H. destruct (m s) as [x s1| | |] eqn:E1; try discriminate.
        unfold bind at 1 in H. destruct (seq_n n m s1) as [xs s2| | |] eqn:E2; try discriminate.
        unfold ret in H. inversion H; subst.
        destruct (Hm _ _ _ E1) as [X1 G1]. destruct (IH _ _ _ E2) as [X2 G2].
        split; [eapply ext_trans; eassumption|].
        constructor; [exact G1|]. eapply Forall_impl; [|exact G2].
        intros v. now apply good_ext.
    Qed.

    Lemma eval_dexp_snd e : snd1 (eval_dexp md rec loop_fuel e).
    Proof.
      induction e as [p|max|max|n|elem g max|ty|n e IH]; intros s v s' H; cbn [eval_dexp] in H.
      - eapply read_prim_snd; eassumption.
      - unfold bind in H. destruct (read_string max s) eqn:E; try discriminate.
        unfold ret in H. inversion H; subst. split; [eapply read_string_ext; eassumption| exact I].
      - unfold bind in H. destruct (read_variable_bytes max s) eqn:E; try discriminate.
        unfold ret in H. inversion H; subst. apply read_variable_bytes_snd in E as [X V].
        split; assumption.
      - unfold bind in H. destruct (read_bytes n s) eqn:E; try discriminate.
        unfold ret in H. inversion H; subst. apply read_bytes_snd in E as [X V]. split; assumption.
      - unfold bind in H.
        destruct (read_variable_array elem (rec elem) (wsz md) loop_fuel max s) eqn:E; try discriminate.
        unfold ret in H. inversion H; subst.
        apply read_variable_array_snd in E as [X G]; [|apply Hrec].
        split; [exact X|]. unfold good. apply views_vec. exact G.
      - eapply Hrec; eassumption.
      - unfold bind in H. destruct (seq_n (N.to_nat n) (eval_dexp md rec loop_fuel e) s) eqn:E; try discriminate.
        unfold ret in H. inversion H; subst.
        apply seq_n_snd in E as [X G]; [|exact IH].
        split; [exact X|]. unfold good. apply views_arr. exact G.
    Qed.

    Lemma eval_fexp_snd f : snd1 (eval_fexp md rec loop_fuel f).
    Proof.
      destruct f as [e|ty]; cbn [eval_fexp]; [apply eval_dexp_snd|].
      intros s v s' H. unfold bind at 1, read_u32 in H.
      destruct (read_be 4 s) as [d s1| | |] eqn:E1; try discriminate.
      pose proof (read_be_ext _ _ _ _ E1) as X1.
      destruct (d =? 0).
      - unfold ret in H. inversion H; subst. split; [exact X1|exact I].
      - destruct (d =? 1); [|unfold fail in H; discriminate].
        unfold bind at 1 in H. destruct (rec ty s1) as [x s2| | |] eqn:E2; try discriminate.
        destruct (Hrec _ _ _ _ E2) as [X2 G2].
        unfold bind, reserve, ret in H. inversion H; subst.
        split.
        + eapply ext_trans; [exact X1|]. eapply ext_trans; [exact X2| apply ext_led].
        + cbn [good views]. eapply good_ext; [exact X1| exact G2].
    Qed.

    Lemma eval_fields_snd fs : sndl (eval_fields md rec loop_fuel fs).
    Proof.
      induction fs as [|f fs IH]; intros s l s' H; cbn [eval_fields] in H.
      - unfold ret in H. inversion H; subst. split; [apply ext_refl|constructor].
      - unfold bind at 1 in H.
        destruct (eval_fexp md rec loop_fuel (snd f) s) as [x s1| | |] eqn:E1; try discriminate.
        unfold bind at 1 in H.
        destruct (eval_fields md rec loop_fuel fs s1) as [xs s2| | |] eqn:E2; try discriminate.
        unfold ret in H. inversion H; subst.
        destruct (eval_fexp_snd _ _ _ _ E1) as [X1 G1]. destruct (IH _ _ _ E2) as [X2 G2].
        split; [eapply ext_trans; eassumption|].
        constructor; [exact G1|]. eapply Forall_impl; [|exact G2]. intros v. now apply good_ext.
    Qed.

    Lemma eval_arms_snd self d arms fb : snd1 (eval_arms md rec loop_fuel self d arms fb).
    Proof.
      induction arms as [|[[m variant] payload] arms IH]; intros s v s' H; cbn [eval_arms] in H.
      - destruct fb as [e| |].
        + unfold bind in H. destruct (eval_dexp md rec loop_fuel e s) as [x s1| | |] eqn:E; try discriminate.
          unfold ret in H. inversion H; subst. destruct (eval_dexp_snd _ _ _ _ E) as [X G].
          split; [exact X| exact G].
        + destruct (dval_as_i32 md d); unfold fail, panic in H; discriminate.
        + unfold panic in H. discriminate.
      - destruct (matches md m d) as [[|]|]; [| |unfold panic in H; discriminate].
        + destruct payload as [e|].
          * unfold bind in H. destruct (eval_dexp md rec loop_fuel e s) as [x s1| | |] eqn:E; try discriminate.
            unfold ret in H. inversion H; subst. destruct (eval_dexp_snd _ _ _ _ E) as [X G].
            split; [exact X| exact G].
          * unfold ret in H. inversion H; subst. split; [apply ext_refl| exact I].
        + eapply IH; eassumption.
    Qed.

    Lemma eval_enum_snd self z arms : snd1 (eval_enum self z arms).
    Proof.
      induction arms as [|[text name] arms IH]; intros s v s' H; cbn [eval_enum] in H.
      - unfold fail in H. discriminate.
      - destruct (int_literal text); [|unfold panic in H; discriminate].
        destruct (Z.eqb z0 z).
        + unfold ret in H. inversion H; subst. split; [apply ext_refl| exact I].
        + eapply IH; eassumption.
    Qed.

    Lemma eval_body_snd self b : snd1 (eval_body md rec loop_fuel self b).
    Proof.
      destruct b as [name fields|dv disc arms fb|arms|e]; intros s v s' H; cbn [eval_body] in H.
      - unfold bind in H. destruct (eval_fields md rec loop_fuel fields s) as [l s1| | |] eqn:E; try discriminate.
        unfold ret in H. inversion H; subst. destruct (eval_fields_snd _ _ _ _ E) as [X G].
        split; [exact X|]. unfold good. apply views_struct. exact G.
      - unfold bind in H. destruct (eval_dexp md rec loop_fuel disc s) as [x s1| | |] eqn:E; try discriminate.
        destruct (eval_dexp_snd _ _ _ _ E) as [X1 _].
        destruct (dval_of x); [|unfold panic in H; discriminate].
        destruct (eval_arms_snd _ _ _ _ _ _ _ H) as [X2 G2].
        split; [eapply ext_trans; eassumption| eapply good_ext; eassumption].
      - unfold bind in H. destruct (read_i32 s) as [z s1| | |] eqn:E; try discriminate.
        pose proof (read_i32_ext _ _ _ E) as X1.
        destruct (eval_enum_snd _ _ _ _ _ _ H) as [X2 G2].
        split; [eapply ext_trans; eassumption| eapply good_ext; eassumption].
      - unfold bind in H. destruct (eval_dexp md rec loop_fuel e s) as [x s1| | |] eqn:E; try discriminate.
        unfold ret in H. inversion H; subst. destruct (eval_dexp_snd _ _ _ _ E) as [X G].
        split; [exact X| exact G].
    Qed.
  End Body.

  Theorem dec_snd fuel : forall ty, snd1 (dec md fuel ty).
  Proof.
    induction fuel as [|f IH]; intros ty s v s' H; cbn [dec] in H; [discriminate|].
    destruct (find_from md ty) as [i|]; [|unfold panic in H; discriminate].
    eapply eval_body_snd; [exact IH| exact H].
  Qed.
End DecSnd.
