(* C01 groundwork: fuel needed by a value, what "this computation decodes x" means, literals,
   and what the emitters write for each declared position. *)
From Coq Require Import DecimalString DecimalFacts.
From XdrProofs Require Export SizeProofs SemProofs.
Open Scope N_scope.
Open Scope list_scope.

(* ---------- fuel ---------- *)

Fixpoint need (x : xval) : nat :=
  let fix mx (l : list xval) : nat := match l with [] => 0%nat | y :: r => Nat.max (need y) (mx r) end in
  match x with
  | XArrV l => Nat.max (List.length l) (mx l)
  | XArrF l => mx l
  | XOpt (Some y) => need y
  | XStruct _ fs => S (mx fs)
  | XUnion _ d _ (Some y) => S (Nat.max (need d) (need y))
  | XUnion _ d _ None => S (need d)
  | XAlias _ y => S (need y)
  | XEnum _ _ _ => 1%nat
  | _ => 0%nat
  end.

Fixpoint need_list (l : list xval) : nat :=
  match l with [] => 0%nat | y :: r => Nat.max (need y) (need_list r) end.

Lemma need_arrv l : need (XArrV l) = Nat.max (List.length l) (need_list l).
Proof. cbn [need]. f_equal. Qed.
Lemma need_arrf l : need (XArrF l) = need_list l.
Proof. reflexivity. Qed.
Lemma need_struct n l : need (XStruct n l) = S (need_list l).
Proof. reflexivity. Qed.

Fixpoint step_exact_all (l : list xval) : bool :=
  match l with [] => true | y :: r => step_exact y && step_exact_all r end.
Fixpoint noF1_all (l : list xval) : bool :=
  match l with [] => true | y :: r => (nF1 y =? 0) && noF1_all r end.

Lemma step_exact_arrf l : step_exact (XArrF l) = step_exact_all l.
Proof. reflexivity. Qed.
Lemma step_exact_arrv l : step_exact (XArrV l) = (step_exact_all l && noF1_all l)%bool.
Proof. reflexivity. Qed.
Lemma step_exact_struct n l : step_exact (XStruct n l) = step_exact_all l.
Proof. reflexivity. Qed.

(* ---------- "m decodes x" ---------- *)

Definition decodes (m : M rval) (x : xval) : Prop :=
  forall a o rest l, exists l',
      m (mk a o (enc x ++ rest) l) = Ok (rv a o x) (mk a (o + len (enc x)) rest l').

Definition decodes_list (m : M (list rval)) (xs : list xval) : Prop :=
  forall a o rest l, exists l',
      m (mk a o (concat (map enc xs) ++ rest) l)
      = Ok (rv_list a o xs) (mk a (o + len (concat (map enc xs))) rest l').

(* ---------- literals ---------- *)

Lemma uint_of_string_all_digits s u :
  NilEmpty.uint_of_string s = Some u -> all_digits s = true.
Proof.
  revert u. induction s as [|c s IH]; intros u H; [reflexivity|].
  cbn [NilEmpty.uint_of_string] in H. cbn [all_digits].
  destruct (NilEmpty.uint_of_string s) as [u'|] eqn:E; [|discriminate].
  rewrite (IH u' eq_refl), Bool.andb_true_r.
  apply uint_of_char_spec in H.
  repeat (destruct H as [[-> _]|H]; [reflexivity|]). destruct H as [-> _]. reflexivity.
Qed.

Lemma int_literal_digits s :
  all_digits s = true -> s <> EmptyString ->
  int_literal s = option_map (fun u => Z.of_N (N.of_uint u)) (NilEmpty.uint_of_string s).
Proof.
  intros Hd Hne. destruct s as [|c r]; [contradiction|].
  assert (Hd' := Hd). cbn [all_digits] in Hd'. apply Bool.andb_true_iff in Hd' as [Hc Hr].
  destruct c as [[] [] [] [] [] [] [] []]; try (cbn in Hc; discriminate Hc);
    try (unfold int_literal; rewrite Hd; reflexivity).
  (* c = "0": look at the next character *)
  destruct r as [|c2 r2]; [unfold int_literal; rewrite Hd; reflexivity|].
  cbn [all_digits] in Hr. apply Bool.andb_true_iff in Hr as [Hc2 _].
  destruct c2 as [[] [] [] [] [] [] [] []]; try (cbn in Hc2; discriminate Hc2);
    unfold int_literal; rewrite Hd; reflexivity.
Qed.

Lemma int_literal_decimal s n :
  parse_u32 s = Some n -> int_literal s = Some (Z.of_N n).
Proof.
  unfold parse_u32. intros H. destruct s as [|c r] eqn:Es; [discriminate|]. rewrite <- Es in *.
  destruct (NilEmpty.uint_of_string s) as [u|] eqn:E; [|discriminate].
  destruct (N.of_uint u <? 4294967296) eqn:El; [|discriminate]. inversion H; subst n.
  rewrite int_literal_digits; [now rewrite E| eapply uint_of_string_all_digits; eassumption| subst; discriminate].
Qed.

From Coq Require Import DecimalPos DecimalN.

Lemma string_of_uint_nonempty d : d <> Decimal.Nil -> NilEmpty.string_of_uint d <> EmptyString.
Proof. destruct d; cbn; congruence. Qed.

Lemma int_literal_string_of_Z z : (0 <= z)%Z -> int_literal (string_of_Z z) = Some z.
Proof.
  intros Hz. unfold string_of_Z. destruct z as [|p|p]; [reflexivity| |lia].
  cbn [Z.to_int NilZero.string_of_int].
  assert (Hn : Pos.to_uint p <> Decimal.Nil).
  { intros C. pose proof (DecimalPos.Unsigned.of_to p) as X. rewrite C in X. discriminate X. }
  unfold NilZero.string_of_uint. destruct (Pos.to_uint p) eqn:E; [contradiction| | | | | | | | | | ];
    rewrite <- E in *;
    (rewrite int_literal_digits;
     [ rewrite NilEmpty.usu; cbn [option_map]; f_equal;
       unfold N.of_uint; rewrite DecimalPos.Unsigned.of_to; reflexivity
     | eapply uint_of_string_all_digits; apply NilEmpty.usu
     | apply string_of_uint_nonempty; exact Hn ]).
Qed.
