(* Smaller facts used by the property files C04, C05, C06, C07, C09, C11, C12, C14. *)
From XdrProofs Require Export SemProofs IndexProofs.
From XdrModel Require Export Emit.
Open Scope N_scope.
Open Scope list_scope.

(* ---------- C04: no reader ever panics or runs out of fuel ---------- *)

Definition total {A} (r : res A) : Prop :=
  (exists a s, r = Ok a s) \/ (exists e s, r = Err e s).

Lemma read_be_total' k s : total (read_be k s).
Proof.
  destruct (read_be_total k s) as [[_ E]|[_ E]]; rewrite E; [right|left]; eauto.
Qed.

Lemma read_i32_total s : total (read_i32 s).
Proof.
  unfold read_i32, bind. destruct (read_be_total' 4 s) as [[a [s' E]]|[e [s' E]]]; rewrite E;
    [left|right]; unfold ret; eauto.
Qed.

Lemma read_i64_total s : total (read_i64 s).
Proof.
  unfold read_i64, bind. destruct (read_be_total' 8 s) as [[a [s' E]]|[e [s' E]]]; rewrite E;
    [left|right]; unfold ret; eauto.
Qed.

Lemma read_bool_total s : total (read_bool s).
Proof.
  unfold read_bool. case_if; [right; eauto|].
  unfold bind, get_be. case_if; [|lia].
  destruct (to_i32 (be_dec (take 4 (s_rem s)))) as [|p|p]; unfold ret, fail.
  - left; eauto.
  - destruct p; first [left; do 2 eexists; reflexivity | right; do 2 eexists; reflexivity].
  - right; eauto.
Qed.

Lemma read_bytes_total' n s : total (read_bytes n s).
Proof.
  destruct (read_bytes_total n s) as [[_ E]|[w [E _]]]; rewrite E; [right|left]; eauto.
Qed.

Lemma check_max_total n max s : total (check_max n max s) /\
  forall u s', check_max n max s = Ok u s' -> s' = s.
Proof.
  unfold check_max. destruct max as [m|].
  - case_if; unfold fail, ret; split; try (right; eauto; fail); try (left; eauto; fail);
      intros u s' H; inversion H; reflexivity.
  - unfold ret. split; [left; eauto|]. intros u s' H. inversion H. reflexivity.
Qed.

Lemma read_variable_bytes_total max s : total (read_variable_bytes max s).
Proof.
  unfold read_variable_bytes, bind, read_u32.
  destruct (read_be_total' 4 s) as [[n [s1 E]]|[e [s1 E]]]; rewrite E; [|right; eauto].
  destruct (check_max_total n max s1) as [[[u [s2 E2]]|[e [s2 E2]]] _]; rewrite E2; [|right; eauto].
  apply read_bytes_total'.
Qed.

Lemma read_string_total max s : total (read_string max s).
Proof.
  unfold read_string, bind.
  destruct (read_variable_bytes_total max s) as [[w [s1 E]]|[e [s1 E]]]; rewrite E; [|right; eauto].
  unfold reserve. destruct (utf8_valid (vdata w)); unfold ret, fail; [left|right]; eauto.
Qed.

(* ---------- C06: rejection of undeclared markers and members ---------- *)

Section Reject.
  Variable md : module_ir.
  Variable rec : string -> M rval.
  Variable lf : nat.

  Lemma opt_marker_rejected ty a o w rest l :
    len w = 4 -> be_dec w <> 0 -> be_dec w <> 1 ->
    eval_fexp md rec lf (FOpt ty) (mk a o (w ++ rest) l)
    = Err (UnknownOptionVariant (be_dec w)) (mk a (o + 4) rest l).
  Proof.
    intros Hw H0 H1. cbn [eval_fexp]. unfold bind at 1, read_u32.
    rewrite read_be_app by exact Hw.
    destruct (N.eqb_spec (be_dec w) 0); [contradiction|].
    destruct (N.eqb_spec (be_dec w) 1); [contradiction|]. reflexivity.
  Qed.

  Lemma opt_marker_none ty a o rest l :
    eval_fexp md rec lf (FOpt ty) (mk a o (be_enc 4 0 ++ rest) l) = Ok (RVOpt None) (mk a (o + 4) rest l).
  Proof.
    cbn [eval_fexp]. unfold bind at 1, read_u32.
    rewrite read_be_app by (now rewrite len_be_enc). rewrite be_dec_enc4 by lia. reflexivity.
  Qed.
End Reject.

(* an enum word that is the value of no declared member is rejected with UnknownVariant *)
Lemma eval_enum_unknown self z arms s :
  Forall (fun a => exists x, int_literal (fst a) = Some x /\ x <> z) arms ->
  eval_enum self z arms s = Err (UnknownVariant z) s.
Proof.
  induction 1 as [|[text name] arms [x [Hx Hne]] _ IH]; cbn [eval_enum]; [reflexivity|].
  cbn [fst] in Hx. rewrite Hx. destruct (Z.eqb_spec x z); [contradiction|]. exact IH.
Qed.

(* the first arm whose value is the word selects that member *)
Lemma eval_enum_member self z arms1 text name arms2 s :
  Forall (fun a => exists x, int_literal (fst a) = Some x /\ x <> z) arms1 ->
  int_literal text = Some z ->
  eval_enum self z (arms1 ++ (text, name) :: arms2) s = Ok (RVVariant self name None) s.
Proof.
  induction 1 as [|[t n] arms [x [Hx Hne]] _ IH]; intros Ht; cbn [app eval_enum].
  - rewrite Ht, Z.eqb_refl. reflexivity.
  - cbn [fst] in Hx. rewrite Hx. destruct (Z.eqb_spec x z); [contradiction|]. now apply IH.
Qed.

(* ---------- C07: every Rust keyword is escaped by both (regenerated) tables ---------- *)

(* strict and reserved keywords of Rust 2018 (the Rust Reference, "Keywords") that can be
   written as an XDR identifier *)
Definition rust_keywords : list string :=
  ["as"; "break"; "const"; "continue"; "crate"; "else"; "enum"; "extern"; "false"; "fn"; "for";
   "if"; "impl"; "in"; "let"; "loop"; "match"; "mod"; "move"; "mut"; "pub"; "ref"; "return";
   "self"; "Self"; "static"; "struct"; "super"; "trait"; "true"; "type"; "unsafe"; "use"; "where";
   "while"; "async"; "await"; "dyn"; "abstract"; "become"; "box"; "do"; "final"; "macro";
   "override"; "priv"; "typeof"; "unsized"; "virtual"; "yield"; "try"; "union"]%string.

Definition escaped_by_both (k : string) : bool :=
  (String.eqb (safe_name k) (k ++ "_v") && String.eqb (as_safe_string (Ident k)) (k ++ "_v"))%bool.

Lemma keywords_escaped : forallb escaped_by_both rust_keywords = true.
Proof. vm_compute. reflexivity. Qed.

Lemma tables_agree : forallb (fun k => mem k bt_keywords) safe_keywords = true /\
                     forallb (fun k => mem k safe_keywords) bt_keywords = true.
Proof. split; vm_compute; reflexivity. Qed.

Lemma as_str_table_ok :
  forallb (fun p => String.eqb (bt_as_str (fst p)) (snd p)) as_str_table = true.
Proof. vm_compute. reflexivity. Qed.

(* an identifier that is not escaped is printed as it is *)
Lemma safe_name_other k :
  mem k safe_keywords = false -> mem k safe_lowercase = false -> safe_name k = k.
Proof. unfold safe_name. intros -> ->. reflexivity. Qed.

(* ---------- C11: the generic index does not depend on the order of the declarations ---------- *)

Lemma Reach_perm l1 l2 n :
  (forall x, In x l1 -> In x l2) -> Reach l1 n -> Reach l2 n.
Proof.
  intros Hsub H. induction H as [n nd Hin Hn Ho|n nd i Hin Hn Hi _ IH].
  - eapply Reach_opaque; [apply Hsub; exact Hin| exact Hn| exact Ho].
  - eapply Reach_step; [apply Hsub; exact Hin| exact Hn| exact Hi| exact IH].
Qed.

Lemma generic_index_perm l1 l2 :
  no_prim_names l1 -> (forall x, In x l1 <-> In x l2) ->
  forall n, mem n (generic_index l1) = mem n (generic_index l2).
Proof.
  intros Hnp Heq n.
  assert (Hnp2 : no_prim_names l2).
  { intros nd m Hin Hm. eapply Hnp; [apply Heq; exact Hin| exact Hm]. }
  destruct (mem n (generic_index l1)) eqn:E1; destruct (mem n (generic_index l2)) eqn:E2; try reflexivity.
  - apply (generic_index_reach l1 Hnp) in E1. eapply Reach_perm in E1; [|intros x; apply Heq].
    apply (generic_index_reach l2 Hnp2) in E1. congruence.
  - apply (generic_index_reach l2 Hnp2) in E2. eapply Reach_perm in E2; [|intros x; apply Heq].
    apply (generic_index_reach l1 Hnp) in E2. congruence.
Qed.

(* ---------- C07: no escaped name is a Rust keyword ---------- *)

Fixpoint ends_v (s : string) : bool :=
  match s with
  | String "_" (String "v" EmptyString) => true
  | String _ r => ends_v r
  | EmptyString => false
  end.

Lemma ends_v_app s : ends_v (s ++ "_v") = true.
Proof.
  induction s as [|c s IH]; [reflexivity|]. cbn [String.append ends_v].
  destruct (s ++ "_v")%string as [|c2 r] eqn:E; [destruct s; discriminate|].
  destruct c as [b0 b1 b2 b3 b4 b5 b6 b7]; destruct b0, b1, b2, b3, b4, b5, b6, b7; try exact IH.
  destruct c2 as [d0 d1 d2 d3 d4 d5 d6 d7]; destruct d0, d1, d2, d3, d4, d5, d6, d7; try exact IH.
  destruct r; [reflexivity|exact IH].
Qed.

Lemma keywords_not_v : forallb (fun k => negb (ends_v k)) rust_keywords = true.
Proof. vm_compute. reflexivity. Qed.

Lemma keywords_in_table : forallb (fun k => mem k safe_keywords) rust_keywords = true.
Proof. vm_compute. reflexivity. Qed.

(* the name a field, discriminant or label is printed under is never a Rust keyword -- except
   the literals `true` / `false` that the TRUE / FALSE labels of a bool union are lower-cased to *)
Theorem safe_name_not_keyword s : In (safe_name s) rust_keywords -> mem s safe_lowercase = true.
Proof.
  unfold safe_name. destruct (mem s safe_keywords) eqn:Ek.
  - intros H. pose proof (proj1 (forallb_forall _ _) keywords_not_v _ H) as X. cbv beta in X.
    rewrite ends_v_app in X. discriminate.
  - destruct (mem s safe_lowercase); [reflexivity|].
    intros H. pose proof (proj1 (forallb_forall _ _) keywords_in_table _ H) as X. cbv beta in X. congruence.
Qed.
