(* The PEG interpreter is on fuel; its answers do not depend on how much: once a run answers
   (a tree or a failure) with some fuel, it gives the same answer with any larger fuel -- for
   EVERY grammar, expression, mode and text.  So "the" parse of a text is well defined, and the
   fuel the correspondence check K1 gives the model (80 + 24 * length) only has to be enough. *)
From Coq Require Import Lia PeanoNat.
From XdrModel Require Export Peg.
Open Scope string_scope.
Open Scope list_scope.

Section Mono.
  Variable g : grammar.

  Definition answered (r : pres) : Prop := r <> PFuel.

  Lemma run_mono : forall f e a q soi s,
    answered (run g f e a q soi s) -> forall f', (f <= f')%nat -> run g f' e a q soi s = run g f e a q soi s.
  Proof.
    induction f as [|f IH]; intros e a q soi s Hans f' Hle; [exfalso; apply Hans; reflexivity|].
    destruct f' as [|f']; [lia|]. assert (Hle' : (f <= f')%nat) by lia.
    (* the implicit skip at the two fuels *)
    assert (Hskip : forall s0,
      (if a then POk [] s0 else match run g f skip_exp true true false s0 with POk _ s' => POk [] s' | PFail => POk [] s0 | PFuel => PFuel end) <> PFuel ->
      (if a then POk [] s0 else match run g f' skip_exp true true false s0 with POk _ s' => POk [] s' | PFail => POk [] s0 | PFuel => PFuel end)
      = (if a then POk [] s0 else match run g f skip_exp true true false s0 with POk _ s' => POk [] s' | PFail => POk [] s0 | PFuel => PFuel end)).
    { intros s0 H. destruct a; [reflexivity|].
      rewrite (IH skip_exp true true false s0); [reflexivity| |exact Hle'].
      intros E. rewrite E in H. apply H. reflexivity. }
    cbn [run] in *. destruct e.
    - reflexivity.
    - reflexivity.
    - reflexivity.
    - reflexivity.
    - reflexivity.
    - (* PRef *)
      destruct (lookup g rule) as [[k body]|]; [|reflexivity].
      rewrite (IH body _ _ soi s); [reflexivity| |exact Hle'].
      intros E. rewrite E in Hans. apply Hans. reflexivity.
    - (* PSeq *)
      assert (H1 : answered (run g f e1 a q soi s)) by (intros E; rewrite E in Hans; apply Hans; reflexivity).
      rewrite (IH e1 a q soi s H1 f' Hle').
      destruct (run g f e1 a q soi s) as [| |t1 s1]; try reflexivity.
      assert (H2 : (if a then POk [] s1 else match run g f skip_exp true true false s1 with POk _ s' => POk [] s' | PFail => POk [] s1 | PFuel => PFuel end) <> PFuel).
      { intros E. rewrite E in Hans. apply Hans. reflexivity. }
      rewrite (Hskip s1 H2).
      destruct (if a then POk [] s1 else _) as [| |u s1'] eqn:Es; try reflexivity.
      rewrite (IH e2 a q _ s1'); [reflexivity| |exact Hle'].
      intros E. rewrite E in Hans. apply Hans. reflexivity.
    - (* PChoice *)
      assert (H1 : answered (run g f e1 a q soi s)) by (intros E; rewrite E in Hans; apply Hans; reflexivity).
      rewrite (IH e1 a q soi s H1 f' Hle').
      destruct (run g f e1 a q soi s); try reflexivity. now apply IH.
    - (* POpt *)
      assert (H1 : answered (run g f e a q soi s)) by (intros E; rewrite E in Hans; destruct (run g f e a q soi s); try discriminate; apply Hans; reflexivity).
      now rewrite (IH e a q soi s H1 f' Hle').
    - (* PStar *)
      assert (H1 : answered (run g f e a q soi s)) by (intros E; rewrite E in Hans; apply Hans; reflexivity).
      rewrite (IH e a q soi s H1 f' Hle').
      destruct (run g f e a q soi s) as [| |t1 s1]; try reflexivity.
      rewrite (IH (PStarRest e) a q false s1); [reflexivity| |exact Hle'].
      intros E. rewrite E in Hans. apply Hans. reflexivity.
    - (* PPlus *)
      now apply IH.
    - (* PNot *)
      assert (H1 : answered (run g f e a true soi s)) by (intros E; rewrite E in Hans; apply Hans; reflexivity).
      now rewrite (IH e a true soi s H1 f' Hle').
    - (* PStarRest *)
      assert (H2 : (if a then POk [] s else match run g f skip_exp true true false s with POk _ s' => POk [] s' | PFail => POk [] s | PFuel => PFuel end) <> PFuel).
      { intros E. rewrite E in Hans. apply Hans. reflexivity. }
      rewrite (Hskip s H2).
      destruct (if a then POk [] s else _) as [| |u s'] eqn:Es; try reflexivity.
      assert (H1 : answered (run g f e a q false s')) by (intros E; rewrite E in Hans; apply Hans; reflexivity).
      rewrite (IH e a q false s' H1 f' Hle').
      destruct (run g f e a q false s') as [| |t1 s1]; try reflexivity.
      rewrite (IH (PStarRest e) a q false s1); [reflexivity| |exact Hle'].
      intros E. rewrite E in Hans. apply Hans. reflexivity.
  Qed.

  (* two fuels that both answer give the same answer *)
  Theorem run_deterministic f1 f2 e a q soi s :
    answered (run g f1 e a q soi s) -> answered (run g f2 e a q soi s) ->
    run g f1 e a q soi s = run g f2 e a q soi s.
  Proof.
    intros H1 H2. destruct (Nat.le_ge_cases f1 f2) as [L|L].
    - symmetry. now apply run_mono.
    - now apply run_mono.
  Qed.

  Theorem parse_fuel_irrelevant f1 f2 text :
    parse g f1 text <> PFuel -> parse g f2 text <> PFuel -> parse g f1 text = parse g f2 text.
  Proof. unfold parse. apply run_deterministic. Qed.
End Mono.
