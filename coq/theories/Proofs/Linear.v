(* C09, the total: on a specification without inline variable-length opaque positions (F1) in
   which no counted array is nested in its own element type (F15) and whose array elements
   occupy at least a word, everything a decode asks the allocator for -- elements reserved for
   counted arrays, bytes of collected strings, boxes of optional links -- adds up to at most
   (rho + 1) * (bytes remaining), whatever the input and whatever the outcome; rho is the
   nesting depth of counted arrays below the type. *)
From Coq Require Import Lia.
From XdrProofs Require Export Consumed Termination.
Open Scope N_scope.
Open Scope list_scope.

Definition cost (r : resv) : N :=
  match r with ResVec cap _ => cap | ResStr n => n | ResBox _ => 1 end.
Definition costs (l : list resv) : N := fold_right (fun r a => cost r + a) 0 l.

Lemma costs_app a b : costs (a ++ b) = costs a + costs b.
Proof. induction a as [|x a IH]; cbn [app costs fold_right]; [reflexivity|]. fold (costs (a ++ b)). fold (costs a). rewrite IH. lia. Qed.

(* with weight W: on success the requests cost at most W per byte consumed; on failure at most
   W per byte that was there *)
Definition lin (W : N) {X} (P : X -> N -> Prop) (m : M X) : Prop :=
  forall s, bok s ->
    match m s with
    | Ok v s' => P v (remaining s - remaining s') /\ bok s' /\ remaining s' <= remaining s /\
                 exists d, s_led s' = s_led s ++ d /\ costs d <= W * (remaining s - remaining s')
    | Err _ s' => exists d, s_led s' = s_led s ++ d /\ costs d <= W * remaining s
    | Panic _ => False
    | Fuel => True
    end.

Lemma lin_ret W {X} (P : X -> N -> Prop) x : P x 0 -> lin W P (ret x).
Proof.
  intros H s Hb. cbn. rewrite N.sub_diag. split; [exact H|]. split; [exact Hb|]. split; [lia|].
  exists []. split; [now rewrite app_nil_r|cbn; apply N.le_0_l].
Qed.

Lemma lin_fail W {X} (P : X -> N -> Prop) e : lin W P (fail e).
Proof. intros s _. cbn. exists []. split; [now rewrite app_nil_r|cbn; apply N.le_0_l]. Qed.

Lemma lin_bind W {X Y} (P : X -> N -> Prop) (Q : Y -> N -> Prop) m k :
  lin W P m -> (forall a ca, P a ca -> lin W (fun b cb => Q b (ca + cb)) (k a)) -> lin W Q (bind m k).
Proof.
  intros Hm Hk s Hb. unfold bind. specialize (Hm s Hb).
  destruct (m s) as [a s1|e s1|p|]; try exact I; try contradiction; [|exact Hm].
  destruct Hm as [Pa [Hb1 [Hr1 [d1 [E1 C1]]]]]. specialize (Hk a _ Pa s1 Hb1).
  destruct (k a s1) as [b s2|e s2|p|]; try exact I; try contradiction.
  - destruct Hk as [Qb [Hb2 [Hr2 [d2 [E2 C2]]]]]. split; [|split; [exact Hb2|split; [lia|]]].
    + replace (remaining s - remaining s2) with ((remaining s - remaining s1) + (remaining s1 - remaining s2)) by lia.
      exact Qb.
    + exists (d1 ++ d2). split; [rewrite E2, E1; now rewrite app_assoc|]. rewrite costs_app. nia.
  - destruct Hk as [d2 [E2 C2]]. exists (d1 ++ d2). split; [rewrite E2, E1; now rewrite app_assoc|].
    rewrite costs_app. nia.
Qed.

Lemma lin_impl W {X} (P Q : X -> N -> Prop) m : (forall x c, P x c -> Q x c) -> lin W P m -> lin W Q m.
Proof.
  intros H Hm s Hb. specialize (Hm s Hb). destruct (m s); try exact I; try contradiction; [|exact Hm].
  destruct Hm as [Pv R]. split; [now apply H|exact R].
Qed.

Lemma lin_weaken W W' {X} (P : X -> N -> Prop) m : W <= W' -> lin W P m -> lin W' P m.
Proof.
  intros Hle Hm s Hb. specialize (Hm s Hb). destruct (m s); try exact I; try contradiction.
  - destruct Hm as [Pv [B [R [d [E C]]]]]. split; [exact Pv|]. split; [exact B|]. split; [exact R|].
    exists d. split; [exact E|nia].
  - destruct Hm as [d [E C]]. exists d. split; [exact E|nia].
Qed.

Lemma lin_with_state W {X} (Q : X -> N -> Prop) (f : st -> M X) :
  (forall s0, lin W Q (f s0)) -> lin W Q (fun s => f s s).
Proof. intros H s Hb. exact (H s s Hb). Qed.

(* readers that leave the ledger alone *)
Definition quiet {X} (m : M X) : Prop :=
  forall s, match m s with Ok _ s' | Err _ s' => s_led s' = s_led s | _ => True end.

Lemma lin_quiet W {X} (P : X -> N -> Prop) m : Consumed.cons P m -> quiet m -> lin W P m.
Proof.
  intros Hc Hq s Hb. specialize (Hc s Hb). specialize (Hq s).
  destruct (m s) as [v s'|e s'|p|]; try exact I; try contradiction.
  - destruct Hc as [Pv [B R]]. split; [exact Pv|]. split; [exact B|]. split; [exact R|].
    exists []. split; [now rewrite app_nil_r|cbn; apply N.le_0_l].
  - exists []. split; [now rewrite app_nil_r|cbn; apply N.le_0_l].
Qed.

Lemma quiet_ret {X} (x : X) : quiet (ret x).
Proof. intros s. reflexivity. Qed.
Lemma quiet_fail {X} e : quiet (@fail X e).
Proof. intros s. reflexivity. Qed.
Lemma quiet_bind {X Y} (m : M X) (k : X -> M Y) : quiet m -> (forall a, quiet (k a)) -> quiet (bind m k).
Proof.
  intros Hm Hk s. unfold bind. specialize (Hm s). destruct (m s) as [a s1|e s1|p|]; try exact I; [|exact Hm].
  specialize (Hk a s1). destruct (k a s1); try exact I; congruence.
Qed.
Lemma quiet_read_be k : quiet (read_be k).
Proof. intros s. unfold read_be, get_be. case_if; [reflexivity|]. case_if; [reflexivity|exact I]. Qed.
Lemma quiet_read_i32 : quiet read_i32.
Proof. unfold read_i32. apply quiet_bind; [apply quiet_read_be|intros; apply quiet_ret]. Qed.
Lemma quiet_read_bool : quiet read_bool.
Proof.
  intros s. unfold read_bool. case_if; [reflexivity|]. unfold bind, get_be. case_if; [|exact I].
  destruct (to_i32 _) as [|p|p]; unfold ret, fail; try reflexivity. destruct p; reflexivity.
Qed.
Lemma quiet_read_bytes n : quiet (read_bytes n).
Proof.
  intros s. unfold read_bytes. case_if; [reflexivity|]. case_if; [reflexivity|].
  unfold bind, slice_to. case_if; [|exact I]. unfold advance. case_if; [reflexivity|exact I].
Qed.
Lemma quiet_check_max n max : quiet (check_max n max).
Proof. unfold check_max. destruct max; [case_if; [apply quiet_fail|apply quiet_ret]|apply quiet_ret]. Qed.
Lemma quiet_read_variable_bytes max : quiet (read_variable_bytes max).
Proof.
  unfold read_variable_bytes. apply quiet_bind; [apply quiet_read_be|]. intros n.
  apply quiet_bind; [apply quiet_check_max|]. intros _. apply quiet_read_bytes.
Qed.

(* the two requests of the runtime outside the array reader *)
Lemma lin_reserve_str n : lin 1 (fun _ c => c = 0) (reserve (ResStr n)) -> True.
Proof. trivial. Qed.

Lemma lin_read_string W max : 1 <= W -> lin W (fun b c => c = wsz_string b) (read_string max).
Proof.
  intros HW s Hb. unfold read_string, bind.
  pose proof (cons_read_variable_bytes max s Hb) as Hc. pose proof (quiet_read_variable_bytes max s) as Hq.
  destruct (read_variable_bytes max s) as [w s1|e s1|p|]; try exact I; try contradiction.
  - destruct Hc as [Hcw [Hb1 Hr1]]. unfold reserve.
    set (s2 := {| s_alloc := s_alloc s1; s_off := s_off s1; s_rem := s_rem s1; s_led := s_led s1 ++ [ResStr (len (vdata w))] |}).
    assert (R2 : remaining s2 = remaining s1) by reflexivity.
    destruct (utf8_valid (vdata w)); unfold ret, fail.
    + rewrite R2. split; [unfold wsz_string; lia|]. split; [exact Hb1|]. split; [exact Hr1|].
      exists [ResStr (len (vdata w))]. split; [cbn [s2 s_led]; now rewrite Hq|]. cbn. nia.
    + exists [ResStr (len (vdata w))]. split; [cbn [s2 s_led]; now rewrite Hq|]. cbn. nia.
  - exists []. split; [rewrite Hq; now rewrite app_nil_r|cbn; apply N.le_0_l].
Qed.

(* ---------- the counted-array reader ---------- *)

Section VarArrayLin.
  Variable elem_name : string.
  Variable dec_elem : M rval.
  Variable wsz_elem : rval -> option N.
  Variable We : N.
  Variable Q : rval -> Prop.
  Variable P : rval -> N -> Prop.
  Hypothesis Hdec : lin We P dec_elem.
  (* what the element decoder consumed on its clone is the element's wire_size(), a positive
     number of words *)
  Hypothesis Hwsz : forall v c, P v c -> Q v /\ wsz_elem v = Some c /\ c mod 4 = 0 /\ 4 <= c.

  Definition loop_post (n sum : N) (r : list rval * N) (c : N) : Prop :=
    Forall Q (fst r) /\ sum_opt (map wsz_elem (fst r)) = Some (snd r) /\
    snd r mod 4 = 0 /\ snd r = sum + c /\ sum + 4 * n <= snd r.

  Lemma lin_rva_loop fuel : forall n sum acc,
    sum mod 4 = 0 -> Forall Q acc -> sum_opt (map wsz_elem (rev acc)) = Some sum ->
    lin We (loop_post n sum) (rva_loop dec_elem wsz_elem fuel n sum acc).
  Proof.
    induction fuel as [|f IH]; intros n sum acc Hsum Hacc Hs; cbn [rva_loop].
    - destruct (n =? 0) eqn:En; [|intros s _; exact I]. apply N.eqb_eq in En. subst n.
      apply lin_ret. unfold loop_post. cbn [fst snd]. split; [now apply Forall_rev|]. split; [exact Hs|]. split; [exact Hsum|lia].
    - destruct (n =? 0) eqn:En.
      + apply N.eqb_eq in En. subst n.
        apply lin_ret. unfold loop_post. cbn [fst snd]. split; [now apply Forall_rev|]. split; [exact Hs|]. split; [exact Hsum|lia].
      + apply N.eqb_neq in En. intros s Hb. unfold bind at 1. unfold on_clone.
        pose proof (Hdec s Hb) as Hd.
        destruct (dec_elem s) as [t s1|e s1|p|]; try exact I; try contradiction.
        * destruct Hd as [Pt [Hb1 [Hr1 [d1 [E1 C1]]]]].
          destruct (Hwsz t _ Pt) as [Qt [Hw [Hw4 Hwp]]]. rewrite Hw.
          set (s0 := {| s_alloc := s_alloc s; s_off := s_off s; s_rem := s_rem s; s_led := s_led s1 |}).
          set (w := remaining s - remaining s1) in *.
          assert (R0 : remaining s0 = remaining s) by reflexivity.
          assert (B0 : bok s0) by exact Hb.
          case_if.
          { exists d1. split; [exact E1|]. nia. }
          unfold bind. destruct (advance_guarded w s0 ltac:(lia) B0) as [Ea Hb2]. rewrite Ea.
          assert (Hs' : sum_opt (map wsz_elem (rev (t :: acc))) = Some (sum + w))
            by (cbn [rev]; now apply sum_opt_app).
          specialize (IH (n - 1) (sum + w) (t :: acc) ltac:(lia) ltac:(constructor; assumption) Hs' (with_rem s0 w) Hb2).
          assert (R2 : remaining (with_rem s0 w) = remaining s - w) by (rewrite remaining_with_rem'; lia).
          assert (L2 : s_led (with_rem s0 w) = s_led s ++ d1) by exact E1.
          destruct (rva_loop dec_elem wsz_elem f (n - 1) (sum + w) (t :: acc) (with_rem s0 w)) as [v s3|e s3|p|];
            try exact I; try contradiction.
          -- destruct IH as [[H1 [H2 [H3 [H4 H5]]]] [Hb3 [Hr3 [d2 [E2 C2]]]]]. rewrite R2 in *.
             split; [|split; [exact Hb3|split; [lia|]]].
             ++ unfold loop_post. split; [exact H1|]. split; [exact H2|]. split; [exact H3|]. split; lia.
             ++ exists (d1 ++ d2). split; [rewrite E2, L2; now rewrite app_assoc|]. rewrite costs_app. nia.
          -- destruct IH as [d2 [E2 C2]]. rewrite R2 in C2.
             exists (d1 ++ d2). split; [rewrite E2, L2; now rewrite app_assoc|]. rewrite costs_app. nia.
        * destruct Hd as [d1 [E1 C1]]. exists d1. split; [exact E1|exact C1].
  Qed.

  (* the whole reader, at weight We + 1: the reservation is paid for by the elements that follow *)
  Lemma lin_read_variable_array fuel max :
    lin (We + 1)
        (fun l c => Forall Q l /\ exists x, sum_opt (map wsz_elem l) = Some x /\ x mod 4 = 0 /\ c = 4 + x)
        (read_variable_array elem_name dec_elem wsz_elem fuel max).
  Proof.
    unfold read_variable_array.
    eapply lin_bind; [apply lin_quiet; [apply (cons_read_be 4)|apply quiet_read_be]|]. intros n c [_ ->].
    eapply lin_bind; [apply lin_quiet; [apply cons_check_max|apply quiet_check_max]|]. intros _ c ->.
    intros s Hb.
    change ((fun s0 => (_ <- reserve (ResVec (N.min n (remaining s0)) elem_name) ;;
                        r0 <- rva_loop dec_elem wsz_elem fuel n 0 [] ;;
                        _ <- advance (pad_length (snd r0)) ;; ret (fst r0)) s0) s)
      with ((_ <- reserve (ResVec (N.min n (remaining s)) elem_name) ;;
             r0 <- rva_loop dec_elem wsz_elem fuel n 0 [] ;;
             _ <- advance (pad_length (snd r0)) ;; ret (fst r0)) s).
    unfold bind at 1. unfold reserve at 1.
    set (cap := N.min n (remaining s)).
    set (s1 := {| s_alloc := s_alloc s; s_off := s_off s; s_rem := s_rem s; s_led := s_led s ++ [ResVec cap elem_name] |}).
    assert (Hb1 : bok s1) by exact Hb. assert (Hr1 : remaining s1 = remaining s) by reflexivity.
    unfold bind at 1.
    pose proof (lin_rva_loop fuel n 0 [] eq_refl ltac:(constructor) eq_refl s1 Hb1) as HL.
    destruct (rva_loop dec_elem wsz_elem fuel n 0 [] s1) as [v s2|e s2|p|]; try exact I; try contradiction.
    - destruct HL as [[Pv [Hsum [Hm [Hc Hn]]]] [Hb2 [Hr2 [d [E C]]]]]. rewrite (pad_length_mult4 _ Hm).
      unfold bind. destruct (advance_guarded 0 s2 ltac:(lia) Hb2) as [Ea Hb3]. rewrite Ea.
      unfold ret. rewrite remaining_with_rem'. rewrite Hr1 in *.
      split; [|split; [exact Hb3|split; [lia|]]].
      + split; [exact Pv|]. exists (snd v). split; [exact Hsum|]. split; [exact Hm|lia].
      + exists (ResVec cap elem_name :: d). split.
        * cbn [with_rem s_led]. rewrite E. cbn [s1 s_led]. now rewrite <- app_assoc.
        * cbn [costs fold_right cost]. fold (costs d).
          assert (cap <= n) by (unfold cap; lia). nia.
    - destruct HL as [d [E C]]. rewrite Hr1 in C.
      exists (ResVec cap elem_name :: d). split.
      + rewrite E. cbn [s1 s_led]. now rewrite <- app_assoc.
      + cbn [costs fold_right cost]. fold (costs d). assert (cap <= remaining s) by (unfold cap; lia). nia.
  Qed.
End VarArrayLin.

(* ---------- the hypothesis on nesting: counted arrays strictly decrease rho ---------- *)

Definition pos_rank_ok (rho : string -> N) (self : string) (a : array_type) : Prop :=
  match a with
  | AVar (Ident m) _ => rho m + 1 <= rho self
  | ANone (Ident m) | AFixed (Ident m) _ => rho m <= rho self
  | _ => True
  end.

Definition vranked (A : ast) (rho : string -> N) : Prop :=
  forall n t, get_type A n = Some t ->
    match t with
    | TStruct s => Forall (fun f => pos_rank_ok rho n (sf_value f)) (st_fields s)
    | TUnion u => match disc_type A u with Ident m => rho m <= rho n | _ => True end /\
                  Forall (fun c => pos_rank_ok rho n (uc_value c)) (un_cases u) /\
                  (forall c, un_default u = Some c -> pos_rank_ok rho n (uc_value c))
    | TTypedef t => pos_rank_ok rho n (typedef_pos t)
    | TEnum _ => True
    end.

Section Lin.
  Variable A : ast.
  Variable md : module_ir.
  Hypothesis Hgen : gen A = EOk md.
  Hypothesis Hsup4 : sup4 A.
  Variable R : string -> Prop.
  Hypothesis HRc : forall n t, R n -> get_type A n = Some t -> rrefs_ok A R t.
  Hypothesis Hnof1 : forall n t, R n -> get_type A n = Some t -> nof1_type t.
  Variable rho : string -> N.
  Hypothesis Hrho : vranked A rho.
  Hypothesis Hepos : elems_positive A md.

  Let Hsup : sup A := sup4_sup A Hsup4.
  Let Hcore : sup_core A := sup_c A Hsup.
  Let Hwf : wf_size A := sup_size A Hcore.
  Let Hkeys : keys_ok A := proj1 Hwf.

  Local Notation CN := (Consumed.CN A md).
  Local Notation CB := (Consumed.CB A md).
  Local Notation CP := (Consumed.CP A md).
  Local Notation CL := (Consumed.CL A md).
  Local Notation CLn := (Consumed.CLn A md).
  Local Notation CF := (Consumed.CF A md).

  Section Body.
    Variable rec : string -> M rval.
    Variable lf : nat.
    Variable self : string.
    Let W : N := rho self + 1.
    Hypothesis Hrec : forall m ty, R m -> get_type A m = Some ty -> lin (rho m + 1) (CN m) (rec m).

    Lemma lin_basic t e :
      decode_basic A t UseAlias = EOk e -> ref_ok A t -> Rb R t -> (forall m, t = Ident m -> rho m <= rho self) ->
      lin W (CB t) (eval_dexp md rec lf e).
    Proof.
      intros He Hr HR Hrk. apply decode_basic_alias in He as [He|[m [-> ->]]].
      - destruct t; cbn [prim_dexp] in He; inversion He; subst e; cbn [eval_dexp read_prim].
        + eapply lin_bind; [apply lin_quiet; [apply (cons_read_be 4)|apply quiet_read_be]|]. intros n c [Hn ->]. apply lin_ret. split.
          * constructor. cbv beta in Hn. unfold u32_max. change (256 ^ 4) with 4294967296 in Hn. lia.
          * exists 4. split; [reflexivity|cbn; lia].
        + eapply lin_bind; [apply lin_quiet; [apply (cons_read_be 8)|apply quiet_read_be]|]. intros n c [_ ->]. apply lin_ret. split; [constructor|].
          exists 8. split; [reflexivity|cbn; lia].
        + eapply lin_bind; [apply lin_quiet; [apply cons_read_i32|apply quiet_read_i32]|]. intros z c [Hz ->]. apply lin_ret. split; [now constructor|].
          exists 4. split; [reflexivity|cbn; lia].
        + unfold read_i64. eapply lin_bind; [eapply (lin_bind _ _ (fun (_ : Z) c => c = 8)); [apply lin_quiet; [apply (cons_read_be 8)|apply quiet_read_be]|intros n c [_ ->]; apply lin_ret; lia]|].
          intros z c ->. apply lin_ret. split; [constructor|]. exists 8. split; [reflexivity|cbn; lia].
        + eapply lin_bind; [apply lin_quiet; [apply (cons_read_be 4)|apply quiet_read_be]|]. intros n c [_ ->]. apply lin_ret. split; [constructor|].
          exists 4. split; [reflexivity|cbn; lia].
        + eapply lin_bind; [apply lin_quiet; [apply (cons_read_be 8)|apply quiet_read_be]|]. intros n c [_ ->]. apply lin_ret. split; [constructor|].
          exists 8. split; [reflexivity|cbn; lia].
        + eapply lin_bind; [apply lin_read_string; unfold W; lia|]. intros b c ->. apply lin_ret. split; [constructor|].
          exists (wsz_string b). split; [reflexivity|cbn; lia].
        + eapply lin_bind; [apply lin_quiet; [apply cons_read_bool|apply quiet_read_bool]|]. intros b c ->. apply lin_ret. split; [constructor|].
          exists 4. split; [reflexivity|cbn; lia].
        + eapply lin_bind; [apply lin_quiet; [apply cons_read_variable_bytes|apply quiet_read_variable_bytes]|]. intros w c ->. apply lin_ret. split; [constructor|].
          exists (wsz_bytes w). split; [reflexivity|]. cbn [pcons]. unfold wsz_bytes. lia.
      - cbn [eval_dexp]. destruct Hr as [ty Hty].
        eapply lin_impl; [|eapply lin_weaken; [|eapply Hrec; [exact HR|exact Hty]]].
        + intros v c [Hv Hw]. split; [now constructor|]. exists c. split; [exact Hw|reflexivity].
        + specialize (Hrk m eq_refl). unfold W. lia.
    Qed.

    Lemma lin_seq_n t n m : is_opaque t = false -> lin W (CB t) m -> lin W (CLn n t) (seq_n n m).
    Proof.
      intros Ho Hm. induction n as [|n IH]; cbn [seq_n]; [apply lin_ret; split; [split; [constructor|reflexivity]|reflexivity]|].
      eapply lin_bind; [exact Hm|]. intros x cx [Hx [w [Hw Hc]]].
      eapply lin_bind; [exact IH|]. intros xs cxs [[Hxs Hs] Hlen]. apply lin_ret.
      split; [|cbn; now rewrite Hlen]. split; [now constructor|].
      cbn [map sum_opt]. rewrite Hw, Hs. cbn [option_map]. f_equal.
      assert (pcons (ANone t) w = w) by (destruct t; try reflexivity; discriminate). lia.
    Qed.

    Lemma lin_pos a e :
      decode_array A a UseAlias = EOk e -> pos_ok a false -> ref_ok A (unwrap_array a) -> Rb R (unwrap_array a) ->
      pos_rank_ok rho self a -> (forall m, In m (var_elem a) -> elem_pos A md m) ->
      lin W (CP a false) (eval_dexp md rec lf e).
    Proof.
      intros He Hpos Hr HR Hrk Hep. destruct a as [t|t s|t s]; cbn [decode_array unwrap_array] in *.
      - eapply lin_impl; [|eapply lin_basic; [eassumption|eassumption|eassumption|]].
        + intros v c [Hv Hw]. split; [now constructor|exact Hw].
        + intros m ->. exact Hrk.
      - destruct (resolve_size A s true) as [n| |] eqn:Ers; cbn [ebind] in He; try discriminate.
        unfold decode_fixed in He. destruct Hpos as [_ [_ [Hts _]]].
        assert (Hcase : t = Opaque \/ t <> Opaque) by (destruct t; (now left) || (right; discriminate)).
        destruct Hcase as [->|Hno].
        + inversion He; subst e. cbn [eval_dexp]. eapply lin_bind; [apply lin_quiet; [apply cons_read_bytes|apply quiet_read_bytes]|].
          intros w c [Hl ->]. apply lin_ret. split.
          * apply SP_fixed_opaque. intros n0 E0. rewrite Ers in E0. inversion E0; subst. reflexivity.
          * exists (wsz_bytes w). split; [reflexivity|]. cbn [pcons]. unfold wsz_bytes. rewrite Hl. lia.
        + assert (Ho : is_opaque t = false) by (destruct t; try reflexivity; congruence).
          assert (He' : (if n =? 0 then EOk (EArr 0 (EPrim PU32))
                         else ebind (decode_basic A t UseAlias) (fun e0 => EOk (EArr n e0))) = EOk e).
          { destruct t; try exact He; congruence. }
          clear He.
          assert (Hfin : forall l x, ShL A t l -> N.of_nat (List.length l) = n -> sum_opt (map (wsz md) l) = Some x ->
                                     CP (AFixed t s) false (RVArr l) (0 + x)).
          { intros l x Hl Hlen Hx. split.
            { apply SP_fixed; [assumption|assumption|]. intros n0 E0. rewrite Ers in E0. inversion E0; subst. reflexivity. }
            destruct (proj1 (proj2 (proj2 (proj2 (shaped_size A md Hgen Hsup)))) t l Hl Ho) as [x' [Hx' Hm]].
            rewrite Hx in Hx'. inversion Hx'; subst x'.
            exists (wsz_slice x). cbn [wsz]. rewrite Hx. cbn [option_map]. split; [reflexivity|].
            assert (pcons (AFixed t s) (wsz_slice x) = wsz_slice x) by (destruct t; try reflexivity; congruence).
            unfold wsz_slice in *. rewrite (pad_length_mult4 _ Hm) in *. lia. }
          destruct (n =? 0) eqn:En0.
          * inversion He'; subst e. cbn [eval_dexp]. change (N.to_nat 0) with 0%nat. cbn [seq_n].
            eapply (lin_bind _ (fun l c => l = [] /\ c = 0)); [apply lin_ret; split; reflexivity|].
            intros l c [-> ->]. apply lin_ret. apply N.eqb_eq in En0. subst n.
            apply (Hfin [] 0); [apply SL_nil|reflexivity|reflexivity].
          * destruct (decode_basic A t UseAlias) as [e0| |] eqn:E0; cbn [ebind] in He'; try discriminate.
            inversion He'; subst e. cbn [eval_dexp].
            eapply lin_bind; [apply lin_seq_n; [exact Ho|eapply lin_basic; [eassumption|eassumption|eassumption|]]|].
            { intros m ->. exact Hrk. }
            intros l c [[Hl Hx] Hlen]. apply lin_ret. rewrite N.add_0_r. replace c with (0 + c) by lia.
            apply Hfin; [assumption| |assumption]. rewrite Hlen. apply N2Nat.id.
      - destruct Hpos as [Hsafe [_ [[Ht|[Ht|[m Ht]]] _]]]; subst t.
        + assert (Hx : exists mx, e = EVarBytes mx).
          { destruct s as [sz|]; [destruct (resolve_size A sz false); cbn [ebind] in He; try discriminate|];
              unfold decode_variable in He; inversion He; eauto. }
          destruct Hx as [mx ->]. cbn [eval_dexp]. eapply lin_bind; [apply lin_quiet; [apply cons_read_variable_bytes|apply quiet_read_variable_bytes]|].
          intros w c ->. apply lin_ret. split; [constructor|].
          exists (wsz_bytes w). split; [reflexivity|]. cbn [pcons]. unfold wsz_bytes. lia.
        + assert (Hx : exists mx, e = EString mx).
          { destruct s as [sz|]; [destruct (resolve_size A sz false); cbn [ebind] in He; try discriminate|];
              unfold decode_variable in He; inversion He; eauto. }
          destruct Hx as [mx ->]. cbn [eval_dexp]. eapply lin_bind; [apply lin_read_string; unfold W; lia|].
          intros b c ->. apply lin_ret. split; [constructor|]. exists (wsz_string b). split; [reflexivity|cbn; lia].
        + cbn [unwrap_array safe_ref] in Hsafe.
          assert (Hx : exists mx, e = EVarArray m (is_generic A m) mx).
          { destruct s as [sz|]; [destruct (resolve_size A sz false); cbn [ebind] in He; try discriminate|];
              unfold decode_variable in He; rewrite Hsafe in He; inversion He; eauto. }
          destruct Hx as [mx ->]. cbn [eval_dexp]. destruct Hr as [ty Hty].
          cbn [pos_rank_ok] in Hrk.
          eapply lin_bind.
          * eapply lin_weaken; [|eapply lin_read_variable_array with (Q := ShN A m) (P := CN m) (We := rho m + 1); [eapply Hrec; [exact HR|exact Hty]|]].
            { unfold W. lia. }
            intros v c [Hv Hw]. split; [exact Hv|]. destruct (shaped_wsz A md Hgen Hsup m v Hv) as [w [Hw' Hw4]].
            rewrite Hw in Hw'. inversion Hw'; subst w. split; [exact Hw|]. split; [exact Hw4|].
            eapply (Hep m); [cbn; now left|exact Hv|exact Hw].
          * intros l c [Hl [x [Hx [Hm ->]]]]. apply lin_ret.
            assert (HL : ShL A (Ident m) l) by (clear - Hl; induction Hl; constructor; [now constructor|assumption]).
            split.
            -- constructor; try discriminate. exact HL.
            -- exists (wsz_vec x). cbn [wsz]. rewrite Hx. cbn [option_map]. split; [reflexivity|].
               cbn [pcons]. unfold wsz_vec. rewrite (pad_length_mult4 _ Hm). lia.
    Qed.

    Lemma lin_fexp a opt fe :
      fexp_of A a opt = EOk fe -> pos_ok a opt -> ref_ok A (unwrap_array a) -> Rb R (unwrap_array a) ->
      pos_rank_ok rho self a -> (forall m, In m (var_elem a) -> elem_pos A md m) ->
      lin W (CP a opt) (eval_fexp md rec lf fe).
    Proof.
      intros Hfe Hpos Hr HR Hrk Hep. destruct opt.
      - unfold fexp_of in Hfe. inversion Hfe; subst fe.
        destruct Hpos as [Hsafe [Ho _]]. destruct (Ho eq_refl) as [m ->].
        cbn [unwrap_array safe_ref] in *. rewrite Hsafe. cbn [eval_fexp].
        destruct Hr as [ty Hty]. cbn [pos_rank_ok] in Hrk.
        (* marker word, then the target, then one Box: the marker word pays for the box *)
        intros s Hb. unfold bind at 1. change read_u32 with (read_be 4). unfold read_be, get_be.
        case_if.
        { exists []. split; [now rewrite app_nil_r|cbn; apply N.le_0_l]. }
        case_if; [|lia].
        set (d := be_dec (take 4 (s_rem s))). set (s0 := with_rem s 4).
        assert (Hb0 : bok s0) by (apply bok_with_rem; exact Hb).
        assert (R0 : remaining s0 = remaining s - 4) by apply remaining_with_rem'.
        assert (L0 : s_led s0 = s_led s) by reflexivity.
        destruct (d =? 0).
        { unfold ret. rewrite R0. split; [|split; [exact Hb0|split; [lia|]]].
          - split; [constructor|]. exists 4. split; [reflexivity|cbn; lia].
          - exists []. split; [rewrite L0; now rewrite app_nil_r|cbn; apply N.le_0_l]. }
        destruct (d =? 1).
        2:{ unfold fail. exists []. split; [rewrite L0; now rewrite app_nil_r|cbn; apply N.le_0_l]. }
        pose proof (Hrec m ty HR Hty s0 Hb0) as Hd. unfold bind at 1.
        destruct (rec m s0) as [x s1|e s1|p|]; try exact I; try contradiction.
        * destruct Hd as [[Hx Hw] [Hb1 [Hr1 [d1 [E1 C1]]]]]. unfold bind, reserve, ret.
          set (s2 := {| s_alloc := s_alloc s1; s_off := s_off s1; s_rem := s_rem s1; s_led := s_led s1 ++ [ResBox m] |}).
          assert (R2 : remaining s2 = remaining s1) by reflexivity. rewrite R2.
          split; [|split; [exact Hb1|split; [lia|]]].
          -- split; [constructor; now constructor|].
             exists (4 + (remaining s0 - remaining s1)). cbn [wsz]. rewrite Hw. cbn [option_map wsz_opt pcons]. split; [reflexivity|lia].
          -- exists (d1 ++ [ResBox m]). split; [cbn [s2 s_led]; rewrite E1, L0; now rewrite app_assoc|].
             rewrite costs_app. cbn [costs fold_right cost]. unfold W. nia.
        * destruct Hd as [d1 [E1 C1]]. exists d1. split; [rewrite E1, L0; reflexivity|]. unfold W. nia.
      - apply fexp_of_plain in Hfe as [e [He ->]]. cbn [eval_fexp]. now apply lin_pos.
    Qed.

    Lemma lin_fields fs : forall ps,
      Forall2 (fun fd p => fexp_of A (sf_value fd) (sf_optional fd) = EOk (snd p)) fs ps ->
      Forall (fun f => pos_ok (sf_value f) (sf_optional f)) fs ->
      Forall (fun f => ref_ok A (unwrap_array (sf_value f))) fs ->
      Forall (fun f => f1_pos (sf_value f) = false) fs ->
      Forall (fun f => Rb R (unwrap_array (sf_value f))) fs ->
      Forall (fun f => pos_rank_ok rho self (sf_value f)) fs ->
      Forall (fun f => forall m, In m (var_elem (sf_value f)) -> elem_pos A md m) fs ->
      lin W (CF fs) (eval_fields md rec lf ps).
    Proof.
      induction fs as [|f fs IH]; intros ps Hps Hpos Hr Hf1 HRf Hrk Hep; inversion Hps; subst; cbn [eval_fields].
      - apply lin_ret. split; [constructor|reflexivity].
      - inversion Hpos; subst. inversion Hr; subst. inversion Hf1; subst. inversion HRf; subst. inversion Hrk; subst. inversion Hep; subst.
        eapply lin_bind; [eapply lin_fexp; eassumption|]. intros x cx [Hx [w [Hw Hc]]].
        eapply lin_bind; [eapply IH; eassumption|]. intros xs cxs [Hxs Hz]. apply lin_ret.
        split; [now constructor|]. cbn [map zip_sizes snd]. rewrite Hw, Hz. cbn [option_map]. f_equal.
        rewrite Hc, pcons_padded by assumption. lia.
    Qed.

    Lemma lin_enum nm e z : forall arms,
      get_type A nm = Some (TEnum e) ->
      Forall (fun a => exists m v, In (m, VNum v) (en_variants e) /\ snd a = m /\ int_literal (fst a) <> None) arms ->
      lin W (fun v c => c = 0 /\ ShN A nm v /\ wsz md v = Some 4) (eval_enum nm z arms).
    Proof.
      intros arms Hget Hall. induction Hall as [|[text name] arms [m [v [Hin [Hn Hlit]]]] _ IH]; cbn [eval_enum].
      - apply lin_fail.
      - cbn [fst snd] in *. subst name. destruct (int_literal text); [|contradiction].
        destruct (Z.eqb z0 z); [|exact IH]. apply lin_ret. split; [reflexivity|]. split; [eapply SN_enum; eassumption|].
        cbn [wsz]. rewrite (find_size_gen A md Hgen Hkeys nm _ Hget). reflexivity.
    Qed.

    Lemma disc_consumes_l u dv cd : disc_ok A u -> CB (disc_type A u) dv cd -> cd = 4.
    Proof.
      intros Hd [Hs [w [Hw ->]]]. destruct Hd as [E|[E|[E|[e [en [E Hen]]]]]]; rewrite E in *.
      - inversion Hs; subst. cbn in Hw. inversion Hw. reflexivity.
      - inversion Hs; subst. cbn in Hw. inversion Hw. reflexivity.
      - inversion Hs; subst. cbn in Hw. inversion Hw. reflexivity.
      - inversion Hs; subst. match goal with HN : ShN A e dv |- _ => inversion HN; subst end; try congruence.
        cbn [wsz] in Hw. rewrite (find_size_gen A md Hgen Hkeys e _ Hen) in Hw. cbn in Hw. inversion Hw. reflexivity.
    Qed.

    Section OneUnionLin.
      Variable u : union_t.
      Hypothesis Hget : get_type A self = Some (TUnion u).
      Variable dd : dval.
      Variable d : xval.
      Hypothesis Td : TypedB A (disc_type A u) d.
      Hypothesis Hdd : dval_of (rv 0 0 d) = Some dd.
      Hypothesis Hrk_arms : Forall (fun c => pos_rank_ok rho self (uc_value c)) (un_cases u).
      Hypothesis Hrk_def : forall c, un_default u = Some c -> pos_rank_ok rho self (uc_value c).
      Hypothesis Hep_arms : forall c m, In c (un_cases u) -> In m (var_elem (uc_value c)) -> elem_pos A md m.
      Hypothesis Hep_def : forall c m, un_default u = Some c -> In m (var_elem (uc_value c)) -> elem_pos A md m.

      Hypothesis HRn : R self.
      Let Hf1 := Hnof1 self _ HRn Hget.
      Let HRu := HRc self _ HRn Hget.

      Lemma wsz_data_arm_l c l p w :
        In c (un_cases u) -> In l (uc_values c) -> wsz md p = Some w ->
        wsz md (RVVariant self (variant_name l) (Some p)) = Some (4 + padded (contains_opaque (uc_value c)) w).
      Proof.
        intros Hc Hl Hw. pose proof (proj2 Hwf _ _ Hget) as [_ [Hnd _]].
        cbn [wsz]. rewrite (find_size_gen A md Hgen Hkeys self _ Hget). cbn [i_body emit_size_body].
        fold (size_arms u).
        assert (Hin : In (variant_name l, contains_opaque (uc_value c)) (size_arms u)).
        { unfold size_arms. apply in_flat_map. exists c. split; [exact Hc|].
          apply in_map_iff. exists l. split; [reflexivity|exact Hl]. }
        rewrite (assoc_NoDup _ _ _ ltac:(rewrite size_arms_names; exact Hnd) Hin).
        rewrite Hw. reflexivity.
      Qed.

      Lemma wsz_void_arm_l l : In l (un_void u) -> wsz md (RVVariant self (variant_name l) None) = Some 4.
      Proof.
        intros Hl. cbn [wsz]. rewrite (find_size_gen A md Hgen Hkeys self _ Hget). cbn [i_body emit_size_body].
        assert (Hm : mem (variant_name l) (map variant_name (un_void u)) = true)
          by (apply mem_In; now apply in_map).
        now rewrite Hm.
      Qed.

      Lemma wsz_default_arm_l c p w :
        un_default u = Some c -> wsz md p = Some w ->
        wsz md (RVVariant self "default" (Some p)) = Some (4 + padded (contains_opaque (uc_value c)) w).
      Proof.
        intros Hd Hw. pose proof (proj2 Hwf _ _ Hget) as [_ [_ Hndef]].
        cbn [wsz]. rewrite (find_size_gen A md Hgen Hkeys self _ Hget). cbn [i_body emit_size_body].
        fold (size_arms u).
        rewrite (assoc_notin "default"%string (size_arms u)) by (rewrite size_arms_names; exact Hndef).
        rewrite Hd. cbn [option_map]. rewrite String.eqb_refl, Hw. reflexivity.
      Qed.

      Lemma lin_arms arms fb :
        Forall (entry_ok A u) arms -> fb_ok A u arms fb ->
        lin W (fun v c => ShN A self v /\ wsz md v = Some (4 + c)) (eval_arms md rec lf self dd arms fb).
      Proof.
        intros Hall. induction Hall as [|en arms Hen _ IH]; intros Hfb; cbn [eval_arms].
        - destruct fb as [e| |]; cbn [fb_ok] in Hfb.
          + destruct Hfb as [c [Hc He]].
            eapply lin_bind.
            * eapply lin_pos; [exact He|exact (proj2 (sup_arms A Hcore self u Hget) c Hc)|
                                exact (proj2 (sup4_refs A Hsup4 self _ Hget) c Hc)|exact (proj2 (proj2 HRu) c Hc)|exact (Hrk_def c Hc)|
                                intros m0 Hm0; exact (Hep_def c m0 Hc Hm0)].
            * intros p cp [Hp [w [Hw Hcw]]]. apply lin_ret. split; [eapply SN_union_default; eassumption|].
              rewrite (wsz_default_arm_l c p w Hc Hw). f_equal.
              rewrite Hcw, pcons_padded by (exact (proj2 Hf1 c Hc)). lia.
          + destruct (dd_as_i32 A md Hgen Hsup4 self u Hget dd d Td Hdd) as [z Hz]. rewrite Hz. apply lin_fail.
          + destruct Hfb as [en [[] _]].
        - destruct en as [[m variant] payload].
          destruct (entry_matches A md Hgen Hsup4 self u Hget dd d Td Hdd _ Hen) as [b Hb]. cbn [fst] in Hb. rewrite Hb. destruct b.
          + destruct Hen as [[c [l [e [Hc [Hl [E He]]]]]]|[[l [Hl [Hnd E]]]|[Hl E]]]; inversion E; subst.
            * eapply lin_bind.
              -- eapply lin_pos; [exact He|exact (proj1 (Forall_forall _ _) (proj1 (sup_arms A Hcore self u Hget)) c Hc)|
                                   exact (proj1 (Forall_forall _ _) (proj1 (sup4_refs A Hsup4 self _ Hget)) c Hc)|
                                   exact (proj1 (Forall_forall _ _) (proj1 (proj2 HRu)) c Hc)|
                                   exact (proj1 (Forall_forall _ _) Hrk_arms c Hc)|
                                   intros m0 Hm0; exact (Hep_arms c m0 Hc Hm0)].
              -- intros p cp [Hp [w [Hw Hcw]]]. apply lin_ret. split; [eapply SN_union_data; eassumption|].
                 rewrite (wsz_data_arm_l c l p w Hc Hl Hw). f_equal.
                 rewrite Hcw, pcons_padded by (exact (proj1 (Forall_forall _ _) (proj1 Hf1) c Hc)). lia.
            * apply lin_ret. split; [eapply SN_union_void; eassumption|]. now rewrite wsz_void_arm_l.
            * apply lin_ret. change "default"%string with (variant_name "default").
              split; [eapply SN_union_void; eassumption|]. now rewrite wsz_void_arm_l.
          + apply IH. destruct fb as [e| |]; cbn [fb_ok] in *; try exact Hfb.
            destruct Hfb as [en' [[<-|Hin] Hw]]; [|eauto].
            cbn [fst] in Hw. subst m. cbn in Hb. discriminate.
      Qed.
    End OneUnionLin.

    Lemma lin_body t b :
      R self -> get_type A self = Some t -> emit_from_body A t = EOk b ->
      lin W (CN self) (eval_body md rec lf self b).
    Proof.
      intros HRn Hget Hb. pose proof (HRc self t HRn Hget) as HRt. pose proof (Hrho self t Hget) as Hrk. pose proof (Hepos self t Hget) as Hep.
      destruct t as [s|u|e|td]; cbn [emit_from_body] in Hb.
      - (* struct *)
        destruct (emapM _ (st_fields s)) as [ps| |] eqn:Eps; cbn [ebind] in Hb; try discriminate.
        inversion Hb; subst b. cbn [eval_body].
        assert (Hps : Forall2 (fun fd p => fexp_of A (sf_value fd) (sf_optional fd) = EOk (snd p)) (st_fields s) ps).
        { eapply emapM_Forall2; [|exact Eps]. intros fd p Hp. cbv beta in Hp. unfold fexp_of.
          destruct (sf_optional fd); [inversion Hp; reflexivity|].
          destruct (decode_array A (sf_value fd) UseAlias); cbn [ebind] in Hp |- *; try discriminate.
          inversion Hp. reflexivity. }
        eapply lin_bind.
        + eapply lin_fields; [exact Hps|exact (sup_struct A Hcore self s Hget)|exact (sup4_refs A Hsup4 self _ Hget)|exact (Hnof1 self _ HRn Hget)|exact HRt|exact Hrk|].
          apply Forall_forall. intros f Hf m Hm v w. apply Hep. cbn [var_elems]. apply in_flat_map. exists f. split; assumption.
        + intros vs c [Hvs Hz]. apply lin_ret. pose proof (Hkeys _ _ (assoc_In _ _ _ Hget)) as Kk. cbn in Kk.
          rewrite Kk. split; [eapply SN_struct; [exact Hget|exact Hvs]|].
          cbn [wsz]. rewrite (find_size_gen A md Hgen Hkeys self _ Hget). cbn [i_body emit_size_body].
          rewrite Hz. f_equal. lia.
      - (* union *)
        destruct (decode_basic A (un_sw_type u) UseTarget) as [disc| |] eqn:Edisc; cbn [ebind] in Hb; try discriminate.
        destruct (emapM _ (un_cases u)) as [rows| |] eqn:Erows; cbn [ebind] in Hb; try discriminate.
        destruct (match un_default u with Some d0 => _ | None => _ end) as [fb| |] eqn:Efb; cbn [ebind] in Hb; try discriminate.
        inversion Hb; subst b. clear Hb. cbn [eval_body].
        pose proof (proj1 (proj2 Hwf self _ Hget)) as Hdisc.
        pose proof (disc_emit A Hsup4 u disc Hdisc Edisc) as Hde.
        assert (Hrd : ref_ok A (disc_type A u)).
        { destruct Hdisc as [E|[E|[E|[e [en [E He]]]]]]; rewrite E; cbn; eauto. }
        destruct Hrk as [Hrk_d [Hrk_a Hrk_df]].
        eapply lin_bind; [eapply lin_basic; [eassumption|eassumption|exact (proj1 HRt)|]|].
        { intros m Hm. rewrite Hm in Hrk_d. exact Hrk_d. }
        intros dv cd Hdv.
        pose proof (disc_consumes_l u dv cd Hdisc Hdv) as ->.
        destruct (disc_back A Hsup4 u dv Hdisc (proj1 Hdv)) as [d [dd [Td [Hdv1 Hdd]]]]. rewrite Hdv1.
        eapply lin_impl; [|eapply lin_arms; try eassumption].
        + intros v c [Hv Hw]. split; assumption.
        + intros c m Hc Hm v w. apply Hep. cbn [var_elems]. apply in_or_app. left. apply in_flat_map. exists c. split; assumption.
        + intros c m Hc Hm v w. apply Hep. cbn [var_elems]. apply in_or_app. right. rewrite Hc. exact Hm.
        + (* every emitted arm is one of the declared ones *)
          apply Forall_app. split.
          * assert (G : forall cases rws, incl cases (un_cases u) ->
                      emapM (fun c => emapM (fun l => ebind (decode_array A (uc_value c) UseAlias)
                                    (fun e => EOk (label_matcher A (un_sw_type u) l, variant_name l, Some e))) (uc_values c)) cases = EOk rws ->
                      Forall (entry_ok A u) (concat rws)).
            { induction cases as [|c cases IH]; intros rws Hincl Hm; cbn [emapM] in Hm.
              - inversion Hm. constructor.
              - destruct (emapM _ (uc_values c)) as [row| |] eqn:Erow; cbn [ebind] in Hm; try discriminate.
                destruct (emapM _ cases) as [rows'| |] eqn:Erows'; cbn [ebind] in Hm; try discriminate.
                inversion Hm; subst rws. cbn [concat]. apply Forall_app. split.
                + destruct (row_shape A u c row Erow) as [[_ ->]|[e [He ->]]]; [constructor|].
                  apply Forall_forall. intros x Hx. apply in_map_iff in Hx as [l [<- Hl]].
                  left. exists c, l, e. split; [apply Hincl; now left|]. split; [exact Hl|]. split; [reflexivity|exact He].
                + apply IH; [intros y Hy; apply Hincl; now right|reflexivity]. }
            exact (G (un_cases u) rows (incl_refl _) Erows).
          * apply Forall_app. split.
            -- apply Forall_forall. intros x Hx. apply in_map_iff in Hx as [l [<- Hl]]. apply filter_In in Hl as [Hl Hnd].
               right. left. exists l. split; [exact Hl|]. split; [|reflexivity].
               apply Bool.negb_true_iff, String.eqb_neq in Hnd. exact Hnd.
            -- destruct (mem "default" (un_void u)) eqn:Em; [|constructor].
               constructor; [|constructor]. right. right. split; [now apply mem_In|reflexivity].
        + (* the fallback *)
          destruct (un_default u) as [dc|] eqn:Edc.
          * destruct (decode_array A (uc_value dc) UseAlias) as [e| |] eqn:Ee; cbn [ebind] in Efb; try discriminate.
            inversion Efb; subst fb. cbn [fb_ok]. eauto.
          * inversion Efb; subst fb. destruct (mem "default" (un_void u)) eqn:Em; cbn [fb_ok]; [|exact I].
            exists (MWild, variant_name "default", @None dexp). split; [|reflexivity].
            apply in_or_app. right. apply in_or_app. right. now left.
      - (* enum *)
        inversion Hb; subst b. cbn [eval_body].
        eapply lin_bind; [apply lin_quiet; [apply cons_read_i32|apply quiet_read_i32]|]. intros z c [_ ->].
        eapply lin_impl; [|eapply lin_enum with (e := e); [exact Hget|]].
        + intros v c [-> [Hv Hw]]. split; [exact Hv|]. rewrite Hw. f_equal.
        + apply Forall_forall. intros a Ha. apply in_map_iff in Ha as [[m vv] [<- Hin]]. cbn [fst snd].
          destruct (proj1 (sup_enum A Hcore self e Hget) (m, vv) Hin) as [x [Hx Hr]]. cbn in Hx. subst vv.
          exists m, x. split; [exact Hin|]. split; [reflexivity|].
          rewrite (int_literal_string_of_Z x ltac:(lia)). discriminate.
      - (* typedef *)
        pose proof (sup_typedef A Hcore self td Hget) as Htd.
        rewrite (typedef_emit A Hcore self td Hget Htd) in Hb.
        destruct (decode_array A (typedef_pos td) UseAlias) as [e0| |] eqn:Ee; cbn [ebind] in Hb; try discriminate.
        inversion Hb; subst b. cbn [eval_body].
        eapply lin_bind.
        + eapply lin_pos; [exact Ee|exact (proj1 (proj2 Htd))| | |exact Hrk|].
          * pose proof (sup4_refs A Hsup4 self _ Hget) as R0. cbn in R0. unfold typedef_pos. destruct (td_alias td); exact R0.
          * cbn in HRt. unfold typedef_pos. destruct (td_alias td); exact HRt.
          * intros m Hm v w. apply Hep. exact Hm.
        + intros y c [Hy [w [Hw Hc]]]. apply lin_ret. split; [eapply SN_typedef; eassumption|].
          cbn [wsz]. rewrite (find_size_gen A md Hgen Hkeys self _ Hget). cbn [i_body emit_size_body]. rewrite Hw.
          cbn [option_map]. f_equal. rewrite N.add_0_r, Hc. unfold typedef_pos, pcons.
          destruct (td_alias td); destruct (td_target td); cbn [is_opaque]; reflexivity.
    Qed.
  End Body.

  (* C09, the total, for every input and outcome *)
  Theorem dec_linear fuel : forall n t, R n -> get_type A n = Some t -> lin (rho n + 1) (CN n) (dec md fuel n).
  Proof.
    induction fuel as [|f IH]; intros n t HRn Hget; cbn [dec]; [intros s _; exact I|].
    destruct (find_from_gen A md Hgen Hkeys n t Hget) as [b [Hb Hfind]]. rewrite Hfind. cbn [i_name i_body].
    eapply lin_body; eassumption.
  Qed.
End Lin.

(* ---------- decidable form ---------- *)

Definition pos_names (a : array_type) : list (string * bool) :=
  match a with
  | AVar (Ident m) _ => [(m, true)]
  | ANone (Ident m) | AFixed (Ident m) _ => [(m, false)]
  | _ => []
  end.

Definition type_names (A : ast) (t : ast_type) : list (string * bool) :=
  match t with
  | TStruct s => flat_map (fun f => pos_names (sf_value f)) (st_fields s)
  | TUnion u => match disc_type A u with Ident m => [(m, false)] | _ => [] end ++
                flat_map (fun c => pos_names (uc_value c)) (un_cases u) ++
                match un_default u with Some c => pos_names (uc_value c) | None => [] end
  | TTypedef t => pos_names (typedef_pos t)
  | TEnum _ => []
  end.

(* nesting depth of counted arrays below a type *)
Fixpoint vdepth (A : ast) (fuel : nat) (n : string) : N :=
  match fuel with
  | O => 0
  | S f => match get_type A n with
           | Some t => fold_right (fun (mb : string * bool) (acc : N) => N.max (vdepth A f (fst mb) + (if snd mb then 1 else 0)) acc) 0
                                  (type_names A t)
           | None => 0
           end
  end.

Definition pos_rank_okb (rho : string -> N) (self : string) (a : array_type) : bool :=
  forallb (fun mb : string * bool => rho (fst mb) + (if snd mb then 1 else 0) <=? rho self) (pos_names a).

Lemma pos_rank_okb_ok rho self a : pos_rank_okb rho self a = true -> pos_rank_ok rho self a.
Proof.
  unfold pos_rank_okb, pos_rank_ok. destruct a as [t|t s|t s]; destruct t; cbn; try (intros; exact I);
    intros H; apply Bool.andb_true_iff in H as [H _]; apply N.leb_le in H; lia.
Qed.

Definition vranked_b (A : ast) : bool :=
  let rho := vdepth A (2 * List.length (types A) + 2) in
  forallb (fun kv =>
             let n := fst kv in
             match snd kv with
             | TStruct s => forallb (fun f => pos_rank_okb rho n (sf_value f)) (st_fields s)
             | TUnion u => (match disc_type A u with Ident m => rho m <=? rho n | _ => true end) &&
                           forallb (fun c => pos_rank_okb rho n (uc_value c)) (un_cases u) &&
                           match un_default u with Some c => pos_rank_okb rho n (uc_value c) | None => true end
             | TTypedef t => pos_rank_okb rho n (typedef_pos t)
             | TEnum _ => true
             end) (types A).

Lemma vranked_b_sound A : vranked_b A = true -> vranked A (vdepth A (2 * List.length (types A) + 2)).
Proof.
  unfold vranked_b. intros H n t G. apply assoc_In in G.
  pose proof (proj1 (forallb_forall _ _) H (n, t) G) as X. cbn [fst snd] in X.
  destruct t as [s|u|e|td]; try exact I.
  - apply Forall_forall. intros f Hf. apply pos_rank_okb_ok. exact (proj1 (forallb_forall _ _) X f Hf).
  - apply Bool.andb_true_iff in X as [X X3]. apply Bool.andb_true_iff in X as [X1 X2]. split; [|split].
    + destruct (disc_type A u); try exact I. now apply N.leb_le.
    + apply Forall_forall. intros c Hc. apply pos_rank_okb_ok. exact (proj1 (forallb_forall _ _) X2 c Hc).
    + intros c Hc. rewrite Hc in X3. now apply pos_rank_okb_ok.
  - now apply pos_rank_okb_ok.
Qed.

Definition lin_b (A : ast) : bool := sup4_b A && nof1_b A && elems_pos_b A && vranked_b A.

(* per decoded type: only the types it reaches need to be free of F1 positions *)
Definition lin_from_b (A : ast) (n : string) : bool :=
  sup4_b A && nof1_from_b A n && elems_pos_b A && vranked_b A.

(* everything the decode of ANY input asks the allocator for, whatever the outcome, costs at
   most (nesting depth + 1) per byte that was in the buffer *)
Theorem linear_from_b A md n t fuel s :
  gen A = EOk md -> lin_from_b A n = true -> get_type A n = Some t -> bok s ->
  match dec md fuel n s with
  | Ok _ s' | Err _ s' =>
      exists d, s_led s' = s_led s ++ d /\
                costs d <= (vdepth A (2 * List.length (types A) + 2) n + 1) * remaining s
  | Panic _ => False
  | Fuel => True
  end.
Proof.
  intros Hgen Hb Hget Hs. unfold lin_from_b in Hb.
  apply Bool.andb_true_iff in Hb as [Hb H4]. apply Bool.andb_true_iff in Hb as [Hb H3].
  apply Bool.andb_true_iff in Hb as [H1 H2].
  pose proof (sup4_b_sound A H1) as Hsup4.
  unfold nof1_from_b in H2.
  apply Bool.andb_true_iff in H2 as [H2 H2c]. apply Bool.andb_true_iff in H2 as [H2a H2b].
  set (L := reach_of A n) in *.
  assert (Hn1 : forall m t0, In m L -> get_type A m = Some t0 -> nof1_type t0).
  { intros m t0 Hm G. pose proof (proj1 (forallb_forall _ _) H2c m Hm) as X. cbv beta in X. rewrite G in X.
    now apply nof1_typeb_sound. }
  pose proof (dec_linear A md Hgen Hsup4 (fun m => In m L) (closed_b_sound A L H2b) Hn1 _ (vranked_b_sound A H4)
                (elems_pos_b_sound A md Hgen (sup4_sup A Hsup4) H3) fuel n t (proj1 (mem_In _ _) H2a) Hget s Hs) as H.
  destruct (dec md fuel n s) as [v s'|e s'|p|]; try exact I; try contradiction.
  - destruct H as [_ [_ [Hr [d [E C]]]]]. exists d. split; [exact E|]. nia.
  - exact H.
Qed.
