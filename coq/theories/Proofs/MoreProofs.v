(* Further universal facts: the emitters' only panic site (C14), rejection of undeclared
   union discriminants (C06). *)
From XdrProofs Require Export SupB.
Open Scope N_scope.
Open Scope list_scope.

(* ---------- C14: for EVERY Ast, the emitters panic only at the fixed-length-string site ---------- *)

Lemma emapM_panic {X Y} (f : X -> eres Y) l w :
  emapM f l = EPanic w -> exists x, In x l /\ f x = EPanic w.
Proof.
  induction l as [|x r IH]; cbn [emapM]; [discriminate|].
  destruct (f x) as [y| |w'] eqn:E; cbn [ebind]; try discriminate.
  - destruct (emapM f r) as [ys| |w''] eqn:E2; cbn [ebind]; try discriminate.
    intros H. inversion H; subst. destruct (IH eq_refl) as [x' [Hin Hx]]. exists x'. split; [now right|exact Hx].
  - intros H. inversion H; subst. exists x. split; [now left|exact E].
Qed.

Lemma decode_basic_no_panic A t r w : decode_basic A t r <> EPanic w.
Proof.
  unfold decode_basic. destruct (prim_dexp t); [discriminate|]. destruct t; try discriminate.
  destruct r; [discriminate|]. destruct (get_type A s) as [[| | |td]|]; try discriminate.
  destruct (prim_dexp (td_target td)); [discriminate|]. destruct (td_target td); discriminate.
Qed.

Lemma decode_array_panic A t r w : decode_array A t r = EPanic w -> w = "from.rs:print_decode_array"%string.
Proof.
  destruct t as [b|b s|b s]; cbn [decode_array].
  - intros H. exfalso. eapply decode_basic_no_panic; eassumption.
  - destruct (resolve_size A s true) as [n| |] eqn:E; cbn [ebind]; try discriminate.
    + unfold decode_fixed. destruct (match r with UseAlias => b | UseTarget => _ end);
        try (intros H; inversion H; reflexivity);
        try (destruct (n =? 0); [discriminate|];
             destruct (decode_basic A b r) eqn:Ed; cbn [ebind]; try discriminate;
             intros H; exfalso; inversion H; subst; eapply decode_basic_no_panic; eassumption).
    + unfold resolve_size in E. destruct s; [discriminate|]. destruct (get_const A s); [|discriminate].
      destruct (parse_u32 _); discriminate.
  - destruct s as [sz|].
    + destruct (resolve_size A sz false) as [n| |] eqn:E; cbn [ebind]; try discriminate.
      * unfold decode_variable. destruct b; discriminate.
      * unfold resolve_size in E. destruct sz; [discriminate|]. destruct (get_const A s); [|discriminate].
        destruct (parse_u32 _); discriminate.
    + unfold decode_variable. destruct b; discriminate.
Qed.

Theorem gen_panic_site A w : gen A = EPanic w -> w = "from.rs:print_decode_array"%string.
Proof.
  unfold gen. destruct (emit_from A) as [fr| |w'] eqn:E; cbn [ebind]; try discriminate.
  intros H. inversion H; subst w'. clear H. unfold emit_from in E.
  apply emapM_panic in E as [[k t] [_ Hx]]. cbn [snd] in Hx.
  destruct (emit_from_body A t) as [b| |w'] eqn:Eb; cbn [ebind] in Hx; try discriminate.
  inversion Hx; subst w'. clear Hx.
  destruct t as [s|u|e|td]; cbn [emit_from_body] in Eb.
  - destruct (emapM _ (st_fields s)) as [fs| |w'] eqn:Ef; cbn [ebind] in Eb; try discriminate.
    inversion Eb; subst. apply emapM_panic in Ef as [f [_ Hf]].
    destruct (sf_optional f); [discriminate|].
    destruct (decode_array A (sf_value f) UseAlias) eqn:Ed; cbn [ebind] in Hf; try discriminate.
    inversion Hf; subst. eapply decode_array_panic; eassumption.
  - destruct (decode_basic A (un_sw_type u) UseTarget) eqn:Ed; cbn [ebind] in Eb; try discriminate.
    2:{ exfalso. eapply decode_basic_no_panic; eassumption. }
    destruct (emapM _ (un_cases u)) as [arms| |w'] eqn:Ea; cbn [ebind] in Eb; try discriminate.
    + destruct (un_default u) as [dc|].
      * destruct (decode_array A (uc_value dc) UseAlias) eqn:Edd; cbn [ebind] in Eb; try discriminate.
        inversion Eb; subst. eapply decode_array_panic; eassumption.
      * discriminate.
    + inversion Eb; subst. apply emapM_panic in Ea as [c [_ Hc]].
      apply emapM_panic in Hc as [l [_ Hl]].
      destruct (decode_array A (uc_value c) UseAlias) eqn:Edd; cbn [ebind] in Hl; try discriminate.
      inversion Hl; subst. eapply decode_array_panic; eassumption.
  - discriminate.
  - destruct (decode_array A (td_alias td) UseTarget) eqn:Ed; cbn [ebind] in Eb; try discriminate.
    inversion Eb; subst. eapply decode_array_panic; eassumption.
Qed.

(* ---------- C06: a discriminant no label declares, and no default ---------- *)

Section Unknown.
  Variable A : ast.
  Variable md : module_ir.
  Hypothesis Hgen : gen A = EOk md.
  Hypothesis Hsup : sup A.

  Let Hcore : sup_core A := sup_c A Hsup.
  Let Hwf : wf_size A := sup_size A Hcore.

  Theorem union_unknown_rejected n u dv disc arms fb d dd rec lf self s :
    get_type A n = Some (TUnion u) ->
    emit_from_body A (TUnion u) = EOk (BUnion dv disc arms fb) ->
    TypedB A (disc_type A u) d -> dval_of (rv 0 0 d) = Some dd ->
    arm_for A u d = None ->
    exists z, dval_as_i32 md dd = Some z /\
              eval_arms md rec lf self dd arms fb s = Err (UnknownVariant z) s.
  Proof.
    intros Hget Hb Td Hdd Harm.
    pose proof (sup_unions A Hsup n u Hget) as Hok.
    pose proof (proj1 (proj2 Hwf n _ Hget)) as Hdisc.
    cbn [emit_from_body] in Hb.
    destruct (decode_basic A (un_sw_type u) UseTarget) as [disc'| |]; cbn [ebind] in Hb; try discriminate.
    destruct (emapM _ (un_cases u)) as [rows| |] eqn:Erows; cbn [ebind] in Hb; try discriminate.
    destruct (match un_default u with Some d0 => _ | None => _ end) as [fb'| |] eqn:Efb; cbn [ebind] in Hb; try discriminate.
    inversion Hb; subst dv disc arms fb. clear Hb.
    destruct Hok as [Hlab [Hvoid Hdef]].
    pose proof (data_sel A md Hgen Hsup u d dd Hdisc Td Hdd (un_cases u) rows Hlab Erows) as Hdata.
    unfold arm_for in Harm.
    destruct (find (fun c => existsb (fun l => label_selects A l d) (uc_values c)) (un_cases u)) as [c|] eqn:Ec.
    { destruct (find (fun l => label_selects A l d) (uc_values c)) eqn:El; [discriminate|].
      exfalso. apply find_some in Ec as [_ Hex]. apply existsb_exists in Hex as [l [Hl1 Hl2]].
      pose proof (find_none _ _ El l Hl1). cbv beta in H. congruence. }
    cbv beta in Hdata.
    destruct (find (fun l => (negb (String.eqb l "default") && label_selects A l d)%bool) (un_void u)) eqn:Ev; [discriminate|].
    destruct (un_default u) as [dc|] eqn:Edc; [discriminate|].
    destruct (mem "default" (un_void u)) eqn:Em; [discriminate|].
    inversion Efb; subst fb'.
    (* every arm fails to match, the fallback is the UnknownVariant arm *)
    assert (Hall : Forall (nomatch md dd)
                     (concat rows ++ map (void_entry A u) (filter (fun l => negb (String.eqb l "default")) (un_void u)) ++ [])).
    { rewrite app_nil_r. apply Forall_app. split; [exact Hdata|]. apply Forall_forall. intros x Hx.
      apply in_map_iff in Hx as [l [<- Hl]]. apply filter_In in Hl as [Hl Hnd0].
      assert (Hnd : l <> "default"%string).
      { intros ->. apply mem_In in Hl. congruence. }
      eapply void_nomatch; try eassumption.
      - split; [exact Hlab|]. split; [exact Hvoid|]. intros c0 Hc0. rewrite Edc in Hc0. discriminate.
      - pose proof (find_none _ _ Ev l Hl) as X. cbv beta in X.
        apply Bool.andb_false_iff in X as [X|X]; [|exact X].
        apply Bool.negb_false_iff, String.eqb_eq in X. contradiction. }
    assert (Hz : exists z, dval_as_i32 md dd = Some z).
    { clear - Td Hdisc Hdd Hgen Hsup. destruct Hdisc as [E|[E|[E|[e [en [E He]]]]]]; rewrite E in Td; inversion Td; subst;
        cbn in Hdd; inversion Hdd; subst; try (eexists; reflexivity).
      match goal with HN : TypedN _ _ _ |- _ => inversion HN; subst end; try congruence.
      cbn in Hdd. inversion Hdd; subst. cbn [dval_as_i32].
      match goal with Hen : get_type A ?e' = Some (TEnum ?en'), Hin : In (?m, VNum ?v) _ |- _ =>
        destruct (enum_value_member A md Hgen Hsup e' en' m (VNum v) Hen Hin) as [x Hx]; rewrite Hx; eexists; reflexivity end. }
    destruct Hz as [z Hz]. exists z. split; [exact Hz|].
    change (map (fun l => (label_matcher A (un_sw_type u) l, variant_name l, @None dexp)))
      with (map (void_entry A u)).
    remember (concat rows ++ map (void_entry A u) (filter (fun l => negb (String.eqb l "default")) (un_void u)) ++ []) as arms0.
    clear - Hall Hz.
    induction Hall as [|[[m v] p] arms Hx _ IH]; cbn [eval_arms].
    - rewrite Hz. reflexivity.
    - unfold nomatch in Hx. cbn [fst] in Hx. rewrite Hx. exact IH.
  Qed.
End Unknown.
