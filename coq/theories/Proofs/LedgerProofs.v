(* C09: every request to the allocator made during a decode -- successful or not -- is for at
   most as many elements / bytes as there were bytes left in the buffer at that point. *)
From XdrProofs Require Export SemProofs.
Open Scope N_scope.
Open Scope list_scope.

Definition bounded (R : N) (r : resv) : Prop :=
  match r with
  | ResVec cap _ => cap <= R
  | ResStr n => n <= R
  | ResBox _ => True
  end.

Lemma bounded_mono R R' r : R <= R' -> bounded R r -> bounded R' r.
Proof. destruct r; cbn; intros; lia || exact I. Qed.

Definition led_ext (s s' : st) : Prop :=
  exists d, s_led s' = s_led s ++ d /\ Forall (bounded (remaining s)) d.

Lemma led_ext_refl s : led_ext s s.
Proof. exists []. split; [now rewrite app_nil_r|constructor]. Qed.

Lemma led_ext_trans s1 s2 s3 :
  remaining s2 <= remaining s1 -> led_ext s1 s2 -> led_ext s2 s3 -> led_ext s1 s3.
Proof.
  intros Hr [d1 [E1 F1]] [d2 [E2 F2]]. exists (d1 ++ d2). split.
  - rewrite E2, E1. now rewrite app_assoc.
  - apply Forall_app. split; [exact F1|]. eapply Forall_impl; [|exact F2].
    intros r. now apply bounded_mono.
Qed.

(* what a computation does to the ledger, whatever its outcome *)
Definition lok {A} (m : M A) : Prop :=
  forall s, match m s with
            | Ok _ s' => remaining s' <= remaining s /\ led_ext s s'
            | Err _ s' => led_ext s s'
            | _ => True
            end.

Lemma lok_ret {A} (a : A) : lok (ret a).
Proof. intros s. cbn. split; [lia|apply led_ext_refl]. Qed.
Lemma lok_fail {A} e : lok (@fail A e).
Proof. intros s. cbn. apply led_ext_refl. Qed.
Lemma lok_panic {A} p : lok (@panic A p).
Proof. intros s. exact I. Qed.

Lemma lok_bind {A B} (m : M A) (k : A -> M B) : lok m -> (forall a, lok (k a)) -> lok (bind m k).
Proof.
  intros Hm Hk s. unfold bind. specialize (Hm s). destruct (m s) as [a s1|e s1| |]; try exact I.
  - destruct Hm as [R1 L1]. specialize (Hk a s1). destruct (k a s1) as [b s2|e s2| |]; try exact I.
    + destruct Hk as [R2 L2]. split; [lia| eapply led_ext_trans; eassumption].
    + eapply led_ext_trans; eassumption.
  - exact Hm.
Qed.

Lemma lok_with_rem s k : k <= remaining s ->
  remaining (with_rem s k) <= remaining s /\ led_ext s (with_rem s k).
Proof.
  intros H. split.
  - unfold remaining, with_rem. cbn [s_rem]. rewrite len_drop. lia.
  - exists []. cbn [with_rem s_led]. split; [now rewrite app_nil_r|constructor].
Qed.

Lemma lok_read_be k : lok (read_be k).
Proof.
  intros s. unfold read_be, get_be. case_if; [apply led_ext_refl|]. case_if; [|exact I].
  apply lok_with_rem. lia.
Qed.

Lemma lok_advance k : lok (advance k).
Proof. intros s. unfold advance. case_if; [|exact I]. apply lok_with_rem. lia. Qed.

Lemma lok_read_i32 : lok read_i32.
Proof. apply lok_bind; [apply lok_read_be| intros; apply lok_ret]. Qed.
Lemma lok_read_i64 : lok read_i64.
Proof. apply lok_bind; [apply lok_read_be| intros; apply lok_ret]. Qed.

Lemma lok_read_bool : lok read_bool.
Proof.
  intros s. unfold read_bool. case_if; [apply led_ext_refl|].
  apply (lok_bind (get_be 4)).
  - intros s0. unfold get_be. case_if; [|exact I]. apply lok_with_rem. lia.
  - intros n. destruct (to_i32 n) as [|p|p]; try apply lok_ret; try apply lok_fail.
    destruct p; try apply lok_ret; apply lok_fail.
Qed.

Lemma lok_read_bytes n : lok (read_bytes n).
Proof.
  intros s. unfold read_bytes. case_if; [apply led_ext_refl|]. case_if; [apply led_ext_refl|].
  apply (lok_bind (slice_to n)).
  - intros s0. unfold slice_to. case_if; [|exact I]. split; [lia|apply led_ext_refl].
  - intros w. apply lok_bind; [apply lok_advance| intros; apply lok_ret].
Qed.

Lemma lok_check_max n max : lok (check_max n max).
Proof. unfold check_max. destruct max; [case_if; [apply lok_fail|apply lok_ret]|apply lok_ret]. Qed.

Lemma lok_read_variable_bytes max : lok (read_variable_bytes max).
Proof.
  unfold read_variable_bytes. apply lok_bind; [apply lok_read_be|]. intros n.
  apply lok_bind; [apply lok_check_max| intros; apply lok_read_bytes].
Qed.

(* what read_variable_bytes returns is no longer than what was left *)
Lemma read_variable_bytes_len max s w s' :
  read_variable_bytes max s = Ok w s' -> len (vdata w) <= remaining s.
Proof.
  intros H. apply read_variable_bytes_snd in H as [[_ [k [Hk [_ [Hr _]]]]] [E|[_ [Ho [Hl _]]]]].
  - rewrite E, len_nil. lia.
  - unfold remaining. lia.
Qed.

Lemma lok_read_string max : lok (read_string max).
Proof.
  intros s. unfold read_string, bind.
  pose proof (lok_read_variable_bytes max s) as H.
  destruct (read_variable_bytes max s) as [w s1|e s1| |] eqn:E; try exact I; [|exact H].
  destruct H as [R1 L1]. pose proof (read_variable_bytes_len _ _ _ _ E) as Hlen.
  unfold reserve. cbn [s_alloc s_off s_rem s_led].
  set (s2 := {| s_alloc := s_alloc s1; s_off := s_off s1; s_rem := s_rem s1;
                s_led := s_led s1 ++ [ResStr (len (vdata w))] |}).
  assert (L2 : led_ext s s2).
  { destruct L1 as [d [Ed Fd]]. exists (d ++ [ResStr (len (vdata w))]). subst s2. cbn [s_led]. split.
    - rewrite Ed. now rewrite app_assoc.
    - apply Forall_app. split; [exact Fd|]. constructor; [exact Hlen|constructor]. }
  destruct (utf8_valid (vdata w)); unfold ret, fail; [split; [exact R1|exact L2]| exact L2].
Qed.

Lemma lok_reserve_vec cap elem :
  (forall s, cap s <= remaining s) ->
  lok (fun s => reserve (ResVec (cap s) elem) s).
Proof.
  intros H s. unfold reserve. split; [unfold remaining; cbn; lia|].
  exists [ResVec (cap s) elem]. split; [reflexivity|]. constructor; [apply H|constructor].
Qed.

Section VarArrayLedger.
  Variable elem_name : string.
  Variable dec_elem : M rval.
  Variable wsz_elem : rval -> option N.
  Hypothesis Hdec : lok dec_elem.

  Lemma lok_on_clone : lok (on_clone dec_elem).
  Proof.
    intros s. unfold on_clone. specialize (Hdec s).
    destruct (dec_elem s) as [a s1|e s1| |]; try exact I.
    - destruct Hdec as [_ [d [Ed Fd]]]. split; [unfold remaining; cbn; lia|].
      exists d. split; [exact Ed| exact Fd].
    - destruct Hdec as [d [Ed Fd]]. exists d. split; [exact Ed|exact Fd].
  Qed.

  Lemma lok_rva_loop fuel : forall n sum acc, lok (rva_loop dec_elem wsz_elem fuel n sum acc).
  Proof.
    induction fuel as [|f IH]; intros n sum acc; cbn [rva_loop].
    - destruct (n =? 0); [apply lok_ret| intros s; exact I].
    - destruct (n =? 0); [apply lok_ret|].
      apply lok_bind; [apply lok_on_clone|]. intros t.
      destruct (wsz_elem t) as [w|]; [|apply lok_panic].
      intros s. case_if; [apply led_ext_refl|].
      apply (lok_bind (advance w)); [apply lok_advance| intros; apply IH].
  Qed.

  Lemma lok_read_variable_array fuel max : lok (read_variable_array elem_name dec_elem wsz_elem fuel max).
  Proof.
    unfold read_variable_array. apply lok_bind; [apply lok_read_be|]. intros n.
    apply lok_bind; [apply lok_check_max|]. intros _.
    intros s.
    apply (lok_bind (fun s => reserve (ResVec (N.min n (remaining s)) elem_name) s)).
    - apply lok_reserve_vec. intros; lia.
    - intros _. apply lok_bind; [apply lok_rva_loop|]. intros r.
      apply lok_bind; [apply lok_advance| intros; apply lok_ret].
  Qed.
End VarArrayLedger.

Section DecLedger.
  Variable md : module_ir.

  Section Body.
    Variable rec : string -> M rval.
    Variable lf : nat.
    Hypothesis Hrec : forall ty, lok (rec ty).

    Lemma lok_read_prim p : lok (read_prim p).
    Proof.
      destruct p; cbn [read_prim]; (apply lok_bind; [|intros; apply lok_ret]);
        first [apply lok_read_be | apply lok_read_i32 | apply lok_read_i64 | apply lok_read_bool].
    Qed.

    Lemma lok_seq_n n m : lok m -> lok (seq_n n m).
    Proof.
      intros Hm. induction n as [|n IH]; cbn [seq_n]; [apply lok_ret|].
      apply lok_bind; [exact Hm|]. intros x. apply lok_bind; [exact IH| intros; apply lok_ret].
    Qed.

    Lemma lok_eval_dexp e : lok (eval_dexp md rec lf e).
    Proof.
      induction e; cbn [eval_dexp].
      - apply lok_read_prim.
      - apply lok_bind; [apply lok_read_string| intros; apply lok_ret].
      - apply lok_bind; [apply lok_read_variable_bytes| intros; apply lok_ret].
      - apply lok_bind; [apply lok_read_bytes| intros; apply lok_ret].
      - apply lok_bind; [apply lok_read_variable_array; apply Hrec| intros; apply lok_ret].
      - apply Hrec.
      - apply lok_bind; [apply lok_seq_n; exact IHe| intros; apply lok_ret].
    Qed.

    Lemma lok_eval_fexp f : lok (eval_fexp md rec lf f).
    Proof.
      destruct f as [e|ty]; cbn [eval_fexp]; [apply lok_eval_dexp|].
      apply lok_bind; [apply lok_read_be|]. intros d.
      destruct (d =? 0); [apply lok_ret|]. destruct (d =? 1); [|apply lok_fail].
      apply lok_bind; [apply Hrec|]. intros x.
      apply lok_bind; [|intros; apply lok_ret].
      intros s. unfold reserve. split; [unfold remaining; cbn; lia|].
      exists [ResBox ty]. split; [reflexivity|]. constructor; [exact I|constructor].
    Qed.

    Lemma lok_eval_fields fs : lok (eval_fields md rec lf fs).
    Proof.
      induction fs as [|f fs IH]; cbn [eval_fields]; [apply lok_ret|].
      apply lok_bind; [apply lok_eval_fexp|]. intros x.
      apply lok_bind; [exact IH| intros; apply lok_ret].
    Qed.

    Lemma lok_eval_arms self d arms fb : lok (eval_arms md rec lf self d arms fb).
    Proof.
      induction arms as [|[[m variant] payload] arms IH]; cbn [eval_arms].
      - destruct fb as [e| |].
        + apply lok_bind; [apply lok_eval_dexp| intros; apply lok_ret].
        + destruct (dval_as_i32 md d); [apply lok_fail|apply lok_panic].
        + apply lok_panic.
      - destruct (matches md m d) as [[|]|]; [| exact IH | apply lok_panic].
        destruct payload as [e|]; [|apply lok_ret].
        apply lok_bind; [apply lok_eval_dexp| intros; apply lok_ret].
    Qed.

    Lemma lok_eval_enum self z arms : lok (eval_enum self z arms).
    Proof.
      induction arms as [|[text name] arms IH]; cbn [eval_enum]; [apply lok_fail|].
      destruct (int_literal text); [|apply lok_panic].
      destruct (Z.eqb z0 z); [apply lok_ret|exact IH].
    Qed.

    Lemma lok_eval_body self b : lok (eval_body md rec lf self b).
    Proof.
      destruct b; cbn [eval_body].
      - apply lok_bind; [apply lok_eval_fields| intros; apply lok_ret].
      - apply lok_bind; [apply lok_eval_dexp|]. intros dv.
        destruct (dval_of dv); [apply lok_eval_arms|apply lok_panic].
      - apply lok_bind; [apply lok_read_i32| intros; apply lok_eval_enum].
      - apply lok_bind; [apply lok_eval_dexp| intros; apply lok_ret].
    Qed.
  End Body.

  Theorem lok_dec fuel : forall ty, lok (dec md fuel ty).
  Proof.
    induction fuel as [|f IH]; intros ty; cbn [dec]; [intros s; exact I|].
    destruct (find_from md ty); [|apply lok_panic].
    apply lok_eval_body. exact IH.
  Qed.
End DecLedger.

(* the statement of C09 at the level of one decode call *)
Theorem requests_bounded md fuel ty s :
  match dec md fuel ty s with
  | Ok _ s' | Err _ s' =>
    exists d, s_led s' = s_led s ++ d /\ Forall (bounded (remaining s)) d
  | _ => True
  end.
Proof.
  pose proof (lok_dec md fuel ty s) as H.
  destruct (dec md fuel ty s); try exact I; [exact (proj2 H)|exact H].
Qed.
