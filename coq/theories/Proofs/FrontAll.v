(* C14, for EVERY accepted text: the tree the PEG of the regenerated grammar returns is a
   derivation of that grammar (Derive.run_derives); on every derivation of `item` the walker and
   the constructors return Ok, or panic at one of the recorded sites (finding F11) -- never at
   the `unreachable!`/`unwrap` sites that assume the grammar's shapes.

   The proofs do not follow the nesting of the rule bodies: a tactic inverts a derivation through
   sequences, choices, options and SILENT rules down to the token-producing rules, for which the
   lemmas are stated, so that splitting, merging or renaming silent helper rules, re-nesting
   sequences and reordering the rules leave them untouched. *)
From Coq Require Import Lia.
From XdrModel Require Import Grammar.
From XdrProofs Require Export Derive FrontTotal.
Open Scope string_scope.
Open Scope list_scope.

Notation G := xdr_grammar.
Notation D := (Dv xdr_grammar).

Definition E_STRUCT := "structure.rs:new".
Definition E_UNION := "union.rs:new".

Ltac look :=
  repeat match goal with
         | X : lookup G _ = Some _ |- _ => cbn in X; first [discriminate X | inversion X; subst; clear X]
         | X : (is_atomic _ || special _)%bool = true |- _ => cbn in X; discriminate X
         | X : special _ = true |- _ => cbn in X; discriminate X
         | X : ?k <> ?k |- _ => congruence
         end.
Ltac dinv H := inversion H; subst; clear H; look.

Ltac silent_ref r :=
  let k := eval cbn in (lookup G r) in
  match k with Some (Silent, _) => idtac end.

(* one inversion step through everything that is not a repetition or a token-producing rule *)
Ltac dstep :=
  match goal with
  | X : D (PSeq _ _) _ |- _ => dinv X
  | X : D (PStr _) _ |- _ => dinv X
  | X : D PSoi _ |- _ => dinv X
  | X : D PEoi _ |- _ => dinv X
  | X : D (PNot _) _ |- _ => dinv X
  | X : D (PChoice _ _) _ |- _ => dinv X
  | X : D (POpt _) _ |- _ => dinv X
  | X : D (PRef ?r) _ |- _ => silent_ref r; dinv X
  end.
Ltac explode := repeat dstep.

(* rewrite walk_list of an append of pieces whose walk is known *)
Ltac wl :=
  cbn [app walk_list];
  repeat rewrite walk_list_app_gen;
  repeat match goal with H : walk_list ?t = EOk _ |- context [walk_list ?t] => rewrite H end;
  cbn [walk_list ebind app].

(* ---------- token-producing leaves ---------- *)

Definition one_type (l : list node) : Prop := exists b, l = [NType b].
Definition W (ts : list tree) (P : list node -> Prop) : Prop := exists l, walk_list ts = EOk l /\ P l.

Lemma W_ident ts : D (PRef "ident") ts -> W ts one_type.
Proof. intros H. dinv H. eexists. split; [reflexivity|]. eexists. reflexivity. Qed.

Lemma W_basic ts : D (PRef "basic_type") ts -> W ts one_type.
Proof. intros H. dinv H. eexists. split; [reflexivity|]. eexists. reflexivity. Qed.

Lemma W_value ts : D (PRef "ident_value") ts -> W ts one_type.
Proof. intros H. dinv H. eexists. split; [reflexivity|]. eexists. reflexivity. Qed.

Lemma W_const ts : D (PRef "ident_const") ts -> W ts one_type.
Proof. intros H. dinv H; (eexists; split; [cbn [walk_list]; rewrite walk_node; reflexivity|]; eexists; reflexivity). Qed.

Definition arrN (l : list node) : Prop := l = [] \/ exists s, l = [NArrayVariable s] \/ l = [NArrayFixed s].
Definition arr1 (l : list node) : Prop := exists s, l = [NArrayVariable s] \/ l = [NArrayFixed s].

Lemma W_arrv ts : D (PRef "array_variable") ts -> W ts arr1.
Proof. intros H. dinv H; (eexists; split; [cbn [walk_list]; rewrite walk_node; cbn; reflexivity|]; eexists; left; reflexivity). Qed.

Lemma W_arrf ts : D (PRef "array_fixed") ts -> W ts arr1.
Proof. intros H. dinv H; (eexists; split; [cbn [walk_list]; rewrite walk_node; cbn; reflexivity|]; eexists; right; reflexivity). Qed.

(* use every leaf fact in the context *)
Ltac leaf1 L :=
  match goal with
  | X : D (PRef ?r) ?t |- _ =>
    let l := fresh "l" in let Hw := fresh "Hw" in let Hp := fresh "Hp" in
    destruct (L _ X) as (l & Hw & Hp); clear X
  end.
Ltac leaves0 := repeat first [leaf1 W_ident | leaf1 W_basic | leaf1 W_value | leaf1 W_const | leaf1 W_arrv | leaf1 W_arrf].

Lemma W_option ts : D (PRef "option") ts -> W ts (fun l => exists b, l = [NOption [NType b]]).
Proof.
  intros H. dinv H. explode. leaves0.
  repeat match goal with X : one_type _ |- _ => destruct X as [? ->] end.
  eexists. split; [cbn [walk_list]; rewrite walk_node; cbn [String.eqb Ascii.eqb Bool.eqb orb]; wl; reflexivity|]. eauto.
Qed.

Ltac leaves := repeat first [leaf1 W_ident | leaf1 W_basic | leaf1 W_value | leaf1 W_const | leaf1 W_arrv | leaf1 W_arrf | leaf1 W_option].
Ltac classes :=
  repeat match goal with
         | X : one_type _ |- _ => destruct X as [? ->]
         | X : arr1 _ |- _ => destruct X as [? [->| ->]]
         | X : exists b, _ = [NOption [NType b]] |- _ => destruct X as [? ->]
         end.

(* ---------- data_field ---------- *)

Definition nameN (n : node) : Prop := exists b, n = NType b \/ n = NOption [NType b].
Definition fieldN (l : list node) : Prop := exists a nm arr, l = NType a :: nm :: arr /\ nameN nm /\ arrN arr.

(* the children of a struct_data_field / union_data_field node: a data_field, through whatever
   silent rules the grammar spells it with *)
Lemma W_field_body r ts :
  (r = "struct_data_field" \/ r = "union_data_field") -> D (PRef r) ts ->
  exists sp cs l, ts = [Node r sp cs] /\ walk_list cs = EOk l /\ fieldN l.
Proof.
  intros [->| ->] H; dinv H; explode; leaves; classes;
    (eexists _, _, _; split; [reflexivity|]; split; [wl; reflexivity|];
     unfold fieldN, nameN, arrN; eexists _, _, _; split; [reflexivity|]; split; eauto 6).
Qed.

Lemma field_new_outcome l : fieldN l -> only_panics [E_STRUCT] (struct_field_new (NStructDataField l)).
Proof.
  intros (a & nm & arr & -> & [b [->| ->]] & Harr); cbn [struct_field_new].
  - destruct b; try (constructor; now left);
      destruct Harr as [->|[? [->| ->]]]; constructor; now left.
  - destruct Harr as [->|[? [->| ->]]]; try (constructor; now left).
    destruct b; constructor; now left.
Qed.

Lemma union_case_new_outcome cv l : fieldN l -> only_panics [E_UNION] (union_case_new cv l).
Proof.
  intros (a & nm & arr & -> & [b [->| ->]] & Harr); cbn [union_case_new].
  - destruct b; try (constructor; now left);
      destruct Harr as [->|[? [->| ->]]]; constructor; now left.
  - constructor; now left.
Qed.

(* ---------- repetitions ---------- *)

Lemma W_list (e : pexp) (P : list node -> Prop) :
  (forall ts, D e ts -> W ts P) ->
  forall tss, Forall (D e) tss -> exists ls, walk_list (concat tss) = EOk (concat ls) /\ Forall P ls.
Proof.
  intros He. induction 1 as [|ts tss H _ (ls & Hls & HlsP)]; [exists []; split; [reflexivity|constructor]|].
  destruct (He ts H) as (l & Hl & HlP). exists (l :: ls). split; [|constructor; assumption].
  cbn [concat]. now apply walk_list_app.
Qed.

(* ---------- declarations ---------- *)

Definition SITES : list string := [E_ENUM; E_STRUCT; E_UNION].

Definition declR (m : eres (list node)) : Prop :=
  only_panics SITES m /\ forall l, m = EOk l -> Forall const_shaped l.

Lemma in_sites_1 : incl [E_ENUM] SITES.   Proof. intros x [<-|[]]. now left. Qed.
Lemma in_sites_2 : incl [E_STRUCT] SITES. Proof. intros x [<-|[]]. right. now left. Qed.
Lemma in_sites_3 : incl [E_UNION] SITES.  Proof. intros x [<-|[]]. right. right. now left. Qed.

Lemma declR_one (m : eres node) (sites : list string) :
  incl sites SITES -> only_panics sites m -> (forall x, m = EOk x -> const_shaped x) ->
  declR (ebind m (fun x => EOk [x])).
Proof.
  intros Hi Hm Hs. destruct m as [x| |w]; cbn [ebind].
  - split; [constructor|]. intros l E. inversion E; subst. constructor; [now apply Hs|constructor].
  - inversion Hm.
  - split; [|discriminate]. inversion Hm; subst. constructor. now apply Hi.
Qed.

Lemma declR_ok x : const_shaped x -> declR (EOk [x]).
Proof. intros H. split; [apply op_ok|]. intros l E. inversion E; subst. constructor; [exact H|constructor]. Qed.

Lemma declR_panic w : In w SITES -> declR (EPanic w).
Proof. intros H. split; [now apply op_panic|discriminate]. Qed.

(* constant *)
Lemma W_constant ts : D (PRef "constant") ts -> declR (walk_list ts).
Proof.
  intros H. dinv H; explode; leaves; classes.
  cbn [walk_list]. rewrite walk_node. cbn [String.eqb Ascii.eqb Bool.eqb orb]. wl.
  apply declR_ok. cbn. eauto.
Qed.

(* typedef *)
Lemma W_typedef ts : D (PRef "typedef") ts -> declR (walk_list ts).
Proof.
  intros H. dinv H; explode; leaves; classes;
    (cbn [walk_list]; rewrite walk_node; cbn [String.eqb Ascii.eqb Bool.eqb orb]; wl; cbn [typedef_new];
     repeat match goal with |- context [is_opaque ?a] => destruct (is_opaque a) end; cbn [ebind];
     apply declR_ok; exact I).
Qed.

(* struct *)
Definition sdfP (l : list node) : Prop := exists f, l = [NStructDataField f] /\ fieldN f.
Definition udfP (l : list node) : Prop := exists f, l = [NUnionDataField f] /\ fieldN f.

Lemma W_sdf ts : D (PRef "struct_data_field") ts -> W ts sdfP.
Proof.
  intros H. destruct (W_field_body _ ts (or_introl eq_refl) H) as (sp & cs & l & -> & Hw & Hf).
  eexists. split; [cbn [walk_list]; rewrite walk_node; cbn [String.eqb Ascii.eqb Bool.eqb orb]; rewrite Hw; reflexivity|].
  exists l. split; [reflexivity|exact Hf].
Qed.

Lemma W_udf ts : D (PRef "union_data_field") ts -> W ts udfP.
Proof.
  intros H. destruct (W_field_body _ ts (or_intror eq_refl) H) as (sp & cs & l & -> & Hw & Hf).
  eexists. split; [cbn [walk_list]; rewrite walk_node; cbn [String.eqb Ascii.eqb Bool.eqb orb]; rewrite Hw; reflexivity|].
  exists l. split; [reflexivity|exact Hf].
Qed.

Ltac star_list L :=
  match goal with
  | X : D (PStar ?e) _ |- _ =>
    let tss := fresh "tss" in let Hf := fresh "Hf" in let ls := fresh "ls" in let Hls := fresh "Hls" in let HlsP := fresh "HlsP" in
    destruct (dv_star_list _ _ _ X) as (tss & -> & Hf); clear X;
    destruct (W_list e _ L tss Hf) as (ls & Hls & HlsP)
  end.

Lemma W_struct ts : D (PRef "struct_type") ts -> declR (walk_list ts).
Proof.
  intros H. dinv H; explode; leaves; classes. star_list W_sdf.
  cbn [walk_list]. rewrite walk_node. cbn [String.eqb Ascii.eqb Bool.eqb orb]. wl. rewrite ?app_nil_r.
  cbn [struct_new ident_str ebind].
  assert (Hf2 : only_panics [E_STRUCT] (emapM struct_field_new (concat ls))).
  { apply op_emapM. intros nd Hx. apply in_concat in Hx as (l & Hl & Hxl).
    destruct (proj1 (Forall_forall _ _) HlsP l Hl) as (f & -> & Hfn). destruct Hxl as [<-|[]]. now apply field_new_outcome. }
  destruct (emapM struct_field_new (concat ls)) as [fs| |w]; cbn [ebind].
  - apply declR_ok. exact I.
  - inversion Hf2.
  - apply declR_panic. inversion Hf2; subst. now apply in_sites_2.
Qed.

(* enum *)
Definition variantN (n : node) : Prop := exists a b, n = NEnumVariant [NType a; NType b].
Definition variantP (l : list node) : Prop := exists n, l = [n] /\ variantN n.

Lemma W_variant ts : D (PRef "enum_variant") ts -> W ts variantP.
Proof.
  intros H. dinv H; explode; leaves; classes.
  eexists. split; [cbn [walk_list]; rewrite walk_node; cbn [String.eqb Ascii.eqb Bool.eqb orb]; wl; reflexivity|].
  eexists. split; [reflexivity|]. eexists _, _. reflexivity.
Qed.

Lemma variant_new_outcome n : variantN n -> only_panics [E_ENUM] (variant_new n).
Proof.
  intros (a & b & ->). cbn [variant_new ident_str ebind]. apply op_bind; [apply variant_value_outcome|intros; constructor].
Qed.

Lemma variants_outcome ls : Forall variantP ls -> only_panics [E_ENUM] (emapM variant_new (concat ls)).
Proof.
  intros H. apply op_emapM. intros nd Hx. apply in_concat in Hx as (l & Hl & Hxl).
  destruct (proj1 (Forall_forall _ _) H l Hl) as (n & -> & Hn). destruct Hxl as [<-|[]]. now apply variant_new_outcome.
Qed.

(* an element of a repetition that is an enum_variant behind punctuation / silent rules *)
Ltac elem_variant := intros ? ?; explode; leaf1 W_variant; cbn [app]; eexists; (split; [eassumption|assumption]).

Lemma concat_app_P {A} (P : list A -> Prop) l1 l2 : Forall P l1 -> Forall P l2 -> Forall P (l1 ++ l2).
Proof. intros. apply Forall_app. split; assumption. Qed.

Lemma W_enum ts : D (PRef "enum_type") ts -> declR (walk_list ts).
Proof.
  intros H. dinv H; explode; leaves; classes.
  match goal with X : D (PPlus ?e) _ |- _ => destruct (dv_plus_list _ _ _ X) as (tss1 & -> & Hf1); clear X;
    assert (He1 : forall ts, D e ts -> W ts variantP) by elem_variant;
    destruct (W_list e _ He1 tss1 Hf1) as (ls1 & Hls1 & HlsP1) end.
  match goal with X : D (PStar ?e) _ |- _ => destruct (dv_star_list _ _ _ X) as (tss2 & -> & Hf2); clear X;
    assert (He2 : forall ts, D e ts -> W ts variantP) by elem_variant;
    destruct (W_list e _ He2 tss2 Hf2) as (ls2 & Hls2 & HlsP2) end.
  cbn [walk_list]. rewrite walk_node. cbn [String.eqb Ascii.eqb Bool.eqb orb]. wl. rewrite ?app_nil_r.
  cbn [enum_new ident_str ebind]. rewrite <- concat_app.
  pose proof (variants_outcome (ls1 ++ ls2) (concat_app_P _ _ _ HlsP1 HlsP2)) as Hv.
  destruct (emapM variant_new (concat (ls1 ++ ls2))) as [vs| |w]; cbn [ebind].
  - apply declR_ok. exact I.
  - inversion Hv.
  - apply declR_panic. inversion Hv; subst. now apply in_sites_1.
Qed.

(* union *)
Definition armN (l : list node) : Prop := l = [NUnionVoid] \/ udfP l.
Definition caseN (n : node) : Prop :=
  (exists v arm, n = NUnionCase (NType v :: arm) /\ (arm = [] \/ armN arm)) \/ (exists arm, n = NUnionDefault arm /\ armN arm).
Definition caseP (l : list node) : Prop := exists n, l = [n] /\ caseN n.

Lemma W_void ts : D (PRef "union_void") ts -> W ts (fun l => l = [NUnionVoid]).
Proof. intros H. dinv H; (eexists; split; [cbn [walk_list]; rewrite walk_node; reflexivity|reflexivity]). Qed.

Ltac arms := repeat first [leaf1 W_udf | leaf1 W_void].

Lemma W_ucase ts : D (PRef "union_case") ts -> W ts caseP.
Proof.
  intros H. dinv H; explode; leaves; arms; classes;
    (eexists; split; [cbn [walk_list]; rewrite walk_node; cbn [String.eqb Ascii.eqb Bool.eqb orb]; wl; reflexivity|];
     eexists; split; [reflexivity|]; left; eexists _, _; split; [reflexivity|]; subst; unfold armN; eauto).
Qed.

Lemma W_udefault ts : D (PRef "union_default") ts -> W ts caseP.
Proof.
  intros H. dinv H; explode; leaves; arms; classes;
    (eexists; split; [cbn [walk_list]; rewrite walk_node; cbn [String.eqb Ascii.eqb Bool.eqb orb]; wl; reflexivity|];
     eexists; split; [reflexivity|]; right; eexists; split; [reflexivity|]; subst; unfold armN; eauto).
Qed.

Lemma case_stmt_outcome cv nodes :
  (exists v arm, nodes = NType v :: arm /\ (arm = [] \/ armN arm)) \/ armN nodes ->
  only_panics [E_UNION] (case_stmt_parse cv nodes).
Proof.
  intros [(v & arm & -> & [->|[->|(f & -> & Hf)]])|[->|(f & -> & Hf)]]; cbn [case_stmt_parse]; try constructor.
  - apply op_bind; [now apply union_case_new_outcome|intros; constructor].
  - apply op_bind; [now apply union_case_new_outcome|intros; constructor].
Qed.

Lemma union_loop_outcome ns : Forall caseN ns -> forall acc, only_panics [E_UNION] (union_loop ns acc).
Proof.
  induction 1 as [|n ns Hn _ IH]; intros acc; cbn [union_loop]; [constructor|].
  destruct Hn as [(v & arm & -> & Harm)|(arm & -> & Harm)].
  - apply op_bind; [apply case_stmt_outcome; left; eauto|]. intros st _. destruct st; apply IH.
  - apply op_bind; [apply case_stmt_outcome; now right|]. intros st _. destruct st; apply IH.
Qed.

Lemma caseP_nodes ls : Forall caseP ls -> Forall caseN (concat ls).
Proof.
  induction 1 as [|l ls (n & -> & Hn) _ IH]; cbn [concat]; [constructor|]. constructor; assumption.
Qed.

Ltac elem_case := intros ? ?; explode; first [leaf1 W_ucase | leaf1 W_udefault]; cbn [app]; eexists; (split; [eassumption|assumption]).

Lemma W_union ts : D (PRef "union") ts -> declR (walk_list ts).
Proof.
  intros H. dinv H; explode; leaves; classes;
  (match goal with X : D (PStar ?e) _ |- _ => destruct (dv_star_list _ _ _ X) as (tss & -> & Hf); clear X;
    assert (He : forall ts, D e ts -> W ts caseP) by elem_case;
    destruct (W_list e _ He tss Hf) as (ls & Hls & HlsP) end;
   cbn [walk_list]; rewrite walk_node; cbn [String.eqb Ascii.eqb Bool.eqb orb]; wl; rewrite ?app_nil_r;
   cbn [union_new ident_str ebind];
   pose proof (union_loop_outcome (concat ls) (caseP_nodes ls HlsP) {| ua_cases := []; ua_default := None; ua_void := []; ua_pending := [] |}) as Hu;
   (destruct (union_loop (concat ls) _) as [acc| |w]; cbn [ebind];
    [apply declR_ok; exact I|inversion Hu|apply declR_panic; inversion Hu; subst; now apply in_sites_3])).
Qed.

(* ---------- the declaration list ---------- *)

Lemma declR_app a b : declR (walk_list a) -> declR (walk_list b) -> declR (walk_list (a ++ b)).
Proof.
  intros [Ha Sa] [Hb Sb]. rewrite walk_list_app_gen.
  destruct (walk_list a) as [na| |wa]; cbn [ebind].
  - destruct (walk_list b) as [nb| |wb]; cbn [ebind].
    + split; [constructor|]. intros l E. inversion E; subst. apply Forall_app. split; [now apply Sa|now apply Sb].
    + inversion Hb.
    + split; [exact Hb|discriminate].
  - inversion Ha.
  - split; [exact Ha|discriminate].
Qed.

Lemma W_decl_list (e : pexp) tss :
  (forall ts, D e ts -> declR (walk_list ts)) -> Forall (D e) tss -> declR (walk_list (concat tss)).
Proof.
  intros He. induction 1 as [|ts tss H _ IH]; cbn [concat].
  - split; [constructor|]. intros l E. inversion E. constructor.
  - apply declR_app; [now apply He|exact IH].
Qed.

Ltac elem_decl :=
  intros ? ?; explode;
  first [apply W_constant; assumption | apply W_typedef; assumption | apply W_enum; assumption
        | apply W_struct; assumption | apply W_union; assumption].

Definition FRONT_SITES : list string := [E_ENUM; E_CONST; E_STRUCT; E_UNION].

(* every derivation of `item` *)
Theorem derivation_total t : D (PRef "item") [t] -> only_panics FRONT_SITES (ast_new t).
Proof.
  intros H. dinv H; explode.
  match goal with X : D (PStar ?e) _ |- _ => destruct (dv_star_list _ _ _ X) as (tss & -> & Hf); clear X;
    assert (He : forall ts, D e ts -> declR (walk_list ts)) by elem_decl;
    destruct (W_decl_list e tss He Hf) as [Hop Hshape] end.
  unfold ast_new. rewrite walk_node. cbn [String.eqb Ascii.eqb Bool.eqb orb app].
  rewrite walk_list_app_gen. cbn [walk_list]. rewrite walk_node. cbn [String.eqb Ascii.eqb Bool.eqb orb ebind].
  destruct (walk_list (concat tss)) as [items| |w]; cbn [ebind].
  - cbn [ast_of_root]. apply op_bind; [|intros; constructor].
    eapply op_weaken; [|apply const_index_outcome].
    + intros x [<-|[]]. right. now left.
    + apply Forall_app. split; [now apply Hshape|repeat constructor].
  - inversion Hop.
  - inversion Hop; subst. constructor.
    match goal with X : In w SITES |- _ => destruct X as [<-|[<-|[<-|[]]]] end; cbn; tauto.
Qed.

(* every text: whatever the parser accepts, Ast::new returns Ok or panics at a recorded site *)
Theorem front_all text fuel t s' :
  parse G fuel text = POk [t] s' -> only_panics FRONT_SITES (ast_new t).
Proof. unfold parse. intros H. apply derivation_total. exact (run_derives G _ _ _ _ _ _ H). Qed.

(* ... and the parser returns exactly one tree *)
Theorem parse_one_tree text fuel ts s' : parse G fuel text = POk ts s' -> exists t, ts = [t].
Proof.
  unfold parse. intros H. pose proof (run_derives G _ _ _ _ _ _ H) as Hd. dinv Hd. eauto.
Qed.
