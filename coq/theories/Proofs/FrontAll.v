(* C14, for EVERY accepted text: the tree the PEG of the regenerated grammar returns is a
   derivation of that grammar (Derive.run_derives); on every derivation of `item` the walker and
   the constructors return Ok, or panic at one of the recorded sites (finding F11) -- never at
   the `unreachable!`/`unwrap` sites that assume the grammar's shapes. *)
From Coq Require Import Lia.
From XdrModel Require Import Grammar.
From XdrProofs Require Export Derive FrontTotal.
Open Scope string_scope.
Open Scope list_scope.

Notation G := xdr_grammar.
Notation D := (Dv xdr_grammar).

Definition E_STRUCT := "structure.rs:new".
Definition E_UNION := "union.rs:new".

Ltac look :=
  repeat match goal with
         | X : lookup G _ = Some _ |- _ => cbn in X; first [discriminate X | inversion X; subst; clear X]
         | X : (is_atomic _ || special _)%bool = true |- _ => cbn in X; discriminate X
         | X : special _ = true |- _ => cbn in X; discriminate X
         | X : ?k <> ?k |- _ => congruence
         end.
Ltac dinv H := inversion H; subst; clear H; look.

(* ---------- leaves ---------- *)

Lemma D_ident ts : D (PRef "ident") ts -> exists sp, ts = [Node "ident" sp []].
Proof. intros H. dinv H. eauto. Qed.

Lemma D_basic ts : D (PRef "basic_type") ts -> exists sp, ts = [Node "basic_type" sp []].
Proof. intros H. dinv H. eauto. Qed.

Lemma D_value ts : D (PRef "ident_value") ts -> exists sp, ts = [Node "ident_value" sp []].
Proof. intros H. dinv H. eauto. Qed.

Lemma D_const ts : D (PRef "ident_const") ts -> exists sp sp', ts = [Node "ident_const" sp [Node "ident" sp' []]].
Proof. intros H. dinv H. match goal with X : D (PRef "ident") _ |- _ => destruct (D_ident _ X) as [sp' ->] end. eauto. Qed.

(* a list of trees that walks to one NType *)
Definition one_type (ts : list tree) : Prop := exists b, walk_list ts = EOk [NType b].

Lemma W_ident ts : D (PRef "ident") ts -> one_type ts.
Proof. intros H. destruct (D_ident ts H) as [sp ->]. eexists. reflexivity. Qed.

Definition ty_exp : pexp := PChoice (PRef "ident") (PRef "basic_type").
Lemma W_ty ts : D ty_exp ts -> one_type ts.
Proof.
  intros H. dinv H.
  - now apply W_ident.
  - match goal with X : D (PRef "basic_type") _ |- _ => destruct (D_basic _ X) as [sp ->] end. eexists. reflexivity.
Qed.

Definition len_exp : pexp := PChoice (PRef "ident_value") (PRef "ident_const").
Lemma W_len ts : D len_exp ts -> one_type ts /\ exists t, ts = [t].
Proof.
  intros H. dinv H.
  - match goal with X : D (PRef "ident_value") _ |- _ => destruct (D_value _ X) as [sp ->] end. split; [eexists; reflexivity|eauto].
  - match goal with X : D (PRef "ident_const") _ |- _ => destruct (D_const _ X) as (sp & sp' & ->) end. split; [eexists; reflexivity|eauto].
Qed.

(* ---------- array? ---------- *)

Definition arrN (l : list node) : Prop := l = [] \/ exists s, l = [NArrayVariable s] \/ l = [NArrayFixed s].

Lemma W_arr ts : D (POpt (PRef "array")) ts -> exists l, walk_list ts = EOk l /\ arrN l.
Proof.
  intros H. dinv H; [exists []; split; [reflexivity|now left]|].
  match goal with X : D (PRef "array") _ |- _ => dinv X end.
  match goal with X : D (PChoice _ _) _ |- _ => dinv X end.
  - match goal with X : D (PRef "array_variable") _ |- _ => dinv X end.
    eexists. split; [cbn [walk_list]; rewrite walk_node; cbn; reflexivity|]. right. eexists. left. reflexivity.
  - match goal with X : D (PRef "array_fixed") _ |- _ => dinv X end.
    eexists. split; [cbn [walk_list]; rewrite walk_node; cbn; reflexivity|]. right. eexists. right. reflexivity.
Qed.

(* ---------- data_field ---------- *)

Definition nameN (n : node) : Prop := exists b, n = NType b \/ n = NOption [NType b].
(* what a data_field walks to *)
Definition fieldN (l : list node) : Prop := exists a nm arr, l = NType a :: nm :: arr /\ nameN nm /\ arrN arr.

Lemma walk_list_app_ok a b na nb : walk_list a = EOk na -> walk_list b = EOk nb -> walk_list (a ++ b) = EOk (na ++ nb).
Proof. apply walk_list_app. Qed.

Lemma W_option ts : D (PRef "option") ts -> exists b, walk_list ts = EOk [NOption [NType b]].
Proof.
  intros H. dinv H. match goal with X : D (PSeq _ _) _ |- _ => dinv X end.
  match goal with X : D (PStr _) _ |- _ => dinv X end.
  match goal with X : D (PRef "ident") _ |- _ => destruct (D_ident _ X) as [sp' ->] end.
  eexists. cbn [walk_list app]. rewrite walk_node. cbn. reflexivity.
Qed.

Lemma W_field ts : D (PRef "data_field") ts -> exists l, walk_list ts = EOk l /\ fieldN l.
Proof.
  intros H. dinv H.
  repeat match goal with X : D (PSeq _ _) _ |- _ => dinv X end.
  match goal with X : D (PStr _) _ |- _ => dinv X end.
  match goal with X : D (PChoice (PRef "ident") (PRef "basic_type")) _ |- _ => destruct (W_ty _ X) as [a Ha] end.
  match goal with X : D (POpt (PRef "array")) _ |- _ => destruct (W_arr _ X) as (arr & Harr & HarrN) end.
  assert (Hn : exists nm, walk_list t0 = EOk [nm] /\ nameN nm).
  { match goal with X : D (PChoice (PRef "option") (PRef "ident")) _ |- _ => dinv X end.
    - match goal with X : D (PRef "option") _ |- _ => destruct (W_option _ X) as [b Hb] end.
      eexists. split; [exact Hb|]. exists b. now right.
    - match goal with X : D (PRef "ident") _ |- _ => destruct (W_ident _ X) as [b Hb] end.
      eexists. split; [exact Hb|]. exists b. now left. }
  destruct Hn as (nm & Hnm & HnmN).
  exists ([NType a] ++ [nm] ++ arr ++ []). split.
  - apply walk_list_app_ok; [exact Ha|]. apply walk_list_app_ok; [exact Hnm|]. apply walk_list_app_ok; [exact Harr|reflexivity].
  - exists a, nm, arr. split; [cbn; now rewrite app_nil_r|]. split; assumption.
Qed.

(* StructField::new on it: Ok or the structure.rs panic (a name that is a primitive spelling; an
   optional with a declarator) *)
Lemma field_new_outcome l : fieldN l -> only_panics [E_STRUCT] (struct_field_new (NStructDataField l)).
Proof.
  intros (a & nm & arr & -> & [b [->| ->]] & Harr); cbn [struct_field_new].
  - destruct b; try (constructor; now left);
      destruct Harr as [->|[? [->| ->]]]; constructor; now left.
  - destruct Harr as [->|[? [->| ->]]]; try (constructor; now left).
    destruct b; constructor; now left.
Qed.

Lemma union_case_new_outcome cv l : fieldN l -> only_panics [E_UNION] (union_case_new cv l).
Proof.
  intros (a & nm & arr & -> & [b [->| ->]] & Harr); cbn [union_case_new].
  - destruct b; try (constructor; now left);
      destruct Harr as [->|[? [->| ->]]]; constructor; now left.
  - constructor; now left.
Qed.

(* ---------- declarations ---------- *)

Definition SITES : list string := [E_ENUM; E_STRUCT; E_UNION].

(* the outcome of walking one declaration: Ok with a node the constant index can read, or a
   recorded panic *)
Definition declR (m : eres (list node)) : Prop :=
  only_panics SITES m /\ forall l, m = EOk l -> Forall const_shaped l.

Lemma in_sites_1 : incl [E_ENUM] SITES.   Proof. intros x [<-|[]]. now left. Qed.
Lemma in_sites_2 : incl [E_STRUCT] SITES. Proof. intros x [<-|[]]. right. now left. Qed.
Lemma in_sites_3 : incl [E_UNION] SITES.  Proof. intros x [<-|[]]. right. right. now left. Qed.

(* constant *)
Lemma W_constant ts : D (PRef "constant") ts -> declR (walk_list ts).
Proof.
  intros H. dinv H. repeat match goal with X : D (PSeq _ _) _ |- _ => dinv X end.
  repeat match goal with X : D (PStr _) _ |- _ => dinv X end.
  repeat match goal with X : D (PRef "ident") _ |- _ => destruct (D_ident _ X) as [? ->]; clear X end.
  cbn [app walk_list]. rewrite walk_node. cbn. split; [constructor|]. intros l E. inversion E; subst.
  constructor; [|constructor]. cbn. eauto.
Qed.

(* typedef *)
Lemma W_typedef ts : D (PRef "typedef") ts -> declR (walk_list ts).
Proof.
  intros H. dinv H. repeat match goal with X : D (PSeq _ _) _ |- _ => dinv X end.
  repeat match goal with X : D (PStr _) _ |- _ => dinv X end.
  match goal with X : D (PChoice (PRef "ident") (PRef "basic_type")) _ |- _ => destruct (W_ty _ X) as [a Ha] end.
  match goal with X : D (PRef "ident") _ |- _ => destruct (W_ident _ X) as [b Hb] end.
  match goal with X : D (POpt (PRef "array")) _ |- _ => destruct (W_arr _ X) as (arr & Harr & HarrN) end.
  cbn [app walk_list]. rewrite walk_node. cbn [String.eqb Ascii.eqb Bool.eqb orb].
  match goal with |- declR (ebind (ebind (walk_list ?cs) _) _) =>
    assert (Hk : walk_list cs = EOk ([NType a] ++ [NType b] ++ arr ++ []))
      by (apply walk_list_app_ok; [exact Ha|]; apply walk_list_app_ok; [exact Hb|]; apply walk_list_app_ok; [exact Harr|reflexivity]);
    rewrite Hk end.
  cbn [app ebind]. rewrite app_nil_r.
  assert (Ht : exists x, typedef_new (NType a :: NType b :: arr) = EOk x).
  { destruct HarrN as [->|[s [->| ->]]]; cbn [typedef_new]; [eauto|destruct (is_opaque a); eauto|eauto]. }
  destruct Ht as [x ->]. cbn [ebind]. split; [constructor|]. intros l E. inversion E; subst. repeat constructor.
Qed.

(* struct *)
Lemma W_sdf ts : D (PRef "struct_data_field") ts -> exists l, walk_list ts = EOk [NStructDataField l] /\ fieldN l.
Proof.
  intros H. dinv H. match goal with X : D (PRef "data_field") _ |- _ => destruct (W_field _ X) as (l & Hl & HlN) end.
  exists l. split; [|exact HlN]. cbn [walk_list]. rewrite walk_node. cbn [String.eqb Ascii.eqb Bool.eqb orb]. rewrite Hl. reflexivity.
Qed.

Lemma W_sdf_list tss : Forall (D (PRef "struct_data_field")) tss ->
  exists ls, walk_list (concat tss) = EOk (map NStructDataField ls) /\ Forall fieldN ls.
Proof.
  induction 1 as [|ts tss H _ (ls & Hls & HlsN)]; [exists []; split; [reflexivity|constructor]|].
  destruct (W_sdf ts H) as (l & Hl & HlN). exists (l :: ls). split; [|constructor; assumption].
  cbn [concat map]. change (NStructDataField l :: map NStructDataField ls) with ([NStructDataField l] ++ map NStructDataField ls).
  now apply walk_list_app_ok.
Qed.

Lemma W_struct ts : D (PRef "struct_type") ts -> declR (walk_list ts).
Proof.
  intros H. dinv H. repeat match goal with X : D (PSeq _ _) _ |- _ => dinv X end.
  repeat match goal with X : D (PStr _) _ |- _ => dinv X end.
  match goal with X : D (PRef "ident") _ |- _ => destruct (W_ident _ X) as [b Hb] end.
  match goal with X : D (PStar _) _ |- _ => destruct (dv_star_list _ _ _ X) as (tss & -> & Hf) end.
  destruct (W_sdf_list tss Hf) as (ls & Hls & HlsN).
  cbn [app walk_list]. rewrite walk_node. cbn [String.eqb Ascii.eqb Bool.eqb orb].
  match goal with |- declR (ebind (ebind (walk_list ?cs) _) _) =>
    assert (Hk : walk_list cs = EOk ([NType b] ++ map NStructDataField ls ++ []))
      by (apply walk_list_app_ok; [exact Hb|]; apply walk_list_app_ok; [exact Hls|reflexivity]);
    rewrite Hk end.
  cbn [app ebind]. rewrite app_nil_r. cbn [struct_new ident_str ebind].
  assert (Hf2 : only_panics [E_STRUCT] (emapM struct_field_new (map NStructDataField ls))).
  { apply op_emapM. intros x Hx. apply in_map_iff in Hx as (l & <- & Hl). apply field_new_outcome.
    exact (proj1 (Forall_forall _ _) HlsN l Hl). }
  destruct (emapM struct_field_new (map NStructDataField ls)) as [fs| |w]; cbn [ebind].
  - split; [constructor|]. intros l E. inversion E; subst. repeat constructor.
  - inversion Hf2.
  - split; [|discriminate]. inversion Hf2; subst. constructor. now apply in_sites_2.
Qed.

(* enum *)
Definition variantN (n : node) : Prop := exists a b, n = NEnumVariant [NType a; NType b].

Lemma W_variant ts : D (PRef "enum_variant") ts -> exists n, walk_list ts = EOk [n] /\ variantN n.
Proof.
  intros H. dinv H. repeat match goal with X : D (PSeq _ _) _ |- _ => dinv X end.
  repeat match goal with X : D (PStr _) _ |- _ => dinv X end.
  repeat match goal with X : D (PRef "ident") _ |- _ => destruct (D_ident _ X) as [? ->]; clear X end.
  eexists. split; [cbn [app walk_list]; rewrite walk_node; cbn; reflexivity|]. eexists _, _. reflexivity.
Qed.

Lemma W_variant_list (e : pexp) tss :
  (forall ts, D e ts -> exists n, walk_list ts = EOk [n] /\ variantN n) ->
  Forall (D e) tss -> exists ns, walk_list (concat tss) = EOk ns /\ Forall variantN ns.
Proof.
  intros He. induction 1 as [|ts tss H _ (ns & Hns & HnsN)]; [exists []; split; [reflexivity|constructor]|].
  destruct (He ts H) as (n & Hn & HnN). exists ([n] ++ ns). split; [|constructor; assumption].
  cbn [concat]. now apply walk_list_app_ok.
Qed.

Lemma variant_new_outcome n : variantN n -> only_panics [E_ENUM] (variant_new n).
Proof.
  intros (a & b & ->). cbn [variant_new ident_str ebind]. apply op_bind; [apply variant_value_outcome|intros; constructor].
Qed.

Lemma W_enum ts : D (PRef "enum_type") ts -> declR (walk_list ts).
Proof.
  intros H. dinv H. repeat match goal with X : D (PSeq _ _) _ |- _ => dinv X end.
  repeat match goal with X : D (PStr _) _ |- _ => dinv X end.
  match goal with X : D (PRef "ident") _ |- _ => destruct (W_ident _ X) as [b Hb] end.
  match goal with X : D (PPlus _) _ |- _ => destruct (dv_plus_list _ _ _ X) as (tss1 & -> & Hf1) end.
  match goal with X : D (PStar _) _ |- _ => destruct (dv_star_list _ _ _ X) as (tss2 & -> & Hf2) end.
  destruct (W_variant_list _ tss1 W_variant Hf1) as (ns1 & Hns1 & HnsN1).
  assert (He2 : forall ts, D (PSeq (PStr ",") (PRef "enum_variant")) ts -> exists n, walk_list ts = EOk [n] /\ variantN n).
  { intros ts X. dinv X. match goal with Y : D (PStr _) _ |- _ => dinv Y end. cbn [app]. now apply W_variant. }
  destruct (W_variant_list _ tss2 He2 Hf2) as (ns2 & Hns2 & HnsN2).
  cbn [app walk_list]. rewrite walk_node. cbn [String.eqb Ascii.eqb Bool.eqb orb].
  match goal with |- declR (ebind (ebind (walk_list ?cs) _) _) =>
    assert (Hk : walk_list cs = EOk ([NType b] ++ ns1 ++ ns2 ++ []))
      by (apply walk_list_app_ok; [exact Hb|]; apply walk_list_app_ok; [exact Hns1|]; apply walk_list_app_ok; [exact Hns2|reflexivity]);
    rewrite Hk end.
  cbn [app ebind]. rewrite app_nil_r. cbn [enum_new ident_str ebind].
  assert (Hv : only_panics [E_ENUM] (emapM variant_new (ns1 ++ ns2))).
  { apply op_emapM. intros x Hx. apply variant_new_outcome. apply in_app_or in Hx as [Hx|Hx];
      [exact (proj1 (Forall_forall _ _) HnsN1 x Hx)|exact (proj1 (Forall_forall _ _) HnsN2 x Hx)]. }
  destruct (emapM variant_new (ns1 ++ ns2)) as [vs| |w]; cbn [ebind].
  - split; [constructor|]. intros l E. inversion E; subst. repeat constructor.
  - inversion Hv.
  - split; [|discriminate]. inversion Hv; subst. constructor. now apply in_sites_1.
Qed.

(* union *)
Definition armN (l : list node) : Prop := l = [NUnionVoid] \/ exists f, l = [NUnionDataField f] /\ fieldN f.
Definition caseN (n : node) : Prop :=
  (exists v arm, n = NUnionCase (NType v :: arm) /\ (arm = [] \/ armN arm)) \/ (exists arm, n = NUnionDefault arm /\ armN arm).

Definition arm_exp : pexp := PChoice (PRef "union_data_field") (PRef "union_void").

Lemma W_arm ts : D arm_exp ts -> exists l, walk_list ts = EOk l /\ armN l.
Proof.
  intros H. dinv H.
  - match goal with X : D (PRef "union_data_field") _ |- _ => dinv X end.
    match goal with X : D (PRef "data_field") _ |- _ => destruct (W_field _ X) as (l & Hl & HlN) end.
    exists [NUnionDataField l]. split; [|right; eauto].
    cbn [walk_list]. rewrite walk_node. cbn [String.eqb Ascii.eqb Bool.eqb orb]. rewrite Hl. reflexivity.
  - match goal with X : D (PRef "union_void") _ |- _ => dinv X end.
    exists [NUnionVoid]. split; [|now left]. cbn [walk_list]. rewrite walk_node. reflexivity.
Qed.

Lemma W_case ts : D (PChoice (PRef "union_case") (PRef "union_default")) ts -> exists n, walk_list ts = EOk [n] /\ caseN n.
Proof.
  intros H. dinv H.
  - match goal with X : D (PRef "union_case") _ |- _ => dinv X end.
    repeat match goal with X : D (PSeq _ _) _ |- _ => dinv X end.
    repeat match goal with X : D (PStr _) _ |- _ => dinv X end.
    match goal with X : D (PRef "union_case_value") _ |- _ => dinv X end.
    match goal with X : D (PChoice (PRef "ident_value") (PRef "ident_const")) _ |- _ => destruct (W_len _ X) as [[v Hv] _] end.
    match goal with X : D (POpt _) _ |- _ => dinv X end.
    + exists (NUnionCase [NType v]). split; [|left; exists v, []; split; [reflexivity|now left]].
      cbn [app walk_list]. rewrite walk_node. cbn [String.eqb Ascii.eqb Bool.eqb orb]. rewrite app_nil_r, Hv. reflexivity.
    + match goal with X : D (PChoice (PRef "union_data_field") (PRef "union_void")) _ |- _ => destruct (W_arm _ X) as (l & Hl & HlN) end.
      exists (NUnionCase (NType v :: l)). split; [|left; exists v, l; split; [reflexivity|now right]].
      cbn [app walk_list]. rewrite walk_node. cbn [String.eqb Ascii.eqb Bool.eqb orb].
      rewrite (walk_list_app_ok _ _ _ _ Hv Hl). reflexivity.
  - match goal with X : D (PRef "union_default") _ |- _ => dinv X end.
    repeat match goal with X : D (PSeq _ _) _ |- _ => dinv X end.
    repeat match goal with X : D (PStr _) _ |- _ => dinv X end.
    match goal with X : D (PChoice (PRef "union_data_field") (PRef "union_void")) _ |- _ => destruct (W_arm _ X) as (l & Hl & HlN) end.
    exists (NUnionDefault l). split; [|right; eauto].
    cbn [app walk_list]. rewrite walk_node. cbn [String.eqb Ascii.eqb Bool.eqb orb]. rewrite Hl. reflexivity.
Qed.

Lemma W_case_list tss : Forall (D (PChoice (PRef "union_case") (PRef "union_default"))) tss ->
  exists ns, walk_list (concat tss) = EOk ns /\ Forall caseN ns.
Proof.
  induction 1 as [|ts tss H _ (ns & Hns & HnsN)]; [exists []; split; [reflexivity|constructor]|].
  destruct (W_case ts H) as (n & Hn & HnN). exists ([n] ++ ns). split; [|constructor; assumption].
  cbn [concat]. now apply walk_list_app_ok.
Qed.

Lemma case_stmt_outcome cv nodes :
  (exists v arm, nodes = NType v :: arm /\ (arm = [] \/ armN arm)) \/ armN nodes ->
  only_panics [E_UNION] (case_stmt_parse cv nodes).
Proof.
  intros [(v & arm & -> & [->|[->|(f & -> & Hf)]])|[->|(f & -> & Hf)]]; cbn [case_stmt_parse]; try constructor.
  - apply op_bind; [now apply union_case_new_outcome|intros; constructor].
  - apply op_bind; [now apply union_case_new_outcome|intros; constructor].
Qed.

Lemma union_loop_outcome ns : Forall caseN ns -> forall acc, only_panics [E_UNION] (union_loop ns acc).
Proof.
  induction 1 as [|n ns Hn _ IH]; intros acc; cbn [union_loop]; [constructor|].
  destruct Hn as [(v & arm & -> & Harm)|(arm & -> & Harm)].
  - apply op_bind; [apply case_stmt_outcome; left; eauto|]. intros st _. destruct st; apply IH.
  - apply op_bind; [apply case_stmt_outcome; now right|]. intros st _. destruct st; apply IH.
Qed.

Lemma W_union ts : D (PRef "union") ts -> declR (walk_list ts).
Proof.
  intros H. dinv H. repeat match goal with X : D (PSeq _ _) _ |- _ => dinv X end.
  repeat match goal with X : D (PStr _) _ |- _ => dinv X end.
  match goal with X : D (PChoice (PRef "ident") (PRef "basic_type")) _ |- _ => destruct (W_ty _ X) as [a Ha] end.
  match goal with X : D (PStar _) _ |- _ => destruct (dv_star_list _ _ _ X) as (tss & -> & Hf) end.
  destruct (W_case_list tss Hf) as (ns & Hns & HnsN).
  repeat match goal with X : D (PRef "ident") ?t |- _ => let b := fresh "b" in let Hb := fresh "Hb" in destruct (W_ident _ X) as [b Hb]; clear X end.
  cbn [app walk_list]. rewrite walk_node. cbn [String.eqb Ascii.eqb Bool.eqb orb].
  match goal with |- declR (ebind (ebind (walk_list (?t1 ++ ?t2 ++ ?t3 ++ _)) _) _) =>
    match goal with H1 : walk_list t1 = EOk [NType ?x1], H3 : walk_list t3 = EOk [NType ?x3] |- _ =>
      assert (Hk : walk_list (t1 ++ t2 ++ t3 ++ concat tss ++ []) = EOk ([NType x1] ++ [NType a] ++ [NType x3] ++ ns ++ []))
        by (apply walk_list_app_ok; [exact H1|]; apply walk_list_app_ok; [exact Ha|]; apply walk_list_app_ok; [exact H3|];
            apply walk_list_app_ok; [exact Hns|reflexivity]);
      rewrite Hk end end.
  cbn [app ebind]. rewrite app_nil_r. cbn [union_new ident_str ebind].
  pose proof (union_loop_outcome ns HnsN {| ua_cases := []; ua_default := None; ua_void := []; ua_pending := [] |}) as Hu.
  destruct (union_loop ns _) as [acc| |w]; cbn [ebind].
  - split; [constructor|]. intros l E. inversion E; subst. repeat constructor.
  - inversion Hu.
  - split; [|discriminate]. inversion Hu; subst. constructor. now apply in_sites_3.
Qed.

(* ---------- the declaration list ---------- *)

Definition decl_exp : pexp :=
  PChoice (PRef "constant") (PChoice (PRef "typedef") (PChoice (PRef "enum_type") (PChoice (PRef "struct_type") (PRef "union")))).

Lemma W_decl ts : D decl_exp ts -> declR (walk_list ts).
Proof.
  intros H. dinv H; [now apply W_constant|].
  match goal with X : D (PChoice _ _) _ |- _ => dinv X end; [now apply W_typedef|].
  match goal with X : D (PChoice _ _) _ |- _ => dinv X end; [now apply W_enum|].
  match goal with X : D (PChoice _ _) _ |- _ => dinv X end; [now apply W_struct|now apply W_union].
Qed.

Lemma declR_app a b : declR (walk_list a) -> declR (walk_list b) -> declR (walk_list (a ++ b)).
Proof.
  intros [Ha Sa] [Hb Sb]. rewrite walk_list_app_gen.
  destruct (walk_list a) as [na| |wa]; cbn [ebind].
  - destruct (walk_list b) as [nb| |wb]; cbn [ebind].
    + split; [constructor|]. intros l E. inversion E; subst. apply Forall_app. split; [now apply Sa|now apply Sb].
    + inversion Hb.
    + split; [exact Hb|discriminate].
  - inversion Ha.
  - split; [exact Ha|discriminate].
Qed.

Lemma W_decl_list tss : Forall (D decl_exp) tss -> declR (walk_list (concat tss)).
Proof.
  induction 1 as [|ts tss H _ IH]; cbn [concat].
  - split; [constructor|]. intros l E. inversion E. constructor.
  - apply declR_app; [now apply W_decl|exact IH].
Qed.

Definition FRONT_SITES : list string := [E_ENUM; E_CONST; E_STRUCT; E_UNION].

(* every derivation of `item` *)
Theorem derivation_total t : D (PRef "item") [t] -> only_panics FRONT_SITES (ast_new t).
Proof.
  intros H. dinv H. repeat match goal with X : D (PSeq _ _) _ |- _ => dinv X end.
  match goal with X : D PSoi _ |- _ => dinv X end. match goal with X : D PEoi _ |- _ => dinv X end.
  match goal with X : D (PStar _) _ |- _ => destruct (dv_star_list _ _ _ X) as (tss & -> & Hf) end.
  destruct (W_decl_list tss Hf) as [Hop Hshape].
  unfold ast_new. rewrite walk_node. cbn [String.eqb Ascii.eqb Bool.eqb orb app].
  rewrite walk_list_app_gen. cbn [walk_list]. rewrite walk_node. cbn [String.eqb Ascii.eqb Bool.eqb orb ebind].
  destruct (walk_list (concat tss)) as [items| |w]; cbn [ebind].
  - cbn [ast_of_root]. apply op_bind; [|intros; constructor].
    eapply op_weaken; [|apply const_index_outcome].
    + intros x [<-|[]]. right. now left.
    + apply Forall_app. split; [now apply Hshape|repeat constructor].
  - inversion Hop.
  - inversion Hop; subst. constructor.
    match goal with X : In w SITES |- _ => destruct X as [<-|[<-|[<-|[]]]] end; cbn; tauto.
Qed.

(* every text: whatever the parser accepts, Ast::new returns Ok or panics at a recorded site *)
Theorem front_all text fuel t s' :
  parse G fuel text = POk [t] s' -> only_panics FRONT_SITES (ast_new t).
Proof. unfold parse. intros H. apply derivation_total. exact (run_derives G _ _ _ _ _ _ H). Qed.

(* ... and the parser returns exactly one tree *)
Theorem parse_one_tree text fuel ts s' : parse G fuel text = POk ts s' -> exists t, ts = [t].
Proof.
  unfold parse. intros H. pose proof (run_derives G _ _ _ _ _ _ H) as Hd. dinv Hd. eauto.
Qed.
