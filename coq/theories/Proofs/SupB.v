(* A decidable version of the hypothesis `sup` of the C01/C02 theorems, with its soundness:
   sup_b A = true -> sup A.  The checks evaluate sup_b on every specification of the corpus,
   so the evidence says how many of them the theorems apply to; the non-vacuity examples are
   closed by computation. *)
From XdrProofs Require Export UnionProofs.
Open Scope list_scope.

Fixpoint nodupb (l : list string) : bool :=
  match l with [] => true | x :: r => negb (mem x r) && nodupb r end.

Lemma nodupb_NoDup l : nodupb l = true -> NoDup l.
Proof.
  induction l as [|x r IH]; intros H; [constructor|]. cbn [nodupb] in H.
  apply Bool.andb_true_iff in H as [H1 H2]. constructor; [|now apply IH].
  intros C. apply mem_In in C. rewrite C in H1. discriminate.
Qed.

Definition vv_eqb (a b : variant_value) : bool :=
  match a, b with VNum x, VNum y => Z.eqb x y | VStr x, VStr y => String.eqb x y | _, _ => false end.

Lemma vv_eqb_eq a b : vv_eqb a b = true -> a = b.
Proof.
  destruct a, b; cbn; try discriminate; intros H.
  - apply Z.eqb_eq in H. now subst.
  - apply String.eqb_eq in H. now subst.
Qed.

Lemma vv_eqb_refl a : vv_eqb a a = true.
Proof. destruct a; cbn; [apply Z.eqb_refl|apply String.eqb_refl]. Qed.

Fixpoint nodupv (l : list variant_value) : bool :=
  match l with [] => true | x :: r => negb (existsb (vv_eqb x) r) && nodupv r end.

Lemma nodupv_NoDup l : nodupv l = true -> NoDup l.
Proof.
  induction l as [|x r IH]; intros H; [constructor|]. cbn [nodupv] in H.
  apply Bool.andb_true_iff in H as [H1 H2]. constructor; [|now apply IH].
  intros C. apply Bool.negb_true_iff in H1.
  assert (existsb (vv_eqb x) r = true) by (apply existsb_exists; exists x; split; [exact C|apply vv_eqb_refl]).
  congruence.
Qed.

Definition bound_okb (s : array_size) : bool :=
  match s with Known k => (k <? 4294967296)%N | Constant _ => true end.

Definition safe_refb (t : basic_type) : bool :=
  match t with Ident n => String.eqb (as_safe_string (Ident n)) n | _ => true end.

Definition is_ident (t : basic_type) : bool := match t with Ident _ => true | _ => false end.
Definition is_tstring (t : basic_type) : bool := match t with TString => true | _ => false end.

Definition pos_okb (a : array_type) (opt : bool) : bool :=
  safe_refb (unwrap_array a) &&
  (if opt then match a with ANone (Ident _) => true | _ => false end else true) &&
  match a with
  | AVar t s => (is_opaque t || is_tstring t || is_ident t) &&
                match s with Some s => bound_okb s | None => true end
  | AFixed t s => negb (is_tstring t) && bound_okb s
  | ANone _ => true
  end.

Lemma pos_okb_ok a opt : pos_okb a opt = true -> pos_ok a opt.
Proof.
  unfold pos_okb, pos_ok. intros H. apply Bool.andb_true_iff in H as [H H3].
  apply Bool.andb_true_iff in H as [H1 H2]. split; [|split].
  - unfold safe_refb in H1. destruct (unwrap_array a); try exact I. now apply String.eqb_eq.
  - intros ->. destruct a as [[| | | | | | | | |n]| |]; try discriminate. eauto.
  - destruct a as [t|t s|t s]; [exact I| |].
    + apply Bool.andb_true_iff in H3 as [Ha Hb]. split.
      * destruct t; cbn in Ha; congruence.
      * destruct s; cbn in *; [now apply N.ltb_lt|exact I].
    + apply Bool.andb_true_iff in H3 as [Ha Hb]. split.
      * destruct t; cbn in Ha; try discriminate; eauto.
      * destruct s as [[k|c]|]; cbn in *; try exact I. now apply N.ltb_lt.
Qed.

Definition field_okb (f : struct_field) : bool :=
  (if sf_optional f then negb (is_opaque (unwrap_array (sf_value f))) else true) &&
  pos_okb (sf_value f) (sf_optional f).

Definition disc_okb (A : ast) (u : union_t) : bool :=
  match disc_type A u with
  | U32 | I32 | TBool => true
  | Ident e => match get_type A e with Some (TEnum _) => true | _ => false end
  | _ => false
  end.

Lemma disc_okb_ok A u : disc_okb A u = true -> disc_ok A u.
Proof.
  unfold disc_okb, disc_ok. destruct (disc_type A u) eqn:E; try discriminate; intros H; eauto.
  destruct (get_type A s) as [[| |en|]|] eqn:G; try discriminate. right; right; right. eauto.
Qed.

Definition int_discb (A : ast) (u : union_t) : bool :=
  match disc_type A u with U32 | I32 => true | _ => false end.

Definition lit_okb (s : string) : bool := match lit_value s with Some _ => true | None => false end.

Definition label_okb (A : ast) (u : union_t) (l : string) : bool :=
  match get_const A l with
  | Some (ConstValue v) => int_discb A u && lit_okb v
  | Some (EnumValue e m) =>
    (basic_type_eqb (un_sw_type u) (Ident e) || basic_type_eqb (un_sw_type u) U32 || basic_type_eqb (un_sw_type u) I32) &&
    match get_type A e with
    | Some (TEnum en) => existsb (fun p => String.eqb (fst p) m) (en_variants en)
    | _ => false
    end
  | None => (match disc_type A u with TBool => true | _ => false end &&
             (String.eqb l "TRUE" || String.eqb l "FALSE")) ||
            (int_discb A u && lit_okb l)
  end.

Lemma int_discb_ok A u : int_discb A u = true -> int_disc A u.
Proof. unfold int_discb, int_disc. destruct (disc_type A u); try discriminate; eauto. Qed.

Lemma lit_okb_ok s : lit_okb s = true -> exists z, lit_value s = Some z.
Proof. unfold lit_okb. destruct (lit_value s); [eauto|discriminate]. Qed.

Lemma label_okb_ok A u l : label_okb A u l = true -> label_ok A u l.
Proof.
  unfold label_okb, label_ok. destruct (get_const A l) as [[v|e m]|].
  - intros H. apply Bool.andb_true_iff in H as [H1 H2]. split; [now apply int_discb_ok|now apply lit_okb_ok].
  - intros H. apply Bool.andb_true_iff in H as [H1 H2]. split.
    + destruct (un_sw_type u); cbn in H1; try discriminate; try (right; (now left) || (now right)).
      rewrite !Bool.orb_false_r in H1. apply String.eqb_eq in H1. subst. now left.
    + destruct (get_type A e) as [[| |en|]|]; try discriminate.
      apply existsb_exists in H2 as [[m' vv] [Hin Hm]]. cbn in Hm. apply String.eqb_eq in Hm. subst m'.
      exists en, vv. split; [reflexivity|exact Hin].
  - intros H. apply Bool.orb_true_iff in H as [H|H].
    + apply Bool.andb_true_iff in H as [H1 H2]. left. split.
      * destruct (disc_type A u); try discriminate. reflexivity.
      * apply Bool.orb_true_iff in H2 as [H2|H2]; apply String.eqb_eq in H2; [now left|now right].
    + apply Bool.andb_true_iff in H as [H1 H2]. right. split; [now apply int_discb_ok|now apply lit_okb_ok].
Qed.

Definition union_allb (A : ast) (u : union_t) : bool :=
  disc_okb A u && nodupb (arm_names u) && negb (mem "default" (arm_names u)) &&
  forallb (fun c => pos_okb (uc_value c) false && forallb (label_okb A u) (uc_values c)) (un_cases u) &&
  match un_default u with
  | Some c => pos_okb (uc_value c) false && negb (mem "default" (un_void u))
  | None => true
  end &&
  forallb (fun l => String.eqb l "default" || label_okb A u l) (un_void u).

Definition typedef_okb (n : string) (t : typedef_t) : bool :=
  basic_type_eqb (unwrap_array (td_alias t)) (Ident n) &&
  pos_okb (typedef_pos t) false &&
  match td_alias t with AVar _ _ => is_ident (td_target t) | _ => true end.

Definition enum_okb (e : enum_t) : bool :=
  forallb (fun p => match snd p with VNum x => (Z.leb 0 x && Z.ltb x 2147483648)%bool | VStr _ => false end) (en_variants e) &&
  nodupv (map snd (en_variants e)).

Definition type_okb (A : ast) (k : string) (t : ast_type) : bool :=
  String.eqb (ast_type_name t) k && String.eqb (as_safe_string (Ident k)) k &&
  match t with
  | TStruct s => forallb field_okb (st_fields s)
  | TUnion u => union_allb A u
  | TEnum e => enum_okb e
  | TTypedef t => typedef_okb k t
  end.

Definition sup_b (A : ast) : bool := forallb (fun kv => type_okb A (fst kv) (snd kv)) (types A).

Theorem sup_b_sound A : sup_b A = true -> sup A.
Proof.
  intros H. unfold sup_b in H.
  assert (Hall : forall k t, In (k, t) (types A) -> type_okb A k t = true).
  { intros k t Hin. exact (proj1 (forallb_forall _ _) H (k, t) Hin). }
  assert (Hget : forall n t, get_type A n = Some t -> type_okb A n t = true).
  { intros n t G. apply Hall. now apply assoc_In. }
  clear H.
  assert (Hkeys : keys_ok A).
  { intros k t Hin. specialize (Hall k t Hin). unfold type_okb in Hall.
    apply Bool.andb_true_iff in Hall as [Hall _]. apply Bool.andb_true_iff in Hall as [Hall _].
    now apply String.eqb_eq. }
  constructor; [constructor|].
  - (* wf_size *)
    split; [exact Hkeys|]. intros n t G. specialize (Hget n t G). unfold type_okb in Hget.
    apply Bool.andb_true_iff in Hget as [_ Ht]. destruct t as [s|u|e|td]; cbn [wf_type]; try exact I.
    + apply Forall_forall. intros f Hf. pose proof (proj1 (forallb_forall _ _) Ht f Hf) as X.
      unfold field_okb in X. apply Bool.andb_true_iff in X as [X _]. unfold wf_field. intros Ho.
      rewrite Ho in X. now apply Bool.negb_true_iff in X.
    + unfold union_allb in Ht. repeat (apply Bool.andb_true_iff in Ht as [Ht ?]).
      split; [now apply disc_okb_ok|]. split; [now apply nodupb_NoDup|].
      intros C. apply mem_In in C. match goal with X : negb (mem "default" (arm_names u)) = true |- _ => rewrite C in X; discriminate end.
  - (* keys safe *)
    intros n t G. specialize (Hget n t G). unfold type_okb in Hget.
    apply Bool.andb_true_iff in Hget as [Hget _]. apply Bool.andb_true_iff in Hget as [_ Hs].
    now apply String.eqb_eq.
  - (* structs *)
    intros n s G. specialize (Hget n _ G). unfold type_okb in Hget.
    apply Bool.andb_true_iff in Hget as [_ Ht]. apply Forall_forall. intros f Hf.
    pose proof (proj1 (forallb_forall _ _) Ht f Hf) as X. unfold field_okb in X.
    apply Bool.andb_true_iff in X as [_ X]. now apply pos_okb_ok.
  - (* typedefs *)
    intros n t G. specialize (Hget n _ G). unfold type_okb in Hget.
    apply Bool.andb_true_iff in Hget as [_ Ht]. unfold typedef_okb in Ht.
    apply Bool.andb_true_iff in Ht as [Ht H3]. apply Bool.andb_true_iff in Ht as [H1 H2].
    split; [|split].
    + destruct (unwrap_array (td_alias t)); cbn in H1; try discriminate. apply String.eqb_eq in H1. now subst.
    + now apply pos_okb_ok.
    + destruct (td_alias t); try exact I. destruct (td_target t); try discriminate. eauto.
  - (* enums *)
    intros n e G. specialize (Hget n _ G). unfold type_okb in Hget.
    apply Bool.andb_true_iff in Hget as [_ Ht]. unfold enum_okb in Ht.
    apply Bool.andb_true_iff in Ht as [H1 H2]. split; [|now apply nodupv_NoDup].
    intros p Hp. pose proof (proj1 (forallb_forall _ _) H1 p Hp) as X.
    cbv beta in X. destruct (snd p); [|discriminate]. exists z. split; [reflexivity|].
    apply Bool.andb_true_iff in X as [X1 X2]. apply Z.leb_le in X1. apply Z.ltb_lt in X2. lia.
  - (* union arms positions *)
    intros n u G. specialize (Hget n _ G). unfold type_okb in Hget.
    apply Bool.andb_true_iff in Hget as [_ Ht]. unfold union_allb in Ht.
    repeat (apply Bool.andb_true_iff in Ht as [Ht ?]). split.
    + apply Forall_forall. intros c Hc.
      match goal with X : forallb _ (un_cases u) = true |- _ => pose proof (proj1 (forallb_forall _ _) X c Hc) as Y end.
      apply Bool.andb_true_iff in Y as [Y _]. now apply pos_okb_ok.
    + intros c Hc. match goal with X : match un_default u with _ => _ end = true |- _ => rewrite Hc in X;
        apply Bool.andb_true_iff in X as [X _]; now apply pos_okb_ok end.
  - (* union labels *)
    intros n u G. specialize (Hget n _ G). unfold type_okb in Hget.
    apply Bool.andb_true_iff in Hget as [_ Ht]. unfold union_allb in Ht.
    repeat (apply Bool.andb_true_iff in Ht as [Ht ?]).
    split; [|split].
    + intros c l Hc Hl.
      match goal with X : forallb _ (un_cases u) = true |- _ => pose proof (proj1 (forallb_forall _ _) X c Hc) as Y end.
      apply Bool.andb_true_iff in Y as [_ Y]. apply label_okb_ok. exact (proj1 (forallb_forall _ _) Y l Hl).
    + intros l Hl Hnd.
      match goal with X : forallb _ (un_void u) = true |- _ => pose proof (proj1 (forallb_forall _ _) X l Hl) as Y end.
      apply Bool.orb_true_iff in Y as [Y|Y]; [apply String.eqb_eq in Y; contradiction|now apply label_okb_ok].
    + intros c Hc Hin. match goal with X : match un_default u with _ => _ end = true |- _ => rewrite Hc in X;
        apply Bool.andb_true_iff in X as [_ X]; apply mem_In in Hin; rewrite Hin in X; discriminate end.
Qed.
