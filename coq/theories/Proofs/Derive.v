(* C14, generic part: whatever the PEG interpreter returns is a DERIVATION of the grammar -- the
   children of every node are what the body of its rule can produce.  Nothing here mentions a
   particular grammar. *)
From Coq Require Import Lia PeanoNat.
From XdrProofs Require Export PegProofs.
Open Scope string_scope.
Open Scope list_scope.

Section Deriv.
  Variable g : grammar.

  Definition special (r : string) : bool := (String.eqb r "WHITESPACE" || String.eqb r "COMMENT")%bool.

  (* in quiet mode no tree is produced *)
  Lemma run_quiet : forall f e a soi s ts s', run g f e a true soi s = POk ts s' -> ts = [].
  Proof.
    induction f as [|f IH]; intros e a soi s ts s' H; [discriminate|].
    destruct e; cbn [run] in H.
    - destruct (strip_prefix s0 s); inversion H; reflexivity.
    - destruct s as [|c r]; [discriminate|]. destruct (in_range lo c hi); inversion H; reflexivity.
    - destruct s; inversion H; reflexivity.
    - destruct soi; inversion H; reflexivity.
    - destruct s; inversion H; reflexivity.
    - destruct (lookup g rule) as [[k body]|]; [|discriminate].
      destruct (run g f body _ _ soi s) as [| |t1 s1]; try discriminate. cbn [orb] in H. inversion H; reflexivity.
    - destruct (run g f e1 a true soi s) as [| |t1 s1] eqn:E1; try discriminate.
      assert (Hsk : exists s1', (if a then POk [] s1 else match run g f skip_exp true true false s1 with
                                 | POk _ x => POk [] x | PFail => POk [] s1 | PFuel => PFuel end) = POk [] s1' \/
                                (if a then POk [] s1 else match run g f skip_exp true true false s1 with
                                 | POk _ x => POk [] x | PFail => POk [] s1 | PFuel => PFuel end) = PFuel).
      { destruct a; [exists s1; now left|]. destruct (run g f skip_exp true true false s1) as [| |? x]; [exists s1; now left|exists s1; now right|exists x; now left]. }
      destruct Hsk as [s1' [Hsk|Hsk]]; rewrite Hsk in H; [|discriminate].
      destruct (run g f e2 a true _ s1') as [| |t2 s2] eqn:E2; try discriminate. inversion H; subst.
      now rewrite (IH _ _ _ _ _ _ E1), (IH _ _ _ _ _ _ E2).
    - destruct (run g f e1 a true soi s) as [| |t1 s1] eqn:E1; try discriminate.
      + now apply (IH _ _ _ _ _ _ H).
      + inversion H; subst. now apply (IH _ _ _ _ _ _ E1).
    - destruct (run g f e a true soi s) as [| |t1 s1] eqn:E1; try discriminate.
      + inversion H; reflexivity.
      + inversion H; subst. now apply (IH _ _ _ _ _ _ E1).
    - destruct (run g f e a true soi s) as [| |t1 s1] eqn:E1; try discriminate.
      + inversion H; reflexivity.
      + destruct (run g f (PStarRest e) a true false s1) as [| |t2 s2] eqn:E2; try discriminate. inversion H; subst.
        now rewrite (IH _ _ _ _ _ _ E1), (IH _ _ _ _ _ _ E2).
    - now apply (IH _ _ _ _ _ _ H).
    - destruct (run g f e a true soi s) as [| |t1 s1]; try discriminate. inversion H; reflexivity.
    - set (sk := if a then POk [] s else match run g f skip_exp true true false s with
                                        | POk _ x => POk [] x | PFail => POk [] s | PFuel => PFuel end) in H.
      destruct sk as [| |t0 s0'] eqn:Es; try discriminate.
      destruct (run g f e a true false s0') as [| |t1 s1] eqn:E1; try discriminate.
      + inversion H; reflexivity.
      + destruct (run g f (PStarRest e) a true false s1) as [| |t2 s2] eqn:E2; try discriminate. inversion H; subst.
        now rewrite (IH _ _ _ _ _ _ E1), (IH _ _ _ _ _ _ E2).
  Qed.

  (* what an expression can produce outside quiet mode *)
  Inductive Dv : pexp -> list tree -> Prop :=
  | dv_str p : Dv (PStr p) []
  | dv_range lo hi : Dv (PRange lo hi) []
  | dv_any : Dv PAny []
  | dv_soi : Dv PSoi []
  | dv_eoi : Dv PEoi [Node "EOI" "" []]
  | dv_not e : Dv (PNot e) []
  | dv_ref_silent r body ts : lookup g r = Some (Silent, body) -> Dv body ts -> Dv (PRef r) ts
  | dv_ref_special r body : lookup g r = Some (Silent, body) -> special r = true -> Dv (PRef r) []
  | dv_ref_node r body sp ts : lookup g r = Some (Normal, body) -> Dv body ts -> Dv (PRef r) [Node r sp ts]
  | dv_ref_leaf r k body sp : lookup g r = Some (k, body) -> k <> Silent -> (is_atomic k || special r)%bool = true ->
                              Dv (PRef r) [Node r sp []]
  | dv_seq a b t1 t2 : Dv a t1 -> Dv b t2 -> Dv (PSeq a b) (t1 ++ t2)
  | dv_choice_l a b ts : Dv a ts -> Dv (PChoice a b) ts
  | dv_choice_r a b ts : Dv b ts -> Dv (PChoice a b) ts
  | dv_opt_none a : Dv (POpt a) []
  | dv_opt_some a ts : Dv a ts -> Dv (POpt a) ts
  | dv_star_nil a : Dv (PStar a) []
  | dv_star_cons a t1 t2 : Dv a t1 -> Dv (PStarRest a) t2 -> Dv (PStar a) (t1 ++ t2)
  | dv_rest_nil a : Dv (PStarRest a) []
  | dv_rest_cons a t1 t2 : Dv a t1 -> Dv (PStarRest a) t2 -> Dv (PStarRest a) (t1 ++ t2)
  | dv_plus a ts : Dv (PSeq a (PStar a)) ts -> Dv (PPlus a) ts.

  Theorem run_derives : forall f e soi s ts s', run g f e false false soi s = POk ts s' -> Dv e ts.
  Proof.
    induction f as [|f IH]; intros e soi s ts s' H; [discriminate|].
    destruct e; cbn [run] in H.
    - destruct (strip_prefix s0 s); inversion H; constructor.
    - destruct s as [|c r]; [discriminate|]. destruct (in_range lo c hi); inversion H; constructor.
    - destruct s; inversion H; constructor.
    - destruct soi; inversion H; constructor.
    - destruct s; inversion H; constructor.
    - destruct (lookup g rule) as [[k body]|] eqn:El; [|discriminate]. cbn [orb] in H. fold (special rule) in H.
      destruct (run g f body _ _ soi s) as [| |t1 s1] eqn:E1; try discriminate. inversion H; subst. clear H.
      destruct (is_atomic k || special rule)%bool eqn:Ef.
      + (* the body ran quietly *)
        replace (is_atomic k || false || special rule)%bool with true in E1 by (destruct (is_atomic k); cbn in *; congruence).
        replace (false || is_atomic k || special rule)%bool with true in E1 by (destruct (is_atomic k); cbn in *; congruence).
        rewrite (run_quiet _ _ _ _ _ _ _ E1). destruct k.
        * eapply dv_ref_leaf; [exact El|discriminate|exact Ef].
        * cbn in Ef. eapply dv_ref_special; [exact El|exact Ef].
        * eapply dv_ref_leaf; [exact El|discriminate|exact Ef].
      + replace (is_atomic k || false || special rule)%bool with false in E1 by (destruct (is_atomic k); cbn in *; congruence).
        replace (false || is_atomic k || special rule)%bool with false in E1 by (destruct (is_atomic k); cbn in *; congruence).
        pose proof (IH _ _ _ _ _ E1) as Hd. destruct k.
        * eapply dv_ref_node; [exact El|exact Hd].
        * eapply dv_ref_silent; [exact El|exact Hd].
        * cbn in Ef. discriminate.
    - destruct (run g f e1 false false soi s) as [| |t1 s1] eqn:E1; try discriminate.
      destruct (run g f skip_exp true true false s1) as [| |t0 s1']; try discriminate.
      + destruct (run g f e2 false false _ s1) as [| |t2 s2] eqn:E2; try discriminate. inversion H; subst.
        constructor; [now apply (IH _ _ _ _ _ E1)|now apply (IH _ _ _ _ _ E2)].
      + destruct (run g f e2 false false _ s1') as [| |t2 s2] eqn:E2; try discriminate. inversion H; subst.
        constructor; [now apply (IH _ _ _ _ _ E1)|now apply (IH _ _ _ _ _ E2)].
    - destruct (run g f e1 false false soi s) as [| |t1 s1] eqn:E1; try discriminate.
      + apply dv_choice_r. now apply (IH _ _ _ _ _ H).
      + inversion H; subst. apply dv_choice_l. now apply (IH _ _ _ _ _ E1).
    - destruct (run g f e false false soi s) as [| |t1 s1] eqn:E1; try discriminate.
      + inversion H; constructor.
      + inversion H; subst. apply dv_opt_some. now apply (IH _ _ _ _ _ E1).
    - destruct (run g f e false false soi s) as [| |t1 s1] eqn:E1; try discriminate.
      + inversion H; constructor.
      + destruct (run g f (PStarRest e) false false false s1) as [| |t2 s2] eqn:E2; try discriminate. inversion H; subst.
        apply dv_star_cons; [now apply (IH _ _ _ _ _ E1)|now apply (IH _ _ _ _ _ E2)].
    - constructor. now apply (IH _ _ _ _ _ H).
    - destruct (run g f e false true soi s) as [| |t1 s1]; try discriminate. inversion H; constructor.
    - destruct (run g f skip_exp true true false s) as [| |t0 s0'] eqn:Es; try discriminate.
      + destruct (run g f e false false false s) as [| |t1 s1] eqn:E1; try discriminate.
        * inversion H; constructor.
        * destruct (run g f (PStarRest e) false false false s1) as [| |t2 s2] eqn:E2; try discriminate. inversion H; subst.
          apply dv_rest_cons; [now apply (IH _ _ _ _ _ E1)|now apply (IH _ _ _ _ _ E2)].
      + destruct (run g f e false false false s0') as [| |t1 s1] eqn:E1; try discriminate.
        * inversion H; constructor.
        * destruct (run g f (PStarRest e) false false false s1) as [| |t2 s2] eqn:E2; try discriminate. inversion H; subst.
          apply dv_rest_cons; [now apply (IH _ _ _ _ _ E1)|now apply (IH _ _ _ _ _ E2)].
  Qed.
End Deriv.

(* repetitions as lists of iterations *)
Section DerivLists.
  Variable g : grammar.

  Lemma dv_rest_list a ts : Dv g (PStarRest a) ts -> exists tss, ts = concat tss /\ Forall (Dv g a) tss.
  Proof.
    intros H. remember (PStarRest a) as e eqn:E. induction H; try discriminate; inversion E; subst.
    - exists []. split; [reflexivity|constructor].
    - destruct (IHDv2 eq_refl) as (tss & -> & Hf). exists (t1 :: tss). split; [reflexivity|constructor; assumption].
  Qed.

  Lemma dv_star_list a ts : Dv g (PStar a) ts -> exists tss, ts = concat tss /\ Forall (Dv g a) tss.
  Proof.
    intros H. inversion H; subst.
    - exists []. split; [reflexivity|constructor].
    - match goal with X : Dv g (PStarRest a) _ |- _ => destruct (dv_rest_list a _ X) as (tss & -> & Hf) end.
      exists (t1 :: tss). split; [reflexivity|constructor; assumption].
  Qed.

  Lemma dv_plus_list a ts : Dv g (PPlus a) ts -> exists tss, ts = concat tss /\ Forall (Dv g a) tss.
  Proof.
    intros H. inversion H; subst. match goal with X : Dv g (PSeq a (PStar a)) _ |- _ => inversion X; subst end.
    match goal with X : Dv g (PStar a) _ |- _ => destruct (dv_star_list a _ X) as (tss & -> & Hf) end.
    exists (t1 :: tss). split; [reflexivity|constructor; assumption].
  Qed.
End DerivLists.
