(* C02: the emitted wire_size() of the decoded form of a well-typed value, characterised
   exactly: it is the length of the RFC 4506 encoding minus 4 bytes for every inline
   variable-length opaque field/arm the value contains (finding F1). *)
From XdrProofs Require Export GenFacts SpecProofs.
Open Scope N_scope.
Open Scope list_scope.

Definition adj (x : xval) : N := if is_opaque_v x then 1 else 0.

(* ---------- the hypotheses on the specification that C02 needs ---------- *)

Definition wf_field (f : struct_field) : Prop :=
  sf_optional f = true -> is_opaque (unwrap_array (sf_value f)) = false.

Definition arm_names (u : union_t) : list string :=
  map variant_name (flat_map uc_values (un_cases u)).

Definition disc_ok (A : ast) (u : union_t) : Prop :=
  disc_type A u = U32 \/ disc_type A u = I32 \/ disc_type A u = TBool \/
  exists e en, disc_type A u = Ident e /\ get_type A e = Some (TEnum en).

Definition wf_union (A : ast) (u : union_t) : Prop :=
  disc_ok A u /\ NoDup (arm_names u) /\ ~ In "default"%string (arm_names u).

Definition wf_type (A : ast) (t : ast_type) : Prop :=
  match t with
  | TStruct s => Forall wf_field (st_fields s)
  | TUnion u => wf_union A u
  | _ => True
  end.

Definition wf_size (A : ast) : Prop :=
  keys_ok A /\ forall n t, get_type A n = Some t -> wf_type A t.

(* ---------- small facts ---------- *)

Lemma documented_variant_eq l : documented_variant l = variant_name l.
Proof. destruct l as [|c r]; reflexivity. Qed.

Lemma assoc_NoDup {V} k (v : V) l :
  NoDup (map fst l) -> In (k, v) l -> assoc k l = Some v.
Proof.
  induction l as [|[k' v'] r IH]; intros Hnd Hin; [contradiction|].
  cbn [map fst] in Hnd. inversion Hnd as [|? ? Hn Hr]; subst. cbn [assoc].
  destruct Hin as [E|Hin].
  - inversion E; subst. now rewrite String.eqb_refl.
  - destruct (String.eqb_spec k k') as [->|_].
    + exfalso. apply Hn. apply in_map_iff. exists (k', v). split; [reflexivity|exact Hin].
    + now apply IH.
Qed.

Lemma assoc_notin {V} k (l : list (string * V)) : ~ In k (map fst l) -> assoc k l = None.
Proof.
  induction l as [|[k' v'] r IH]; intros H; cbn [assoc]; [reflexivity|].
  destruct (String.eqb_spec k k') as [->|_].
  - exfalso. apply H. now left.
  - apply IH. intros C. apply H. now right.
Qed.

Lemma find_some_in {X} (p : X -> bool) l x : find p l = Some x -> In x l /\ p x = true.
Proof. apply find_some. Qed.

Lemma len_mkview a o bs : len (vdata (mkview a o bs)) = len bs.
Proof. destruct bs; reflexivity. Qed.

Lemma len_be_enc4 n : len (be_enc 4 n) = 4.
Proof. now rewrite len_be_enc. Qed.
Lemma len_be_enc8 n : len (be_enc 8 n) = 8.
Proof. now rewrite len_be_enc. Qed.

Section Size.
  Variable A : ast.
  Variable md : module_ir.
  Hypothesis Hgen : gen A = EOk md.
  Hypothesis Hwf : wf_size A.

  Let Hkeys : keys_ok A := proj1 Hwf.

  (* the size arm list the emitter writes for a union *)
  Definition size_arms (u : union_t) : list (string * bool) :=
    flat_map (fun c => map (fun l => (variant_name l, contains_opaque (uc_value c))) (uc_values c))
             (un_cases u).

  Lemma size_arms_names u : map fst (size_arms u) = arm_names u.
  Proof.
    unfold size_arms, arm_names. induction (un_cases u) as [|c r IH]; [reflexivity|].
    cbn [flat_map]. rewrite !map_app, IH. f_equal. rewrite !map_map. reflexivity.
  Qed.

  Definition PN (n : string) (x : xval) : Prop :=
    is_opaque_v x = false /\
    forall a o, exists w, wsz md (rv a o x) = Some w /\ w + 4 * nF1 x = len (enc x).

  Definition PF (fs : list struct_field) (vs : list xval) : Prop :=
    Forall wf_field fs ->
    forall a o, exists w,
      zip_sizes (map (fun f => (safe_name (sf_name f), contains_opaque (sf_value f))) fs)
                (map (wsz md) (rv_list a o vs)) = Some w /\
      w + 4 * (nF1_direct vs + nF1_sum vs) = len (concat (map enc vs)).

  Definition PP (t : array_type) (opt : bool) (x : xval) : Prop :=
    (opt = true -> is_opaque (unwrap_array t) = false) ->
    (is_opaque_v x = true -> contains_opaque t = true) /\
    forall a o, exists w,
      wsz md (rv a o x) = Some w /\
      padded (contains_opaque t) w + 4 * (adj x + nF1 x) = len (enc x).

  Definition PArm (ty : option array_type) (arm : option xval) : Prop :=
    match ty, arm with
    | Some t, Some y =>
      forall a o, exists w,
        wsz md (rv a o y) = Some w /\
        padded (contains_opaque t) w + 4 * (adj y + nF1 y) = len (enc y)
    | _, _ => True
    end.

  Definition PL (t : basic_type) (l : list xval) : Prop :=
    is_opaque t = false ->
    forall a o, exists x,
      sum_opt (map (wsz md) (rv_list a o l)) = Some x /\ x mod 4 = 0 /\
      x + 4 * nF1_sum l = len (concat (map enc l)).

  Definition PB (t : basic_type) (x : xval) : Prop :=
    forall a o, exists w,
      wsz md (rv a o x) = Some w /\
      if is_opaque t then (exists bs, x = XOpaqueV bs /\ w = len bs)
      else (is_opaque_v x = false /\ w + 4 * nF1 x = len (enc x)).

  Lemma disc_shape u d :
    disc_ok A u -> TypedB A (disc_type A u) d -> len (enc d) = 4 /\ nF1 d = 0.
  Proof.
    intros [E|[E|[E|[e [en [E Hen]]]]]] H; rewrite E in H; inversion H; subst; cbn [enc nF1];
      rewrite ?len_be_enc4; try (split; reflexivity).
    match goal with HN : TypedN _ _ _ |- _ => inversion HN; subst end; try congruence;
      cbn [enc nF1]; rewrite ?len_be_enc4; split; reflexivity.
  Qed.

  Theorem size_all :
    (forall n x, TypedN A n x -> PN n x) /\
    (forall fs vs, TypedF A fs vs -> PF fs vs) /\
    (forall ty arm, TypedArm A ty arm -> PArm ty arm) /\
    (forall t opt x, TypedP A t opt x -> PP t opt x) /\
    (forall t l, TypedL A t l -> PL t l) /\
    (forall t x, TypedB A t x -> PB t x).
  Proof.
    apply Typed_mutind.
    - (* struct *)
      intros n s vs Hget Hname _ IH. split; [reflexivity|]. intros a o.
      pose proof (proj2 Hwf _ _ Hget) as Hw. cbn [wf_type] in Hw.
      destruct (IH Hw a o) as [w [Hz Hs]].
      exists w. rewrite rv_struct. cbn [wsz].
      rewrite (find_size_gen A md Hgen Hkeys n _ Hget). cbn [i_body emit_size_body].
      split; [exact Hz|]. rewrite nF1_struct. cbn [enc]. exact Hs.
    - (* union *)
      intros n u d variant ty arm Hget Hname Hd _ Harm Tarm IHarm. split; [reflexivity|]. intros a o.
      pose proof (proj2 Hwf _ _ Hget) as [Hdisc [Hnd Hndef]].
      destruct (disc_shape u d Hdisc Hd) as [Hd4 Hd0].
      pose proof (find_size_gen A md Hgen Hkeys n _ Hget) as Hfs. cbn [emit_size_body] in Hfs.
      fold (size_arms u) in Hfs.
      unfold arm_for in Harm.
      destruct (find (fun c => existsb (fun l => label_selects A l d) (uc_values c)) (un_cases u)) as [c|] eqn:Ec.
      + (* a data arm *)
        destruct (find (fun l => label_selects A l d) (uc_values c)) as [l|] eqn:El; [|discriminate].
        inversion Harm; subst variant ty. clear Harm.
        destruct arm as [y|]; cbn [PArm] in IHarm; [|inversion Tarm].
        destruct (IHarm a (o + len (enc d))) as [w [Hw Hs]].
        apply find_some_in in Ec as [Hc _]. apply find_some_in in El as [Hl _].
        assert (Hin : In (variant_name l, contains_opaque (uc_value c)) (size_arms u)).
        { unfold size_arms. apply in_flat_map. exists c. split; [exact Hc|].
          apply in_map_iff. exists l. split; [reflexivity|exact Hl]. }
        exists (4 + padded (contains_opaque (uc_value c)) w).
        cbn [rv wsz]. rewrite Hfs. cbn [i_body]. rewrite documented_variant_eq.
        rewrite (assoc_NoDup _ _ _ ltac:(rewrite size_arms_names; exact Hnd) Hin).
        rewrite Hw. cbn [option_map]. split; [reflexivity|].
        cbn [enc nF1]. rewrite len_app, Hd4. unfold adj in Hs. lia.
      + destruct (find (fun l => (negb (String.eqb l "default") && label_selects A l d)%bool) (un_void u)) as [l|] eqn:El.
        * (* a void label *)
          inversion Harm; subst variant ty. clear Harm.
          destruct arm as [y|]; [inversion Tarm|].
          apply find_some_in in El as [Hl _].
          exists 4. cbn [rv wsz]. rewrite Hfs. cbn [i_body]. rewrite documented_variant_eq.
          assert (Hm : mem (variant_name l) (map variant_name (un_void u)) = true).
          { apply mem_In. apply in_map. exact Hl. }
          rewrite Hm. split; [reflexivity|]. cbn [enc nF1]. lia.
        * destruct (un_default u) as [dc|] eqn:Edef.
          -- (* the default arm with data *)
             inversion Harm; subst variant ty. clear Harm.
             destruct arm as [y|]; cbn [PArm] in IHarm; [|inversion Tarm].
             destruct (IHarm a (o + len (enc d))) as [w [Hw Hs]].
             exists (4 + padded (contains_opaque (uc_value dc)) w).
             cbn [rv wsz]. rewrite Hfs. cbn [i_body option_map].
             rewrite (assoc_notin "default"%string (size_arms u)) by (rewrite size_arms_names; exact Hndef).
             rewrite String.eqb_refl, Hw. cbn [option_map]. split; [reflexivity|].
             cbn [enc nF1]. rewrite len_app, Hd4. unfold adj in Hs. lia.
          -- (* the void default *)
             destruct (mem "default" (un_void u)) eqn:Em; [|discriminate].
             inversion Harm; subst variant ty. clear Harm.
             destruct arm as [y|]; [inversion Tarm|].
             exists 4. cbn [rv wsz]. rewrite Hfs. cbn [i_body].
             assert (Hm : mem "default" (map variant_name (un_void u)) = true).
             { apply mem_In. apply mem_In in Em. apply in_map_iff. exists "default"%string.
               split; [reflexivity|exact Em]. }
             rewrite Hm. split; [reflexivity|]. cbn [enc nF1]. lia.
    - (* enum *)
      intros n e m v Hget Hname _ _. split; [reflexivity|]. intros a o. exists 4.
      cbn [rv wsz]. rewrite (find_size_gen A md Hgen Hkeys n _ Hget). cbn [i_body emit_size_body].
      split; [reflexivity|]. cbn [enc nF1]. rewrite len_be_enc4. reflexivity.
    - (* typedef *)
      intros n t y Hget Hname Ty IH. split; [reflexivity|]. intros a o.
      destruct (IH ltac:(discriminate)) as [Hop Hsz]. destruct (Hsz a o) as [w [Hw Hs]].
      cbn [rv wsz]. rewrite (find_size_gen A md Hgen Hkeys n _ Hget). cbn [i_body emit_size_body].
      rewrite Hw. cbn [option_map enc nF1].
      assert (Hco : contains_opaque (typedef_pos t) = is_opaque (td_target t)).
      { unfold typedef_pos, contains_opaque. destruct (td_alias t); reflexivity. }
      rewrite Hco in *. unfold adj in Hs.
      destruct (is_opaque (td_target t)) eqn:Eo.
      + (* opaque target: the shape of y is fixed by the declarator *)
        destruct (td_target t) eqn:Et; try discriminate Eo.
        unfold typedef_pos in *. rewrite Et in *.
        destruct (td_alias t) eqn:Ea; inversion Ty; subst;
          try match goal with H : TypedB _ Opaque _ |- _ => inversion H; subst end;
          try congruence;
          cbn [is_opaque_v padded nF1 enc] in *; eexists; (split; [reflexivity|]); lia.
      + exists w. destruct (is_opaque_v y) eqn:Ey; [specialize (Hop eq_refl); discriminate|].
        cbn [padded] in Hs. split; [reflexivity|lia].
    - (* fields: nil *)
      intros _ a o. exists 0. cbn. split; reflexivity.
    - (* fields: cons *)
      intros f fs v vs _ IHv _ IHfs Hall a o. inversion Hall as [|? ? Hf Hfs]; subst.
      destruct (IHv Hf) as [_ Hsz]. destruct (Hsz a o) as [w [Hw Hs]].
      destruct (IHfs Hfs a (o + len (enc v))) as [w' [Hz Hs']].
      exists (padded (contains_opaque (sf_value f)) w + w').
      cbn [map rv_list zip_sizes snd]. rewrite Hw, Hz. cbn [option_map].
      split; [reflexivity|]. cbn [nF1_direct nF1_sum concat]. rewrite len_app.
      unfold adj in Hs. lia.
    - (* arm: void *) exact I.
    - (* arm: data *)
      intros t y _ IH. cbn [PArm]. intros a o. destruct (IH ltac:(discriminate)) as [_ Hsz]. apply Hsz.
    - (* position: plain *)
      intros t x _ IH _. specialize IH. split.
      + intros Hx. destruct (IH 0 0) as [w [_ Hc]]. unfold contains_opaque. cbn [unwrap_array].
        destruct (is_opaque t); [reflexivity|]. destruct Hc as [Hc _]. congruence.
      + intros a o. destruct (IH a o) as [w [Hw Hc]]. exists w. split; [exact Hw|].
        unfold contains_opaque. cbn [unwrap_array]. unfold adj.
        destruct (is_opaque t).
        * destruct Hc as [bs [-> ->]]. cbn [padded is_opaque_v nF1 enc].
          rewrite len_app, len_be_enc4, len_enc_bytes. lia.
        * destruct Hc as [Hx Hs]. rewrite Hx. cbn [padded]. lia.
    - (* optional: none *)
      intros t _. split; [discriminate|]. intros a o. exists 4. cbn [rv wsz wsz_opt].
      split; [reflexivity|]. cbn [enc nF1 adj is_opaque_v]. rewrite len_be_enc4.
      unfold padded. destruct (contains_opaque (ANone t)); [change (pad_length 4) with 0|]; lia.
    - (* optional: some *)
      intros t y _ IH Hopt. specialize (Hopt eq_refl). cbn [unwrap_array] in Hopt.
      split; [discriminate|]. intros a o. destruct (IH a (o + 4)) as [w [Hw Hc]].
      rewrite Hopt in Hc. destruct Hc as [_ Hs].
      exists (4 + w). cbn [rv wsz]. rewrite Hw. cbn [option_map wsz_opt].
      split; [reflexivity|]. unfold contains_opaque. cbn [unwrap_array]. rewrite Hopt.
      cbn [padded enc nF1 adj is_opaque_v]. rewrite len_app, len_be_enc4. lia.
    - (* fixed opaque *)
      intros s n bs _ Hl _ _. split; [discriminate|]. intros a o. exists (len bs).
      cbn [rv wsz]. unfold wsz_bytes. rewrite len_mkview. split; [reflexivity|].
      cbn [contains_opaque unwrap_array is_opaque padded enc nF1 adj is_opaque_v].
      rewrite len_enc_bytes. lia.
    - (* fixed array *)
      intros t s n l Ht1 Ht2 _ _ _ IH _. split; [discriminate|]. intros a o.
      assert (Ho : is_opaque t = false) by (destruct t; try reflexivity; congruence).
      destruct (IH Ho a o) as [x [Hx [Hm Hs]]].
      exists x. rewrite rv_arrf. cbn [wsz]. rewrite Hx. cbn [option_map].
      split; [now rewrite wsz_slice_rfc|].
      unfold contains_opaque. cbn [unwrap_array]. rewrite Ho. cbn [padded adj is_opaque_v enc].
      rewrite nF1_arrf. lia.
    - (* variable opaque *)
      intros s m bs _ _ _ _ _. split; [reflexivity|]. intros a o. exists (len bs).
      cbn [rv wsz]. unfold wsz_bytes. rewrite len_mkview. split; [reflexivity|].
      cbn [contains_opaque unwrap_array is_opaque padded enc nF1 adj is_opaque_v].
      rewrite len_app, len_be_enc4, len_enc_bytes. lia.
    - (* variable string *)
      intros s m bs _ _ _ _ _ _. split; [discriminate|]. intros a o. exists (wsz_string bs).
      cbn [rv wsz]. split; [reflexivity|].
      cbn [contains_opaque unwrap_array is_opaque padded enc nF1 adj is_opaque_v].
      unfold wsz_string. rewrite len_app, len_be_enc4, len_enc_bytes. lia.
    - (* counted array *)
      intros t s m l Ht1 Ht2 _ _ _ _ IH _. split; [discriminate|]. intros a o.
      assert (Ho : is_opaque t = false) by (destruct t; try reflexivity; congruence).
      destruct (IH Ho a (o + 4)) as [x [Hx [Hm Hs]]].
      exists (4 + x). rewrite rv_arrv. cbn [wsz]. rewrite Hx. cbn [option_map].
      split; [now rewrite wsz_vec_rfc|].
      unfold contains_opaque. cbn [unwrap_array]. rewrite Ho. cbn [padded adj is_opaque_v enc].
      rewrite nF1_arrv, len_app, len_be_enc4. lia.
    - (* list: nil *)
      intros t _ a o. exists 0. cbn. repeat split; reflexivity.
    - (* list: cons *)
      intros t x l _ IHx _ IHl Ho a o. destruct (IHx a o) as [w [Hw Hc]]. rewrite Ho in Hc.
      destruct Hc as [_ Hs]. destruct (IHl Ho a (o + len (enc x))) as [y [Hy [Hm Hs']]].
      exists (w + y). cbn [rv_list map sum_opt]. rewrite Hw, Hy. cbn [option_map].
      split; [reflexivity|]. cbn [nF1_sum concat]. rewrite len_app.
      pose proof (enc_mult4 x). split; lia.
    - intros n _ a o. exists 4. cbn [rv wsz is_opaque enc nF1 is_opaque_v]. rewrite len_be_enc4. repeat split; lia.
    - intros z _ a o. exists 4. cbn [rv wsz is_opaque enc nF1 is_opaque_v]. rewrite len_be_enc4. repeat split; lia.
    - intros n _ a o. exists 8. cbn [rv wsz is_opaque enc nF1 is_opaque_v]. rewrite len_be_enc8. repeat split; lia.
    - intros z _ a o. exists 8. cbn [rv wsz is_opaque enc nF1 is_opaque_v]. rewrite len_be_enc8. repeat split; lia.
    - intros b _ a o. exists 4. cbn [rv wsz is_opaque enc nF1 is_opaque_v]. rewrite len_be_enc4. repeat split; lia.
    - intros b _ a o. exists 8. cbn [rv wsz is_opaque enc nF1 is_opaque_v]. rewrite len_be_enc8. repeat split; lia.
    - intros b a o. exists 4. cbn [rv wsz is_opaque enc nF1 is_opaque_v]. rewrite len_be_enc4. repeat split; lia.
    - intros bs _ _ _ a o. exists (wsz_string bs). cbn [rv wsz is_opaque enc nF1 is_opaque_v].
      split; [reflexivity|]. split; [reflexivity|]. unfold wsz_string.
      rewrite len_app, len_be_enc4, len_enc_bytes. lia.
    - intros bs _ _ a o. exists (len bs). cbn [rv wsz is_opaque]. unfold wsz_bytes. rewrite len_mkview.
      split; [reflexivity|]. exists bs. split; reflexivity.
    - intros n x _ IH a o. destruct IH as [Hx Hsz]. destruct (Hsz a o) as [w [Hw Hs]].
      exists w. cbn [is_opaque]. split; [exact Hw|]. split; [exact Hx|exact Hs].
  Qed.

  (* C02: wire_size() of the decoded value + 4 bytes per F1 leaf = the encoded length *)
  Theorem wsz_characterised n x a o :
    TypedN A n x -> exists w, wsz md (rv a o x) = Some w /\ w + 4 * nF1 x = len (enc x).
  Proof. intros H. exact (proj2 (proj1 size_all n x H) a o). Qed.

  Corollary wsz_exact n x a o :
    TypedN A n x -> nF1 x = 0 -> wsz md (rv a o x) = Some (len (enc x)).
  Proof.
    intros H H0. destruct (wsz_characterised n x a o H) as [w [Hw Hs]]. rewrite Hw. f_equal. lia.
  Qed.

  Corollary wsz_mult4 n x a o w :
    TypedN A n x -> wsz md (rv a o x) = Some w -> w mod 4 = 0.
  Proof.
    intros H Hw. destruct (wsz_characterised n x a o H) as [w' [Hw' Hs]].
    rewrite Hw in Hw'. inversion Hw'; subst. pose proof (enc_mult4 x). lia.
  Qed.
End Size.
