From XdrProofs Require Export Tactics.
From XdrModel Require Export Bytes.
Open Scope N_scope.

Lemma len_nil {A} : len (@nil A) = 0.
Proof. reflexivity. Qed.

Lemma len_cons {A} (x : A) l : len (x :: l) = 1 + len l.
Proof. unfold len. cbn [length]. lia. Qed.

Lemma len_app {A} (a b : list A) : len (a ++ b) = len a + len b.
Proof. unfold len. rewrite app_length. lia. Qed.

Lemma len_rev {A} (a : list A) : len (rev a) = len a.
Proof. unfold len. now rewrite rev_length. Qed.

Lemma len_map {A B} (f : A -> B) l : len (map f l) = len l.
Proof. unfold len. now rewrite map_length. Qed.

Lemma len_0_nil {A} (l : list A) : len l = 0 -> l = [].
Proof. destruct l; [reflexivity|]. rewrite len_cons. lia. Qed.

Lemma take_app_exact {A} (a b : list A) : take (len a) (a ++ b) = a.
Proof.
  unfold take, len. rewrite Nat2N.id.
  rewrite firstn_app, Nat.sub_diag, firstn_all. cbn. now rewrite app_nil_r.
Qed.

Lemma drop_app_exact {A} (a b : list A) : drop (len a) (a ++ b) = b.
Proof.
  unfold drop, len. rewrite Nat2N.id.
  rewrite skipn_app, Nat.sub_diag, skipn_all. reflexivity.
Qed.

Lemma take_0 {A} (l : list A) : take 0 l = [].
Proof. reflexivity. Qed.

Lemma drop_0 {A} (l : list A) : drop 0 l = l.
Proof. reflexivity. Qed.

Lemma len_take {A} n (l : list A) : n <= len l -> len (take n l) = n.
Proof. unfold take, len. intros H. rewrite firstn_length. lia. Qed.

Lemma len_take_le {A} n (l : list A) : len (take n l) <= n.
Proof. unfold take, len. rewrite firstn_length. lia. Qed.

Lemma len_drop {A} n (l : list A) : len (drop n l) = len l - n.
Proof. unfold drop, len. rewrite skipn_length. lia. Qed.

Lemma take_drop {A} n (l : list A) : take n l ++ drop n l = l.
Proof. unfold take, drop. apply firstn_skipn. Qed.

Lemma drop_drop {A} a b (l : list A) : drop a (drop b l) = drop (b + a) l.
Proof.
  unfold drop. replace (N.to_nat (b + a)) with (N.to_nat b + N.to_nat a)%nat by lia.
  generalize (N.to_nat a) (N.to_nat b). clear. intros x y. revert l.
  induction y as [|y IH]; intros l; [reflexivity|].
  destruct l as [|h t]; cbn [Nat.add skipn]; [now rewrite !skipn_nil| apply IH].
Qed.

Lemma drop_all {A} n (l : list A) : len l <= n -> drop n l = [].
Proof. unfold drop, len. intros H. apply skipn_all2. lia. Qed.

Lemma take_all {A} n (l : list A) : len l <= n -> take n l = l.
Proof. unfold take, len. intros H. apply firstn_all2. lia. Qed.

Lemma take_app_le {A} n (a b : list A) : n <= len a -> take n (a ++ b) = take n a.
Proof.
  unfold take, len. intros H. rewrite firstn_app.
  replace (N.to_nat n - length a)%nat with 0%nat by lia. cbn. now rewrite app_nil_r.
Qed.

Lemma drop_app_le {A} n (a b : list A) : n <= len a -> drop n (a ++ b) = drop n a ++ b.
Proof.
  unfold drop, len. intros H. rewrite skipn_app.
  replace (N.to_nat n - length a)%nat with 0%nat by lia. reflexivity.
Qed.

(* ---------- padding ---------- *)

Lemma pad_length_spec l : pad_length l < 4 /\ (l + pad_length l) mod 4 = 0.
Proof.
  unfold pad_length. destruct (N.eqb_spec (l mod 4) 0) as [E|E]; cbv iota.
  - split; [lia|]. rewrite N.add_0_r. exact E.
  - split; [lia|]. lia.
Qed.

Lemma pad_length_alt l : pad_length l = (4 - l mod 4) mod 4.
Proof.
  unfold pad_length. destruct (N.eqb_spec (l mod 4) 0) as [E|E]; cbv iota; lia.
Qed.

Lemma pad_length_mult4 l : l mod 4 = 0 -> pad_length l = 0.
Proof. unfold pad_length. intros ->. reflexivity. Qed.

(* the padded size is the size rounded up to the next multiple of four *)
Lemma padded_roundup l : l + pad_length l = 4 * ((l + 3) / 4).
Proof.
  unfold pad_length. destruct (N.eqb_spec (l mod 4) 0) as [E|E]; cbv iota; lia.
Qed.

Lemma len_zeros n : len (zeros n) = n.
Proof. unfold zeros, len. rewrite repeat_length. lia. Qed.

(* ---------- big-endian words ---------- *)

Lemma len_be_enc k n : len (be_enc k n) = N.of_nat k.
Proof. unfold len. f_equal. induction k; cbn [be_enc length]; congruence. Qed.

Lemma be_dec_app a b : be_dec (a ++ b) = be_dec a * 256 ^ len b + be_dec b.
Proof.
  unfold be_dec.
  assert (G : forall l acc, fold_left (fun acc b => acc * 256 + b) l acc
                            = acc * 256 ^ len l + fold_left (fun acc b => acc * 256 + b) l 0).
  { induction l as [|x l IH]; intros acc.
    - cbn. rewrite len_nil. cbn. lia.
    - cbn [fold_left]. rewrite IH. rewrite (IH (0 * 256 + x)). rewrite len_cons.
      rewrite N.pow_add_r. lia. }
  rewrite fold_left_app. rewrite G. reflexivity.
Qed.

Lemma be_dec_enc k n : n < 256 ^ N.of_nat k -> be_dec (be_enc k n) = n.
Proof.
  revert n. induction k as [|k IH]; intros n H.
  - cbn in *. lia.
  - cbn [be_enc].
    change ((n / 256 ^ N.of_nat k) mod 256 :: be_enc k n)
      with ([(n / 256 ^ N.of_nat k) mod 256] ++ be_enc k n).
    rewrite be_dec_app. rewrite len_be_enc.
    assert (P : 0 < 256 ^ N.of_nat k) by (apply N.neq_0_lt_0, N.pow_nonzero; lia).
    replace (N.of_nat (S k)) with (N.of_nat k + 1) in H by lia.
    rewrite N.pow_add_r in H. change (256 ^ 1) with 256 in H.
    assert (Hq : n / 256 ^ N.of_nat k < 256).
    { apply N.div_lt_upper_bound; lia. }
    rewrite (N.mod_small _ _ Hq).
    (* the tail encodes n mod 256^k *)
    assert (T : forall j m, be_enc j (m mod 256 ^ N.of_nat j) = be_enc j m).
    { clear. induction j as [|j IHj]; intros m; [reflexivity|].
      cbn [be_enc]. f_equal.
      - replace (N.of_nat (S j)) with (1 + N.of_nat j) by lia.
        rewrite N.pow_add_r. change (256 ^ 1) with 256.
        assert (P : 0 < 256 ^ N.of_nat j) by (apply N.neq_0_lt_0, N.pow_nonzero; lia).
        rewrite (N.mul_comm 256).
        rewrite N.mod_mul_r by lia.
        rewrite N.mul_comm, N.div_add by lia.
        rewrite (N.div_small (m mod 256 ^ N.of_nat j)) by (apply N.mod_lt; lia).
        rewrite N.add_0_l. rewrite N.mod_mod by lia. reflexivity.
      - rewrite <- IHj. rewrite <- (IHj m). f_equal.
        replace (N.of_nat (S j)) with (1 + N.of_nat j) by lia.
        rewrite N.pow_add_r. change (256 ^ 1) with 256.
        assert (P : 0 < 256 ^ N.of_nat j) by (apply N.neq_0_lt_0, N.pow_nonzero; lia).
        rewrite (N.mul_comm 256).
        rewrite N.mod_mul_r by lia.
        rewrite N.mul_comm, N.mod_add by lia. rewrite N.mod_mod by lia. reflexivity. }
    rewrite <- T. rewrite IH by (apply N.mod_lt; lia).
    unfold be_dec; cbn [fold_left].
    pose proof (N.div_mod' n (256 ^ N.of_nat k)). lia.
Qed.

Lemma be_dec_enc4 n : n < 4294967296 -> be_dec (be_enc 4 n) = n.
Proof. intros H. apply be_dec_enc. exact H. Qed.

Lemma be_dec_enc8 n : n < 18446744073709551616 -> be_dec (be_enc 8 n) = n.
Proof. intros H. apply be_dec_enc. exact H. Qed.

Lemma be_dec_bound l : bytes_ok l -> be_dec l < 256 ^ len l.
Proof.
  induction l as [|x l IH] using rev_ind; intros H.
  - cbn. lia.
  - apply Forall_app in H as [H1 H2]. inversion H2 as [|? ? Hx _]; subst.
    rewrite be_dec_app, len_app. change (len [x]) with 1.
    unfold be_dec at 2; cbn [fold_left].
    rewrite N.pow_add_r. change (256 ^ 1) with 256.
    specialize (IH H1). nia.
Qed.

Lemma to_i32_of_i32 z : (-2147483648 <= z < 2147483648)%Z -> to_i32 (of_i32 z) = z.
Proof. unfold to_i32, of_i32. intros H. case_if; lia. Qed.

Lemma to_i64_of_i64 z :
  (-9223372036854775808 <= z < 9223372036854775808)%Z -> to_i64 (of_i64 z) = z.
Proof. unfold to_i64, of_i64. intros H. case_if; lia. Qed.

Lemma of_i32_bound z : of_i32 z < 4294967296.
Proof. unfold of_i32. lia. Qed.

Lemma of_i64_bound z : of_i64 z < 18446744073709551616.
Proof. unfold of_i64. lia. Qed.
