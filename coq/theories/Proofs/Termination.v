(* C04 (termination): for every specification satisfying sup4 whose named types can be ranked
   along their non-consuming references (no type contains itself except through an optional
   link, a counted array or ... ) and whose counted-array elements occupy at least one word,
   the emitted decoder terminates on EVERY byte string: with fuel
       (remaining / 4) * (K + 1) + rank + 1
   the model's Fuel outcome is impossible -- every cycle of calls reads a word first, every loop
   iteration steps over at least a word. *)
From Coq Require Import Lia.
From XdrProofs Require Export NoPanic.
Open Scope N_scope.
Open Scope list_scope.

(* within r remaining bytes: no Fuel, no Panic, the cursor only moves forward, P on success *)
Definition tmr (r : N) {X} (P : X -> Prop) (m : M X) : Prop :=
  forall s, bok s -> remaining s <= r ->
    match m s with
    | Ok v s' => P v /\ bok s' /\ remaining s' <= remaining s
    | Err _ _ => True
    | Panic _ => False
    | Fuel => False
    end.

(* straight-line readers: never Fuel, never move backwards *)
Definition mono {X} (m : M X) : Prop :=
  forall s, match m s with Ok _ s' => remaining s' <= remaining s | Fuel => False | _ => True end.

Lemma tmr_prim {X} (P : X -> Prop) m r : safe P m -> mono m -> tmr r P m.
Proof.
  intros Hs Hm s Hb _. specialize (Hs s Hb). specialize (Hm s).
  destruct (m s) as [v s'|e s'|p|]; try exact I; try contradiction.
  destruct Hs as [Pv Hb']. split; [exact Pv|]. split; assumption.
Qed.

Lemma tmr_ret {X} (P : X -> Prop) r x : P x -> tmr r P (ret x).
Proof. intros H s Hb _. cbn. split; [exact H|]. split; [exact Hb|lia]. Qed.

Lemma tmr_fail {X} (P : X -> Prop) r e : tmr r P (fail e).
Proof. intros s _ _. exact I. Qed.

Lemma tmr_bind {X Y} r (P : X -> Prop) (Q : Y -> Prop) m k :
  tmr r P m -> (forall a, P a -> tmr r Q (k a)) -> tmr r Q (bind m k).
Proof.
  intros Hm Hk s Hb Hr. unfold bind. specialize (Hm s Hb Hr).
  destruct (m s) as [a s1|e s1|p|]; try exact I; try contradiction.
  destruct Hm as [Pa [Hb1 Hr1]]. specialize (Hk a Pa s1 Hb1 ltac:(lia)).
  destruct (k a s1) as [b s2|e s2|p|]; try exact I; try contradiction.
  destruct Hk as [Qb [Hb2 Hr2]]. split; [exact Qb|]. split; [exact Hb2|lia].
Qed.

Lemma tmr_impl {X} r (P Q : X -> Prop) m : (forall x, P x -> Q x) -> tmr r P m -> tmr r Q m.
Proof.
  intros H Hm s Hb Hr. specialize (Hm s Hb Hr). destruct (m s); try exact I; try contradiction.
  destruct Hm as [Pv R]. split; [now apply H|exact R].
Qed.

Lemma tmr_le {X} r r' (P : X -> Prop) m : r' <= r -> tmr r P m -> tmr r' P m.
Proof. intros Hle Hm s Hb Hr. apply Hm; [exact Hb|lia]. Qed.

Lemma remaining_with_rem s k : remaining (with_rem s k) = remaining s - k.
Proof. unfold remaining, with_rem. cbn. apply len_drop. Qed.

Lemma mono_read_be k : mono (read_be k).
Proof.
  intros s. unfold read_be, get_be. case_if; [exact I|]. case_if; [|exact I].
  rewrite remaining_with_rem. lia.
Qed.

Lemma mono_ret {X} (x : X) : mono (ret x).
Proof. intros s. cbn. lia. Qed.

Lemma mono_bind {X Y} (m : M X) (k : X -> M Y) : mono m -> (forall a, mono (k a)) -> mono (bind m k).
Proof.
  intros Hm Hk s. unfold bind. specialize (Hm s). destruct (m s) as [a s1|e s1|p|]; try exact I; try contradiction.
  specialize (Hk a s1). destruct (k a s1); try exact I; try contradiction. lia.
Qed.

Lemma mono_fail {X} e : mono (@fail X e).
Proof. intros s. exact I. Qed.

Lemma mono_read_i32 : mono read_i32.
Proof. unfold read_i32. apply mono_bind; [apply mono_read_be|intros; apply mono_ret]. Qed.

Lemma mono_read_bool : mono read_bool.
Proof.
  intros s. unfold read_bool. case_if; [exact I|]. unfold bind, get_be. case_if; [|exact I].
  destruct (to_i32 _) as [|p|p]; unfold ret, fail; try exact I.
  - rewrite remaining_with_rem. lia.
  - destruct p; try exact I. rewrite remaining_with_rem. lia.
Qed.

Lemma mono_read_bytes n : mono (read_bytes n).
Proof.
  intros s. unfold read_bytes. case_if; [exact I|]. case_if; [exact I|].
  unfold bind, slice_to. case_if; [|exact I]. unfold advance. case_if; [|exact I].
  unfold ret. rewrite remaining_with_rem. lia.
Qed.

Lemma mono_check_max n max : mono (check_max n max).
Proof. unfold check_max. destruct max; [case_if; [apply mono_fail|apply mono_ret]|apply mono_ret]. Qed.

Lemma mono_read_variable_bytes max : mono (read_variable_bytes max).
Proof.
  unfold read_variable_bytes. apply mono_bind; [apply mono_read_be|]. intros n.
  apply mono_bind; [apply mono_check_max|]. intros _. apply mono_read_bytes.
Qed.

Lemma mono_reserve x : mono (reserve x).
Proof. intros s. unfold reserve, remaining. cbn. lia. Qed.

Lemma mono_read_string max : mono (read_string max).
Proof.
  unfold read_string. apply mono_bind; [apply mono_read_variable_bytes|]. intros w.
  apply mono_bind; [apply mono_reserve|]. intros _.
  destruct (utf8_valid (vdata w)); [apply mono_ret|apply mono_fail].
Qed.

Lemma safe_reserve x : safe (fun _ => True) (reserve x).
Proof. intros s Hs. unfold reserve. split; [exact I|exact Hs]. Qed.

(* a word is read first: what follows runs within r - 4 *)
Lemma tmr_after_word {Y} r (Q : Y -> Prop) (k : N -> M Y) :
  (forall n, 4 <= r -> tmr (r - 4) Q (k n)) -> tmr r Q (bind (read_be 4) k).
Proof.
  intros Hk s Hb Hr. unfold bind, read_be, get_be. case_if; [exact I|]. case_if; [|lia].
  assert (H4 : 4 <= r) by lia.
  pose proof (bok_with_rem s 4 Hb) as Hb1.
  specialize (Hk (be_dec (take 4 (s_rem s))) H4 (with_rem s 4) Hb1 ltac:(rewrite remaining_with_rem; lia)).
  destruct (k _ (with_rem s 4)) as [b s2|e s2|p|]; try exact I; try contradiction.
  destruct Hk as [Qb [Hb2 Hr2]]. split; [exact Qb|]. split; [exact Hb2|].
  rewrite remaining_with_rem in Hr2. lia.
Qed.

(* ---------- the counted-array loop ---------- *)

Section VarArrayTerm.
  Variable elem_name : string.
  Variable dec_elem : M rval.
  Variable wsz_elem : rval -> option N.
  Variable P : rval -> Prop.
  Variable r : N.
  Hypothesis Hdec : tmr r P dec_elem.
  Hypothesis Hwsz : forall v, P v -> exists w, wsz_elem v = Some w /\ w mod 4 = 0 /\ 4 <= w.

  Lemma tmr_on_clone : tmr r P (on_clone dec_elem).
  Proof.
    intros s Hb Hr. unfold on_clone. specialize (Hdec s Hb Hr).
    destruct (dec_elem s) as [v s1|e s1|p|]; try exact I; try contradiction.
    destruct Hdec as [Pv _]. split; [exact Pv|]. split; [exact Hb|]. unfold remaining. cbn. lia.
  Qed.

  Lemma rva_loop_term fuel : forall n sum acc s,
    sum mod 4 = 0 -> Forall P acc -> bok s -> remaining s <= r ->
    (N.to_nat (remaining s / 4) < fuel)%nat ->
    match rva_loop dec_elem wsz_elem fuel n sum acc s with
    | Ok v s' => (Forall P (fst v) /\ snd v mod 4 = 0) /\ bok s' /\ remaining s' <= remaining s
    | Err _ _ => True
    | Panic _ => False
    | Fuel => False
    end.
  Proof.
    induction fuel as [|f IH]; intros n sum acc s Hsum Hacc Hb Hr Hf; [lia|].
    cbn [rva_loop]. destruct (n =? 0).
    - cbn. split; [split; [now apply Forall_rev|exact Hsum]|]. split; [exact Hb|lia].
    - unfold bind at 1. pose proof (tmr_on_clone s Hb Hr) as Hc.
      destruct (on_clone dec_elem s) as [t s1|e s1|p|]; try exact I; try contradiction.
      destruct Hc as [Pt [Hb1 Hr1]]. destruct (Hwsz t Pt) as [w [Hw [Hw4 Hwp]]]. rewrite Hw.
      case_if; [exact I|]. unfold bind.
      destruct (advance_guarded w s1 ltac:(lia) Hb1) as [Ea Hb2]. rewrite Ea.
      assert (Hr2 : remaining (with_rem s1 w) = remaining s1 - w) by apply remaining_with_rem.
      assert (Hdiv : (N.to_nat (remaining (with_rem s1 w) / 4) < f)%nat).
      { rewrite Hr2. assert (remaining s1 - w <= remaining s - 4) by lia.
        assert ((remaining s1 - w) / 4 <= (remaining s - 4) / 4) by (apply N.div_le_mono; lia).
        assert (4 <= remaining s) by lia.
        assert ((remaining s - 4) / 4 = remaining s / 4 - 1).
        { replace (remaining s) with ((remaining s - 4) + 1 * 4) at 2 by lia. rewrite N.div_add by lia. lia. }
        assert (1 <= remaining s / 4) by (apply N.div_le_lower_bound; lia). lia. }
      specialize (IH (n - 1) (sum + w) (t :: acc) (with_rem s1 w) ltac:(lia) ltac:(constructor; assumption) Hb2 ltac:(lia) Hdiv).
      destruct (rva_loop dec_elem wsz_elem f (n - 1) (sum + w) (t :: acc) (with_rem s1 w)) as [v s3|e s3|p|];
        try exact I; try contradiction.
      destruct IH as [Pv [Hb3 Hr3]]. split; [exact Pv|]. split; [exact Hb3|lia].
  Qed.
End VarArrayTerm.

(* the whole reader: the count word is read first, the elements run within r - 4 *)
Lemma tmr_read_variable_array elem_name dec_elem wsz_elem (P : rval -> Prop) r fuel max :
  (4 <= r -> tmr (r - 4) P dec_elem) ->
  (forall v, P v -> exists w, wsz_elem v = Some w /\ w mod 4 = 0 /\ 4 <= w) ->
  (N.to_nat (r / 4) <= fuel)%nat ->
  tmr r (Forall P) (read_variable_array elem_name dec_elem wsz_elem fuel max).
Proof.
  intros Hdec Hwsz Hf. unfold read_variable_array. change read_u32 with (read_be 4).
  apply tmr_after_word. intros n H4.
  eapply tmr_bind; [apply tmr_prim; [apply safe_check_max|apply mono_check_max]|]. intros _ _.
  intros s Hb Hr.
  change ((fun s0 => (_ <- reserve (ResVec (N.min n (remaining s0)) elem_name) ;;
                      r0 <- rva_loop dec_elem wsz_elem fuel n 0 [] ;;
                      _ <- advance (pad_length (snd r0)) ;; ret (fst r0)) s0) s)
    with ((_ <- reserve (ResVec (N.min n (remaining s)) elem_name) ;;
           r0 <- rva_loop dec_elem wsz_elem fuel n 0 [] ;;
           _ <- advance (pad_length (snd r0)) ;; ret (fst r0)) s).
  unfold bind at 1. unfold reserve at 1.
  set (s1 := {| s_alloc := s_alloc s; s_off := s_off s; s_rem := s_rem s; s_led := s_led s ++ [ResVec (N.min n (remaining s)) elem_name] |}).
  assert (Hb1 : bok s1) by exact Hb. assert (Hr1 : remaining s1 = remaining s) by reflexivity.
  unfold bind at 1.
  assert (Hdiv : (N.to_nat (remaining s1 / 4) < fuel)%nat).
  { rewrite Hr1. assert (remaining s / 4 <= (r - 4) / 4) by (apply N.div_le_mono; lia).
    assert ((r - 4) / 4 = r / 4 - 1).
    { replace r with ((r - 4) + 1 * 4) at 2 by lia. rewrite N.div_add by lia. lia. }
    assert (1 <= r / 4) by (apply N.div_le_lower_bound; lia). lia. }
  pose proof (rva_loop_term dec_elem wsz_elem P (r - 4) (Hdec H4) Hwsz fuel n 0 [] s1 eq_refl ltac:(constructor) Hb1 ltac:(lia) Hdiv) as HL.
  destruct (rva_loop dec_elem wsz_elem fuel n 0 [] s1) as [v s2|e s2|p|]; try exact I; try contradiction.
  destruct HL as [[Pv Hsum] [Hb2 Hr2]]. rewrite (pad_length_mult4 _ Hsum).
  unfold bind. destruct (advance_guarded 0 s2 ltac:(lia) Hb2) as [Ea Hb3]. rewrite Ea.
  unfold ret. split; [exact Pv|]. split; [exact Hb3|]. rewrite remaining_with_rem. lia.
Qed.

(* ---------- the hypotheses ---------- *)

(* references that are followed without reading anything first *)
Definition direct_pos (a : array_type) (opt : bool) : list string :=
  if opt then [] else
  match a with
  | ANone (Ident m) => [m]
  | AFixed (Ident m) _ => [m]
  | _ => []
  end.

Definition direct_refs (A : ast) (t : ast_type) : list string :=
  match t with
  | TStruct s => flat_map (fun f => direct_pos (sf_value f) (sf_optional f)) (st_fields s)
  | TUnion u => match disc_type A u with Ident m => [m] | _ => [] end ++
                flat_map (fun c => direct_pos (uc_value c) false) (un_cases u) ++
                match un_default u with Some c => direct_pos (uc_value c) false | None => [] end
  | TEnum _ => []
  | TTypedef t => direct_pos (typedef_pos t) false
  end.

(* element types of counted arrays *)
Definition var_elem (a : array_type) : list string :=
  match a with AVar (Ident m) _ => [m] | _ => [] end.
Definition var_elems (t : ast_type) : list string :=
  match t with
  | TStruct s => flat_map (fun f => var_elem (sf_value f)) (st_fields s)
  | TUnion u => flat_map (fun c => var_elem (uc_value c)) (un_cases u) ++
                match un_default u with Some c => var_elem (uc_value c) | None => [] end
  | TEnum _ => []
  | TTypedef t => var_elem (typedef_pos t)
  end.

Definition ranked (A : ast) (rk : string -> nat) (K : nat) : Prop :=
  forall n t, get_type A n = Some t ->
    (rk n <= K)%nat /\ forall m, In m (direct_refs A t) -> (rk m < rk n)%nat.

Definition elems_positive (A : ast) (md : module_ir) : Prop :=
  forall n t, get_type A n = Some t -> forall m, In m (var_elems t) ->
  forall v w, ShN A m v -> wsz md v = Some w -> 4 <= w.

Section Term.
  Variable A : ast.
  Variable md : module_ir.
  Hypothesis Hgen : gen A = EOk md.
  Hypothesis Hsup4 : sup4 A.
  Variable rk : string -> nat.
  Variable K : nat.
  Hypothesis Hrk : ranked A rk K.
  Hypothesis Hpos : elems_positive A md.

  Let Hsup : sup A := sup4_sup A Hsup4.
  Let Hcore : sup_core A := sup_c A Hsup.
  Let Hwf : wf_size A := sup_size A Hcore.
  Let Hkeys : keys_ok A := proj1 Hwf.

  Section Body.
    Variable rec : string -> M rval.
    Variable lf : nat.
    Variable r : N.
    Variable self : string.
    (* called without a word read first: only lower-ranked types *)
    Hypothesis Hrec_d : forall m ty, get_type A m = Some ty -> (rk m < rk self)%nat -> tmr r (ShN A m) (rec m).
    (* called after a word was read: any type, four bytes fewer *)
    Hypothesis Hrec_g : forall m ty, get_type A m = Some ty -> 4 <= r -> tmr (r - 4) (ShN A m) (rec m).
    Hypothesis Hlf : (N.to_nat (r / 4) <= lf)%nat.

    Definition lower (t : basic_type) : Prop := forall m, t = Ident m -> (rk m < rk self)%nat.

    Lemma tm_basic t e :
      decode_basic A t UseAlias = EOk e -> ref_ok A t -> lower t -> tmr r (ShB A t) (eval_dexp md rec lf e).
    Proof.
      intros He Hr Hl. apply decode_basic_alias in He as [He|[m [-> ->]]].
      - (* a primitive: straight-line *)
        destruct t; cbn [prim_dexp] in He; inversion He; subst e; cbn [eval_dexp read_prim].
        + eapply tmr_bind; [apply tmr_prim; [apply (safe_read_be 4)|apply mono_read_be]|]. intros n Hn. apply tmr_ret. constructor.
          cbv beta in Hn. unfold u32_max. change (256 ^ 4) with 4294967296 in Hn. lia.
        + eapply tmr_bind; [apply tmr_prim; [apply (safe_read_be 8)|apply mono_read_be]|]. intros n _. apply tmr_ret. constructor.
        + eapply tmr_bind; [apply tmr_prim; [apply safe_read_i32|apply mono_read_i32]|]. intros z Hz. apply tmr_ret. constructor. exact Hz.
        + unfold read_i64. eapply tmr_bind; [eapply (tmr_bind _ _ (fun _ : Z => True)); [apply tmr_prim; [apply (safe_read_be 8)|apply mono_read_be]|intros n _; apply tmr_ret; exact I]|].
          intros z _. apply tmr_ret. constructor.
        + eapply tmr_bind; [apply tmr_prim; [apply (safe_read_be 4)|apply mono_read_be]|]. intros n _. apply tmr_ret. constructor.
        + eapply tmr_bind; [apply tmr_prim; [apply (safe_read_be 8)|apply mono_read_be]|]. intros n _. apply tmr_ret. constructor.
        + eapply tmr_bind; [apply tmr_prim; [apply safe_read_string|apply mono_read_string]|]. intros b _. apply tmr_ret. constructor.
        + eapply tmr_bind; [apply tmr_prim; [apply safe_read_bool|apply mono_read_bool]|]. intros b _. apply tmr_ret. constructor.
        + eapply tmr_bind; [apply tmr_prim; [apply safe_read_variable_bytes|apply mono_read_variable_bytes]|]. intros w _. apply tmr_ret. constructor.
      - cbn [eval_dexp]. destruct Hr as [ty Hty]. eapply tmr_impl; [|eapply Hrec_d; [exact Hty|now apply Hl]].
        intros v Hv. now constructor.
    Qed.

    Lemma tm_seq_n t n m : tmr r (ShB A t) m -> tmr r (fun l => ShL A t l /\ List.length l = n) (seq_n n m).
    Proof.
      intros Hm. induction n as [|n IH]; cbn [seq_n]; [apply tmr_ret; split; [constructor|reflexivity]|].
      eapply tmr_bind; [exact Hm|]. intros x Hx. eapply tmr_bind; [exact IH|]. intros xs [Hxs Hlen].
      apply tmr_ret. split; [now constructor|cbn; now rewrite Hlen].
    Qed.

    Definition elem_pos (m : string) : Prop := forall v w, ShN A m v -> wsz md v = Some w -> 4 <= w.

    Lemma tm_pos a e :
      decode_array A a UseAlias = EOk e -> pos_ok a false -> ref_ok A (unwrap_array a) ->
      (forall m, In m (direct_pos a false) -> (rk m < rk self)%nat) ->
      (forall m, In m (var_elem a) -> elem_pos m) ->
      tmr r (ShP A a false) (eval_dexp md rec lf e).
    Proof.
      intros He Hpos0 Hr Hd Hv. destruct a as [t|t s|t s]; cbn [decode_array unwrap_array] in *.
      - eapply tmr_impl; [|eapply tm_basic; [eassumption|eassumption|]].
        + intros v Hv0. now constructor.
        + intros m ->. apply Hd. cbn. now left.
      - destruct (resolve_size A s true) as [n| |] eqn:Ers; cbn [ebind] in He; try discriminate.
        unfold decode_fixed in He. destruct Hpos0 as [_ [_ [Hts _]]].
        assert (Hcase : t = Opaque \/ t <> Opaque) by (destruct t; (now left) || (right; discriminate)).
        destruct Hcase as [->|Hno].
        + inversion He; subst e. cbn [eval_dexp]. eapply tmr_bind; [apply tmr_prim; [apply safe_read_bytes_len|apply mono_read_bytes]|].
          intros w Hw. apply tmr_ret. apply SP_fixed_opaque. intros n0 E0. rewrite Ers in E0. inversion E0; subst. exact Hw.
        + assert (He' : (if n =? 0 then EOk (EArr 0 (EPrim PU32))
                         else ebind (decode_basic A t UseAlias) (fun e0 => EOk (EArr n e0))) = EOk e).
          { destruct t; try exact He; congruence. }
          clear He. destruct (n =? 0) eqn:En0.
          * inversion He'; subst e. cbn [eval_dexp]. change (N.to_nat 0) with 0%nat. cbn [seq_n].
            eapply (tmr_bind _ (fun l => l = [])); [apply tmr_ret; reflexivity|]. intros l ->. apply tmr_ret.
            apply SP_fixed; [assumption|apply SL_nil|]. intros n0 E0. rewrite Ers in E0. inversion E0; subst.
            apply N.eqb_eq in En0. subst. reflexivity.
          * destruct (decode_basic A t UseAlias) as [e0| |] eqn:E0; cbn [ebind] in He'; try discriminate.
            inversion He'; subst e. cbn [eval_dexp].
            eapply tmr_bind; [apply tm_seq_n; eapply tm_basic; [eassumption|eassumption|]|].
            -- intros m ->. apply Hd. cbn. now left.
            -- intros l [Hl Hlen]. apply tmr_ret. apply SP_fixed; [assumption|assumption|].
               intros n0 E1. rewrite Ers in E1. inversion E1; subst. rewrite Hlen. apply N2Nat.id.
      - destruct Hpos0 as [Hsafe [_ [[Ht|[Ht|[m Ht]]] _]]]; subst t.
        + assert (Hx : exists mx, e = EVarBytes mx).
          { destruct s as [sz|]; [destruct (resolve_size A sz false); cbn [ebind] in He; try discriminate|];
              unfold decode_variable in He; inversion He; eauto. }
          destruct Hx as [mx ->]. cbn [eval_dexp]. eapply tmr_bind; [apply tmr_prim; [apply safe_read_variable_bytes|apply mono_read_variable_bytes]|].
          intros w _. apply tmr_ret. constructor.
        + assert (Hx : exists mx, e = EString mx).
          { destruct s as [sz|]; [destruct (resolve_size A sz false); cbn [ebind] in He; try discriminate|];
              unfold decode_variable in He; inversion He; eauto. }
          destruct Hx as [mx ->]. cbn [eval_dexp]. eapply tmr_bind; [apply tmr_prim; [apply safe_read_string|apply mono_read_string]|].
          intros b _. apply tmr_ret. constructor.
        + cbn [unwrap_array safe_ref] in Hsafe.
          assert (Hx : exists mx, e = EVarArray m (is_generic A m) mx).
          { destruct s as [sz|]; [destruct (resolve_size A sz false); cbn [ebind] in He; try discriminate|];
              unfold decode_variable in He; rewrite Hsafe in He; inversion He; eauto. }
          destruct Hx as [mx ->]. cbn [eval_dexp]. destruct Hr as [ty Hty].
          eapply tmr_bind.
          * eapply tmr_read_variable_array with (P := ShN A m).
            -- intros H4. eapply Hrec_g; eassumption.
            -- intros v Hv0. destruct (shaped_wsz A md Hgen Hsup m v Hv0) as [w [Hw Hw4]].
               exists w. split; [exact Hw|]. split; [exact Hw4|].
               eapply (Hv m); [cbn; now left|exact Hv0|exact Hw].
            -- exact Hlf.
          * intros l Hl. apply tmr_ret. constructor; try discriminate.
            induction Hl; constructor; [now constructor|assumption].
    Qed.

    Lemma tm_fexp a opt fe :
      fexp_of A a opt = EOk fe -> pos_ok a opt -> ref_ok A (unwrap_array a) ->
      (forall m, In m (direct_pos a opt) -> (rk m < rk self)%nat) ->
      (forall m, In m (var_elem a) -> elem_pos m) ->
      tmr r (ShP A a opt) (eval_fexp md rec lf fe).
    Proof.
      intros Hfe Hpos0 Hr Hd Hv. destruct opt.
      - unfold fexp_of in Hfe. inversion Hfe; subst fe.
        destruct Hpos0 as [Hsafe [Ho _]]. destruct (Ho eq_refl) as [m ->].
        cbn [unwrap_array safe_ref] in *. rewrite Hsafe. cbn [eval_fexp].
        change read_u32 with (read_be 4). apply tmr_after_word. intros d H4.
        destruct (d =? 0); [apply tmr_ret; constructor|].
        destruct (d =? 1); [|apply tmr_fail].
        destruct Hr as [ty Hty]. eapply tmr_bind; [eapply Hrec_g; eassumption|]. intros x Hx.
        eapply (tmr_bind _ (fun _ => True)).
        + apply tmr_prim; [apply safe_reserve|apply mono_reserve].
        + intros _ _. apply tmr_ret. constructor. now constructor.
      - apply fexp_of_plain in Hfe as [e [He ->]]. cbn [eval_fexp]. now apply tm_pos.
    Qed.

    Lemma tm_fields fs : forall ps,
      Forall2 (fun fd p => fexp_of A (sf_value fd) (sf_optional fd) = EOk (snd p)) fs ps ->
      Forall (fun f => pos_ok (sf_value f) (sf_optional f)) fs ->
      Forall (fun f => ref_ok A (unwrap_array (sf_value f))) fs ->
      (forall f m, In f fs -> In m (direct_pos (sf_value f) (sf_optional f)) -> (rk m < rk self)%nat) ->
      (forall f m, In f fs -> In m (var_elem (sf_value f)) -> elem_pos m) ->
      tmr r (ShF A fs) (eval_fields md rec lf ps).
    Proof.
      induction fs as [|f fs IH]; intros ps Hps Hpos0 Hr Hd Hv; inversion Hps; subst; cbn [eval_fields].
      - apply tmr_ret. constructor.
      - inversion Hpos0; subst. inversion Hr; subst.
        eapply tmr_bind; [eapply tm_fexp; try eassumption|].
        + intros m Hm. eapply Hd; [now left|exact Hm].
        + intros m Hm. eapply Hv; [now left|exact Hm].
        + intros x Hx. eapply tmr_bind; [eapply IH; try eassumption|].
          * intros f0 m Hf0. apply Hd. now right.
          * intros f0 m Hf0. apply Hv. now right.
          * intros xs Hxs. apply tmr_ret. now constructor.
    Qed.

    Lemma tm_enum e z : forall arms,
      Forall (fun a => exists m v, In (m, VNum v) (en_variants e) /\ snd a = m /\ int_literal (fst a) <> None) arms ->
      (forall m v, In (m, VNum v) (en_variants e) -> ShN A self (RVVariant self m None)) ->
      tmr r (ShN A self) (eval_enum self z arms).
    Proof.
      intros arms Hall Hsh. induction Hall as [|[text name] arms [m [v [Hin [Hn Hlit]]]] _ IH]; cbn [eval_enum].
      - apply tmr_fail.
      - cbn [fst snd] in *. subst name. destruct (int_literal text); [|contradiction].
        destruct (Z.eqb z0 z); [apply tmr_ret; eapply Hsh; eassumption|exact IH].
    Qed.

    (* ---------- unions ---------- *)
    Section OneUnionTerm.
      Variable u : union_t.
      Hypothesis Hget : get_type A self = Some (TUnion u).
      Variable dd : dval.
      Variable d : xval.
      Hypothesis Td : TypedB A (disc_type A u) d.
      Hypothesis Hdd : dval_of (rv 0 0 d) = Some dd.
      Hypothesis Hd_arms : forall c m, In c (un_cases u) -> In m (direct_pos (uc_value c) false) -> (rk m < rk self)%nat.
      Hypothesis Hd_def : forall c m, un_default u = Some c -> In m (direct_pos (uc_value c) false) -> (rk m < rk self)%nat.
      Hypothesis Hv_arms : forall c m, In c (un_cases u) -> In m (var_elem (uc_value c)) -> elem_pos m.
      Hypothesis Hv_def : forall c m, un_default u = Some c -> In m (var_elem (uc_value c)) -> elem_pos m.

      Lemma tm_arms arms fb :
        Forall (entry_ok A u) arms -> fb_ok A u arms fb ->
        tmr r (ShN A self) (eval_arms md rec lf self dd arms fb).
      Proof.
        intros Hall. induction Hall as [|en arms Hen _ IH]; intros Hfb; cbn [eval_arms].
        - destruct fb as [e| |]; cbn [fb_ok] in Hfb.
          + destruct Hfb as [c [Hc He]].
            eapply tmr_bind.
            * eapply tm_pos; [exact He|exact (proj2 (sup_arms A Hcore self u Hget) c Hc)|
                              exact (proj2 (sup4_refs A Hsup4 self _ Hget) c Hc)| |].
              -- intros m Hm. eapply Hd_def; eassumption.
              -- intros m Hm. eapply Hv_def; eassumption.
            * intros p Hp. apply tmr_ret. eapply SN_union_default; eassumption.
          + destruct (dd_as_i32 A md Hgen Hsup4 self u Hget dd d Td Hdd) as [z Hz]. rewrite Hz. apply tmr_fail.
          + destruct Hfb as [en [[] _]].
        - destruct en as [[m variant] payload].
          destruct (entry_matches A md Hgen Hsup4 self u Hget dd d Td Hdd _ Hen) as [b Hb]. cbn [fst] in Hb. rewrite Hb. destruct b.
          + destruct Hen as [[c [l [e [Hc [Hl [E He]]]]]]|[[l [Hl [Hnd E]]]|[Hl E]]]; inversion E; subst.
            * eapply tmr_bind.
              -- eapply tm_pos; [exact He|exact (proj1 (Forall_forall _ _) (proj1 (sup_arms A Hcore self u Hget)) c Hc)|
                                 exact (proj1 (Forall_forall _ _) (proj1 (sup4_refs A Hsup4 self _ Hget)) c Hc)| |].
                 ++ intros m0 Hm0. eapply Hd_arms; eassumption.
                 ++ intros m0 Hm0. eapply Hv_arms; eassumption.
              -- intros p Hp. apply tmr_ret. eapply SN_union_data; eassumption.
            * apply tmr_ret. eapply SN_union_void; eassumption.
            * apply tmr_ret. change "default"%string with (variant_name "default"). eapply SN_union_void; eassumption.
          + apply IH. destruct fb as [e| |]; cbn [fb_ok] in *; try exact Hfb.
            destruct Hfb as [en' [[<-|Hin] Hw]]; [|eauto].
            cbn [fst] in Hw. subst m. cbn in Hb. discriminate.
      Qed.
    End OneUnionTerm.

    Lemma tm_body tself b :
      get_type A self = Some tself ->
      emit_from_body A tself = EOk b -> tmr r (ShN A self) (eval_body md rec lf self b).
    Proof.
      intros Hself Hb. pose proof (proj2 (Hrk self tself Hself)) as Hd. pose proof (Hpos self tself Hself) as Hv.
      destruct tself as [s|u|e|td]; cbn [emit_from_body] in Hb.
      - (* struct *)
        destruct (emapM _ (st_fields s)) as [ps| |] eqn:Eps; cbn [ebind] in Hb; try discriminate.
        inversion Hb; subst b. cbn [eval_body].
        assert (Hps : Forall2 (fun fd p => fexp_of A (sf_value fd) (sf_optional fd) = EOk (snd p)) (st_fields s) ps).
        { eapply emapM_Forall2; [|exact Eps]. intros fd p Hp. cbv beta in Hp. unfold fexp_of.
          destruct (sf_optional fd); [inversion Hp; reflexivity|].
          destruct (decode_array A (sf_value fd) UseAlias); cbn [ebind] in Hp |- *; try discriminate.
          inversion Hp. reflexivity. }
        eapply tmr_bind.
        + eapply tm_fields; [exact Hps|exact (sup_struct A Hcore self s Hself)|exact (sup4_refs A Hsup4 self _ Hself)| |].
          * intros f m Hf Hm. apply Hd. cbn [direct_refs]. apply in_flat_map. exists f. split; assumption.
          * intros f m Hf Hm. intros v w. apply Hv. cbn [var_elems]. apply in_flat_map. exists f. split; assumption.
        + intros vs Hvs. apply tmr_ret. pose proof (Hkeys _ _ (assoc_In _ _ _ Hself)) as Kk. cbn in Kk.
          rewrite Kk. eapply SN_struct; [exact Hself|exact Hvs].
      - (* union *)
        destruct (decode_basic A (un_sw_type u) UseTarget) as [disc| |] eqn:Edisc; cbn [ebind] in Hb; try discriminate.
        destruct (emapM _ (un_cases u)) as [rows| |] eqn:Erows; cbn [ebind] in Hb; try discriminate.
        destruct (match un_default u with Some d0 => _ | None => _ end) as [fb| |] eqn:Efb; cbn [ebind] in Hb; try discriminate.
        inversion Hb; subst b. clear Hb. cbn [eval_body].
        pose proof (proj1 (proj2 Hwf self _ Hself)) as Hdisc.
        pose proof (disc_emit A Hsup4 u disc Hdisc Edisc) as Hde.
        assert (Hrd : ref_ok A (disc_type A u)).
        { destruct Hdisc as [E|[E|[E|[e [en [E He]]]]]]; rewrite E; cbn; eauto. }
        eapply tmr_bind.
        { eapply tm_basic; [exact Hde|exact Hrd|]. intros m Hm. apply Hd. cbn [direct_refs]. rewrite Hm.
          apply in_or_app. left. now left. }
        intros dv Hdv.
        destruct (disc_back A Hsup4 u dv Hdisc Hdv) as [d [dd [Td [Hdv1 Hdd]]]]. rewrite Hdv1.
        eapply tm_arms; try eassumption.
        + intros c m Hc Hm. apply Hd. cbn [direct_refs]. apply in_or_app. right. apply in_or_app. left.
          apply in_flat_map. exists c. split; assumption.
        + intros c m Hc Hm. apply Hd. cbn [direct_refs]. apply in_or_app. right. apply in_or_app. right.
          rewrite Hc. exact Hm.
        + intros c m Hc Hm v w. apply Hv. cbn [var_elems]. apply in_or_app. left.
          apply in_flat_map. exists c. split; assumption.
        + intros c m Hc Hm v w. apply Hv. cbn [var_elems]. apply in_or_app. right. rewrite Hc. exact Hm.
        + (* every emitted arm is one of the declared ones *)
          apply Forall_app. split.
          * assert (G : forall cases rws, incl cases (un_cases u) ->
                      emapM (fun c => emapM (fun l => ebind (decode_array A (uc_value c) UseAlias)
                                    (fun e => EOk (label_matcher A (un_sw_type u) l, variant_name l, Some e))) (uc_values c)) cases = EOk rws ->
                      Forall (entry_ok A u) (concat rws)).
            { induction cases as [|c cases IH]; intros rws Hincl Hm; cbn [emapM] in Hm.
              - inversion Hm. constructor.
              - destruct (emapM _ (uc_values c)) as [row| |] eqn:Erow; cbn [ebind] in Hm; try discriminate.
                destruct (emapM _ cases) as [rows'| |] eqn:Erows'; cbn [ebind] in Hm; try discriminate.
                inversion Hm; subst rws. cbn [concat]. apply Forall_app. split.
                + destruct (row_shape A u c row Erow) as [[_ ->]|[e [He ->]]]; [constructor|].
                  apply Forall_forall. intros x Hx. apply in_map_iff in Hx as [l [<- Hl]].
                  left. exists c, l, e. split; [apply Hincl; now left|]. split; [exact Hl|]. split; [reflexivity|exact He].
                + apply IH; [intros y Hy; apply Hincl; now right|reflexivity]. }
            exact (G (un_cases u) rows (incl_refl _) Erows).
          * apply Forall_app. split.
            -- apply Forall_forall. intros x Hx. apply in_map_iff in Hx as [l [<- Hl]]. apply filter_In in Hl as [Hl Hnd].
               right. left. exists l. split; [exact Hl|]. split; [|reflexivity].
               apply Bool.negb_true_iff, String.eqb_neq in Hnd. exact Hnd.
            -- destruct (mem "default" (un_void u)) eqn:Em; [|constructor].
               constructor; [|constructor]. right. right. split; [now apply mem_In|reflexivity].
        + (* the fallback *)
          destruct (un_default u) as [dc|] eqn:Edc.
          * destruct (decode_array A (uc_value dc) UseAlias) as [e| |] eqn:Ee; cbn [ebind] in Efb; try discriminate.
            inversion Efb; subst fb. cbn [fb_ok]. eauto.
          * inversion Efb; subst fb. destruct (mem "default" (un_void u)) eqn:Em; cbn [fb_ok]; [|exact I].
            exists (MWild, variant_name "default", @None dexp). split; [|reflexivity].
            apply in_or_app. right. apply in_or_app. right. now left.
      - (* enum *)
        inversion Hb; subst b. cbn [eval_body].
        eapply tmr_bind; [apply tmr_prim; [apply safe_read_i32|apply mono_read_i32]|]. intros z _.
        eapply tm_enum with (e := e).
        + apply Forall_forall. intros a Ha. apply in_map_iff in Ha as [[m vv] [<- Hin]]. cbn [fst snd].
          destruct (proj1 (sup_enum A Hcore self e Hself) (m, vv) Hin) as [x [Hx Hr]]. cbn in Hx. subst vv.
          exists m, x. split; [exact Hin|]. split; [reflexivity|].
          rewrite (int_literal_string_of_Z x ltac:(lia)). discriminate.
        + intros m v Hin. eapply SN_enum; eassumption.
      - (* typedef *)
        pose proof (sup_typedef A Hcore self td Hself) as Htd.
        rewrite (typedef_emit A Hcore self td Hself Htd) in Hb.
        destruct (decode_array A (typedef_pos td) UseAlias) as [e0| |] eqn:Ee; cbn [ebind] in Hb; try discriminate.
        inversion Hb; subst b. cbn [eval_body].
        eapply tmr_bind.
        + eapply tm_pos; [exact Ee|exact (proj1 (proj2 Htd))| | |].
          * pose proof (sup4_refs A Hsup4 self _ Hself) as R. cbn in R. unfold typedef_pos. destruct (td_alias td); exact R.
          * intros m Hm. apply Hd. exact Hm.
          * intros m Hm v w. apply Hv. exact Hm.
        + intros y Hy. apply tmr_ret. eapply SN_typedef; eassumption.
    Qed.
  End Body.

  Definition fuel_bound (r : N) (rank : nat) : nat := (N.to_nat (r / 4) * S K + rank + 1)%nat.

  Theorem dec_term fuel : forall r n t,
    get_type A n = Some t -> (fuel_bound r (rk n) <= fuel)%nat -> tmr r (ShN A n) (dec md fuel n).
  Proof.
    induction fuel as [|f IH]; intros r n t Hget Hf; [unfold fuel_bound in Hf; lia|].
    cbn [dec]. destruct (find_from_gen A md Hgen Hkeys n t Hget) as [b [Hb Hfind]]. rewrite Hfind. cbn [i_name i_body].
    unfold fuel_bound in Hf.
    eapply tm_body; [| | |exact Hget|exact Hb].
    - intros m ty Hm Hlt. eapply IH; [exact Hm|]. unfold fuel_bound. lia.
    - intros m ty Hm H4. eapply IH; [exact Hm|]. unfold fuel_bound.
      pose proof (proj1 (Hrk m ty Hm)) as HmK.
      assert (E : (r - 4) / 4 = r / 4 - 1).
      { replace r with ((r - 4) + 1 * 4) at 2 by lia. rewrite N.div_add by lia. lia. }
      assert (1 <= r / 4) by (apply N.div_le_lower_bound; lia).
      rewrite E. replace (N.to_nat (r / 4 - 1)) with (N.to_nat (r / 4) - 1)%nat by lia.
      assert (1 <= N.to_nat (r / 4))%nat by lia.
      nia.
    - nia.
  Qed.

  (* C04, termination: enough fuel for the bytes at hand and the model never answers Fuel
     (nor Panic); more fuel changes nothing about that *)
  Theorem dec_terminates n t s fuel :
    get_type A n = Some t -> bok s ->
    (fuel_bound (remaining s) K <= fuel)%nat ->
    match dec md fuel n s with
    | Ok v s' => ShN A n v /\ remaining s' <= remaining s
    | Err _ _ => True
    | Panic _ => False
    | Fuel => False
    end.
  Proof.
    intros Hget Hb Hf.
    assert (Hf' : (fuel_bound (remaining s) (rk n) <= fuel)%nat).
    { pose proof (proj1 (Hrk n t Hget)). unfold fuel_bound in *. lia. }
    pose proof (dec_term fuel (remaining s) n t Hget Hf' s Hb ltac:(lia)) as H.
    destruct (dec md fuel n s); try exact I; try contradiction.
    destruct H as [H1 [_ H3]]. split; assumption.
  Qed.
End Term.

(* ---------- decidable instances of the two hypotheses ---------- *)

Fixpoint depth (A : ast) (fuel : nat) (n : string) : nat :=
  match fuel with
  | O => 0
  | S f => match get_type A n with
           | Some t => S (fold_right (fun m acc => Nat.max (depth A f m) acc) 0%nat (direct_refs A t))
           | None => 0
           end
  end.

Definition ranked_b (A : ast) : bool :=
  let K := List.length (types A) in
  forallb (fun kv => Nat.leb (depth A K (fst kv)) K &&
                     forallb (fun m => Nat.ltb (depth A K m) (depth A K (fst kv))) (direct_refs A (snd kv)))
          (types A).

Lemma ranked_b_sound A : ranked_b A = true -> ranked A (depth A (List.length (types A))) (List.length (types A)).
Proof.
  unfold ranked_b. intros H n t G. apply assoc_In in G.
  pose proof (proj1 (forallb_forall _ _) H (n, t) G) as X. cbn [fst snd] in X.
  apply Bool.andb_true_iff in X as [X1 X2]. split; [now apply Nat.leb_le|].
  intros m Hm. apply Nat.ltb_lt. exact (proj1 (forallb_forall _ _) X2 m Hm).
Qed.

Section Pos.
  Variable A : ast.
  Variable md : module_ir.
  Hypothesis Hgen : gen A = EOk md.
  Hypothesis Hsup : sup A.

  Let Hcore : sup_core A := sup_c A Hsup.
  Let Hwf : wf_size A := sup_size A Hcore.
  Let Hkeys : keys_ok A := proj1 Hwf.

  Definition basic_posb (rec : string -> bool) (t : basic_type) : bool :=
    match t with Opaque => false | Ident m => rec m | _ => true end.

  (* a position that occupies at least a word whatever the value: not inline variable-length
     opaque data (its wire_size() is the payload length, finding F1); fixed-length ones when
     the declared length is at least 1 *)
  Definition size_pos (s : array_size) : bool :=
    match resolve_size A s true with EOk n => 1 <=? n | _ => false end.

  Definition pos_posb (rec : string -> bool) (a : array_type) (opt : bool) : bool :=
    if opt then true else
    match a with
    | ANone t => basic_posb rec t
    | AVar Opaque _ => false
    | AVar _ _ => true
    | AFixed Opaque s => size_pos s
    | AFixed t s => size_pos s && basic_posb rec t
    end.

  Fixpoint posb (fuel : nat) (n : string) : bool :=
    match fuel with
    | O => false
    | S f => match get_type A n with
             | Some (TEnum _) | Some (TUnion _) => true
             | Some (TStruct s) => existsb (fun fd => pos_posb (posb f) (sf_value fd) (sf_optional fd)) (st_fields s)
             | Some (TTypedef t) =>
               (* a typedef'd variable-length opaque counts its length word (unlike the inline form) *)
               (is_opaque (td_target t) && match td_alias t with AFixed _ _ => false | _ => true end)
               || pos_posb (posb f) (typedef_pos t) false
             | None => false
             end
    end.

  Definition elems_pos_b : bool :=
    forallb (fun kv => forallb (posb (List.length (types A))) (var_elems (snd kv))) (types A).

  Lemma wsz_string_ge4 b : 4 <= wsz_string b.
  Proof. unfold wsz_string. lia. Qed.

  Lemma basic_ge (rec : string -> bool) :
    (forall n v w, rec n = true -> ShN A n v -> wsz md v = Some w -> 4 <= w) ->
    forall t v w, basic_posb rec t = true -> ShB A t v -> wsz md v = Some w -> 4 <= w.
  Proof.
    intros Hrec t v w Hp HB Hw. inversion HB; subst; cbn [basic_posb wsz] in *;
      try (inversion Hw; subst; lia); try discriminate.
    - inversion Hw. apply wsz_string_ge4.
    - eapply Hrec; eassumption.
  Qed.

  Lemma pos_ge (rec : string -> bool) :
    (forall n v w, rec n = true -> ShN A n v -> wsz md v = Some w -> 4 <= w) ->
    forall a opt v w, pos_posb rec a opt = true -> ShP A a opt v -> wsz md v = Some w ->
                      4 <= padded (contains_opaque a) w.
  Proof.
    intros Hrec a opt v w Hp Hs Hw. unfold pos_posb in Hp.
    assert (Hle : forall b, 4 <= w -> 4 <= padded b w) by (intros b Hb; unfold padded; destruct b; lia).
    inversion Hs; subst; cbn [wsz] in Hw.
    - (* plain *) apply Hle. eapply basic_ge; eassumption.
    - apply Hle. inversion Hw. unfold wsz_opt. lia.
    - apply Hle. destruct (wsz md y); cbn [option_map] in Hw; inversion Hw. unfold wsz_opt. lia.
    - (* fixed opaque: the padded payload *)
      unfold size_pos in Hp. destruct (resolve_size A s true) as [n| |] eqn:Ers; try discriminate.
      apply N.leb_le in Hp.
      match goal with HL : forall n0, _ = EOk n0 -> len (vdata _) = n0 |- _ => pose proof (HL n eq_refl) as Hlen end.
      inversion Hw; subst w. unfold contains_opaque, padded, wsz_bytes. cbn [unwrap_array is_opaque].
      rewrite Hlen. pose proof (pad_length_spec n) as [_ Hm].
      assert (4 <= n + pad_length n \/ n + pad_length n = 0) as [X|X]; [|exact X|lia].
      destruct (N.eq_dec (n + pad_length n) 0); [now right|left].
      assert ((n + pad_length n) / 4 * 4 = n + pad_length n).
      { pose proof (N.div_mod (n + pad_length n) 4 ltac:(lia)). lia. }
      assert (1 <= (n + pad_length n) / 4) by (destruct ((n + pad_length n) / 4) eqn:Eq; lia). lia.
    - (* fixed array of positive elements, at least one of them *)
      apply Hle.
      assert (Ho : t <> Opaque) by assumption.
      assert (Hp' : size_pos s = true /\ basic_posb rec t = true).
      { destruct t; try (apply Bool.andb_true_iff in Hp; exact Hp). congruence. }
      destruct Hp' as [Hsz Hb]. unfold size_pos in Hsz.
      destruct (resolve_size A s true) as [n| |] eqn:Ers; try discriminate. apply N.leb_le in Hsz.
      match goal with HL : forall n0, _ = EOk n0 -> N.of_nat (List.length l) = n0 |- _ => pose proof (HL n eq_refl) as Hlen end.
      destruct l as [|x l]; [cbn in Hlen; lia|].
      match goal with HS : ShL A t (x :: l) |- _ => inversion HS; subst end.
      cbn [map sum_opt] in Hw. destruct (wsz md x) as [wx|] eqn:Ex; [|discriminate].
      destruct (sum_opt (map (wsz md) l)) as [y|]; cbn [option_map] in Hw; [|discriminate].
      inversion Hw. pose proof (basic_ge rec Hrec t x wx Hb ltac:(assumption) Ex). unfold wsz_slice. lia.
    - discriminate.
    - apply Hle. inversion Hw. apply wsz_string_ge4.
    - apply Hle. destruct (sum_opt (map (wsz md) l)); cbn [option_map] in Hw; inversion Hw. unfold wsz_vec. lia.
  Qed.

  Lemma fields_ge (rec : string -> bool) :
    (forall n v w, rec n = true -> ShN A n v -> wsz md v = Some w -> 4 <= w) ->
    forall fs vs w, ShF A fs vs ->
    existsb (fun fd => pos_posb rec (sf_value fd) (sf_optional fd)) fs = true ->
    zip_sizes (map (fun f => (safe_name (sf_name f), contains_opaque (sf_value f))) fs) (map (wsz md) vs) = Some w ->
    4 <= w.
  Proof.
    intros Hrec fs vs w Hs. revert w. induction Hs as [|f fs v vs Hv Hvs IH]; intros w He Hz; [discriminate|].
    cbn [existsb map zip_sizes snd] in *.
    destruct (wsz md v) as [wv|] eqn:Ev; [|discriminate].
    destruct (zip_sizes _ (map (wsz md) vs)) as [wr|] eqn:Er; cbn [option_map] in Hz; [|discriminate].
    inversion Hz; subst w. apply Bool.orb_true_iff in He as [He|He].
    - pose proof (pos_ge rec Hrec _ _ _ _ He Hv Ev). lia.
    - specialize (IH wr He eq_refl). lia.
  Qed.

  Lemma posb_sound fuel : forall n v w, posb fuel n = true -> ShN A n v -> wsz md v = Some w -> 4 <= w.
  Proof.
    induction fuel as [|f IH]; intros n v w Hp Hs Hw; [discriminate|]. cbn [posb] in Hp.
    inversion Hs; subst;
      match goal with G : get_type A _ = Some _ |- _ => rewrite G in Hp; pose proof G as Hget end.
    - (* struct *)
      cbn [wsz] in Hw. rewrite (find_size_gen A md Hgen Hkeys n _ Hget) in Hw. cbn [i_body emit_size_body] in Hw.
      eapply fields_ge; [exact IH|eassumption|exact Hp|exact Hw].
    - cbn [wsz] in Hw. destruct (find_size md n) as [[? ? []]|]; try discriminate.
      + destruct (assoc _ arms); [destruct (wsz md p); cbn [option_map] in Hw; inversion Hw; lia|].
        destruct default; [|discriminate]. destruct (String.eqb _ _); [|discriminate].
        destruct (wsz md p); cbn [option_map] in Hw; inversion Hw; lia.
    - cbn [wsz] in Hw. destruct (find_size md n) as [[? ? []]|]; try discriminate.
      + destruct (mem _ voids); inversion Hw; lia.
      + inversion Hw; lia.
    - cbn [wsz] in Hw. destruct (find_size md n) as [[? ? []]|]; try discriminate.
      + destruct (assoc _ arms); [destruct (wsz md p); cbn [option_map] in Hw; inversion Hw; lia|].
        destruct default; [|discriminate]. destruct (String.eqb _ _); [|discriminate].
        destruct (wsz md p); cbn [option_map] in Hw; inversion Hw; lia.
    - cbn [wsz] in Hw. destruct (find_size md n) as [[? ? []]|]; try discriminate.
      + destruct (mem _ voids); inversion Hw; lia.
      + inversion Hw; lia.
    - (* typedef *)
      cbn [wsz] in Hw. rewrite (find_size_gen A md Hgen Hkeys n _ Hget) in Hw. cbn [i_body emit_size_body] in Hw.
      destruct (wsz md y) as [wy|] eqn:Ey; cbn [option_map] in Hw; [|discriminate].
      inversion Hw; subst w. clear Hw.
      apply Bool.orb_true_iff in Hp as [Hp|Hp].
      + apply Bool.andb_true_iff in Hp as [Ho Hal]. rewrite Ho.
        destruct (td_alias t); try discriminate; lia.
      + match goal with HP : ShP A _ false y |- _ => pose proof (pos_ge (posb f) IH _ _ _ _ Hp HP Ey) as Hge end.
        assert (Hco : contains_opaque (typedef_pos t) = is_opaque (td_target t))
          by (unfold typedef_pos, contains_opaque; destruct (td_alias t); reflexivity).
        rewrite Hco in Hge. unfold padded in Hge.
        destruct (is_opaque (td_target t)); [destruct (td_alias t)|]; lia.
  Qed.

  Theorem elems_pos_b_sound : elems_pos_b = true -> elems_positive A md.
  Proof.
    unfold elems_pos_b. intros H n t G m Hm v w Hs Hw. apply assoc_In in G.
    pose proof (proj1 (forallb_forall _ _) H (n, t) G) as X. cbn [snd] in X.
    eapply posb_sound; [exact (proj1 (forallb_forall _ _) X m Hm)|exact Hs|exact Hw].
  Qed.
End Pos.

(* the decidable hypothesis of the termination theorem *)
Definition term_b (A : ast) : bool := sup4_b A && ranked_b A && elems_pos_b A.

Theorem terminates_b A md n t s fuel :
  gen A = EOk md -> term_b A = true -> get_type A n = Some t -> bok s ->
  (N.to_nat (remaining s / 4) * S (List.length (types A)) + List.length (types A) + 1 <= fuel)%nat ->
  match dec md fuel n s with
  | Ok v s' => ShN A n v /\ remaining s' <= remaining s
  | Err _ _ => True
  | Panic _ => False
  | Fuel => False
  end.
Proof.
  intros Hgen Hb Hget Hs Hf. unfold term_b in Hb. apply Bool.andb_true_iff in Hb as [Hb H3].
  apply Bool.andb_true_iff in Hb as [H1 H2].
  pose proof (sup4_b_sound A H1) as Hsup4.
  eapply (dec_terminates A md Hgen Hsup4 _ _ (ranked_b_sound A H2)
            (elems_pos_b_sound A md Hgen (sup4_sup A Hsup4) H3)); eassumption.
Qed.
