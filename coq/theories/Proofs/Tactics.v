From Coq Require Export List NArith ZArith Bool Lia.
From Coq Require Export ZifyBool ZifyN ZifyNat.
Ltac Zify.zify_post_hook ::= Z.div_mod_to_equations.
Arguments N.add : simpl never.
Arguments N.sub : simpl never.
Arguments N.mul : simpl never.
Arguments N.eqb : simpl never.
Arguments N.ltb : simpl never.
Arguments N.leb : simpl never.
Arguments N.modulo : simpl never.
Arguments N.div : simpl never.
Arguments N.pow : simpl never.
Arguments N.min : simpl never.
Arguments N.to_nat : simpl never.
Arguments N.of_nat : simpl never.

(* destruct the boolean test of the first `if` in the goal, keeping the comparison as a Prop *)
Ltac case_if :=
  match goal with
  | |- context [if ?b then _ else _] =>
    let E := fresh "E" in destruct b eqn:E
  end.

Ltac case_if_in H :=
  match type of H with
  | context [if ?b then _ else _] =>
    let E := fresh "E" in destruct b eqn:E
  end.
