(* C13: the generic index is exactly the set of names from which an opaque declaration is
   reachable; the fixpoint loop of GenericIndex::new stabilises within |items|+1 passes. *)
From Coq Require Import Lia.
From XdrModel Require Export Walk.
Open Scope list_scope.

(* name under which an item can be marked, and the types it mentions *)
Definition node_name (nd : node) : option string :=
  match nd with
  | NStruct s => Some (st_name s)
  | NUnion u => Some (un_name u)
  | NTypedef t => Some (bt_as_str (unwrap_array (td_alias t)))
  | _ => None
  end.

Definition node_inner (nd : node) : list basic_type :=
  match nd with
  | NStruct s => map (fun f => unwrap_array (sf_value f)) (st_fields s)
  | NUnion u => map unwrap_array (union_inner_types u)
  | NTypedef t => [td_target t]
  | _ => []
  end.

(* "an opaque declaration is reachable from n": through fields, arms (default included),
   array elements, optional links and typedef targets -- any order, depth, cycles *)
Inductive Reach (items : list node) : string -> Prop :=
| Reach_opaque n nd :
    In nd items -> node_name nd = Some n -> In Opaque (node_inner nd) -> Reach items n
| Reach_step n nd i :
    In nd items -> node_name nd = Some n -> In (Ident i) (node_inner nd) -> Reach items i ->
    Reach items n.

Definition prim_names : list string := ["u32"; "i32"; "u64"; "i64"; "f32"; "f64"; "bool"; "String"; "T"].

(* no declared name is the Rust spelling of a primitive *)
Definition no_prim_names (items : list node) : Prop :=
  forall nd n, In nd items -> node_name nd = Some n -> ~ In n prim_names.

Definition names (items : list node) : list string :=
  flat_map (fun nd => match node_name nd with Some n => [n] | None => [] end) items.

Lemma mem_In k l : mem k l = true <-> In k l.
Proof.
  induction l as [|x r IH]; cbn [mem In]; [split; [discriminate|contradiction]|].
  rewrite Bool.orb_true_iff, IH. split.
  - intros [H|H]; [left; symmetry; now apply String.eqb_eq| now right].
  - intros [H|H]; [left; subst; apply String.eqb_refl| now right].
Qed.

Lemma in_names items nd n : In nd items -> node_name nd = Some n -> In n (names items).
Proof.
  intros Hin Hn. unfold names. apply in_flat_map. exists nd. split; [exact Hin|].
  rewrite Hn. now left.
Qed.

(* does the item mention opaque or a name already in the set? *)
Definition refs (idx : list string) (nd : node) : bool := existsb (bt_generic idx) (node_inner nd).

Lemma refs_spec idx nd :
  refs idx nd = true <->
  In Opaque (node_inner nd) \/ exists i, In (Ident i) (node_inner nd) /\ mem i idx = true.
Proof.
  unfold refs. rewrite existsb_exists. split.
  - intros [t [Hin Hg]]. destruct t; cbn in Hg; try discriminate.
    + now left.
    + right. exists s. split; assumption.
  - intros [H|[i [H1 H2]]].
    + exists Opaque. split; [exact H|reflexivity].
    + exists (Ident i). split; [exact H1|exact H2].
Qed.

Lemma existsb_map' {A B} (f : A -> B) (p : B -> bool) l :
  existsb p (map f l) = existsb (fun x => p (f x)) l.
Proof. induction l as [|x r IH]; cbn [map existsb]; [reflexivity| now rewrite IH]. Qed.

(* item_generic is "not yet marked and refs" -- for typedefs under the side condition *)
Lemma item_generic_spec idx nd :
  (forall n, In n idx -> ~ In n prim_names) ->
  item_generic idx nd =
  match node_name nd with
  | Some n => if mem n idx then None else if refs idx nd then Some n else None
  | None => None
  end.
Proof.
  intros Hp. destruct nd; cbn [item_generic node_name]; try reflexivity.
  - unfold refs. cbn [node_inner]. rewrite existsb_map'. reflexivity.
  - unfold refs. cbn [node_inner]. rewrite existsb_map'. reflexivity.
  - destruct (mem (bt_as_str (unwrap_array (td_alias t))) idx); [reflexivity|].
    unfold refs. cbn [node_inner existsb]. rewrite Bool.orb_false_r.
    destruct (td_target t); cbn [bt_generic bt_as_str]; try reflexivity;
      match goal with
      | |- context [mem ?s idx] =>
        destruct (mem s idx) eqn:E; [|reflexivity];
        apply mem_In in E; exfalso; apply (Hp _ E); cbn; tauto
      end.
Qed.

Lemma names_length items : List.length (names items) <= List.length items.
Proof.
  unfold names. induction items as [|nd l IH]; cbn [flat_map List.length]; [lia|].
  rewrite app_length. destruct (node_name nd); cbn [List.length]; lia.
Qed.

Section Proofs.
  Variable items : list node.
  Hypothesis Hnp : no_prim_names items.

  Definition inv (idx : list string) : Prop :=
    NoDup idx /\ incl idx (names items) /\ forall n, In n idx -> Reach items n.

  Lemma inv_prim idx : inv idx -> forall n, In n idx -> ~ In n prim_names.
  Proof.
    intros [_ [Hi _]] n Hn. specialize (Hi n Hn). unfold names in Hi.
    apply in_flat_map in Hi as [nd [Hin Hnm]].
    destruct (node_name nd) as [m|] eqn:E; [|contradiction].
    destruct Hnm as [->|[]]. eapply Hnp; eassumption.
  Qed.

  Lemma inv_step idx nd x :
    inv idx -> In nd items -> item_generic idx nd = Some x -> inv (x :: idx).
  Proof.
    intros Hinv Hin H. rewrite item_generic_spec in H by (now apply inv_prim).
    destruct (node_name nd) as [n|] eqn:En; [|discriminate].
    destruct (mem n idx) eqn:Em; [discriminate|].
    destruct (refs idx nd) eqn:Er; [|discriminate]. inversion H; subst x.
    destruct Hinv as [Hnd [Hincl Hr]].
    split; [|split].
    - constructor; [|exact Hnd]. intros C. apply mem_In in C. congruence.
    - intros y [<-|Hy]; [eapply in_names; eassumption| now apply Hincl].
    - intros y [<-|Hy]; [|now apply Hr].
      apply refs_spec in Er as [Ho|[i [Hi Hm]]].
      + eapply Reach_opaque; eassumption.
      + eapply Reach_step; try eassumption. apply Hr. now apply mem_In.
  Qed.

  (* a pass only adds names, keeps the invariant, and what it processed with no addition
     had no reason to be added *)
  Lemma pass_spec l : forall idx,
    incl l items -> inv idx ->
    let idx' := generic_pass l idx in
    inv idx' /\ (exists added, idx' = added ++ idx) /\
    (List.length idx' = List.length idx ->
     idx' = idx /\ forall nd, In nd l -> item_generic idx nd = None).
  Proof.
    induction l as [|nd l IH]; intros idx Hl Hinv; cbn [generic_pass].
    - split; [exact Hinv|]. split; [now exists []|]. intros _. split; [reflexivity|]. intros ? [].
    - assert (Hnd : In nd items) by (apply Hl; now left).
      assert (Hl' : incl l items) by (intros y Hy; apply Hl; now right).
      destruct (item_generic idx nd) as [x|] eqn:E.
      + pose proof (inv_step idx nd x Hinv Hnd E) as Hinv'.
        destruct (IH (x :: idx) Hl' Hinv') as [H1 [[added H2] H3]].
        split; [exact H1|]. split; [exists (added ++ [x]); rewrite H2, <- app_assoc; reflexivity|].
        intros Hlen. rewrite H2 in Hlen. rewrite app_length in Hlen. cbn [List.length] in Hlen. lia.
      + destruct (IH idx Hl' Hinv) as [H1 [H2 H3]].
        split; [exact H1|]. split; [exact H2|].
        intros Hlen. destruct (H3 Hlen) as [He Hn]. split; [exact He|].
        intros y [<-|Hy]; [exact E| now apply Hn].
  Qed.

  Definition closed (idx : list string) : Prop :=
    forall nd n, In nd items -> node_name nd = Some n -> refs idx nd = true -> In n idx.

  Lemma stable_closed idx :
    inv idx -> (forall nd, In nd items -> item_generic idx nd = None) -> closed idx.
  Proof.
    intros Hinv Hnone nd n Hin Hn Hr. specialize (Hnone nd Hin).
    rewrite item_generic_spec in Hnone by (now apply inv_prim).
    rewrite Hn in Hnone. destruct (mem n idx) eqn:Em; [now apply mem_In|].
    rewrite Hr in Hnone. discriminate.
  Qed.

  Lemma loop_spec fuel : forall idx,
    inv idx -> List.length idx + fuel > List.length (names items) ->
    let r := generic_loop fuel items idx in
    inv r /\ closed r.
  Proof.
    induction fuel as [|f IH]; intros idx Hinv Hlen; cbn [generic_loop].
    - exfalso. destruct Hinv as [Hnd [Hincl _]].
      pose proof (NoDup_incl_length Hnd Hincl). lia.
    - destruct (pass_spec items idx (incl_refl _) Hinv) as [Hinv' [[added Hadd] Hstable]].
      destruct (Nat.eqb_spec (List.length (generic_pass items idx)) (List.length idx)) as [E|E].
      + destruct (Hstable E) as [He Hnone]. split; [exact Hinv'|].
        rewrite He. apply stable_closed; [exact Hinv| exact Hnone].
      + apply IH; [exact Hinv'|].
        rewrite Hadd in *. rewrite app_length in *. lia.
  Qed.

  Lemma index_spec : inv (generic_index items) /\ closed (generic_index items).
  Proof.
    unfold generic_index. apply loop_spec.
    - split; [constructor|]. split; [intros ? []| intros ? []].
    - pose proof (names_length items). cbn [List.length]. lia.
  Qed.

  Theorem generic_index_reach n : mem n (generic_index items) = true <-> Reach items n.
  Proof.
    destruct index_spec as [[_ [_ Hsound]] Hclosed]. split.
    - intros H. apply Hsound. now apply mem_In.
    - intros H. apply mem_In. induction H as [n nd Hin Hn Ho|n nd i Hin Hn Hi _ IH].
      + eapply Hclosed; try eassumption. apply refs_spec. now left.
      + eapply Hclosed; try eassumption. apply refs_spec. right. exists i. split; [exact Hi|].
        now apply mem_In.
  Qed.

  (* termination of the real `while`: one more pass over the result adds nothing *)
  Theorem generic_index_stable :
    generic_pass items (generic_index items) = generic_index items.
  Proof.
    destruct index_spec as [Hinv Hclosed].
    destruct (pass_spec items (generic_index items) (incl_refl _) Hinv) as [_ [[added Hadd] Hst]].
    assert (Hnone : forall l idx, inv idx -> closed idx -> incl l items -> generic_pass l idx = idx).
    { induction l as [|nd l IHl]; intros idx Hi Hc Hl; cbn [generic_pass]; [reflexivity|].
      assert (E : item_generic idx nd = None).
      { rewrite item_generic_spec by (now apply inv_prim).
        destruct (node_name nd) as [m|] eqn:Em; [|reflexivity].
        destruct (mem m idx) eqn:Emm; [reflexivity|].
        destruct (refs idx nd) eqn:Er; [|reflexivity].
        assert (In m idx) by (eapply Hc; try eassumption; apply Hl; now left).
        apply mem_In in H. congruence. }
      rewrite E. apply IHl; try assumption. intros y Hy. apply Hl. now right. }
    apply Hnone; [exact Hinv| exact Hclosed| apply incl_refl].
  Qed.
End Proofs.

(* ---------- the emitted impls carry the parameter exactly for the generic names ---------- *)
From XdrModel Require Import Emit.

Lemma emapM_Forall2 {A B} (f : A -> eres B) (l : list A) (r : list B) (P : A -> B -> Prop) :
  (forall x y, f x = EOk y -> P x y) -> emapM f l = EOk r -> Forall2 P l r.
Proof.
  intros HP. revert r. induction l as [|x l IH]; intros r H; cbn [emapM] in H.
  - inversion H. constructor.
  - destruct (f x) as [y| |] eqn:E; cbn [ebind] in H; try discriminate.
    destruct (emapM f l) as [ys| |] eqn:E2; cbn [ebind] in H; try discriminate.
    inversion H; subst. constructor; [now apply HP| now apply IH].
Qed.

Lemma gen_from_generic a md :
  gen a = EOk md ->
  Forall (fun i => i_generic i = is_generic a (i_name i)) (m_from md).
Proof.
  unfold gen. intros H. destruct (emit_from a) as [fr| |] eqn:E; cbn [ebind] in H; try discriminate.
  inversion H; subst md. cbn [m_from]. unfold emit_from in E.
  eapply emapM_Forall2 with (P := fun _ i => i_generic i = is_generic a (i_name i)) in E.
  - clear H. induction E; constructor; assumption.
  - intros kv i Hi. destruct (emit_from_body a (snd kv)); cbn [ebind] in Hi; try discriminate.
    inversion Hi. reflexivity.
Qed.

Lemma gen_size_generic a md :
  gen a = EOk md ->
  Forall (fun i => i_generic i = is_generic a (i_name i)) (m_size md).
Proof.
  unfold gen. intros H. destruct (emit_from a) as [fr| |] eqn:E; cbn [ebind] in H; try discriminate.
  inversion H; subst md. cbn [m_size]. unfold emit_size.
  apply Forall_forall. intros i Hi. apply in_map_iff in Hi as [kv [<- _]]. reflexivity.
Qed.
