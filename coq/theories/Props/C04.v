(* C04 -- decoders never panic, abort or overflow, whatever the bytes.
   What is proved here, for every buffer and every argument: each reader of the runtime
   returns Ok or Err -- never a panic of Buf::advance / Bytes::slice / Buf::get_*, and never
   an arithmetic overflow -- because every advance/slice/get is preceded by a check against
   remaining().  On success the cursor only moves forward inside the buffer (C03_frame), so no
   later read can go out of bounds either.
   PARTIAL: the theorem for whole emitted decoders ("dec (gen A) ... is Ok or Err for every
   byte string, with fuel linear in the input") is not proved; the two remaining panic sites of
   the model -- the unguarded `advance(pad_length(sum))` of read_variable_array, vacuous
   because every emitted wire_size() is a multiple of 4 (C02_wsz_mult4), and `Stuck` (module
   rustc would reject) -- and termination are tied to the code by the correspondence check K3
   on hostile inputs (every truncation, boundary words, random words, huge counts).  Native
   stack depth (finding F9) and allocator failure cannot be exhibited by a Gallina model.
   Proofs in XdrProofs.MiscProofs / XdrProofs.LedgerProofs. *)
From XdrProofs Require Import MiscProofs LedgerProofs.
Open Scope N_scope.
Open Scope list_scope.

Theorem C04_read_be_total : forall k s, total (read_be k s).
Proof. exact read_be_total'. Qed.
Print Assumptions C04_read_be_total.
Theorem C04_read_i32_total : forall s, total (read_i32 s).
Proof. exact read_i32_total. Qed.
Print Assumptions C04_read_i32_total.
Theorem C04_read_i64_total : forall s, total (read_i64 s).
Proof. exact read_i64_total. Qed.
Print Assumptions C04_read_i64_total.
Theorem C04_read_bool_total : forall s, total (read_bool s).
Proof. exact read_bool_total. Qed.
Print Assumptions C04_read_bool_total.
Theorem C04_read_bytes_total : forall n s, total (read_bytes n s).
Proof. exact read_bytes_total'. Qed.
Print Assumptions C04_read_bytes_total.
Theorem C04_read_variable_bytes_total : forall max s, total (read_variable_bytes max s).
Proof. exact read_variable_bytes_total. Qed.
Print Assumptions C04_read_variable_bytes_total.
Theorem C04_read_string_total : forall max s, total (read_string max s).
Proof. exact read_string_total. Qed.
Print Assumptions C04_read_string_total.

(* a successful decode never leaves the cursor outside the buffer it was given *)
Theorem C04_cursor_stays_inside :
  forall md fuel ty s v s', dec md fuel ty s = Ok v s' -> remaining s' <= remaining s.
Proof.
  intros md fuel ty s v s' H. pose proof (lok_dec md fuel ty s) as L. rewrite H in L. exact (proj1 L).
Qed.
Print Assumptions C04_cursor_stays_inside.

(* F4, repaired by 5247cd4: before the fix the band n <= r < n + pad n was a panic *)
Example C04_F4_band_is_an_error :
  read_bytes 3 (mk 1 0 [1; 2; 3] []) = Err InvalidLength (mk 1 0 [1; 2; 3] []).
Proof. reflexivity. Qed.
