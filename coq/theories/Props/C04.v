(* C04 -- decoders never panic, abort or overflow, whatever the bytes.
   C04_no_panic: for every specification satisfying the decidable hypothesis sup4_b (sup_b +
   every referenced type is declared), every declared type, EVERY byte string and every fuel,
   the emitted decoder (Sem.dec over Emit.gen) never panics: no Buf::advance / Bytes::slice /
   Buf::get_* out of bounds -- including the unguarded `advance(pad_length(sum))` of
   read_variable_array, harmless because the wire_size() of every decoded element is a whole
   number of words (Shaped.shaped_size) -- and never reaches a state rustc would have rejected;
   whatever it returns with Ok has the shape of the declared type.  Also: every reader of the
   runtime is total on every buffer, and the cursor never leaves the buffer.
   C04_terminates: for every specification satisfying the decidable hypothesis term_b (sup4_b +
   the named types can be ranked along their non-consuming references -- no type contains
   itself except behind an optional link or a counted array -- + counted-array elements occupy
   at least one word), every declared type and EVERY byte string, the decoder terminates: with
   fuel (remaining/4)*(K+1)+K+1 (K = number of declared types) the model's Fuel outcome is
   impossible, because every cycle of decoder calls reads a word first and every iteration of
   the counted-array loop steps over at least a word.  The recursion depth is bounded by the
   same expression -- linear in the input (finding F9: the native stack is not).
   The model itself is tied to the code by K3 on hostile inputs (every truncation, boundary
   words, random words, huge and wrapping counts).  Native stack depth (finding F9) and
   allocator failure cannot be exhibited by a Gallina model.
   Proofs in XdrProofs.NoPanic / Shaped / Termination / MiscProofs / LedgerProofs. *)
From XdrProofs Require Import MiscProofs LedgerProofs NoPanic Termination.
From XdrProps Require C01.
Open Scope N_scope.
Open Scope list_scope.

Theorem C04_no_panic :
  forall (A : ast) (md : module_ir),
    gen A = EOk md -> sup4 A ->
    forall (n : string) (t : ast_type) (fuel : nat) (s : st),
      get_type A n = Some t -> bytes_ok (s_rem s) ->
      match dec md fuel n s with
      | Ok v s' => ShN A n v /\ bytes_ok (s_rem s')
      | Panic _ => False
      | _ => True
      end.
Proof. exact (fun A md Hg Hs n t fuel s Hget Hb => dec_safe A md Hg Hs fuel n t Hget s Hb). Qed.
Print Assumptions C04_no_panic.

(* termination, general form: any ranking rk of the named types along direct references, any
   bound K on it, counted-array elements of positive size *)
Theorem C04_terminates :
  forall (A : ast) (md : module_ir) (rk : string -> nat) (K : nat),
    gen A = EOk md -> sup4 A -> ranked A rk K -> elems_positive A md ->
    forall (n : string) (t : ast_type) (s : st) (fuel : nat),
      get_type A n = Some t -> bytes_ok (s_rem s) ->
      (N.to_nat (remaining s / 4) * S K + K + 1 <= fuel)%nat ->
      match dec md fuel n s with
      | Ok v s' => ShN A n v /\ remaining s' <= remaining s
      | Err _ _ => True
      | Panic _ => False
      | Fuel => False
      end.
Proof. exact (fun A md rk K Hg Hs Hr Hp n t s fuel => dec_terminates A md Hg Hs rk K Hr Hp n t s fuel). Qed.
Print Assumptions C04_terminates.

(* the same under the decidable hypothesis term_b, which the check evaluates on every
   specification of the corpus (evidence: specs_satisfying_termination_hypothesis_term_b) *)
Theorem C04_terminates_decidable :
  forall (A : ast) (md : module_ir) (n : string) (t : ast_type) (s : st) (fuel : nat),
    gen A = EOk md -> term_b A = true -> get_type A n = Some t -> bytes_ok (s_rem s) ->
    (N.to_nat (remaining s / 4) * S (List.length (types A)) + List.length (types A) + 1 <= fuel)%nat ->
    match dec md fuel n s with
    | Ok v s' => ShN A n v /\ remaining s' <= remaining s
    | Err _ _ => True
    | Panic _ => False
    | Fuel => False
    end.
Proof. exact terminates_b. Qed.
Print Assumptions C04_terminates_decidable.

(* non-vacuity: the recursive specification of C01.A_demo (a list whose nodes hold a counted
   array of structs and an optional link to the next node) satisfies term_b *)
Example C04_term_nonvacuous : term_b C01.A_demo = true.
Proof. vm_compute. reflexivity. Qed.

Theorem C04_sup4_decidable : forall A, sup4_b A = true -> sup4 A.
Proof. exact sup4_b_sound. Qed.
Print Assumptions C04_sup4_decidable.

(* wire_size() is defined, and a whole number of words, on every value a decoder can return *)
Theorem C04_decoded_sizes_are_words :
  forall (A : ast) (md : module_ir), gen A = EOk md -> sup A ->
  forall n v, ShN A n v -> exists w, wsz md v = Some w /\ w mod 4 = 0.
Proof. exact shaped_wsz. Qed.
Print Assumptions C04_decoded_sizes_are_words.

Theorem C04_read_be_total : forall k s, total (read_be k s).
Proof. exact read_be_total'. Qed.
Print Assumptions C04_read_be_total.
Theorem C04_read_i32_total : forall s, total (read_i32 s).
Proof. exact read_i32_total. Qed.
Print Assumptions C04_read_i32_total.
Theorem C04_read_i64_total : forall s, total (read_i64 s).
Proof. exact read_i64_total. Qed.
Print Assumptions C04_read_i64_total.
Theorem C04_read_bool_total : forall s, total (read_bool s).
Proof. exact read_bool_total. Qed.
Print Assumptions C04_read_bool_total.
Theorem C04_read_bytes_total : forall n s, total (read_bytes n s).
Proof. exact read_bytes_total'. Qed.
Print Assumptions C04_read_bytes_total.
Theorem C04_read_variable_bytes_total : forall max s, total (read_variable_bytes max s).
Proof. exact read_variable_bytes_total. Qed.
Print Assumptions C04_read_variable_bytes_total.
Theorem C04_read_string_total : forall max s, total (read_string max s).
Proof. exact read_string_total. Qed.
Print Assumptions C04_read_string_total.

(* a successful decode never leaves the cursor outside the buffer it was given *)
Theorem C04_cursor_stays_inside :
  forall md fuel ty s v s', dec md fuel ty s = Ok v s' -> remaining s' <= remaining s.
Proof.
  intros md fuel ty s v s' H. pose proof (lok_dec md fuel ty s) as L. rewrite H in L. exact (proj1 L).
Qed.
Print Assumptions C04_cursor_stays_inside.

(* F4, repaired by 5247cd4: before the fix the band n <= r < n + pad n was a panic *)
Example C04_F4_band_is_an_error :
  read_bytes 3 (mk 1 0 [1; 2; 3] []) = Err InvalidLength (mk 1 0 [1; 2; 3] []).
Proof. reflexivity. Qed.
