(* C04 -- decoders never panic, abort or overflow, whatever the bytes.
   C04_no_panic: for every specification satisfying the decidable hypothesis sup4_b (sup_b +
   every referenced type is declared), every declared type, EVERY byte string and every fuel,
   the emitted decoder (Sem.dec over Emit.gen) never panics: no Buf::advance / Bytes::slice /
   Buf::get_* out of bounds -- including the unguarded `advance(pad_length(sum))` of
   read_variable_array, harmless because the wire_size() of every decoded element is a whole
   number of words (Shaped.shaped_size) -- and never reaches a state rustc would have rejected;
   whatever it returns with Ok has the shape of the declared type.  Also: every reader of the
   runtime is total on every buffer, and the cursor never leaves the buffer.
   PARTIAL: termination (the model's Fuel outcome) is not excluded by a theorem; it and the
   model itself are tied to the code by K3 on hostile inputs (every truncation, boundary
   words, random words, huge counts).  Native stack depth (finding F9) and allocator failure
   cannot be exhibited by a Gallina model.
   Proofs in XdrProofs.NoPanic / Shaped / MiscProofs / LedgerProofs. *)
From XdrProofs Require Import MiscProofs LedgerProofs NoPanic.
Open Scope N_scope.
Open Scope list_scope.

Theorem C04_no_panic :
  forall (A : ast) (md : module_ir),
    gen A = EOk md -> sup4 A ->
    forall (n : string) (t : ast_type) (fuel : nat) (s : st),
      get_type A n = Some t -> bytes_ok (s_rem s) ->
      match dec md fuel n s with
      | Ok v s' => ShN A n v /\ bytes_ok (s_rem s')
      | Panic _ => False
      | _ => True
      end.
Proof. exact (fun A md Hg Hs n t fuel s Hget Hb => dec_safe A md Hg Hs fuel n t Hget s Hb). Qed.
Print Assumptions C04_no_panic.

Theorem C04_sup4_decidable : forall A, sup4_b A = true -> sup4 A.
Proof. exact sup4_b_sound. Qed.
Print Assumptions C04_sup4_decidable.

(* wire_size() is defined, and a whole number of words, on every value a decoder can return *)
Theorem C04_decoded_sizes_are_words :
  forall (A : ast) (md : module_ir), gen A = EOk md -> sup A ->
  forall n v, ShN A n v -> exists w, wsz md v = Some w /\ w mod 4 = 0.
Proof. exact shaped_wsz. Qed.
Print Assumptions C04_decoded_sizes_are_words.

Theorem C04_read_be_total : forall k s, total (read_be k s).
Proof. exact read_be_total'. Qed.
Print Assumptions C04_read_be_total.
Theorem C04_read_i32_total : forall s, total (read_i32 s).
Proof. exact read_i32_total. Qed.
Print Assumptions C04_read_i32_total.
Theorem C04_read_i64_total : forall s, total (read_i64 s).
Proof. exact read_i64_total. Qed.
Print Assumptions C04_read_i64_total.
Theorem C04_read_bool_total : forall s, total (read_bool s).
Proof. exact read_bool_total. Qed.
Print Assumptions C04_read_bool_total.
Theorem C04_read_bytes_total : forall n s, total (read_bytes n s).
Proof. exact read_bytes_total'. Qed.
Print Assumptions C04_read_bytes_total.
Theorem C04_read_variable_bytes_total : forall max s, total (read_variable_bytes max s).
Proof. exact read_variable_bytes_total. Qed.
Print Assumptions C04_read_variable_bytes_total.
Theorem C04_read_string_total : forall max s, total (read_string max s).
Proof. exact read_string_total. Qed.
Print Assumptions C04_read_string_total.

(* a successful decode never leaves the cursor outside the buffer it was given *)
Theorem C04_cursor_stays_inside :
  forall md fuel ty s v s', dec md fuel ty s = Ok v s' -> remaining s' <= remaining s.
Proof.
  intros md fuel ty s v s' H. pose proof (lok_dec md fuel ty s) as L. rewrite H in L. exact (proj1 L).
Qed.
Print Assumptions C04_cursor_stays_inside.

(* F4, repaired by 5247cd4: before the fix the band n <= r < n + pad n was a panic *)
Example C04_F4_band_is_an_error :
  read_bytes 3 (mk 1 0 [1; 2; 3] []) = Err InvalidLength (mk 1 0 [1; 2; 3] []).
Proof. reflexivity. Qed.
