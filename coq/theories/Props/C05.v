(* C05 -- declared maxima and available bytes are enforced.
   C05_no_prefix: for every specification satisfying sup, every declared type and every
   well-typed value with size-exact array elements, EVERY strict prefix (byte granularity) of
   its RFC 4506 encoding is rejected by the emitted decoder with Error::InvalidLength.
   A value that sits exactly on a declared maximum is well typed, so C01_roundtrip says it is
   accepted.  Reader level, for every buffer, count and maximum: a count above the maximum is
   InvalidLength before anything else happens; a count whose padded payload is not present is
   InvalidLength.  C05_bound_carried / C05_position_over_max: the emitted reader call carries
   the declared maximum (literal or named constant, any base type) and a count above it is
   InvalidLength at that position whatever follows (Emit itself is tied to the code by K2);
   the typedef'd variable-length opaque loses its bound in Typedef::new (finding F3).
   Proofs in XdrProofs.NoPrefix / RuntimeProofs. *)
From XdrProofs Require Import RuntimeProofs NoPrefix.
From XdrModel Require Import Emit Walk.
Open Scope N_scope.
Open Scope list_scope.

Theorem C05_no_prefix :
  forall (A : ast) (md : module_ir),
    gen A = EOk md -> sup A ->
    forall (n : string) (x : xval) (fuel : nat) (a o : N) (l : list resv) (p : bytes),
      TypedN A n x -> (need x <= fuel)%nat -> step_exact x = true ->
      (exists q, enc x = p ++ q /\ q <> []) ->
      exists s', dec md fuel n (mk a o p l) = Err InvalidLength s'.
Proof. exact no_prefix. Qed.
Print Assumptions C05_no_prefix.

Theorem C05_opaque_over_max :
  forall a o w rest l m,
    len w = 4 -> m < be_dec w ->
    read_variable_bytes (Some m) (mk a o (w ++ rest) l) = Err InvalidLength (mk a (o + 4) rest l).
Proof. exact read_variable_bytes_over_max. Qed.
Print Assumptions C05_opaque_over_max.

Theorem C05_opaque_short :
  forall a o w rest l max,
    len w = 4 -> len rest < be_dec w + pad_length (be_dec w) ->
    exists s', read_variable_bytes max (mk a o (w ++ rest) l) = Err InvalidLength s'.
Proof. exact read_variable_bytes_short. Qed.
Print Assumptions C05_opaque_short.

Theorem C05_opaque_at_max_accepted :
  forall a o d rest l m,
    len d < 4294967296 -> len d = m ->
    read_variable_bytes (Some m)
      (mk a o (be_enc 4 (len d) ++ d ++ zeros (pad_length (len d)) ++ rest) l)
    = Ok (if len d =? 0 then empty_view else {| valloc := a; voff := o + 4; vdata := d |})
         (mk a (o + 4 + (len d + pad_length (len d))) rest l).
Proof.
  intros a o d rest l m Hd Hm. apply read_variable_bytes_app; [exact Hd|].
  intros m' E. inversion E; subst. lia.
Qed.
Print Assumptions C05_opaque_at_max_accepted.

Theorem C05_array_over_max :
  forall elem_name dec_elem wsz_elem a o w rest l m fuel,
    len w = 4 -> m < be_dec w ->
    read_variable_array elem_name dec_elem wsz_elem fuel (Some m) (mk a o (w ++ rest) l)
    = Err InvalidLength (mk a (o + 4) rest l).
Proof. exact read_variable_array_over_max. Qed.
Print Assumptions C05_array_over_max.

Theorem C05_fixed_opaque_short :
  forall n s, remaining s < n + pad_length n -> read_bytes n s = Err InvalidLength s.
Proof. exact read_bytes_short. Qed.
Print Assumptions C05_fixed_opaque_short.

(* the declared maximum -- literal or named constant -- is the maximum the emitted reader call
   carries, for every base type and both resolution modes *)
Theorem C05_bound_carried :
  forall A t s n r,
    resolve_size A s false = EOk n ->
    exists e, decode_array A (AVar t (Some s)) r = EOk e /\ carries_max e (Some n).
Proof. exact bound_carried. Qed.
Print Assumptions C05_bound_carried.

(* and at that position a count / length word above it is InvalidLength, whatever follows,
   before anything is read or reserved *)
Theorem C05_position_over_max :
  forall md rec lf A t s n e a o w rest l,
    decode_array A (AVar t (Some s)) UseAlias = EOk e -> resolve_size A s false = EOk n ->
    len w = 4 -> n < be_dec w ->
    eval_dexp md rec lf e (mk a o (w ++ rest) l) = Err InvalidLength (mk a (o + 4) rest l).
Proof. exact position_over_max. Qed.
Print Assumptions C05_position_over_max.

(* the bound written in the specification is the bound the reader is called with *)
Example C05_bound_carried_literal_and_constant :
  let A := {| constants := [("MAX"%string, ConstValue "8")]; types := []; generics := [] |} in
  decode_array A (AVar Opaque (Some (Known 5))) UseAlias = EOk (EVarBytes (Some 5)) /\
  decode_array A (AVar TString (Some (Constant "MAX"))) UseAlias = EOk (EString (Some 8)) /\
  decode_array A (AVar (Ident "t") (Some (Constant "MAX"))) UseAlias = EOk (EVarArray "t" false (Some 8)).
Proof. repeat split. Qed.

(* finding F3: the three declarations `typedef opaque x;`, `x<>` and `x<8>` have the same AST *)
Theorem C05_refuted_F3 :
  typedef_new [NType Opaque; NType (Ident "x"); NArrayVariable "8"]
  = typedef_new [NType Opaque; NType (Ident "x")].
Proof. reflexivity. Qed.
Print Assumptions C05_refuted_F3.
