(* C11 -- code generation is a pure function of the declarations.
   The model is a Gallina function, so "same text, same output" holds of it by construction;
   what can differ in the real code is hash-seed dependent iteration and process state, which
   the check covers by a source scan (hash containers only in generic_types.rs, consulted only
   through contains/insert/len; no clock/env/thread/random source) and by running the real
   generator in fresh processes and on shared Generator values.  Proved here: the one index
   that is built from a hash set depends only on the SET of top-level items -- any
   reordering of the declarations gives the same generic names (via C13).  PARTIAL: layout
   independence (whitespace/comments between tokens) is established by K1 and the search over
   random layouts, not by a theorem about the PEG.  Proofs in XdrProofs.MiscProofs. *)
From XdrProofs Require Import MiscProofs.
Open Scope list_scope.

Theorem C11_generics_order_independent :
  forall l1 l2 : list node,
    no_prim_names l1 -> (forall x, In x l1 <-> In x l2) ->
    forall n, mem n (generic_index l1) = mem n (generic_index l2).
Proof. exact generic_index_perm. Qed.
Print Assumptions C11_generics_order_independent.

Theorem C11_reach_order_independent :
  forall l1 l2 n, (forall x, In x l1 -> In x l2) -> Reach l1 n -> Reach l2 n.
Proof. exact Reach_perm. Qed.
Print Assumptions C11_reach_order_independent.

(* the emitters consult the generic index only through membership *)
Theorem C11_emitters_use_membership_only :
  forall (a : ast) (g' : list string),
    (forall k, mem k g' = mem k (generics a)) ->
    forall k, is_generic {| constants := constants a; types := types a; generics := g' |} k = is_generic a k.
Proof. intros a g' H k. unfold is_generic. cbn [generics]. apply H. Qed.
Print Assumptions C11_emitters_use_membership_only.
