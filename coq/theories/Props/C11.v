(* C11 -- code generation is a pure function of the declarations.
   The model is a Gallina function, so "same text, same output" holds of it by construction;
   what can differ in the real code is hash-seed dependent iteration and process state, which
   the check covers by a source scan (hash containers only in generic_types.rs, consulted only
   through contains/insert/len; no clock/env/thread/random source) and by running the real
   generator in fresh processes and on shared Generator values.  Proved here: the one index
   that is built from a hash set depends only on the SET of top-level items -- any
   reordering of the declarations gives the same generic names (via C13) -- and, C11_ast_reorder /
   C11_spec_reorder, the WHOLE Ast: for every permutation of the top-level items (declared names
   pairwise distinct) the constant index and the type index are the very same lists (they are
   BTreeMaps: key-sorted, determined by their lookups) and the generic set is the same; if one
   order is accepted every order is.  Layout: C11_layout_independent -- any two layouts of
   one declaration list (gaps of blanks, tabs, newlines, carriage returns, long and short
   comments between the tokens, unboundedly many) are both accepted by the PEG of the
   regenerated grammar and have the same Ast (TextProofs.parse_layout).  The theorem is about the
   model's PEG interpreter on the regenerated grammar; its agreement with pest is the tie K1/K5.
   Proofs in XdrProofs.MiscProofs, Reorder, TextProofs, TextTie. *)
From XdrProofs Require Import MiscProofs Reorder.
From Coq Require Import Permutation.
Open Scope list_scope.

Theorem C11_generics_order_independent :
  forall l1 l2 : list node,
    no_prim_names l1 -> (forall x, In x l1 <-> In x l2) ->
    forall n, mem n (generic_index l1) = mem n (generic_index l2).
Proof. exact generic_index_perm. Qed.
Print Assumptions C11_generics_order_independent.

Theorem C11_reach_order_independent :
  forall l1 l2 n, (forall x, In x l1 -> In x l2) -> Reach l1 n -> Reach l2 n.
Proof. exact Reach_perm. Qed.
Print Assumptions C11_reach_order_independent.

(* the emitters consult the generic index only through membership *)
Theorem C11_emitters_use_membership_only :
  forall (a : ast) (g' : list string),
    (forall k, mem k g' = mem k (generics a)) ->
    forall k, is_generic {| constants := constants a; types := types a; generics := g' |} k = is_generic a k.
Proof. intros a g' H k. unfold is_generic. cbn [generics]. apply H. Qed.
Print Assumptions C11_emitters_use_membership_only.

(* ---- the whole Ast is independent of the order of the declarations ---- *)
Theorem C11_ast_reorder :
  forall items1 items2 A1,
    Permutation items1 items2 -> Forall const_shaped items1 ->
    NoDup (map fst (tentries items1)) -> no_prim_names items1 ->
    ast_of_root (NRoot items1) = EOk A1 ->
    exists A2, ast_of_root (NRoot items2) = EOk A2 /\
               constants A2 = constants A1 /\ types A2 = types A1 /\
               forall n, mem n (generics A2) = mem n (generics A1).
Proof. exact ast_reorder. Qed.
Print Assumptions C11_ast_reorder.

(* at the level of declaration lists (Source.sdecl), through the walker *)
Theorem C11_spec_reorder :
  forall ds1 ds2 A1,
    Permutation ds1 ds2 -> Forall decl_ok ds1 ->
    (forall items, emapM item_of ds1 = EOk items ->
                   NoDup (map fst (tentries items)) /\ no_prim_names (items ++ [NEOF])) ->
    ast_new (tree_of ds1) = EOk A1 ->
    exists A2, ast_new (tree_of ds2) = EOk A2 /\
               constants A2 = constants A1 /\ types A2 = types A1 /\
               forall n, mem n (generics A2) = mem n (generics A1).
Proof. exact spec_reorder. Qed.
Print Assumptions C11_spec_reorder.

(* the two indexes are canonical: key-sorted lists are determined by their lookups *)
Theorem C11_sorted_maps_are_canonical :
  forall (V : Type) (l1 l2 : list (string * V)),
    ksorted l1 -> ksorted l2 -> (forall k, assoc k l1 = assoc k l2) -> l1 = l2.
Proof. exact (fun V => @ksorted_ext V). Qed.
Print Assumptions C11_sorted_maps_are_canonical.

(* ---------- layout ---------- *)
From XdrProofs Require Import TextTie.
Open Scope string_scope.

Theorem C11_layout_independent :
  forall ds text1 text2,
  reads_as ds text1 = true -> reads_as ds text2 = true ->
  exists t1 t2, (exists fuel, parse xdr_grammar fuel text1 = POk [t1] "") /\
                (exists fuel, parse xdr_grammar fuel text2 = POk [t2] "") /\
                ast_new t1 = ast_new t2.
Proof. exact layout_independent. Qed.
Print Assumptions C11_layout_independent.

(* non-vacuity: two different layouts of one declaration list *)
Example C11_layouts_nonvacuous :
  let ds := [KConst "A" "1"; KTypedef (TTBasic ("int" ++ " ")) "t" (SFixed (BConst "A"))] in
  (reads_as ds "const A = 1; typedef int t[A];" &&
   reads_as ds ("const" ++ String (Ascii.ascii_of_nat 9) "A=1 ;typedef int t [ A ] ;" ++ String (Ascii.ascii_of_nat 13) (String (Ascii.ascii_of_nat 10) "")) &&
   reads_as ds ("//c" ++ String (Ascii.ascii_of_nat 10) "const/* */A/**/=1;typedef int //x" ++ String (Ascii.ascii_of_nat 13) "t[A/***/];/*end*/"))%bool = true.
Proof. vm_compute. reflexivity. Qed.

(* in full: the two texts may spell their basic types differently (the white space inside and
   after `unsigned   int` belongs to the token, hence to the declaration list read) *)
Theorem C11_layout_independent_full :
  forall ds1 ds2 text1 text2 items,
  reads_as ds1 text1 = true -> reads_as ds2 text2 = true -> same_declarations ds1 ds2 = true ->
  forallb decl_okb ds1 = true -> forallb decl_okb ds2 = true -> emapM item_of ds1 = EOk items ->
  exists t1 t2, (exists fuel, parse xdr_grammar fuel text1 = POk [t1] "") /\
                (exists fuel, parse xdr_grammar fuel text2 = POk [t2] "") /\
                ast_new t1 = ast_of_root (NRoot (items ++ [NEOF])) /\ ast_new t2 = ast_new t1.
Proof. exact layout_independent_full. Qed.
Print Assumptions C11_layout_independent_full.

Example C11_full_nonvacuous :
  let ds1 := [KStruct "s" [{| f_ty := TTBasic ("unsigned int" ++ " "); f_name := "x"; f_arr := SNone; f_opt := false |}]] in
  let ds2 := [KStruct "s" [{| f_ty := TTBasic ("unsigned" ++ String (Ascii.ascii_of_nat 9) "   int" ++ String (Ascii.ascii_of_nat 10) ""); f_name := "x"; f_arr := SNone; f_opt := false |}]] in
  (reads_as ds1 "struct s{unsigned int x;};" &&
   reads_as ds2 ("struct s /*c*/ { unsigned" ++ String (Ascii.ascii_of_nat 9) "   int" ++ String (Ascii.ascii_of_nat 10) "/* */ x ; } ;") &&
   same_declarations ds1 ds2 && forallb decl_okb ds1 && forallb decl_okb ds2)%bool = true.
Proof. vm_compute. reflexivity. Qed.
