(* C02 -- wire_size() equals the encoded length of the value.
   For every specification whose Ast satisfies wf_size (every index entry filed under its
   own name; optional fields are not opaque; union discriminants are int / unsigned / bool /
   an enum; the variant names of a union are distinct and none is "default"), for every
   declared type and every well-typed value x (TypedN, the RFC 4506 typing of Spec.v):
   the emitted wire_size() of the decoded form of x, plus 4 bytes for each inline
   variable-length opaque field/arm in x (nF1 x -- finding F1), is exactly the length of the
   RFC 4506 encoding of x.  So wire_size() is exact precisely when nF1 x = 0, and the
   deviation is never anything else.
   C02_decoder_consumes_wire_size -- the second sentence of the property, for EVERY accepted
   input, canonical encoding or not: on a specification satisfying sup4_b with no inline
   variable-length opaque position (nof1_b: finding F1 excluded), whenever an emitted decoder
   returns Ok v it has consumed exactly wire_size(v) bytes.
   Proofs in XdrProofs.SizeProofs / Consumed. *)
From XdrProofs Require Import SizeProofs Consumed.
Open Scope N_scope.
Open Scope list_scope.

Theorem C02_size_characterised :
  forall (A : ast) (md : module_ir),
    gen A = EOk md -> wf_size A ->
    forall (n : string) (x : xval) (a o : N),
      TypedN A n x ->
      exists w, wsz md (rv a o x) = Some w /\ w + 4 * nF1 x = len (enc x).
Proof. exact wsz_characterised. Qed.
Print Assumptions C02_size_characterised.

Theorem C02_exact :
  forall (A : ast) (md : module_ir),
    gen A = EOk md -> wf_size A ->
    forall (n : string) (x : xval) (a o : N),
      TypedN A n x -> nF1 x = 0 -> wsz md (rv a o x) = Some (len (enc x)).
Proof. exact wsz_exact. Qed.
Print Assumptions C02_exact.

(* every generated wire_size() is a whole number of words: this is what makes the unguarded
   `self.advance(pad_length(sum))` of read_variable_array a no-op *)
Theorem C02_decoder_consumes_wire_size :
  forall (A : ast) (md : module_ir) (n : string) (t : ast_type) (fuel : nat) (s : st),
    gen A = EOk md -> sup4_b A = true -> nof1_b A = true -> get_type A n = Some t ->
    bytes_ok (s_rem s) ->
    match dec md fuel n s with
    | Ok v s' => wsz md v = Some (remaining s - remaining s') /\ remaining s' <= remaining s
    | Panic _ => False
    | _ => True
    end.
Proof. exact consumed_b. Qed.
Print Assumptions C02_decoder_consumes_wire_size.

(* the same per decoded type: only the types the decoder can reach need to be F1-free *)
Theorem C02_decoder_consumes_wire_size_from :
  forall (A : ast) (md : module_ir) (n : string) (t : ast_type) (fuel : nat) (s : st),
    gen A = EOk md -> sup4_b A = true -> nof1_from_b A n = true -> get_type A n = Some t ->
    bytes_ok (s_rem s) ->
    match dec md fuel n s with
    | Ok v s' => wsz md v = Some (remaining s - remaining s') /\ remaining s' <= remaining s
    | Panic _ => False
    | _ => True
    end.
Proof. exact consumed_from_b. Qed.
Print Assumptions C02_decoder_consumes_wire_size_from.

Theorem C02_wsz_mult4 :
  forall (A : ast) (md : module_ir),
    gen A = EOk md -> wf_size A ->
    forall (n : string) (x : xval) (a o w : N),
      TypedN A n x -> wsz md (rv a o x) = Some w -> w mod 4 = 0.
Proof. exact wsz_mult4. Qed.
Print Assumptions C02_wsz_mult4.

(* every encoding is a whole number of words *)
Theorem C02_enc_mult4 : forall x, len (enc x) mod 4 = 0.
Proof. exact enc_mult4. Qed.
Print Assumptions C02_enc_mult4.

(* ---------- the F1 witness: the hypotheses are satisfiable and the deviation is real ---------- *)

Definition A_inner : ast :=
  {| constants := [];
     types := [("inner"%string, TStruct {| st_name := "inner";
                 st_fields := [{| sf_name := "a"; sf_value := ANone U32; sf_optional := false |};
                               {| sf_name := "data"; sf_value := AVar Opaque None; sf_optional := false |}] |})];
     generics := ["inner"%string] |}.

Definition x_inner : xval := XStruct "inner" [XU32 1; XOpaqueV [1; 2]].

Lemma A_inner_wf : wf_size A_inner.
Proof.
  split.
  - intros k t [H|[]]. inversion H; subst. reflexivity.
  - intros n t H. unfold get_type in H. cbn [A_inner types assoc] in H.
    destruct (String.eqb n "inner"); [|discriminate]. inversion H; subst. cbn [wf_type st_fields].
    repeat constructor; intros C; discriminate C.
Qed.

Lemma x_inner_typed : TypedN A_inner "inner" x_inner.
Proof.
  eapply TN_struct; [reflexivity|reflexivity|]. cbn [st_fields].
  constructor; [constructor; constructor; vm_compute; discriminate|].
  constructor; [|constructor].
  cbn [sf_value sf_optional]. eapply TP_var_opaque; [reflexivity| | |]; try (vm_compute; discriminate).
  repeat constructor.
Qed.

Theorem C02_refuted_F1 :
  exists A md n x,
    gen A = EOk md /\ wf_size A /\ TypedN A n x /\
    wsz md (rv 1 0 x) = Some 8 /\ len (enc x) = 12.
Proof.
  eexists A_inner, _, "inner"%string, x_inner.
  split; [vm_compute; reflexivity|]. split; [exact A_inner_wf|]. split; [exact x_inner_typed|].
  split; vm_compute; reflexivity.
Qed.
Print Assumptions C02_refuted_F1.
