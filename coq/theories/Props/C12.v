(* C12 -- the AST and its indexes reflect exactly what the specification declares.
   The model of the front end (Peg + the grammar regenerated from xdr.pest, Walk, indexes) is
   tied to the real pest parser and Ast::new by K1 on every run; the search compares the real
   Ast with an independent reading of a random declaration model under random layout.
   Proved here: the field / arm / typedef constructors keep type, array kind, bound and the
   optional flag of every grammar shape, and fall-through labels accumulate in order.
   PARTIAL: the text-level round trip parse (print ds) = tree_of ds is not proved.
   Finding F3: the bound of a typedef'd variable-length opaque is dropped (C05_refuted_F3). *)
From XdrModel Require Import Walk.
Open Scope string_scope.
Open Scope list_scope.

Theorem C12_struct_field_shapes :
  forall (t : basic_type) (n : string) (b : string),
    struct_field_new (NStructDataField [NType t; NType (Ident n)])
      = EOk {| sf_name := n; sf_value := ANone t; sf_optional := false |} /\
    struct_field_new (NStructDataField [NType t; NType (Ident n); NArrayFixed b])
      = EOk {| sf_name := n; sf_value := AFixed t (array_size_from b); sf_optional := false |} /\
    struct_field_new (NStructDataField [NType t; NType (Ident n); NArrayVariable b])
      = EOk {| sf_name := n; sf_value := mk_array_var t b; sf_optional := false |} /\
    struct_field_new (NStructDataField [NType t; NOption [NType (Ident n)]])
      = EOk {| sf_name := n; sf_value := ANone t; sf_optional := true |}.
Proof. intros. repeat split. Qed.
Print Assumptions C12_struct_field_shapes.

Theorem C12_bounds :
  array_size_from "12" = Known 12 /\ array_size_from "MAX" = Constant "MAX" /\
  mk_array_var U32 "" = AVar U32 None /\ mk_array_var U32 "7" = AVar U32 (Some (Known 7)).
Proof. repeat split. Qed.
Print Assumptions C12_bounds.

(* a fall-through chain: every label ends up, in order, on the arm that closes the chain *)
Theorem C12_fallthrough_labels :
  forall (t : basic_type) (n : string),
    union_loop [NUnionCase [NType (Ident "1")]; NUnionCase [NType (Ident "2")];
                NUnionCase [NType (Ident "THREE"); NUnionDataField [NType t; NType (Ident n)]];
                NUnionCase [NType (Ident "4")]; NUnionDefault [NUnionVoid]]
               {| ua_cases := []; ua_default := None; ua_void := []; ua_pending := [] |}
    = EOk {| ua_cases := [{| uc_values := ["1"; "2"; "THREE"]; uc_name := n; uc_value := ANone t |}];
             ua_default := None; ua_void := ["4"; "default"]; ua_pending := [] |}.
Proof. reflexivity. Qed.
Print Assumptions C12_fallthrough_labels.

Theorem C12_fallthrough_into_default_keeps_labels :
  forall (t : basic_type) (n : string),
    union_loop [NUnionCase [NType (Ident "2")]; NUnionCase [NType (Ident "THREE")];
                NUnionDefault [NUnionDataField [NType t; NType (Ident n)]]]
               {| ua_cases := []; ua_default := None; ua_void := []; ua_pending := [] |}
    = EOk {| ua_cases := [];
             ua_default := Some {| uc_values := ["2"; "THREE"; "default"]; uc_name := n; uc_value := ANone t |};
             ua_void := []; ua_pending := [] |}.
Proof. reflexivity. Qed.
Print Assumptions C12_fallthrough_into_default_keeps_labels.

Theorem C12_enum_values :
  variant_value_from "16" = EOk (VNum 16) /\ variant_value_from "0x10" = EOk (VNum 16) /\
  variant_value_from "0x7fffffff" = EOk (VNum 2147483647) /\ variant_value_from "OTHER" = EOk (VStr "OTHER").
Proof. repeat split. Qed.
Print Assumptions C12_enum_values.

(* later duplicates replace, the map stays sorted by name *)
Theorem C12_type_index_sorted_insert :
  fst (map_insert "b" 2 (fst (map_insert "c" 3 (fst (map_insert "a" 1 (@nil (string * nat)))))))
  = [("a", 1); ("b", 2); ("c", 3)].
Proof. reflexivity. Qed.
Print Assumptions C12_type_index_sorted_insert.
