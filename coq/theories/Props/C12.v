(* C12 -- the AST and its indexes reflect exactly what the specification declares.
   The model of the front end (Peg + the grammar regenerated from xdr.pest, Walk, indexes) is
   tied to the real pest parser and Ast::new by K1 on every run; the search compares the real
   Ast with an independent reading of a random declaration model under random layout.
   Proved here: the field / arm / typedef constructors keep type, array kind, bound and the
   optional flag of every grammar shape, and fall-through labels accumulate in order.
   Proved at tree level (WalkProofs): for EVERY declaration list ds (Source.sdecl: any number
   of declarations, fields, fall-through groups, labels), walking the token tree pest builds for
   it yields exactly the items ds declares (C12_walk), and every type / constant / enum member
   is retrievable by name with exactly that content, generics = opaque reachability (C12_ast).
   Proved at text level (TextProofs, TextTie; second half of this file): every text that reads
   as ds -- any layout, comments included -- is accepted whole by the PEG of the regenerated
   grammar, its tree erases to tree_of ds, and its Ast is the Ast of the declared items.  What
   stays sampled: that pest and the real walker behave like Peg.v and Walk.v (K1, K5).
   Finding F3: the bound of a typedef'd variable-length opaque is dropped (C05_refuted_F3). *)
From XdrModel Require Import Walk Source.
From XdrProofs Require Import IndexProofs WalkProofs.
Open Scope string_scope.
Open Scope list_scope.

Theorem C12_struct_field_shapes :
  forall (t : basic_type) (n : string) (b : string),
    struct_field_new (NStructDataField [NType t; NType (Ident n)])
      = EOk {| sf_name := n; sf_value := ANone t; sf_optional := false |} /\
    struct_field_new (NStructDataField [NType t; NType (Ident n); NArrayFixed b])
      = EOk {| sf_name := n; sf_value := AFixed t (array_size_from b); sf_optional := false |} /\
    struct_field_new (NStructDataField [NType t; NType (Ident n); NArrayVariable b])
      = EOk {| sf_name := n; sf_value := mk_array_var t b; sf_optional := false |} /\
    struct_field_new (NStructDataField [NType t; NOption [NType (Ident n)]])
      = EOk {| sf_name := n; sf_value := ANone t; sf_optional := true |}.
Proof. intros. repeat split. Qed.
Print Assumptions C12_struct_field_shapes.

Theorem C12_bounds :
  array_size_from "12" = Known 12 /\ array_size_from "MAX" = Constant "MAX" /\
  mk_array_var U32 "" = AVar U32 None /\ mk_array_var U32 "7" = AVar U32 (Some (Known 7)).
Proof. repeat split. Qed.
Print Assumptions C12_bounds.

(* a fall-through chain: every label ends up, in order, on the arm that closes the chain *)
Theorem C12_fallthrough_labels :
  forall (t : basic_type) (n : string),
    union_loop [NUnionCase [NType (Ident "1")]; NUnionCase [NType (Ident "2")];
                NUnionCase [NType (Ident "THREE"); NUnionDataField [NType t; NType (Ident n)]];
                NUnionCase [NType (Ident "4")]; NUnionDefault [NUnionVoid]]
               {| ua_cases := []; ua_default := None; ua_void := []; ua_pending := [] |}
    = EOk {| ua_cases := [{| uc_values := ["1"; "2"; "THREE"]; uc_name := n; uc_value := ANone t |}];
             ua_default := None; ua_void := ["4"; "default"]; ua_pending := [] |}.
Proof. reflexivity. Qed.
Print Assumptions C12_fallthrough_labels.

Theorem C12_fallthrough_into_default_keeps_labels :
  forall (t : basic_type) (n : string),
    union_loop [NUnionCase [NType (Ident "2")]; NUnionCase [NType (Ident "THREE")];
                NUnionDefault [NUnionDataField [NType t; NType (Ident n)]]]
               {| ua_cases := []; ua_default := None; ua_void := []; ua_pending := [] |}
    = EOk {| ua_cases := [];
             ua_default := Some {| uc_values := ["2"; "THREE"; "default"]; uc_name := n; uc_value := ANone t |};
             ua_void := []; ua_pending := [] |}.
Proof. reflexivity. Qed.
Print Assumptions C12_fallthrough_into_default_keeps_labels.

Theorem C12_enum_values :
  variant_value_from "16" = EOk (VNum 16) /\ variant_value_from "0x10" = EOk (VNum 16) /\
  variant_value_from "0x7fffffff" = EOk (VNum 2147483647) /\ variant_value_from "OTHER" = EOk (VStr "OTHER").
Proof. repeat split. Qed.
Print Assumptions C12_enum_values.

(* later duplicates replace, the map stays sorted by name *)
Theorem C12_type_index_sorted_insert :
  fst (map_insert "b" 2 (fst (map_insert "c" 3 (fst (map_insert "a" 1 (@nil (string * nat)))))))
  = [("a", 1); ("b", 2); ("c", 3)].
Proof. reflexivity. Qed.
Print Assumptions C12_type_index_sorted_insert.

(* ---- tree level, all declaration lists ---- *)

(* one declaration: the walker returns exactly the item it stands for (enum values that are
   neither numeral nor name panic on both sides: finding F11) *)
Theorem C12_walk_decl : forall d, decl_ok d -> walk (t_decl d) = item_of d.
Proof. exact walk_decl. Qed.
Print Assumptions C12_walk_decl.

(* a whole specification: every item, in declaration order, nothing else *)
Theorem C12_walk :
  forall ds items, Forall decl_ok ds -> emapM item_of ds = EOk items ->
  walk (tree_of ds) = EOk (NRoot (items ++ [NEOF])).
Proof. exact walk_spec. Qed.
Print Assumptions C12_walk.

(* the Ast built from it: lookup by name returns the declaration (the last one of that name
   for types -- duplicates replace; constants and enum members cannot repeat), and the generic
   set is opaque reachability *)
Theorem C12_ast :
  forall ds items A,
  Forall decl_ok ds -> emapM item_of ds = EOk items -> ast_new (tree_of ds) = EOk A ->
  (forall k, assoc k (types A) = last_type k items) /\
  (forall k, assoc k (constants A) = last_const k items) /\
  (no_prim_names (items ++ [NEOF]) -> forall n, mem n (generics A) = true <-> Reach (items ++ [NEOF]) n).
Proof. exact ast_of_spec. Qed.
Print Assumptions C12_ast.

(* Ast::new fails on a conforming list only where the constant index does (duplicate names) *)
Theorem C12_ast_total :
  forall ds items, Forall decl_ok ds -> emapM item_of ds = EOk items ->
  ast_new (tree_of ds) = ebind (const_index (items ++ [NEOF]) [])
    (fun cs => EOk {| constants := cs; types := type_index (items ++ [NEOF]) []; generics := generic_index (items ++ [NEOF]) |}).
Proof. exact ast_of_spec_total. Qed.
Print Assumptions C12_ast_total.

(* the union reference, spelled out: labels of a fall-through group all land on its arm *)
Theorem C12_union_groups :
  forall gs a, Forall group_ok gs -> ua_pending a = [] ->
  union_loop (flat_map group_nodes gs) a = EOk (fold_left acc_add gs a).
Proof. exact union_loop_groups. Qed.
Print Assumptions C12_union_groups.

(* the bridge from an actual pest tree to tree_of: the walker reads spans only on leaf tokens
   and on the child of an array node, so a tree whose erasure is tree_of ds has the Ast of the
   items ds declares.  K5 evaluates exactly these premises (erase (parse text) = tree_of ds,
   decl_okb) on every generated declaration list and compares the conclusion with the real Ast. *)
Theorem C12_walk_erase : forall t, walk (erase t) = walk t.
Proof. exact walk_erase. Qed.
Print Assumptions C12_walk_erase.

Theorem C12_source_tie :
  forall t ds items,
  erase t = tree_of ds -> forallb decl_okb ds = true -> emapM item_of ds = EOk items ->
  ast_new t = ast_of_root (NRoot (items ++ [NEOF])).
Proof. exact source_tie. Qed.
Print Assumptions C12_source_tie.

(* non-vacuity: a list using every declaration kind meets decl_ok and yields an Ast *)
Definition c12_demo : list sdecl :=
  [KConst "MAX" "8";
   KEnum "color" [("RED", "0"); ("BLUE", "0x10")];
   KTypedef (TTBasic "opaque") "blob" (SVar (Some (BConst "MAX")));
   KStruct "pt" [{| f_ty := TTBasic "unsigned   int"; f_name := "x"; f_arr := SFixed (BVal "3"); f_opt := false |};
                 {| f_ty := TTIdent "pt"; f_name := "next"; f_arr := SNone; f_opt := true |};
                 {| f_ty := TTIdent "blob"; f_name := "b"; f_arr := SVar None; f_opt := false |}];
   KUnion "u" (TTIdent "color") "c"
     [{| g_labels := [BConst "RED"; BVal "7"]; g_default := false; g_arm := ArmData (TTIdent "pt") "p" |};
      {| g_labels := [BConst "BLUE"]; g_default := true; g_arm := ArmData (TTBasic "hyper") "h" |};
      {| g_labels := [BVal "9"]; g_default := false; g_arm := ArmVoid |}]].

Example C12_nonvacuous :
  match emapM item_of c12_demo, ast_new (tree_of c12_demo) with
  | EOk items, EOk A =>
      andb (Nat.eqb (List.length items) 5)
      (andb (match assoc "u" (types A) with
             | Some (TUnion u) =>
               andb (String.eqb (String.concat "," (flat_map uc_values (un_cases u))) "RED,7")
               (andb (match un_default u with Some c => String.eqb (String.concat "," (uc_values c)) "BLUE,default" | None => false end)
                     (String.eqb (String.concat "," (un_void u)) "9"))
             | _ => false end)
      (andb (mem "pt" (generics A)) (andb (mem "u" (generics A)) (negb (mem "color" (generics A))))))
  | _, _ => false
  end = true.
Proof. vm_compute. reflexivity. Qed.

Example C12_demo_ok : Forall decl_ok c12_demo.
Proof.
  repeat constructor; cbn; repeat split; try reflexivity; try discriminate; repeat constructor; try reflexivity; try discriminate.
Qed.

(* ---------- the text level (TextProofs, TextTie) ----------
   reads_as ds text (a boolean: the lexer layb run on the token stream of ds, and the lexical
   side conditions) says that `text` is the declaration list ds laid out with gaps between its
   tokens: blanks, tabs, newlines, carriage returns, /* long */ and // short comments, in any
   number.  For EVERY such text -- no bound on the number or size of the declarations or of the
   gaps -- the PEG of the regenerated grammar accepts the whole text and yields a tree that
   erases to tree_of ds (parse_layout, by induction over the declaration list against the PEG
   interpreter), hence the Ast is the Ast of the items ds declares. *)
From XdrProofs Require Import TextTie.
From XdrModel Require Import Check.

Theorem C12_text_to_tree :
  forall ds text, reads_as ds text = true ->
  exists t, (exists fuel, parse xdr_grammar fuel text = POk [t] "") /\ erase t = tree_of ds.
Proof. exact text_to_tree. Qed.
Print Assumptions C12_text_to_tree.

Theorem C12_text_to_ast :
  forall ds text items,
  reads_as ds text = true -> forallb decl_okb ds = true -> emapM item_of ds = EOk items ->
  exists t, (exists fuel, parse xdr_grammar fuel text = POk [t] "") /\
            ast_new t = ast_of_root (NRoot (items ++ [NEOF])).
Proof. exact text_to_ast. Qed.
Print Assumptions C12_text_to_ast.

(* non-vacuity: a text with every declaration kind, every array form, an optional field, a
   fall-through chain, a default and a void arm, in an irregular layout *)
Definition c12_text_demo : list sdecl :=
  [KConst "MAX" "8";
   KEnum "color" [("RED", "0"); ("BLUE", "0x10")];
   KTypedef (TTBasic ("opaque" ++ " ")) "blob" (SVar (Some (BConst "MAX")));
   KStruct "pt" [{| f_ty := TTBasic ("unsigned   int" ++ String (Ascii.ascii_of_nat 10) " "); f_name := "x"; f_arr := SFixed (BVal "3"); f_opt := false |};
                 {| f_ty := TTIdent "pt"; f_name := "next"; f_arr := SNone; f_opt := true |};
                 {| f_ty := TTIdent "blob"; f_name := "b"; f_arr := SVar None; f_opt := false |}];
   KUnion "u" (TTIdent "color") "c"
     [{| g_labels := [BConst "RED"; BVal "7"]; g_default := false; g_arm := ArmData (TTIdent "pt") "p" |};
      {| g_labels := [BConst "BLUE"]; g_default := true; g_arm := ArmData (TTBasic ("hyper" ++ " ")) "h" |};
      {| g_labels := [BVal "9"]; g_default := false; g_arm := ArmVoid |}]].

Definition nl : string := String (Ascii.ascii_of_nat 10) "".
Definition c12_text : string :=
  (nl ++ "/* a ** comment */const/**/MAX=8;// to the end of the line" ++ nl ++ "enum color{RED=0,BLUE = 0x10} ;typedef opaque blob</*bound*/MAX>;" ++ nl ++
   "struct pt { unsigned   int" ++ nl ++ " x[3]; pt *next; blob b<>; };" ++ nl ++
   "union u switch(color c){case RED:case 7 : pt p;case BLUE: default: hyper /* after a basic type */h; case 9:void;};// no newline")%string.

Example C12_text_nonvacuous :
  (reads_as c12_text_demo c12_text && forallb decl_okb c12_text_demo)%bool = true /\
  match parse xdr_grammar (parse_fuel c12_text) c12_text with
  | POk [t] "" => tree_eqb (erase t) (tree_of c12_text_demo)
  | _ => false
  end = true.
Proof. split; vm_compute; reflexivity. Qed.

(* whatever fuel the parser is given, as long as it does not run out, the parse of such a text is
   that tree (the fuel is a device of the model, not of pest) *)
Theorem C12_laid_out_text_parses :
  forall ds text fuel, reads_as ds text = true -> parse xdr_grammar fuel text <> PFuel ->
  exists t, parse xdr_grammar fuel text = POk [t] "" /\ erase t = tree_of ds.
Proof. exact text_parse_any_fuel. Qed.
Print Assumptions C12_laid_out_text_parses.
