(* C03 -- both decoder families agree and consume exactly one value.
   In the model the two families are two renderings (templates Bytes / RefMutBytes) of ONE
   decoder body per type (IR.m_from); that the two real texts are those two renderings is
   what the correspondence check K2 establishes on every run, and K3 runs both compiled
   families on every input.  The theorems below are about what a successful decode does to
   the caller's buffer, for EVERY emitted module, type and input.
   C03_local: the third sentence of the property for EVERY accepted input, canonical encoding or
   not -- if a decode succeeds having consumed c bytes, then decoding the same c bytes followed
   by ANY other suffix, at ANY other offset of ANY other allocation, succeeds with the same
   value (opaque views relocated by the same offset), consumes the same c bytes and leaves its
   own suffix untouched.  Hypothesis (decidable: local_from_b): the types the decoder reaches
   hold no inline variable-length opaque position -- with one (finding F1) the decoder of an
   array element reads 4 bytes past what the caller steps over, and those bytes may belong to
   the suffix.  Proofs in XdrProofs.SemProofs / RoundTrip / Local. *)
From XdrProofs Require Import SemProofs Local.
From XdrProps Require C01.
Open Scope N_scope.
Open Scope list_scope.

(* frame: on success the cursor stays in the same allocation, has moved forward by some
   k <= the bytes available, and what remains is exactly the untouched tail of the input *)
Theorem C03_frame :
  forall (md : module_ir) (fuel : nat) (ty : string) (a o : N) (bs : bytes) (l : list resv)
         (v : rval) (s' : st),
    dec md fuel ty (mk a o bs l) = Ok v s' ->
    s_alloc s' = a /\
    exists k, k <= len bs /\ s_off s' = o + k /\ s_rem s' = drop k bs /\
              exists d, s_led s' = l ++ d.
Proof. exact (fun md fuel ty a o bs l v s' H => proj1 (dec_snd md fuel ty (mk a o bs l) v s' H)). Qed.
Print Assumptions C03_frame.

(* ---- locality: the result depends neither on the suffix nor on the position of the view ---- *)

(* module-level form: R is any set of decoder names closed under calls whose members consume
   exactly wire_size() of what they return *)
Theorem C03_local :
  forall (md : module_ir) (R : string -> Prop),
    (forall ty i, R ty -> find_from md ty = Some i -> body_ok R (i_body i)) ->
    (forall fuel ty, R ty -> forall s t s', bytes_ok (s_rem s) -> dec md fuel ty s = Ok t s' ->
                                             wsz md t = Some (remaining s - remaining s')) ->
    forall fuel ty a1 o1 a2 o2 b r1 r2 l1 l2 v1 s1',
      R ty -> bytes_ok (b ++ r1) ->
      dec md fuel ty (mk a1 o1 (b ++ r1) l1) = Ok v1 s1' ->
      len (b ++ r1) - remaining s1' <= len b ->
      let c := len (b ++ r1) - remaining s1' in
      exists v2 s2',
        dec md fuel ty (mk a2 o2 (b ++ r2) l2) = Ok v2 s2' /\
        vrel a1 o1 a2 o2 v1 v2 /\
        s_rem s1' = drop c b ++ r1 /\ s_rem s2' = drop c b ++ r2 /\
        s_off s1' = o1 + c /\ s_off s2' = o2 + c /\ s_alloc s1' = a1 /\ s_alloc s2' = a2.
Proof. exact dec_local. Qed.
Print Assumptions C03_local.

Theorem C03_local_decidable :
  forall A md n fuel a1 o1 a2 o2 b r1 r2 l1 l2 v1 s1',
    gen A = EOk md -> local_from_b A md n = true ->
    bytes_ok (b ++ r1) ->
    dec md fuel n (mk a1 o1 (b ++ r1) l1) = Ok v1 s1' ->
    len (b ++ r1) - remaining s1' <= len b ->
    let c := len (b ++ r1) - remaining s1' in
    exists v2 s2',
      dec md fuel n (mk a2 o2 (b ++ r2) l2) = Ok v2 s2' /\
      vrel a1 o1 a2 o2 v1 v2 /\
      s_rem s1' = drop c b ++ r1 /\ s_rem s2' = drop c b ++ r2 /\
      s_off s1' = o1 + c /\ s_off s2' = o2 + c /\ s_alloc s1' = a1 /\ s_alloc s2' = a2.
Proof. exact local_b. Qed.
Print Assumptions C03_local_decidable.

(* related values are equal up to the position of their opaque views: same data, same
   wire_size() *)
Theorem C03_vrel_same_size :
  forall a1 o1 a2 o2 md v1 v2, vrel a1 o1 a2 o2 v1 v2 -> wsz md v1 = wsz md v2.
Proof. exact vrel_wsz. Qed.
Print Assumptions C03_vrel_same_size.

Example C03_local_nonvacuous :
  match gen C01.A_demo with EOk md => local_from_b C01.A_demo md "reply" | _ => false end = true.
Proof. vm_compute. reflexivity. Qed.
