(* C03 -- both decoder families agree and consume exactly one value.
   In the model the two families are two renderings (templates Bytes / RefMutBytes) of ONE
   decoder body per type (IR.m_from); that the two real texts are those two renderings is
   what the correspondence check K2 establishes on every run, and K3 runs both compiled
   families on every input.  The theorems below are about what a successful decode does to
   the caller's buffer, for EVERY emitted module, type and input.  Proofs in
   XdrProofs.SemProofs / XdrProofs.RoundTrip. *)
From XdrProofs Require Import SemProofs.
Open Scope N_scope.
Open Scope list_scope.

(* frame: on success the cursor stays in the same allocation, has moved forward by some
   k <= the bytes available, and what remains is exactly the untouched tail of the input *)
Theorem C03_frame :
  forall (md : module_ir) (fuel : nat) (ty : string) (a o : N) (bs : bytes) (l : list resv)
         (v : rval) (s' : st),
    dec md fuel ty (mk a o bs l) = Ok v s' ->
    s_alloc s' = a /\
    exists k, k <= len bs /\ s_off s' = o + k /\ s_rem s' = drop k bs /\
              exists d, s_led s' = l ++ d.
Proof. exact (fun md fuel ty a o bs l v s' H => proj1 (dec_snd md fuel ty (mk a o bs l) v s' H)). Qed.
Print Assumptions C03_frame.
