(* C01 -- decoding the XDR encoding of any value returns that value.
   See XdrProofs.RoundTrip for the development; this file holds the statements. *)
From XdrProofs Require Import RuntimeProofs.
Open Scope N_scope.
Open Scope list_scope.

(* counted arrays whose elements are variable-sized: for ANY element decoder / wire_size
   that satisfy the element contract (decoding the encoding e_i of the i-th element, whatever
   follows it, yields v_i, and v_i.wire_size() = |e_i|), the array reader returns exactly
   v_1 .. v_n in order and leaves the cursor after the last element *)
Theorem C01_counted_array :
  forall elem_name dec_elem wsz_elem (items : list (bytes * rval * list resv)) max fuel a o rest l,
    Forall (fun i => elem_ok dec_elem wsz_elem (fst (fst i)) (snd (fst i)) (snd i)) items ->
    len items < 4294967296 -> (forall m, max = Some m -> len items <= m) ->
    (length items <= fuel)%nat ->
    let body := concat (map (fun i => fst (fst i)) items) in
    len body mod 4 = 0 ->
    read_variable_array elem_name dec_elem wsz_elem fuel max
      (mk a o (be_enc 4 (len items) ++ body ++ rest) l)
    = Ok (map (fun i => snd (fst i)) items)
         (mk a (o + 4 + len body) rest
             (l ++ [ResVec (N.min (len items) (len (body ++ rest))) elem_name]
                ++ concat (map (fun i => snd i) items))).
Proof. exact read_variable_array_ok. Qed.
Print Assumptions C01_counted_array.
