(* C01 -- decoding the XDR encoding of any value returns that value.
   For every specification whose Ast satisfies `sup` (decidable: sup_b, evaluated on every
   specification of the corpus at each run), for every declared type n and every well-typed
   value x (TypedN, the RFC 4506 typing of Spec.v) in which no element of a counted array
   carries an inline variable-length opaque (step_exact -- the frontier of finding F1), for
   every fuel >= need x, every allocation, offset, suffix and ledger:
   the emitted decoder (Sem.dec over Emit.gen, the model of impls/from.rs + header.rs, tied to
   the real generator by K2 and to the compiled decoders by K3) returns exactly the value
   rv a o x -- every field, array element in order, optional link, union arm and opaque/string
   payload, with each opaque payload a view at its wire offset -- and leaves the cursor exactly
   after the encoding, with the suffix untouched.
   Proofs in XdrProofs.RoundTrip / UnionProofs / SupB. *)
From XdrProofs Require Import SupB.
From XdrModel Require Import SpecB.
Open Scope N_scope.
Open Scope list_scope.

Theorem C01_roundtrip :
  forall (A : ast) (md : module_ir),
    gen A = EOk md -> sup A ->
    forall (n : string) (x : xval) (fuel : nat) (a o : N) (rest : bytes) (l : list resv),
      TypedN A n x -> (need x <= fuel)%nat -> step_exact x = true ->
      exists l', dec md fuel n (mk a o (enc x ++ rest) l)
                 = Ok (rv a o x) (mk a (o + len (enc x)) rest l').
Proof. exact roundtrip_closed. Qed.
Print Assumptions C01_roundtrip.

(* the hypothesis is decidable *)
Theorem C01_sup_decidable : forall A, sup_b A = true -> sup A.
Proof. exact sup_b_sound. Qed.
Print Assumptions C01_sup_decidable.

(* the by-value family: the same body on its own copy of the cursor (its cursor is dropped) *)
Corollary C01_roundtrip_by_value :
  forall (A : ast) (md : module_ir),
    gen A = EOk md -> sup_b A = true ->
    forall (n : string) (x : xval) (fuel : nat) (a o : N) (rest : bytes) (l : list resv),
      TypedN A n x -> (need x <= fuel)%nat -> step_exact x = true ->
      exists s', on_clone (dec md fuel n) (mk a o (enc x ++ rest) l) = Ok (rv a o x) s'.
Proof.
  intros A md Hg Hs n x fuel a o rest l T Hf Hse.
  destruct (roundtrip_closed A md Hg (sup_b_sound A Hs) n x fuel a o rest l T Hf Hse) as [l' H].
  unfold on_clone. rewrite H. eexists. reflexivity.
Qed.
Print Assumptions C01_roundtrip_by_value.

(* counted arrays whose elements are variable-sized: the array reader, for ANY element
   decoder / wire_size that satisfy the trait contract *)
Theorem C01_counted_array :
  forall elem_name dec_elem wsz_elem (items : list (bytes * rval * list resv)) max fuel a o rest l,
    Forall (fun i => elem_ok dec_elem wsz_elem (fst (fst i)) (snd (fst i)) (snd i)) items ->
    len items < 4294967296 -> (forall m, max = Some m -> len items <= m) ->
    (length items <= fuel)%nat ->
    let body := concat (map (fun i => fst (fst i)) items) in
    len body mod 4 = 0 ->
    read_variable_array elem_name dec_elem wsz_elem fuel max
      (mk a o (be_enc 4 (len items) ++ body ++ rest) l)
    = Ok (map (fun i => snd (fst i)) items)
         (mk a (o + 4 + len body) rest
             (l ++ [ResVec (N.min (len items) (len (body ++ rest))) elem_name]
                ++ concat (map (fun i => snd i) items))).
Proof. exact read_variable_array_ok. Qed.
Print Assumptions C01_counted_array.

(* ---------- non-vacuity: a specification with a union, a typedef'd opaque, a counted array of
   variable-sized structs and an optional chain; and the F1 frontier ---------- *)

Definition A_demo : ast :=
  {| constants := [("MAXN"%string, ConstValue "3"); ("OK"%string, EnumValue "status" "OK"); ("BAD"%string, EnumValue "status" "BAD")];
     types := [
       ("blob"%string, TTypedef {| td_target := Opaque; td_alias := ANone (Ident "blob") |});
       ("item"%string, TStruct {| st_name := "item"; st_fields := [
           {| sf_name := "name"; sf_value := AVar TString (Some (Known 8)); sf_optional := false |};
           {| sf_name := "body"; sf_value := ANone (Ident "blob"); sf_optional := false |}] |});
       ("list"%string, TStruct {| st_name := "list"; st_fields := [
           {| sf_name := "items"; sf_value := AVar (Ident "item") (Some (Constant "MAXN")); sf_optional := false |};
           {| sf_name := "next"; sf_value := ANone (Ident "list"); sf_optional := true |}] |});
       ("reply"%string, TUnion {| un_name := "reply"; un_cases := [
           {| uc_values := ["OK"%string]; uc_name := "l"; uc_value := ANone (Ident "list") |}];
           un_default := None; un_void := ["BAD"%string]; un_sw_name := "st"; un_sw_type := Ident "status" |});
       ("status"%string, TEnum {| en_name := "status"; en_variants := [("OK"%string, VNum 0); ("BAD"%string, VNum 7)] |})];
     generics := ["blob"; "item"; "list"; "reply"]%string |}.

Definition x_demo : xval :=
  XUnion "reply" (XEnum "status" "OK" 0) "OK"
    (Some (XStruct "list"
       [XArrV [XStruct "item" [XString [104; 105]; XAlias "blob" (XOpaqueV [1; 2; 3])];
               XStruct "item" [XString []; XAlias "blob" (XOpaqueV [])]];
        XOpt (Some (XStruct "list" [XArrV []; XOpt None]))])).

Example C01_nonvacuous :
  sup_b A_demo = true /\ typed_n A_demo 20 "reply" x_demo = true /\ step_exact x_demo = true /\
  len (enc x_demo) = 44 /\
  match gen A_demo with
  | EOk md => String.eqb (run_case md "reply" 0 (enc x_demo)) (ref_line x_demo 0)
  | _ => false
  end = true.
Proof. repeat split; vm_compute; reflexivity. Qed.

(* finding F1: with an inline variable-length opaque in the element of a counted array the
   second element is decoded 4 bytes early -- the decoder returns Ok with a different value *)
Definition A_f1 : ast :=
  {| constants := [];
     types := [("holder"%string, TStruct {| st_name := "holder"; st_fields := [
                  {| sf_name := "items"; sf_value := AVar (Ident "inner") None; sf_optional := false |}] |});
               ("inner"%string, TStruct {| st_name := "inner"; st_fields := [
                  {| sf_name := "a"; sf_value := ANone U32; sf_optional := false |};
                  {| sf_name := "data"; sf_value := AVar Opaque None; sf_optional := false |}] |})];
     generics := ["holder"; "inner"]%string |}.

Definition x_f1 : xval :=
  XStruct "holder" [XArrV [XStruct "inner" [XU32 1; XOpaqueV []]; XStruct "inner" [XU32 2; XOpaqueV []]]].

Theorem C01_refuted_F1 :
  sup_b A_f1 = true /\ typed_n A_f1 20 "holder" x_f1 = true /\ step_exact x_f1 = false /\
  match gen A_f1 with
  | EOk md => match dec md 10 "holder" (mk 1 0 (enc x_f1) []) with
              | Ok v _ => negb (String.eqb (show_rval 1 v) (show_rval 1 (rv 1 0 x_f1)))
              | _ => false
              end
  | _ => false
  end = true.
Proof. repeat split; vm_compute; reflexivity. Qed.
Print Assumptions C01_refuted_F1.
