(* C06 -- only declared discriminants are accepted; each selects its own arm.
   Proved for every 32-bit word and every buffer: a boolean other than 0/1 is InvalidBoolean;
   an optional-data marker other than 0/1 is UnknownOptionVariant(marker); an enum word that is
   the value of no member is UnknownVariant(word), and the word of a member selects that
   member; a string that is not UTF-8 is NonUtf8String.  Union arm selection and the rejection of undeclared discriminants are theorems about the
   emitted match arms (Sem.eval_arms / matches: what rustc makes of each pattern text), for
   every specification satisfying sup; that model is tied to the code by K2 + K3.
   Proofs in XdrProofs.RuntimeProofs / XdrProofs.MiscProofs. *)
From XdrProofs Require Import MiscProofs MoreProofs.
Open Scope N_scope.
Open Scope list_scope.

Theorem C06_invalid_boolean :
  forall a o w rest l,
    len w = 4 -> bytes_ok w -> be_dec w <> 0 -> be_dec w <> 1 ->
    read_bool (mk a o (w ++ rest) l) = Err InvalidBoolean (mk a (o + 4) rest l).
Proof. exact read_bool_invalid. Qed.
Print Assumptions C06_invalid_boolean.

Theorem C06_valid_boolean :
  forall a o (b : bool) rest l,
    read_bool (mk a o (be_enc 4 (if b then 1 else 0) ++ rest) l) = Ok b (mk a (o + 4) rest l).
Proof. exact read_bool_valid. Qed.
Print Assumptions C06_valid_boolean.

Theorem C06_option_marker_rejected :
  forall md rec lf ty a o w rest l,
    len w = 4 -> be_dec w <> 0 -> be_dec w <> 1 ->
    eval_fexp md rec lf (FOpt ty) (mk a o (w ++ rest) l)
    = Err (UnknownOptionVariant (be_dec w)) (mk a (o + 4) rest l).
Proof. exact opt_marker_rejected. Qed.
Print Assumptions C06_option_marker_rejected.

Theorem C06_enum_unknown :
  forall self z arms s,
    Forall (fun a => exists x, int_literal (fst a) = Some x /\ x <> z) arms ->
    eval_enum self z arms s = Err (UnknownVariant z) s.
Proof. exact eval_enum_unknown. Qed.
Print Assumptions C06_enum_unknown.

Theorem C06_enum_member :
  forall self z arms1 text name arms2 s,
    Forall (fun a => exists x, int_literal (fst a) = Some x /\ x <> z) arms1 ->
    int_literal text = Some z ->
    eval_enum self z (arms1 ++ (text, name) :: arms2) s = Ok (RVVariant self name None) s.
Proof. exact eval_enum_member. Qed.
Print Assumptions C06_enum_member.

Theorem C06_non_utf8_string :
  forall a o d rest l max,
    len d < 4294967296 -> (forall m, max = Some m -> len d <= m) -> utf8_valid d = false ->
    read_string max (mk a o (be_enc 4 (len d) ++ d ++ zeros (pad_length (len d)) ++ rest) l)
    = Err NonUtf8String (mk a (o + 4 + (len d + pad_length (len d))) rest (l ++ [ResStr (len d)])).
Proof.
  intros a o d rest l max H1 H2 H3. rewrite read_string_app by assumption. now rewrite H3.
Qed.
Print Assumptions C06_non_utf8_string.

(* every declared discriminant -- each label of a fall-through group, named constants, enum
   members, TRUE/FALSE, the default -- selects, among the match arms the emitter writes,
   exactly the arm the specification assigns to it (arm_for is the RFC reading of the union) *)
Theorem C06_arm_selection :
  forall (A : ast) (md : module_ir), gen A = EOk md -> sup A ->
  forall (u : union_t) (d : xval) (dd : dval),
    union_ok A u -> disc_ok A u -> TypedB A (disc_type A u) d -> dval_of (rv 0 0 d) = Some dd ->
    forall dv disc arms fb variant ty,
      emit_from_body A (TUnion u) = EOk (BUnion dv disc arms fb) ->
      arm_for A u d = Some (variant, ty) ->
      exists payload, selects md arms fb dd variant payload /\
                      match ty with
                      | Some t => exists e, payload = Some e /\ decode_array A t UseAlias = EOk e
                      | None => payload = None
                      end.
Proof. exact sel_union. Qed.
Print Assumptions C06_arm_selection.

(* a discriminant that no label declares, in a union without default, is rejected with
   UnknownVariant(d as i32) *)
Theorem C06_union_unknown_rejected :
  forall (A : ast) (md : module_ir), gen A = EOk md -> sup A ->
  forall n u dv disc arms fb d dd rec lf self s,
    get_type A n = Some (TUnion u) ->
    emit_from_body A (TUnion u) = EOk (BUnion dv disc arms fb) ->
    TypedB A (disc_type A u) d -> dval_of (rv 0 0 d) = Some dd ->
    arm_for A u d = None ->
    exists z, dval_as_i32 md dd = Some z /\
              eval_arms md rec lf self dd arms fb s = Err (UnknownVariant z) s.
Proof. exact union_unknown_rejected. Qed.
Print Assumptions C06_union_unknown_rejected.

(* F7, repaired by 9bc96ab: a bare TRUE/FALSE label was a binding pattern that matched every
   discriminant; as the emitter now writes it, `false` does not match the word 1 *)
Example C06_bool_label_is_a_literal :
  let md := {| m_consts := []; m_types := []; m_from := []; m_size := [] |} in
  matches md (MText (safe_name "FALSE")) (DvBool true) = Some false /\
  matches md (MText "FALSE") (DvBool true) = Some true.
Proof. split; reflexivity. Qed.
