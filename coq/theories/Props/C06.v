(* C06 -- only declared discriminants are accepted; each selects its own arm.
   Proved for every 32-bit word and every buffer: a boolean other than 0/1 is InvalidBoolean;
   an optional-data marker other than 0/1 is UnknownOptionVariant(marker); an enum word that is
   the value of no member is UnknownVariant(word), and the word of a member selects that
   member; a string that is not UTF-8 is NonUtf8String.  PARTIAL: arm selection of unions
   (every label of a fall-through group, constants, enum members, TRUE/FALSE, default) is the
   semantics Sem.eval_arms/matches of the emitted patterns, tied to the code by K2 + K3 and
   searched on every declared label; it is a theorem only as part of the C01 round trip.
   Proofs in XdrProofs.RuntimeProofs / XdrProofs.MiscProofs. *)
From XdrProofs Require Import MiscProofs.
Open Scope N_scope.
Open Scope list_scope.

Theorem C06_invalid_boolean :
  forall a o w rest l,
    len w = 4 -> bytes_ok w -> be_dec w <> 0 -> be_dec w <> 1 ->
    read_bool (mk a o (w ++ rest) l) = Err InvalidBoolean (mk a (o + 4) rest l).
Proof. exact read_bool_invalid. Qed.
Print Assumptions C06_invalid_boolean.

Theorem C06_valid_boolean :
  forall a o (b : bool) rest l,
    read_bool (mk a o (be_enc 4 (if b then 1 else 0) ++ rest) l) = Ok b (mk a (o + 4) rest l).
Proof. exact read_bool_valid. Qed.
Print Assumptions C06_valid_boolean.

Theorem C06_option_marker_rejected :
  forall md rec lf ty a o w rest l,
    len w = 4 -> be_dec w <> 0 -> be_dec w <> 1 ->
    eval_fexp md rec lf (FOpt ty) (mk a o (w ++ rest) l)
    = Err (UnknownOptionVariant (be_dec w)) (mk a (o + 4) rest l).
Proof. exact opt_marker_rejected. Qed.
Print Assumptions C06_option_marker_rejected.

Theorem C06_enum_unknown :
  forall self z arms s,
    Forall (fun a => exists x, int_literal (fst a) = Some x /\ x <> z) arms ->
    eval_enum self z arms s = Err (UnknownVariant z) s.
Proof. exact eval_enum_unknown. Qed.
Print Assumptions C06_enum_unknown.

Theorem C06_enum_member :
  forall self z arms1 text name arms2 s,
    Forall (fun a => exists x, int_literal (fst a) = Some x /\ x <> z) arms1 ->
    int_literal text = Some z ->
    eval_enum self z (arms1 ++ (text, name) :: arms2) s = Ok (RVVariant self name None) s.
Proof. exact eval_enum_member. Qed.
Print Assumptions C06_enum_member.

Theorem C06_non_utf8_string :
  forall a o d rest l max,
    len d < 4294967296 -> (forall m, max = Some m -> len d <= m) -> utf8_valid d = false ->
    read_string max (mk a o (be_enc 4 (len d) ++ d ++ zeros (pad_length (len d)) ++ rest) l)
    = Err NonUtf8String (mk a (o + 4 + (len d + pad_length (len d))) rest (l ++ [ResStr (len d)])).
Proof.
  intros a o d rest l max H1 H2 H3. rewrite read_string_app by assumption. now rewrite H3.
Qed.
Print Assumptions C06_non_utf8_string.

(* F7, repaired by 9bc96ab: a bare TRUE/FALSE label was a binding pattern that matched every
   discriminant; as the emitter now writes it, `false` does not match the word 1 *)
Example C06_bool_label_is_a_literal :
  let md := {| m_consts := []; m_types := []; m_from := []; m_size := [] |} in
  matches md (MText (safe_name "FALSE")) (DvBool true) = Some false /\
  matches md (MText "FALSE") (DvBool true) = Some true.
Proof. split; reflexivity. Qed.
