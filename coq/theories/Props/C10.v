(* C10 -- runtime readers and size helpers honour their contracts at every boundary.
   Statements only; proofs are in XdrProofs.RuntimeProofs.  Every statement quantifies over
   all buffers (any number r of bytes remaining), all lengths n and all maxima. *)
From XdrProofs Require Import RuntimeProofs.
Open Scope N_scope.

(* integer / float readers: Err InvalidLength exactly when r < size, otherwise the
   big-endian value and an advance of exactly size bytes (4 and 8 are multiples of four) *)
Theorem C10_read_be :
  forall k s,
    (remaining s < k /\ read_be k s = Err InvalidLength s) \/
    (k <= remaining s /\ read_be k s = Ok (be_dec (take k (s_rem s))) (with_rem s k)).
Proof. exact read_be_total. Qed.
Print Assumptions C10_read_be.

Theorem C10_read_i32 :
  forall s, 4 <= remaining s ->
    read_i32 s = Ok (to_i32 (be_dec (take 4 (s_rem s)))) (with_rem s 4).
Proof. exact read_i32_ok. Qed.
Print Assumptions C10_read_i32.

Theorem C10_read_i64 :
  forall s, 8 <= remaining s ->
    read_i64 s = Ok (to_i64 (be_dec (take 8 (s_rem s)))) (with_rem s 8).
Proof. exact read_i64_ok. Qed.
Print Assumptions C10_read_i64.

(* booleans, for every 32-bit word *)
Theorem C10_read_bool_invalid :
  forall a o w rest l,
    len w = 4 -> bytes_ok w -> be_dec w <> 0 -> be_dec w <> 1 ->
    read_bool (mk a o (w ++ rest) l) = Err InvalidBoolean (mk a (o + 4) rest l).
Proof. exact read_bool_invalid. Qed.
Print Assumptions C10_read_bool_invalid.

Theorem C10_read_bool_valid :
  forall a o (b : bool) rest l,
    read_bool (mk a o (be_enc 4 (if b then 1 else 0) ++ rest) l) = Ok b (mk a (o + 4) rest l).
Proof. exact read_bool_valid. Qed.
Print Assumptions C10_read_bool_valid.

Theorem C10_read_bool_short :
  forall s, remaining s < 4 -> read_bool s = Err InvalidLength s.
Proof. exact read_bool_short. Qed.
Print Assumptions C10_read_bool_short.

(* fixed opaque: for every n and r, either Err InvalidLength (exactly when the padded length
   does not fit), or exactly the first n bytes, as a view at the cursor, and an advance of n
   rounded up to a multiple of four *)
Theorem C10_read_bytes :
  forall n s,
    (remaining s < n + pad_length n \/ usize_max < n + pad_length n) /\
      read_bytes n s = Err InvalidLength s
    \/ exists w, read_bytes n s = Ok w (with_rem s (n + pad_length n)) /\
                 vdata w = take n (s_rem s) /\ len (vdata w) = n /\
                 (n <> 0 -> valloc w = s_alloc s /\ voff w = s_off s) /\
                 (n + pad_length n) mod 4 = 0.
Proof. exact read_bytes_total. Qed.
Print Assumptions C10_read_bytes.

Theorem C10_pad_length :
  forall l, pad_length l < 4 /\ (l + pad_length l) mod 4 = 0.
Proof. exact pad_length_spec. Qed.
Print Assumptions C10_pad_length.

Theorem C10_pad_length_formula : forall l, pad_length l = (4 - l mod 4) mod 4.
Proof. exact pad_length_alt. Qed.
Print Assumptions C10_pad_length_formula.

(* counted opaque *)
Theorem C10_read_variable_bytes_valid :
  forall a o d rest l max,
    len d < 4294967296 -> (forall m, max = Some m -> len d <= m) ->
    read_variable_bytes max
      (mk a o (be_enc 4 (len d) ++ d ++ zeros (pad_length (len d)) ++ rest) l)
    = Ok (if len d =? 0 then empty_view else {| valloc := a; voff := o + 4; vdata := d |})
         (mk a (o + 4 + (len d + pad_length (len d))) rest l).
Proof. exact read_variable_bytes_app. Qed.
Print Assumptions C10_read_variable_bytes_valid.

Theorem C10_read_variable_bytes_over_max :
  forall a o w rest l m,
    len w = 4 -> m < be_dec w ->
    read_variable_bytes (Some m) (mk a o (w ++ rest) l)
    = Err InvalidLength (mk a (o + 4) rest l).
Proof. exact read_variable_bytes_over_max. Qed.
Print Assumptions C10_read_variable_bytes_over_max.

Theorem C10_read_variable_bytes_short :
  forall a o w rest l max,
    len w = 4 -> len rest < be_dec w + pad_length (be_dec w) ->
    exists s', read_variable_bytes max (mk a o (w ++ rest) l) = Err InvalidLength s'.
Proof. exact read_variable_bytes_short. Qed.
Print Assumptions C10_read_variable_bytes_short.

(* strings: the same, then UTF-8 validation *)
Theorem C10_read_string :
  forall a o d rest l max,
    len d < 4294967296 -> (forall m, max = Some m -> len d <= m) ->
    read_string max (mk a o (be_enc 4 (len d) ++ d ++ zeros (pad_length (len d)) ++ rest) l)
    = if utf8_valid d
      then Ok d (mk a (o + 4 + (len d + pad_length (len d))) rest (l ++ [ResStr (len d)]))
      else Err NonUtf8String
             (mk a (o + 4 + (len d + pad_length (len d))) rest (l ++ [ResStr (len d)])).
Proof. exact read_string_app. Qed.
Print Assumptions C10_read_string.

(* counted arrays, parametric in any element decoder / size that satisfy the trait contract *)
Theorem C10_read_variable_array :
  forall elem_name dec_elem wsz_elem (items : list (bytes * rval * list resv)) max fuel a o rest l,
    Forall (fun i => elem_ok dec_elem wsz_elem (fst (fst i)) (snd (fst i)) (snd i)) items ->
    len items < 4294967296 -> (forall m, max = Some m -> len items <= m) ->
    (length items <= fuel)%nat ->
    let body := concat (map (fun i => fst (fst i)) items) in
    len body mod 4 = 0 ->
    read_variable_array elem_name dec_elem wsz_elem fuel max
      (mk a o (be_enc 4 (len items) ++ body ++ rest) l)
    = Ok (map (fun i => snd (fst i)) items)
         (mk a (o + 4 + len body) rest
             (l ++ [ResVec (N.min (len items) (len (body ++ rest))) elem_name]
                ++ concat (map (fun i => snd i) items))).
Proof. exact read_variable_array_ok. Qed.
Print Assumptions C10_read_variable_array.

Theorem C10_read_variable_array_over_max :
  forall elem_name dec_elem wsz_elem a o w rest l m fuel,
    len w = 4 -> m < be_dec w ->
    read_variable_array elem_name dec_elem wsz_elem fuel (Some m) (mk a o (w ++ rest) l)
    = Err InvalidLength (mk a (o + 4) rest l).
Proof. exact read_variable_array_over_max. Qed.
Print Assumptions C10_read_variable_array_over_max.

(* blanket WireSize impls: the RFC 4506 size of what they hold *)
Theorem C10_wsz_string : forall s, wsz_string s = 4 + roundup4 (len s).
Proof. exact wsz_string_rfc. Qed.
Print Assumptions C10_wsz_string.

Theorem C10_wsz_vec : forall x, x mod 4 = 0 -> wsz_vec x = 4 + x.
Proof. exact wsz_vec_rfc. Qed.
Print Assumptions C10_wsz_vec.

Theorem C10_wsz_slice : forall x, x mod 4 = 0 -> wsz_slice x = x.
Proof. exact wsz_slice_rfc. Qed.
Print Assumptions C10_wsz_slice.

(* non-vacuity: the hypotheses above are met by concrete buffers *)
Example C10_nonvacuous_bytes :
  exists w, read_bytes 5 (mk 7 16 [1;2;3;4;5;0;0;0;9] []) = Ok w (mk 7 24 [9] []) /\
            vdata w = [1;2;3;4;5] /\ valloc w = 7 /\ voff w = 16.
Proof. eexists. vm_compute. repeat split. Qed.

Example C10_nonvacuous_band :
  read_bytes 5 (mk 7 16 [1;2;3;4;5;0;0] []) = Err InvalidLength (mk 7 16 [1;2;3;4;5;0;0] []).
Proof. reflexivity. Qed.
