(* C14 -- the generator is total: Ok or Err, never a panic.
   The model makes every panic!/unwrap/unreachable!/index of the walker, the constructors, the
   indexes and the emitters an explicit EPanic "<file>:<fn>" outcome; K1/K2 compare outcome
   class and panic site with the real code on grammar-valid texts outside the supported
   subset and on token-level mutations.  Proved here: the constructors are total on the shapes
   the grammar can produce and panic exactly in the classes of finding F11; a text the
   grammar rejects yields Err; and at tree level (C14_front_total) for EVERY declaration list
   meeting decl_ok -- any number of declarations, fields, fall-through groups -- Ast::new returns
   Ok or panics at one of two sites: the enum value parser (0x-garbage or >= 2^31) and the
   duplicate-name check of the constant index.  With C14_emitters_panic_site (every Ast) that
   leaves three panic sites for generate on such a list, all in finding F11.
   For EVERY text (end of this file: Derive, FrontAll): a tree the parser returns is a derivation
   of the regenerated grammar, and on every derivation the front end returns Ok or panics at one
   of four recorded sites (the two above, structure.rs:new, union.rs:new: a field or arm named
   like a primitive, a declarator in a union arm).  What stays sampled: that pest, the real
   walker and the real emitters behave like their models (K1, K2 with panic sites). *)
From XdrProofs Require Import FrontTotal.
From XdrModel Require Import Walk Check Grammar.
From XdrProofs Require Import MoreProofs.
Open Scope string_scope.
Open Scope list_scope.

(* a text the (regenerated) grammar rejects yields Err, for every text *)
Theorem C14_reject :
  forall text, parse xdr_grammar (parse_fuel text) text = PFail -> model_ast text = EErr "parse".
Proof. intros text H. unfold model_ast. now rewrite H. Qed.
Print Assumptions C14_reject.

(* for EVERY Ast (inside the supported subset or not) the emitters return Ok or Err; their only
   panic is the `unreachable!("unexpected fixed length string")` of print_decode_array
   (finding F11) *)
Theorem C14_emitters_panic_site :
  forall (A : ast) (w : string), gen A = EPanic w -> w = "from.rs:print_decode_array".
Proof. exact gen_panic_site. Qed.
Print Assumptions C14_emitters_panic_site.

(* StructField::new: total on every shape of data_field; it panics exactly when the field's
   name is spelled like a primitive type (finding F11) *)
Theorem C14_struct_field_total :
  forall (t lhs : basic_type) (arr : list node),
    (arr = [] \/ (exists b, arr = [NArrayVariable b]) \/ (exists b, arr = [NArrayFixed b])) ->
    match struct_field_new (NStructDataField (NType t :: NType lhs :: arr)) with
    | EOk _ => exists n, lhs = Ident n
    | EPanic w => w = "structure.rs:new" /\ forall n, lhs <> Ident n
    | EErr _ => False
    end.
Proof.
  intros t lhs arr [->|[[b ->]|[b ->]]]; destruct lhs; cbn;
    try (split; [reflexivity| intros n C; discriminate C]); eexists; reflexivity.
Qed.
Print Assumptions C14_struct_field_total.

(* UnionCase::new: an arm with an array or optional declarator, or named like a primitive,
   panics (finding F11); the plain form never does *)
Theorem C14_union_case_total :
  forall cv (t : basic_type) (n : string),
    union_case_new cv [NType t; NType (Ident n)] = EOk {| uc_values := cv; uc_name := n; uc_value := ANone t |}.
Proof. reflexivity. Qed.
Print Assumptions C14_union_case_total.

(* Typedef::new is total on every shape of the typedef rule *)
Theorem C14_typedef_total :
  forall (t a : basic_type) (arr : list node),
    (arr = [] \/ (exists b, arr = [NArrayVariable b]) \/ (exists b, arr = [NArrayFixed b])) ->
    exists td, typedef_new (NType t :: NType a :: arr) = EOk td.
Proof.
  intros t a arr [->|[[b ->]|[b ->]]]; cbn; try (destruct (is_opaque t)); eexists; reflexivity.
Qed.
Print Assumptions C14_typedef_total.

(* VariantValue::from never panics on a value that does not start with 0x *)
Theorem C14_variant_value_decimal_total :
  forall v, String.prefix "0x" v = false -> exists vv, variant_value_from v = EOk vv.
Proof.
  intros v H. unfold variant_value_from. rewrite H. destruct (parse_i32 v); eexists; reflexivity.
Qed.
Print Assumptions C14_variant_value_decimal_total.

Example C14_F11_witnesses :
  variant_value_from "0xZZ" = EPanic "enumeration.rs:from" /\
  variant_value_from "0x80000000" = EPanic "enumeration.rs:from" /\
  struct_field_new (NStructDataField [NType I32; NType I32]) = EPanic "structure.rs:new" /\
  union_case_new ["1"] [NType I32; NType (Ident "xs"); NArrayVariable ""] = EPanic "union.rs:new".
Proof. repeat split. Qed.

(* ---- tree level, all declaration lists ---- *)
Theorem C14_front_total :
  forall ds, Forall decl_ok ds -> only_panics [E_ENUM; E_CONST] (ast_new (tree_of ds)).
Proof. exact front_total. Qed.
Print Assumptions C14_front_total.

Theorem C14_front_ok :
  forall ds items cs,
  Forall decl_ok ds -> emapM item_of ds = EOk items -> const_index (items ++ [NEOF]) [] = EOk cs ->
  exists A, ast_new (tree_of ds) = EOk A /\ constants A = cs.
Proof. exact front_ok. Qed.
Print Assumptions C14_front_ok.

(* what only_panics says *)
Theorem C14_only_panics_spec :
  forall (sites : list string) (m : eres ast),
  only_panics sites m <-> (exists A, m = EOk A) \/ (exists w, m = EPanic w /\ In w sites).
Proof.
  intros sites m. split.
  - intros [x|w Hw]; [left; eauto|right; eauto].
  - intros [[A ->]|[w [-> Hw]]]; constructor. exact Hw.
Qed.
Print Assumptions C14_only_panics_spec.

(* ---- the parse of a text is well defined ---- *)
From XdrProofs Require Import PegProofs.

(* for EVERY grammar, expression, mode and text: more fuel never changes an answer, so two fuels
   that both answer agree -- "the grammar accepts / rejects this text" does not depend on the
   fuel the model is run with (K1 uses 80 + 24 * length and treats PFuel as a broken tie) *)
Theorem C14_parse_fuel_monotone :
  forall g f e a q soi s, run g f e a q soi s <> PFuel ->
  forall f', (f <= f')%nat -> run g f' e a q soi s = run g f e a q soi s.
Proof. exact run_mono. Qed.
Print Assumptions C14_parse_fuel_monotone.

Theorem C14_parse_well_defined :
  forall g f1 f2 text, parse g f1 text <> PFuel -> parse g f2 text <> PFuel -> parse g f1 text = parse g f2 text.
Proof. exact parse_fuel_irrelevant. Qed.
Print Assumptions C14_parse_well_defined.

(* ---------- every accepted text ----------
   Derive.run_derives (any grammar): whatever the PEG interpreter returns outside quiet mode is
   a derivation -- the children of every node are what the body of its rule produces.
   FrontAll (the regenerated grammar): on every derivation of `item` the walker and the
   constructors return Ok or panic at a recorded site (finding F11: a malformed hexadecimal enum
   value, a duplicate constant, a field or arm the constructors do not accept); the
   `unreachable!` / `unwrap` sites that rely on the grammar's shapes (node.rs ident_str,
   union.rs parse, enumeration.rs new, typedef.rs new, the walker's catch-all) are never
   reached.  Together with C14_reject and C14_emitters_panic_site: for EVERY text, whatever the
   fuel (as long as it does not run out), the model of Ast::new returns Ok, Err or one of
   these panics. *)
From XdrProofs Require Import FrontAll.

Theorem C14_every_accepted_text :
  forall text fuel t rest,
  parse xdr_grammar fuel text = POk [t] rest ->
  only_panics ["enumeration.rs:from"; "constants.rs:new"; "structure.rs:new"; "union.rs:new"] (ast_new t).
Proof. exact front_all. Qed.
Print Assumptions C14_every_accepted_text.

Theorem C14_parser_returns_one_tree :
  forall text fuel ts rest, parse xdr_grammar fuel text = POk ts rest -> exists t, ts = [t].
Proof. exact parse_one_tree. Qed.
Print Assumptions C14_parser_returns_one_tree.

(* the whole front end of the model on any text *)
Theorem C14_every_text :
  forall text,
  parse xdr_grammar (parse_fuel text) text <> PFuel ->
  match model_ast text with
  | EPanic w => In w ["enumeration.rs:from"; "constants.rs:new"; "structure.rs:new"; "union.rs:new"]
  | _ => True
  end.
Proof.
  intros text Hf. unfold model_ast.
  destruct (parse xdr_grammar (parse_fuel text) text) as [| |ts rest] eqn:E; [exact I|congruence|].
  destruct (parse_one_tree _ _ _ _ E) as [t ->].
  pose proof (front_all _ _ _ _ E) as H. destruct (ast_new t); [exact I|exact I|]. inversion H; assumption.
Qed.
Print Assumptions C14_every_text.

(* non-vacuity: a text outside the supported subset that the grammar accepts and a constructor
   refuses -- the panic is one of the recorded ones *)
Example C14_every_text_witness :
  model_ast "union u switch (int k) { case 1: int xs<>; };" = EPanic "union.rs:new" /\
  model_ast "struct s { int int32_t; };" = EPanic "structure.rs:new".
Proof. split; vm_compute; reflexivity. Qed.
