(* C07 -- accepted specifications yield a module that compiles, with the documented API.
   rustc is the ground truth for "compiles"; the check compiles every module of the corpus with
   both derive lines together with visitors that name every documented field and variant.
   What is proved here is about the *regenerated* escape tables (Tables.v is rewritten from
   impls/mod.rs and ast/basic_type.rs on every run): every strict or reserved Rust keyword
   that can be written as an XDR identifier is escaped to <word>_v by both tables, the two
   tables agree, BasicType::as_str is the table the model uses, and for EVERY name the escaped
   spelling is not a keyword (C07_safe_name_never_a_keyword).  PARTIAL: a checker
   wf_module for the emitted fragment is not part of the development.
   Proofs in XdrProofs.MiscProofs. *)
From XdrProofs Require Import MiscProofs.
Open Scope list_scope.

Theorem C07_keywords_escaped :
  Forall (fun k => safe_name k = (k ++ "_v")%string /\ as_safe_string (Ident k) = (k ++ "_v")%string)
         rust_keywords.
Proof.
  apply Forall_forall. intros k Hk.
  pose proof (proj1 (forallb_forall _ _) keywords_escaped k Hk) as H.
  unfold escaped_by_both in H. apply Bool.andb_true_iff in H as [H1 H2].
  split; now apply String.eqb_eq.
Qed.
Print Assumptions C07_keywords_escaped.

Theorem C07_tables_agree :
  (forall k, In k safe_keywords -> In k bt_keywords) /\ (forall k, In k bt_keywords -> In k safe_keywords).
Proof.
  destruct tables_agree as [H1 H2]. split; intros k Hk.
  - apply mem_In. exact (proj1 (forallb_forall _ _) H1 k Hk).
  - apply mem_In. exact (proj1 (forallb_forall _ _) H2 k Hk).
Qed.
Print Assumptions C07_tables_agree.

Theorem C07_as_str_table :
  Forall (fun p => bt_as_str (fst p) = snd p) as_str_table.
Proof.
  apply Forall_forall. intros p Hp. apply String.eqb_eq.
  exact (proj1 (forallb_forall _ _) as_str_table_ok p Hp).
Qed.
Print Assumptions C07_as_str_table.

(* documented shape of names: anything else is printed as written; a label that starts with
   a digit gets v_ *)
Theorem C07_other_names_unchanged :
  forall k, mem k safe_keywords = false -> mem k safe_lowercase = false -> safe_name k = k.
Proof. exact safe_name_other. Qed.
Print Assumptions C07_other_names_unchanged.

(* for EVERY name: the spelling a field, discriminant or label is printed under is not a Rust
   keyword, except the literals true / false that TRUE / FALSE are lower-cased to *)
Theorem C07_safe_name_never_a_keyword :
  forall s, In (safe_name s) rust_keywords -> mem s safe_lowercase = true.
Proof. exact safe_name_not_keyword. Qed.
Print Assumptions C07_safe_name_never_a_keyword.

Example C07_variant_names :
  variant_name "4" = "v_4"%string /\ variant_name "NFS4_OK" = "NFS4_OK"%string /\ variant_name "type" = "type"%string.
Proof. repeat split. Qed.

(* every declared type gets its decoder body (rendered twice: TryFrom<Bytes>, TryFrom<&mut Bytes>)
   and its WireSize impl, under its own name, with the byte-container parameter exactly when the
   generic index says so (C13) *)
From XdrProofs Require Import GenFacts.
Theorem C07_every_type_has_its_impls :
  forall A md, gen A = EOk md -> (forall k t, In (k, t) (types A) -> ast_type_name t = k) ->
  forall n t, get_type A n = Some t ->
    (exists b, emit_from_body A t = EOk b /\
               find_from md n = Some {| i_name := n; i_generic := is_generic A n; i_body := b |}) /\
    find_size md n = Some {| i_name := n; i_generic := is_generic A n; i_body := emit_size_body t |}.
Proof.
  intros A md Hg Hk n t G. split; [exact (find_from_gen A md Hg Hk n t G)|exact (find_size_gen A md Hg Hk n t G)].
Qed.
Print Assumptions C07_every_type_has_its_impls.
