(* C13 -- a type is generic exactly when opaque data is reachable from it.
   `items` is ANY list of top-level items (any order, depth, chains, diamonds, cycles,
   duplicates), the only hypothesis being that no declared name is the Rust spelling of a
   primitive.  generic_index is the model of GenericIndex::new (tied to the code by K1 on
   Ast::generics()).  Proofs in XdrProofs.IndexProofs. *)
From XdrProofs Require Import IndexProofs.
From XdrModel Require Import Emit.
Open Scope list_scope.

Theorem C13_reach :
  forall (items : list node), no_prim_names items ->
  forall n, mem n (generic_index items) = true <-> Reach items n.
Proof. exact generic_index_reach. Qed.
Print Assumptions C13_reach.

(* the loop `while last_size != index.len()` has reached its fixpoint within |items|+1 passes:
   one more pass over the result adds nothing *)
Theorem C13_fuel :
  forall (items : list node), no_prim_names items ->
  generic_pass items (generic_index items) = generic_index items.
Proof. exact generic_index_stable. Qed.
Print Assumptions C13_fuel.

(* both decoder families and the size impl of every declaration carry the byte-container
   parameter exactly when the declaration's name is in the index *)
Theorem C13_emitted_from :
  forall a md, gen a = EOk md ->
  Forall (fun i => i_generic i = is_generic a (i_name i)) (m_from md).
Proof. exact gen_from_generic. Qed.
Print Assumptions C13_emitted_from.

Theorem C13_emitted_size :
  forall a md, gen a = EOk md ->
  Forall (fun i => i_generic i = is_generic a (i_name i)) (m_size md).
Proof. exact gen_size_generic. Qed.
Print Assumptions C13_emitted_size.

(* non-vacuity: a cycle through an optional link with the opaque two typedef levels away *)
Example C13_nonvacuous :
  let items := [NStruct {| st_name := "a"; st_fields := [{| sf_name := "n"; sf_value := ANone (Ident "b"); sf_optional := true |}] |};
                NTypedef {| td_target := Ident "c"; td_alias := AVar (Ident "b") None |};
                NTypedef {| td_target := Opaque; td_alias := ANone (Ident "c") |};
                NStruct {| st_name := "d"; st_fields := [{| sf_name := "x"; sf_value := ANone U32; sf_optional := false |}] |}] in
  mem "a" (generic_index items) = true /\ mem "d" (generic_index items) = false /\ Reach items "a".
Proof.
  cbn zeta. split; [reflexivity|]. split; [reflexivity|].
  eapply Reach_step with (i := "b"); [left; reflexivity|reflexivity|left; reflexivity|].
  eapply Reach_step with (i := "c"); [right; left; reflexivity|reflexivity|left; reflexivity|].
  eapply Reach_opaque; [right; right; left; reflexivity|reflexivity|left; reflexivity].
Qed.
