(* C15 -- the CLI prints exactly what the library generates.
   main.rs as a function of the argument list, a file-system oracle `read` and the library's
   `generate` (both arbitrary: the theorem holds for every file system and every library
   behaviour).  That the real binary is this function is the correspondence check run on
   the binary built from /repo.  Proofs in XdrProofs.CliProofs. *)
From XdrProofs Require Import CliProofs.
Open Scope list_scope.

(* no arguments: the usage line on stdout, exit status 1 *)
Theorem C15_no_arguments :
  forall read generate argv0,
    cli_main read generate argv0 [] =
    {| cli_stdout := [("usage: " ++ argv0 ++ " ./path/to/spec.x" ++ nl_)%string]; cli_exit := 1; cli_diag := false |}.
Proof. exact cli_main_no_args. Qed.
Print Assumptions C15_no_arguments.

(* every file readable and accepted: stdout is, for each file in argument order, exactly the
   text generate returns for that file's contents followed by a newline; exit status 0 *)
Theorem C15_all_files_ok :
  forall read generate argv0 files,
    files <> [] -> Forall (fun f => file_ok read generate f <> None) files ->
    cli_main read generate argv0 files =
    {| cli_stdout := map (fun f => match file_ok read generate f with
                                   | Some c => (c ++ nl_)%string | None => EmptyString end) files;
       cli_exit := 0; cli_diag := false |}.
Proof. exact cli_main_all_ok. Qed.
Print Assumptions C15_all_files_ok.

(* an unreadable file or a rejected specification: non-zero exit status, a diagnostic, and
   stdout holds exactly the output of the files before the first failure *)
Theorem C15_first_failure :
  forall read generate argv0 good bad rest,
    Forall (fun f => file_ok read generate f <> None) good -> file_ok read generate bad = None ->
    cli_main read generate argv0 (good ++ bad :: rest) =
    {| cli_stdout := map (fun f => match file_ok read generate f with
                                   | Some c => (c ++ nl_)%string | None => EmptyString end) good;
       cli_exit := 1; cli_diag := true |}.
Proof. exact cli_main_first_failure. Qed.
Print Assumptions C15_first_failure.

Example C15_nonvacuous :
  cli_stdout (cli_main (fun f => if String.eqb f "a.x" then Some "A" else None)
                       (fun x => Some ("gen(" ++ x ++ ")")%string) "fastxdr" ["a.x"; "missing.x"; "a.x"])
  = [("gen(A)" ++ nl_)%string].
Proof. reflexivity. Qed.
