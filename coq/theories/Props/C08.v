(* C08 -- opaque data is never copied out of the input buffer.
   For EVERY emitted module (any specification), every fuel, type and input: each non-empty
   opaque payload inside a successfully decoded value lies in the caller's allocation, inside
   the bytes that were handed to the decoder, and its contents are the input bytes at exactly
   that offset.  Statements only; proofs in XdrProofs.SemProofs. *)
From XdrProofs Require Import SemProofs.
Open Scope N_scope.
Open Scope list_scope.

Theorem C08_views :
  forall (md : module_ir) (fuel : nat) (ty : string) (a o : N) (bs : bytes) (l : list resv)
         (v : rval) (s' : st),
    dec md fuel ty (mk a o bs l) = Ok v s' ->
    views (fun w : view =>
             vdata w = [] \/
             (valloc w = a /\ o <= voff w /\ voff w + len (vdata w) <= o + len bs /\
              vdata w = take (len (vdata w)) (drop (voff w - o) bs))) v.
Proof. exact (fun md fuel ty a o bs l v s' H => proj2 (dec_snd md fuel ty (mk a o bs l) v s' H)). Qed.
Print Assumptions C08_views.

(* `views P v` really reaches every opaque leaf of v, at any depth *)
Theorem C08_views_reaches_vec : forall P l, views P (RVVec l) <-> Forall (views P) l.
Proof. exact views_vec. Qed.
Print Assumptions C08_views_reaches_vec.
Theorem C08_views_reaches_arr : forall P l, views P (RVArr l) <-> Forall (views P) l.
Proof. exact views_arr. Qed.
Print Assumptions C08_views_reaches_arr.
Theorem C08_views_reaches_struct : forall P n l, views P (RVStruct n l) <-> Forall (views P) l.
Proof. exact views_struct. Qed.
Print Assumptions C08_views_reaches_struct.

(* the only producer of opaque payloads: a slice of the current cursor, never a copy *)
Theorem C08_read_bytes_is_a_view :
  forall n s w s', read_bytes n s = Ok w s' -> ext s s' /\ vin s w.
Proof. exact read_bytes_snd. Qed.
Print Assumptions C08_read_bytes_is_a_view.

(* non-vacuity: a concrete nested value with a view at offset 12 of allocation 1 *)
Example C08_nonvacuous :
  views (fun w => valloc w = 1 /\ voff w = 12)
        (RVStruct "s" [RVU32 7; RVVec [RVNewtype "t" (RVBytes {| valloc := 1; voff := 12; vdata := [1;2] |})]]).
Proof. cbn. repeat split. Qed.
