(* C09 -- memory requested by a decode is bounded by the input, not by length fields.
   For EVERY emitted module, type, fuel and input, and whatever the outcome (Ok or Err):
   every request the decode makes to the allocator -- Vec::with_capacity(cap) of the counted
   array reader, the Vec<u8> a string is collected into -- is for at most as many elements /
   bytes as there are bytes in the buffer it was given.  A count field alone can never make
   the decoder reserve memory for data that is not present.  (The total is then linear in the
   input for specifications whose array elements occupy at least 4 bytes and in which no
   counted array is nested in its own element type; the allocator's actual byte counts are tied
   to this ledger by the correspondence check K3a.)
   C09_total_linear: the SUM.  For a declared type satisfying the decidable hypothesis lin_from_b
   (sup4_b, no inline variable-length opaque position [F1] in any type it reaches, counted-array elements of positive
   size, and no counted array nested in its own element type [F15] -- i.e. a labelling rho that
   strictly decreases along counted-array edges exists), for EVERY input and whatever the
   outcome, the cost of all requests -- elements reserved for arrays, bytes of collected
   strings, one per box -- is at most (rho + 1) * (bytes in the buffer), where rho is the
   nesting depth of counted arrays below the decoded type.  Linear, with the constant the
   property asks for ("plus the element maxima the specification declares" enters through
   size_of::<T>(), which K3a ties to the allocator's byte counts).
   Finding F15 (C09_refuted_linear_F15): when a counted array can contain a counted array of
   the same declaration, every nesting level reserves min(count, remaining) elements while the
   outer reservations are alive; d levels reserve 4d(d-1) elements for 8d input bytes.
   Proofs in XdrProofs.LedgerProofs. *)
From XdrProofs Require Import LedgerProofs Linear.
From XdrProps Require C01.
From XdrModel Require Import Emit Sem.
Open Scope N_scope.
Open Scope list_scope.

Theorem C09_requests_bounded :
  forall (md : module_ir) (fuel : nat) (ty : string) (s : st),
    match dec md fuel ty s with
    | Ok _ s' | Err _ s' =>
      exists d, s_led s' = s_led s ++ d /\
                Forall (fun r => match r with
                                 | ResVec cap _ => cap <= remaining s
                                 | ResStr n => n <= remaining s
                                 | ResBox _ => True
                                 end) d
    | _ => True
    end.
Proof. exact requests_bounded. Qed.
Print Assumptions C09_requests_bounded.

(* the reader itself: the capacity it reserves is min(count, bytes remaining) *)
Theorem C09_reader_reserves_min :
  forall elem_name dec_elem wsz_elem (items : list (bytes * rval * list resv)) max fuel a o rest l,
    Forall (fun i => elem_ok dec_elem wsz_elem (fst (fst i)) (snd (fst i)) (snd i)) items ->
    len items < 4294967296 -> (forall m, max = Some m -> len items <= m) ->
    (length items <= fuel)%nat ->
    let body := concat (map (fun i => fst (fst i)) items) in
    len body mod 4 = 0 ->
    read_variable_array elem_name dec_elem wsz_elem fuel max
      (mk a o (be_enc 4 (len items) ++ body ++ rest) l)
    = Ok (map (fun i => snd (fst i)) items)
         (mk a (o + 4 + len body) rest
             (l ++ [ResVec (N.min (len items) (len (body ++ rest))) elem_name]
                ++ concat (map (fun i => snd i) items))).
Proof. exact read_variable_array_ok. Qed.
Print Assumptions C09_reader_reserves_min.

(* a count above the declared maximum reserves nothing at all *)
Theorem C09_over_max_reserves_nothing :
  forall elem_name dec_elem wsz_elem a o w rest l m fuel,
    len w = 4 -> m < be_dec w ->
    read_variable_array elem_name dec_elem wsz_elem fuel (Some m) (mk a o (w ++ rest) l)
    = Err InvalidLength (mk a (o + 4) rest l).
Proof. exact read_variable_array_over_max. Qed.
Print Assumptions C09_over_max_reserves_nothing.

(* ---- the total ---- *)
Theorem C09_total_linear :
  forall (A : ast) (md : module_ir) (R : string -> Prop) (rho : string -> N),
    gen A = EOk md -> sup4 A ->
    (forall n t, R n -> get_type A n = Some t -> rrefs_ok A R t) ->   (* R is closed under reference *)
    (forall n t, R n -> get_type A n = Some t -> nof1_type t) ->      (* and free of F1 positions *)
    vranked A rho -> elems_positive A md ->
    forall (fuel : nat) (n : string) (t : ast_type) (s : st),
      R n -> get_type A n = Some t -> bytes_ok (s_rem s) ->
      match dec md fuel n s with
      | Ok _ s' => remaining s' <= remaining s /\
                   exists d, s_led s' = s_led s ++ d /\ costs d <= (rho n + 1) * (remaining s - remaining s')
      | Err _ s' => exists d, s_led s' = s_led s ++ d /\ costs d <= (rho n + 1) * remaining s
      | Panic _ => False
      | Fuel => True
      end.
Proof.
  intros A md R rho Hg H4 Hc Hf Hr Hp fuel n t s HRn Hget Hb.
  pose proof (dec_linear A md Hg H4 R Hc Hf rho Hr Hp fuel n t HRn Hget s Hb) as H.
  destruct (dec md fuel n s); try exact I; try contradiction; [|exact H].
  destruct H as [_ [_ [Hle Hd]]]. split; assumption.
Qed.
Print Assumptions C09_total_linear.

(* decidable hypothesis, per decoded type: lin_from_b A n = sup4_b A, the types reachable from
   n hold no F1 position, counted-array elements are positive, no counted array is nested in
   its own element type *)
Theorem C09_total_linear_decidable :
  forall (A : ast) (md : module_ir) (n : string) (t : ast_type) (fuel : nat) (s : st),
    gen A = EOk md -> lin_from_b A n = true -> get_type A n = Some t -> bytes_ok (s_rem s) ->
    match dec md fuel n s with
    | Ok _ s' | Err _ s' =>
        exists d, s_led s' = s_led s ++ d /\
                  costs d <= (vdepth A (2 * List.length (types A) + 2) n + 1) * remaining s
    | Panic _ => False
    | Fuel => True
    end.
Proof. exact linear_from_b. Qed.
Print Assumptions C09_total_linear_decidable.

(* non-vacuity: the recursive demo specification of C01 (counted array of structs, optional
   link) satisfies lin_b; the self-nested one below does not *)
Example C09_lin_nonvacuous : lin_from_b C01.A_demo "reply" = true.
Proof. vm_compute. reflexivity. Qed.

(* ---- finding F15: the sum of the requests is not linear for self-nested counted arrays ---- *)
Definition A_nest : ast :=
  {| constants := [];
     types := [("tnest"%string, TStruct {| st_name := "tnest"; st_fields := [
                  {| sf_name := "v"; sf_value := ANone U32; sf_optional := false |};
                  {| sf_name := "kids"; sf_value := AVar (Ident "tnest") None; sf_optional := false |}] |})];
     generics := [] |}.

(* d repetitions of (v = 7, count = 0x00ffffff) *)
Fixpoint nest_input (d : nat) : bytes :=
  match d with O => [] | S k => [0; 0; 0; 7; 0; 255; 255; 255] ++ nest_input k end.

Definition reserved_elems (l : list resv) : N :=
  fold_right (fun r acc => match r with ResVec cap _ => cap + acc | _ => acc end) 0 l.

Definition nest_total (d : nat) : option N :=
  match gen A_nest with
  | EOk md => match dec md (4 * d + 8) "tnest" (mk 1 0 (nest_input d) []) with
              | Err InvalidLength s' => Some (reserved_elems (s_led s'))
              | _ => None
              end
  | _ => None
  end.

(* 8d bytes of input make the decoder reserve 4d(d-1) elements before it fails: doubling the
   input quadruples the reservation (960, 3968, 16128, 65024 elements for 128 .. 1024 bytes) *)
Theorem C09_refuted_linear_F15 :
  nest_total 16 = Some 960 /\ nest_total 32 = Some 3968 /\
  nest_total 64 = Some 16128 /\ nest_total 128 = Some 65024.
Proof. repeat split; vm_compute; reflexivity. Qed.
Print Assumptions C09_refuted_linear_F15.

Example C09_F15_outside_lin_b : lin_from_b A_nest "tnest" = false /\ vranked_b A_nest = false.
Proof. split; vm_compute; reflexivity. Qed.
