(* C09 -- memory requested by a decode is bounded by the input, not by length fields.
   For EVERY emitted module, type, fuel and input, and whatever the outcome (Ok or Err):
   every request the decode makes to the allocator -- Vec::with_capacity(cap) of the counted
   array reader, the Vec<u8> a string is collected into -- is for at most as many elements /
   bytes as there are bytes in the buffer it was given.  A count field alone can never make
   the decoder reserve memory for data that is not present.  (The total is then linear in the
   input for specifications whose array elements occupy at least 4 bytes and in which no
   counted array is nested in its own element type; the allocator's actual byte counts are tied
   to this ledger by the correspondence check K3a.)
   Finding F15 (C09_refuted_linear_F15): when a counted array can contain a counted array of
   the same declaration, every nesting level reserves min(count, remaining) elements while the
   outer reservations are alive; d levels reserve 4d(d-1) elements for 8d input bytes.
   Proofs in XdrProofs.LedgerProofs. *)
From XdrProofs Require Import LedgerProofs.
From XdrModel Require Import Emit Sem.
Open Scope N_scope.
Open Scope list_scope.

Theorem C09_requests_bounded :
  forall (md : module_ir) (fuel : nat) (ty : string) (s : st),
    match dec md fuel ty s with
    | Ok _ s' | Err _ s' =>
      exists d, s_led s' = s_led s ++ d /\
                Forall (fun r => match r with
                                 | ResVec cap _ => cap <= remaining s
                                 | ResStr n => n <= remaining s
                                 | ResBox _ => True
                                 end) d
    | _ => True
    end.
Proof. exact requests_bounded. Qed.
Print Assumptions C09_requests_bounded.

(* the reader itself: the capacity it reserves is min(count, bytes remaining) *)
Theorem C09_reader_reserves_min :
  forall elem_name dec_elem wsz_elem (items : list (bytes * rval * list resv)) max fuel a o rest l,
    Forall (fun i => elem_ok dec_elem wsz_elem (fst (fst i)) (snd (fst i)) (snd i)) items ->
    len items < 4294967296 -> (forall m, max = Some m -> len items <= m) ->
    (length items <= fuel)%nat ->
    let body := concat (map (fun i => fst (fst i)) items) in
    len body mod 4 = 0 ->
    read_variable_array elem_name dec_elem wsz_elem fuel max
      (mk a o (be_enc 4 (len items) ++ body ++ rest) l)
    = Ok (map (fun i => snd (fst i)) items)
         (mk a (o + 4 + len body) rest
             (l ++ [ResVec (N.min (len items) (len (body ++ rest))) elem_name]
                ++ concat (map (fun i => snd i) items))).
Proof. exact read_variable_array_ok. Qed.
Print Assumptions C09_reader_reserves_min.

(* a count above the declared maximum reserves nothing at all *)
Theorem C09_over_max_reserves_nothing :
  forall elem_name dec_elem wsz_elem a o w rest l m fuel,
    len w = 4 -> m < be_dec w ->
    read_variable_array elem_name dec_elem wsz_elem fuel (Some m) (mk a o (w ++ rest) l)
    = Err InvalidLength (mk a (o + 4) rest l).
Proof. exact read_variable_array_over_max. Qed.
Print Assumptions C09_over_max_reserves_nothing.

(* ---- finding F15: the sum of the requests is not linear for self-nested counted arrays ---- *)
Definition A_nest : ast :=
  {| constants := [];
     types := [("tnest"%string, TStruct {| st_name := "tnest"; st_fields := [
                  {| sf_name := "v"; sf_value := ANone U32; sf_optional := false |};
                  {| sf_name := "kids"; sf_value := AVar (Ident "tnest") None; sf_optional := false |}] |})];
     generics := [] |}.

(* d repetitions of (v = 7, count = 0x00ffffff) *)
Fixpoint nest_input (d : nat) : bytes :=
  match d with O => [] | S k => [0; 0; 0; 7; 0; 255; 255; 255] ++ nest_input k end.

Definition reserved_elems (l : list resv) : N :=
  fold_right (fun r acc => match r with ResVec cap _ => cap + acc | _ => acc end) 0 l.

Definition nest_total (d : nat) : option N :=
  match gen A_nest with
  | EOk md => match dec md (4 * d + 8) "tnest" (mk 1 0 (nest_input d) []) with
              | Err InvalidLength s' => Some (reserved_elems (s_led s'))
              | _ => None
              end
  | _ => None
  end.

(* 8d bytes of input make the decoder reserve 4d(d-1) elements before it fails: doubling the
   input quadruples the reservation (960, 3968, 16128, 65024 elements for 128 .. 1024 bytes) *)
Theorem C09_refuted_linear_F15 :
  nest_total 16 = Some 960 /\ nest_total 32 = Some 3968 /\
  nest_total 64 = Some 16128 /\ nest_total 128 = Some 65024.
Proof. repeat split; vm_compute; reflexivity. Qed.
Print Assumptions C09_refuted_linear_F15.
