(* L1: model of /repo/src/header.rs -- the DeserialiserExt readers over bytes::Bytes, the
   blanket WireSize impls and pad_length.  Written statement by statement as the Rust is.
   Model only: no proofs in this file. *)
From Coq Require Export String.
From XdrModel Require Export Bytes Utf8.
Open Scope N_scope.

(* ---------- outcomes ---------- *)

Inductive err :=
| InvalidLength | NonUtf8String | InvalidBoolean
| UnknownVariant (z : Z) | UnknownOptionVariant (n : N) | Unknown.

(* where the real code would panic / where the model has no meaning *)
Inductive site :=
| AdvancePastEnd   (* Buf::advance(k) with k > remaining *)
| SliceOOB         (* Bytes::slice(..n) with n > len *)
| GetPastEnd       (* Buf::get_* with too few bytes *)
| Overflow         (* usize arithmetic overflow (debug) *)
| Stuck.           (* ill-typed module: rustc would have rejected it *)

(* ---------- values produced by decoders ---------- *)

(* a Bytes value: which allocation, offset of the view in it, contents *)
Record view := { valloc : N; voff : N; vdata : bytes }.

Inductive rval :=
| RVU32 (n : N) | RVU64 (n : N) | RVI32 (z : Z) | RVI64 (z : Z)
| RVF32 (bits : N) | RVF64 (bits : N) | RVBool (b : bool)
| RVString (s : bytes)
| RVBytes (w : view)
| RVVec (l : list rval)            (* Vec<T> *)
| RVArr (l : list rval)            (* [T; n] *)
| RVOpt (o : option rval)          (* Option<Box<T>> *)
| RVStruct (name : string) (fields : list rval)
| RVVariant (ty variant : string) (payload : option rval)   (* union arm or enum member *)
| RVNewtype (name : string) (inner : rval).

(* ---------- state ---------- *)

(* every request to the allocator the runtime makes *)
Inductive resv :=
| ResVec (cap : N) (elem : string)   (* Vec::with_capacity(cap) of elements of type elem *)
| ResStr (n : N)                     (* the Vec<u8> a string is collected into *)
| ResBox (ty : string).              (* Box::new of a value of type ty *)

Record st := { s_alloc : N; s_off : N; s_rem : bytes; s_led : list resv }.

Inductive res (A : Type) :=
| Ok (a : A) (s : st)
| Err (e : err) (s : st)       (* the ledger of s is what was requested before failing *)
| Panic (p : site)
| Fuel.
Arguments Ok {A}. Arguments Err {A}. Arguments Panic {A}. Arguments Fuel {A}.

Definition M (A : Type) := st -> res A.

Definition ret {A} (a : A) : M A := fun s => Ok a s.
Definition bind {A B} (m : M A) (k : A -> M B) : M B :=
  fun s => match m s with
           | Ok a s' => k a s'
           | Err e s' => Err e s'
           | Panic p => Panic p
           | Fuel => Fuel
           end.
Definition fail {A} (e : err) : M A := fun s => Err e s.
Definition panic {A} (p : site) : M A := fun _ => Panic p.

Notation "x <- m ;; k" := (bind m (fun x => k)) (at level 61, m at next level, right associativity).

Definition remaining (s : st) : N := len (s_rem s).

Definition with_rem (s : st) (k : N) : st :=
  {| s_alloc := s_alloc s; s_off := s_off s + k; s_rem := drop k (s_rem s); s_led := s_led s |}.

Definition reserve (r : resv) : M unit :=
  fun s => Ok tt {| s_alloc := s_alloc s; s_off := s_off s; s_rem := s_rem s; s_led := s_led s ++ [r] |}.

(* ---------- the `bytes` crate primitives used by header.rs ---------- *)

(* Buf::advance *)
Definition advance (k : N) : M unit :=
  fun s => if k <=? remaining s then Ok tt (with_rem s k) else Panic AdvancePastEnd.

(* Buf::get_u32 / get_u64 / ...: k bytes, big endian *)
Definition get_be (k : N) : M N :=
  fun s => if k <=? remaining s then Ok (be_dec (take k (s_rem s))) (with_rem s k)
           else Panic GetPastEnd.

(* Bytes::slice(..n): a view sharing the allocation; an empty slice is Bytes::new() *)
Definition empty_view : view := {| valloc := 0; voff := 0; vdata := [] |}.
Definition slice_to (n : N) : M view :=
  fun s => if n <=? remaining s
           then Ok (if n =? 0 then empty_view
                    else {| valloc := s_alloc s; voff := s_off s; vdata := take n (s_rem s) |}) s
           else Panic SliceOOB.

Definition usize_max : N := 18446744073709551615.

(* ---------- impl DeserialiserExt for Bytes ---------- *)

Definition read_be (k : N) : M N :=
  fun s => if remaining s <? k then Err InvalidLength s else get_be k s.

Definition read_u32 : M N := read_be 4.
Definition read_u64 : M N := read_be 8.
Definition read_i32 : M Z := n <- read_be 4 ;; ret (to_i32 n).
Definition read_i64 : M Z := n <- read_be 8 ;; ret (to_i64 n).
Definition read_f32 : M N := read_be 4.      (* bit pattern *)
Definition read_f64 : M N := read_be 8.

Definition read_bool : M bool :=
  fun s => if remaining s <? 4 then Err InvalidLength s else
    (n <- get_be 4 ;;
     match to_i32 n with
     | 0%Z => ret false
     | 1%Z => ret true
     | _ => fail InvalidBoolean
     end) s.

(* fn read_bytes(&mut self, n: usize):
     let padded = n.checked_add(pad_length(n)).ok_or(InvalidLength)?;
     if self.remaining() < padded { return Err(InvalidLength) }
     let data = self.slice(..n);  self.advance(padded);  Ok(data) *)
Definition read_bytes (n : N) : M view :=
  fun s =>
    let padded := n + pad_length n in
    if usize_max <? padded then Err InvalidLength s else
    if remaining s <? padded then Err InvalidLength s else
    (data <- slice_to n ;; _ <- advance padded ;; ret data) s.

Definition check_max (n : N) (max : option N) : M unit :=
  match max with
  | Some limit => if limit <? n then fail InvalidLength else ret tt
  | None => ret tt
  end.

Definition read_variable_bytes (max : option N) : M view :=
  n <- read_u32 ;; _ <- check_max n max ;; read_bytes n.

(* read_string: read_variable_bytes, collect into a Vec<u8>, String::from_utf8 *)
Definition read_string (max : option N) : M bytes :=
  w <- read_variable_bytes max ;;
  _ <- reserve (ResStr (len (vdata w))) ;;
  if utf8_valid (vdata w) then ret (vdata w) else fail NonUtf8String.

(* fn read_variable_array<T>(&mut self, max):
     let n = self.read_u32()? as usize;   limit check
     let mut sum = 0; let mut out = Vec::with_capacity(n.min(self.remaining()));
     for _ in 0..n { let t = T::try_from(self.clone())?;
                     if self.remaining() < t.wire_size() { return Err(InvalidLength) }
                     self.advance(t.wire_size()); sum += t.wire_size(); out.push(t); }
     self.advance(pad_length(sum)); Ok(out)
   The element decoder runs on a clone of the cursor: its cursor is dropped, its requests to
   the allocator are not.  The loop count comes from the wire, so the loop is on fuel. *)
Section VarArray.
  Variable elem_name : string.
  Variable dec_elem : M rval.               (* T::try_from(Bytes) *)
  Variable wsz_elem : rval -> option N.     (* T::wire_size *)

  Definition on_clone {A} (m : M A) : M A :=
    fun s => match m s with
             | Ok a s1 => Ok a {| s_alloc := s_alloc s; s_off := s_off s; s_rem := s_rem s;
                                   s_led := s_led s1 |}
             | Err e s1 => Err e {| s_alloc := s_alloc s; s_off := s_off s; s_rem := s_rem s;
                                    s_led := s_led s1 |}
             | Panic p => Panic p
             | Fuel => Fuel
             end.

  Fixpoint rva_loop (fuel : nat) (n sum : N) (acc : list rval) : M (list rval * N) :=
    if n =? 0 then ret (rev acc, sum) else
    match fuel with
    | O => fun _ => Fuel
    | S f =>
      t <- on_clone dec_elem ;;
      match wsz_elem t with
      | None => panic Stuck
      | Some w =>
        fun s => if remaining s <? w then Err InvalidLength s else
                 (_ <- advance w ;; rva_loop f (n - 1) (sum + w) (t :: acc)) s
      end
    end.

  Definition read_variable_array (fuel : nat) (max : option N) : M (list rval) :=
    n <- read_u32 ;;
    _ <- check_max n max ;;
    (fun s => (_ <- reserve (ResVec (N.min n (remaining s)) elem_name) ;;
               r <- rva_loop fuel n 0 [] ;;
               _ <- advance (pad_length (snd r)) ;;
               ret (fst r)) s).
End VarArray.

(* ---------- blanket WireSize impls ---------- *)

Definition wsz_string (s : bytes) : N := 4 + len s + pad_length (len s).
Definition wsz_bytes (w : view) : N := len (vdata w).          (* impl WireSize for Bytes: self.len() *)
Definition wsz_vec (x : N) : N := 4 + x + pad_length x.        (* x = sum of the elements *)
Definition wsz_slice (x : N) : N := x + pad_length x.
Definition wsz_opt (o : option N) : N := 4 + match o with Some w => w | None => 0 end.
