(* L3: a fuelled interpreter for pest's PEG dialect over a deep-embedded grammar, producing
   pest's token tree.  The grammar itself (Grammar.v) is regenerated from /repo/src/xdr.pest
   on every run.  The three pest behaviours that matter (DESIGN.md appendix A): implicit
   WHITESPACE/COMMENT skipping between the operands of ~ and between repetitions in
   non-atomic context; no skipping and no inner tokens in atomic context; a failed sequence
   restores the position.  The result is three-valued so that a parse failure (which ordered
   choice, !, ? and * act on) is never confused with fuel exhaustion. *)
From Coq Require Export String List Ascii Bool NArith.
Export ListNotations.
Open Scope string_scope.

Inductive pexp :=
| PStr (s : string)
| PRange (lo hi : ascii)
| PAny
| PSoi
| PEoi
| PRef (rule : string)
| PSeq (a b : pexp)
| PChoice (a b : pexp)
| POpt (a : pexp)
| PStar (a : pexp)
| PPlus (a : pexp)
| PNot (a : pexp)
| PStarRest (a : pexp).   (* internal: (skip a)*, each iteration restoring on failure *)

Inductive rule_kind := Normal | Silent | Atomic.

Definition grammar := list (string * (rule_kind * pexp)).

Inductive tree := Node (rule : string) (span : string) (children : list tree).

Inductive pres :=
| PFail
| PFuel
| POk (ts : list tree) (rest : string).

Fixpoint lookup (g : grammar) (r : string) : option (rule_kind * pexp) :=
  match g with
  | [] => None
  | (k, v) :: t => if String.eqb k r then Some v else lookup t r
  end.

Fixpoint strip_prefix (p s : string) : option string :=
  match p, s with
  | EmptyString, _ => Some s
  | String a p', String b s' => if Ascii.eqb a b then strip_prefix p' s' else None
  | _, _ => None
  end.

Definition in_range (lo c hi : ascii) : bool :=
  (Nat.leb (nat_of_ascii lo) (nat_of_ascii c) && Nat.leb (nat_of_ascii c) (nat_of_ascii hi))%bool.

(* the part of s that was consumed to reach the suffix s' *)
Definition consumed (s s' : string) : string :=
  String.substring 0 (String.length s - String.length s') s.

Definition is_atomic (k : rule_kind) : bool := match k with Atomic => true | _ => false end.

Definition skip_exp : pexp :=
  PSeq (PStar (PRef "WHITESPACE")) (PStar (PSeq (PRef "COMMENT") (PStar (PRef "WHITESPACE")))).

Section Run.
  Variable g : grammar.

  Fixpoint run (fuel : nat) (e : pexp) (atomic quiet at_soi : bool) (s : string) : pres :=
    match fuel with
    | O => PFuel
    | S f =>
      (* implicit trivia between sequence operands / repetitions; never fails *)
      let skip (s : string) : pres :=
          if atomic then POk [] s
          else match run f skip_exp true true false s with
               | POk _ s' => POk [] s'
               | PFail => POk [] s
               | PFuel => PFuel
               end in
      match e with
      | PStr p => match strip_prefix p s with Some s' => POk [] s' | None => PFail end
      | PRange lo hi =>
        match s with
        | String c s' => if in_range lo c hi then POk [] s' else PFail
        | EmptyString => PFail
        end
      | PAny => match s with String _ s' => POk [] s' | EmptyString => PFail end
      | PSoi => if at_soi then POk [] s else PFail
      | PEoi => match s with
                | EmptyString => POk (if quiet then [] else [Node "EOI" "" []]) s
                | _ => PFail
                end
      | PRef r =>
        match lookup g r with
        | None => PFail
        | Some (k, body) =>
          let special := (String.eqb r "WHITESPACE" || String.eqb r "COMMENT")%bool in
          let quiet_here := (quiet || atomic)%bool in
          match run f body (is_atomic k || atomic || special)%bool
                    (quiet_here || is_atomic k || special)%bool at_soi s with
          | POk ts s' =>
            POk (if quiet_here then []
                 else match k with
                      | Silent => ts
                      | _ => [Node r (consumed s s') ts]
                      end) s'
          | r' => r'
          end
        end
      | PSeq a b =>
        match run f a atomic quiet at_soi s with
        | POk t1 s1 =>
          match skip s1 with
          | POk _ s1' =>
            match run f b atomic quiet (at_soi && String.eqb s1' s)%bool s1' with
            | POk t2 s2 => POk (t1 ++ t2) s2
            | r' => r'
            end
          | r' => r'
          end
        | r' => r'
        end
      | PChoice a b =>
        match run f a atomic quiet at_soi s with
        | PFail => run f b atomic quiet at_soi s
        | r' => r'
        end
      | POpt a =>
        match run f a atomic quiet at_soi s with
        | PFail => POk [] s
        | r' => r'
        end
      | PStar a =>
        match run f a atomic quiet at_soi s with
        | PFail => POk [] s
        | PFuel => PFuel
        | POk t1 s1 =>
          match run f (PStarRest a) atomic quiet false s1 with
          | POk t2 s2 => POk (t1 ++ t2) s2
          | r' => r'
          end
        end
      | PStarRest a =>
        match skip s with
        | POk _ s' =>
          match run f a atomic quiet false s' with
          | PFail => POk [] s                 (* the skipped trivia is given back *)
          | PFuel => PFuel
          | POk t1 s1 =>
            match run f (PStarRest a) atomic quiet false s1 with
            | POk t2 s2 => POk (t1 ++ t2) s2
            | r' => r'
            end
          end
        | r' => r'
        end
      | PPlus a => run f (PSeq a (PStar a)) atomic quiet at_soi s   (* pest unrolls e+ to e ~ e* *)
      | PNot a =>
        match run f a atomic true at_soi s with
        | POk _ _ => PFail
        | PFail => POk [] s
        | PFuel => PFuel
        end
      end
    end.

  (* XDRParser::parse(Rule::item, text): the single `item` pair, or an error *)
  Definition parse (fuel : nat) (text : string) : pres :=
    run fuel (PRef "item") false false true text.
End Run.
