(* Canonical one-line rendering of decoder outcomes, shared with the Rust runner
   (DESIGN.md appendix C), and the K3 comparison. *)
From Coq Require Import Ascii.
From XdrModel Require Export Sem Emit.
Open Scope string_scope.

Definition hexc (n : N) : ascii :=
  ascii_of_N (if (n <? 10)%N then 48 + n else 87 + n).

Fixpoint hex_of_bytes (l : bytes) : string :=
  match l with
  | [] => ""
  | b :: r => String (hexc (b / 16)) (String (hexc (b mod 16)) (hex_of_bytes r))
  end.

Fixpoint bytes_of_hex (s : string) : bytes :=
  match s with
  | String a (String b r) =>
    match hex_digit a, hex_digit b with
    | Some x, Some y => (x * 16 + y)%N :: bytes_of_hex r
    | _, _ => []
    end
  | _ => []
  end.

Fixpoint join (sep : string) (l : list string) : string :=
  match l with
  | [] => ""
  | [x] => x
  | x :: r => x ++ sep ++ join sep r
  end.

Section Show.
  Variable in_alloc : N.

  Fixpoint show_rval (v : rval) : string :=
    match v with
    | RVU32 n => "u32:" ++ string_of_N n
    | RVU64 n => "u64:" ++ string_of_N n
    | RVI32 z => "i32:" ++ string_of_Z z
    | RVI64 z => "i64:" ++ string_of_Z z
    | RVF32 n => "f32:" ++ string_of_N n
    | RVF64 n => "f64:" ++ string_of_N n
    | RVBool b => if b then "bool:1" else "bool:0"
    | RVString s => "str:" ++ hex_of_bytes s
    | RVBytes w =>
      match vdata w with
      | [] => "bytes@E:"
      | d => "bytes@" ++ (if (valloc w =? in_alloc)%N then string_of_N (voff w) else "OUTSIDE")
                      ++ ":" ++ hex_of_bytes d
      end
    | RVVec l => "vec[" ++ join "," (map show_rval l) ++ "]"
    | RVArr l => "arr[" ++ join "," (map show_rval l) ++ "]"
    | RVOpt None => "none"
    | RVOpt (Some x) => "some(" ++ show_rval x ++ ")"
    | RVStruct name fields => "S:" ++ name ++ "{" ++ join "," (map show_rval fields) ++ "}"
    | RVVariant ty variant None => "E:" ++ ty ++ "::" ++ variant
    | RVVariant ty variant (Some x) => "E:" ++ ty ++ "::" ++ variant ++ "(" ++ show_rval x ++ ")"
    | RVNewtype name inner => "N:" ++ name ++ "(" ++ show_rval inner ++ ")"
    end.
End Show.

Definition show_err (e : err) : string :=
  match e with
  | InvalidLength => "InvalidLength"
  | NonUtf8String => "NonUtf8String"
  | InvalidBoolean => "InvalidBoolean"
  | UnknownVariant z => "UnknownVariant(" ++ string_of_Z z ++ ")"
  | UnknownOptionVariant n => "UnknownOptionVariant(" ++ string_of_N n ++ ")"
  | Unknown => "Unknown"
  end.

Definition show_site (p : site) : string :=
  match p with
  | AdvancePastEnd => "advance" | SliceOOB => "slice" | GetPastEnd => "get"
  | Overflow => "overflow" | Stuck => "stuck"
  end.

Definition show_wsz (o : option N) : string :=
  match o with Some w => string_of_N w | None => "?" end.

(* the allocation the harness decodes from has id 1; the view starts at offset off *)
Definition init_state (off : N) (bs : bytes) : st :=
  {| s_alloc := 1; s_off := off; s_rem := bs; s_led := [] |}.

(* "REF <outcome> | VAL <outcome>": the by-reference and the by-value family on the same bytes.
   In the model the two families share one body (one IR, two renderings), so the by-value
   line is the by-reference line without the cursor. *)
Definition show_outcome (md : module_ir) (off : N) (r : res rval) : string :=
  match r with
  | Ok v s =>
    let body := show_rval 1 v in
    let w := show_wsz (wsz md v) in
    "REF OK " ++ body ++ " consumed=" ++ string_of_N (s_off s - off) ++ " wsz=" ++ w ++
    " | VAL OK " ++ body ++ " wsz=" ++ w
  | Err e _ => "REF ERR " ++ show_err e ++ " | VAL ERR " ++ show_err e
  | Panic p => "REF PANIC " ++ show_site p ++ " | VAL PANIC " ++ show_site p
  | Fuel => "FUEL"
  end.

Definition fuel_for (bs : bytes) : nat := (4 * List.length bs + 64 + 50 * 100)%nat.

Definition run_case (md : module_ir) (ty : string) (off : N) (bs : bytes) : string :=
  show_outcome md off (dec md (fuel_for bs) ty (init_state off bs)).

(* reservations of a run, as (count, kind) for the C09 bound: vec capacities by element
   type, string bytes, boxes by type *)
Definition ledger_of (md : module_ir) (ty : string) (off : N) (bs : bytes) : list resv :=
  match dec md (fuel_for bs) ty (init_state off bs) with
  | Ok _ s => s_led s
  | Err _ s => s_led s
  | _ => []
  end.

(* K3: cases are (index, type, leading offset, hex input, expected line) *)
Definition k3_run (a : ast) (cases : list (N * string * N * string * string)) : list N :=
  match gen a with
  | EOk md =>
    flat_map (fun c => match c with
                       | (i, ty, off, hex, expect) =>
                         if String.eqb (run_case md ty off (bytes_of_hex hex)) expect
                         then [] else [i]
                       end) cases
  | _ => map (fun c => fst (fst (fst (fst c)))) cases
  end.

Definition k3_show (a : ast) (ty : string) (off : N) (hex : string) : string :=
  match gen a with
  | EOk md => run_case md ty off (bytes_of_hex hex)
  | _ => "NOGEN"
  end.

(* ---------- direct reader calls (C10 grid) ---------- *)

(* a reader call is the dexp the emitters would write for it *)
Definition run_reader (md : module_ir) (e : dexp) (off : N) (bs : bytes) : string :=
  let fuel := fuel_for bs in
  match eval_dexp md (dec md fuel) fuel e (init_state off bs) with
  | Ok v s => "RD OK " ++ show_rval 1 v ++ " consumed=" ++ string_of_N (s_off s - off)
                       ++ " wsz=" ++ show_wsz (wsz md v)
  | Err e _ => "RD ERR " ++ show_err e
  | Panic p => "RD PANIC " ++ show_site p
  | Fuel => "FUEL"
  end.

(* the blanket WireSize impls on std containers of n elements *)
Definition wsz_blanket (kind : string) (n : N) : string :=
  "W " ++ string_of_N
  (if String.eqb kind "u32" then 4 else if String.eqb kind "i32" then 4
   else if String.eqb kind "f32" then 4 else if String.eqb kind "bool" then 4
   else if String.eqb kind "u64" then 8 else if String.eqb kind "i64" then 8
   else if String.eqb kind "f64" then 8
   else if String.eqb kind "vec_u32" then wsz_vec (4 * n)
   else if String.eqb kind "vec_u64" then wsz_vec (8 * n)
   else if String.eqb kind "slice_u32" then wsz_slice (4 * n)
   else if String.eqb kind "slice_u8" then wsz_slice (1 * n)
   else if String.eqb kind "opt_none" then wsz_opt None
   else if String.eqb kind "opt_some_u64" then wsz_opt (Some 8)
   else if String.eqb kind "box_u32" then 4
   else if String.eqb kind "string" then wsz_string (repeat 97 (N.to_nat n))
   else if String.eqb kind "bytes" then n
   else if String.eqb kind "vec_string"
        then wsz_vec (wsz_string (repeat 97 (N.to_nat n)) + wsz_string (repeat 98 (N.to_nat (n + 1))))
   (* elements of different sizes *)
   else if String.eqb kind "slice_string"
        then wsz_slice (wsz_string (repeat 97 (N.to_nat n)) + wsz_string (repeat 98 (N.to_nat (n + 1)))
                        + wsz_string (repeat 99 (N.to_nat (n + 5))))
   else if String.eqb kind "arr_string"
        then wsz_slice (wsz_string (repeat 97 (N.to_nat (n + 2))) + wsz_string (repeat 98 (N.to_nat n)))
   else if String.eqb kind "arr_opt" then wsz_slice (wsz_opt (Some 8) + wsz_opt None + wsz_opt (Some 8))
   else if String.eqb kind "vec_vec" then wsz_vec (wsz_vec (4 * n) + wsz_vec (4 * (n + 1)))
   else if String.eqb kind "slice_vec" then wsz_slice (wsz_vec (8 * (n + 1)) + wsz_vec (8 * n))
   else 0)%N.

Inductive k3_kind :=
| KType (ty : string)
| KReader (e : dexp)
| KWsz (kind : string) (n : N).

Definition k3_line (md : module_ir) (k : k3_kind) (off : N) (bs : bytes) : string :=
  match k with
  | KType ty => run_case md ty off bs
  | KReader e => run_reader md e off bs
  | KWsz kind n => wsz_blanket kind n
  end.

(* cases are (index, kind, leading offset, hex input, expected line) *)
Definition k3_run2 (a : ast) (cases : list (N * k3_kind * N * string * string)) : list N :=
  match gen a with
  | EOk md =>
    flat_map (fun c => match c with
                       | (i, k, off, hex, expect) =>
                         if String.eqb (k3_line md k off (bytes_of_hex hex)) expect
                         then [] else [i]
                       end) cases
  | _ => map (fun c => fst (fst (fst (fst c)))) cases
  end.

Definition k3_show2 (a : ast) (k : k3_kind) (off : N) (hex : string) : string :=
  match gen a with
  | EOk md => k3_line md k off (bytes_of_hex hex)
  | _ => "NOGEN"
  end.

(* ---------- C09: what the model says the allocator is asked for ---------- *)

(* sizes : size_of::<T>() of every generated type, as printed by the runner *)
Definition resv_bytes (sizes : list (string * N)) (r : resv) : N :=
  match r with
  | ResVec cap elem => match assoc elem sizes with Some s => cap * s | None => 0 end
  | ResStr n => if (n =? 0)%N then 0 else N.max n 8     (* Vec<u8> minimum non-zero capacity *)
  | ResBox ty => match assoc ty sizes with Some s => s | None => 0 end
  end%N.

Definition alloc_expected (md : module_ir) (sizes : list (string * N)) (ty : string) (off : N)
           (bs : bytes) : N :=
  fold_left N.add (map (resv_bytes sizes) (ledger_of md ty off bs)) 0%N.

(* cases: (index, type, offset, hex, bytes the real allocator was asked for) *)
Definition k3a_run (a : ast) (sizes : list (string * N))
           (cases : list (N * string * N * string * N)) : list N :=
  match gen a with
  | EOk md =>
    flat_map (fun c => match c with
                       | (i, ty, off, hex, real) =>
                         if (alloc_expected md sizes ty off (bytes_of_hex hex) =? real)%N
                         then [] else [i]
                       end) cases
  | _ => map (fun c => fst (fst (fst (fst c)))) cases
  end.
