(* Boolean version of the typing relation of Spec.v (for evaluation in the correspondence
   checks; its soundness w.r.t. TypedN is proved in XdrProofs.SpecProofs), and the
   comparison of the Python mirror of the reference with Spec.v (K4). *)
From XdrModel Require Export Spec Canon.
Open Scope list_scope.
Open Scope N_scope.

Definition z_in (lo hi z : Z) : bool := (Z.leb lo z && Z.ltb z hi)%bool.

Section TypingB.
  Variable A : ast.

  Definition is_opaque_t (t : basic_type) : bool := match t with Opaque => true | _ => false end.
  Definition is_string_t (t : basic_type) : bool := match t with TString => true | _ => false end.

  Fixpoint typed_n (fuel : nat) (n : string) (x : xval) : bool :=
    match fuel with
    | O => false
    | S f =>
      let typed_basic (t : basic_type) (x : xval) : bool :=
          match t, x with
          | U32, XU32 n => n <=? u32_max
          | I32, XI32 z => z_in (-2147483648) 2147483648 z
          | U64, XU64 n => n <? 18446744073709551616
          | I64, XI64 z => z_in (-9223372036854775808) 9223372036854775808 z
          | F32, XF32 b => b <=? u32_max
          | F64, XF64 b => b <? 18446744073709551616
          | TBool, XBool _ => true
          | TString, XString bs => (len bs <=? u32_max) && bytes_okb bs && utf8_valid bs
          | Opaque, XOpaqueV bs => (len bs <=? u32_max) && bytes_okb bs
          | Ident m, _ => typed_n f m x
          | _, _ => false
          end in
      let typed_pos (a : array_type) (opt : bool) (x : xval) : bool :=
          match a, opt, x with
          | ANone t, false, _ => typed_basic t x
          | ANone t, true, XOpt None => true
          | ANone t, true, XOpt (Some y) => typed_basic t y
          | AFixed Opaque s, false, XOpaqueF bs =>
            match size_val A s with Some n => (len bs =? n) && bytes_okb bs | None => false end
          | AFixed t s, false, XArrF l =>
            negb (is_opaque_t t) && negb (is_string_t t) &&
            match size_val A s with Some n => (len l =? n) && forallb (typed_basic t) l | None => false end
          | AVar Opaque s, false, XOpaqueV bs =>
            match max_val A s with
            | Some m => (len bs <=? m) && (len bs <=? u32_max) && bytes_okb bs
            | None => false
            end
          | AVar TString s, false, XString bs =>
            match max_val A s with
            | Some m => (len bs <=? m) && (len bs <=? u32_max) && bytes_okb bs && utf8_valid bs
            | None => false
            end
          | AVar t s, false, XArrV l =>
            negb (is_opaque_t t) && negb (is_string_t t) &&
            match max_val A s with
            | Some m => (len l <=? m) && (len l <=? u32_max) && forallb (typed_basic t) l
            | None => false
            end
          | _, _, _ => false
          end in
      match get_type A n, x with
      | Some (TStruct s), XStruct n' vs =>
        String.eqb (st_name s) n && String.eqb n' n &&
        (fix go (fs : list struct_field) (vs : list xval) : bool :=
           match fs, vs with
           | [], [] => true
           | fd :: fs', v :: vs' => typed_pos (sf_value fd) (sf_optional fd) v && go fs' vs'
           | _, _ => false
           end) (st_fields s) vs
      | Some (TUnion u), XUnion n' d variant arm =>
        String.eqb (un_name u) n && String.eqb n' n &&
        typed_basic (disc_type A u) d &&
        match arm_for A u d with
        | Some (variant', ty) =>
          String.eqb variant variant' &&
          match ty, arm with
          | None, None => true
          | Some t, Some y => typed_pos t false y
          | _, _ => false
          end
        | None => false
        end
      | Some (TEnum e), XEnum n' m v =>
        String.eqb (en_name e) n && String.eqb n' n &&
        existsb (fun p => String.eqb (fst p) m &&
                          match snd p with VNum v' => Z.eqb v v' | VStr _ => false end) (en_variants e) &&
        z_in 0 2147483648 v
      | Some (TTypedef t), XAlias n' y =>
        String.eqb (bt_as_str (unwrap_array (td_alias t))) n && String.eqb n' n &&
        typed_pos (typedef_pos t) false y
      | _, _ => false
      end
    end.
End TypingB.

Fixpoint xsize (x : xval) : nat :=
  let fix sum (l : list xval) : nat := match l with [] => 0%nat | y :: r => (xsize y + sum r)%nat end in
  match x with
  | XArrF l | XArrV l => S (sum l)
  | XOpt (Some y) => S (xsize y)
  | XStruct _ fs => S (sum fs)
  | XUnion _ d _ (Some y) => S (xsize d + xsize y)
  | XUnion _ d _ None => S (xsize d)
  | XAlias _ y => S (xsize y)
  | _ => 1%nat
  end.

(* K4: the line the reference predicts for the encoding of x placed at offset off *)
Definition ref_line (x : xval) (off : N) : string :=
  let body := show_rval 1 (rv 1 off x) in
  let n := len (enc x) in
  let w := string_of_N (n - 4 * nF1 x) in
  ("REF OK " ++ body ++ " consumed=" ++ string_of_N n ++ " wsz=" ++ w ++
   " | VAL OK " ++ body ++ " wsz=" ++ w)%string.

(* cases: (index, type, value, offset, hex of the mirror's encoding, the mirror's line,
   the mirror's step_exact).  Returns the indices where Spec.v disagrees with the mirror or
   where the value is not well typed. *)
Definition k4_run (a : ast) (cases : list (N * string * xval * N * string * string * bool)) : list N :=
  flat_map (fun c => match c with
                     | (i, ty, x, off, hex, line, se) =>
                       if (typed_n a (S (xsize x)) ty x &&
                           String.eqb (hex_of_bytes (enc x)) hex &&
                           String.eqb (ref_line x off) line &&
                           Bool.eqb (step_exact x) se)%bool
                       then [] else [i]
                     end) cases.
