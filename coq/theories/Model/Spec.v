(* L6: the reference -- RFC 4506 reading of the declarations in an Ast.
   Written from the RFC and from the README's description of the generated API, never from
   impls/*.rs.  Values are self-describing trees, so the encoder `enc` and the expected
   Rust-shaped result `rv` are plain structural functions; everything that depends on the
   declarations is in the typing relation `TypedN`.  Model only: no proofs in this file. *)
From Coq Require Import Ascii.
From XdrModel Require Export Runtime Ast.
Open Scope list_scope.
Open Scope N_scope.

Inductive xval :=
| XU32 (n : N) | XI32 (z : Z) | XU64 (n : N) | XI64 (z : Z)
| XF32 (bits : N) | XF64 (bits : N) | XBool (b : bool)
| XEnum (ename member : string) (value : Z)
| XString (bs : bytes)
| XOpaqueV (bs : bytes)                 (* variable-length opaque: length prefix *)
| XOpaqueF (bs : bytes)                 (* fixed-length opaque: no prefix *)
| XArrF (l : list xval)                 (* fixed-length array *)
| XArrV (l : list xval)                 (* counted array *)
| XOpt (o : option xval)                (* optional-data *)
| XStruct (name : string) (fields : list xval)
| XUnion (name : string) (disc : xval) (variant : string) (arm : option xval)
| XAlias (name : string) (inner : xval).   (* a value of a typedef'd type *)

(* ---------- RFC 4506 encoding ---------- *)

Definition enc_bytes (bs : bytes) : bytes := bs ++ zeros (pad_length (len bs)).

Fixpoint enc (x : xval) : bytes :=
  match x with
  | XU32 n => be_enc 4 n
  | XI32 z => be_enc 4 (of_i32 z)
  | XU64 n => be_enc 8 n
  | XI64 z => be_enc 8 (of_i64 z)
  | XF32 b => be_enc 4 b
  | XF64 b => be_enc 8 b
  | XBool b => be_enc 4 (if b then 1 else 0)
  | XEnum _ _ v => be_enc 4 (of_i32 v)
  | XString bs => be_enc 4 (len bs) ++ enc_bytes bs
  | XOpaqueV bs => be_enc 4 (len bs) ++ enc_bytes bs
  | XOpaqueF bs => enc_bytes bs
  | XArrF l => concat (map enc l)
  | XArrV l => be_enc 4 (len l) ++ concat (map enc l)
  | XOpt None => be_enc 4 0
  | XOpt (Some y) => be_enc 4 1 ++ enc y
  | XStruct _ fs => concat (map enc fs)
  | XUnion _ d _ None => enc d
  | XUnion _ d _ (Some y) => enc d ++ enc y
  | XAlias _ y => enc y
  end.

(* ---------- the value the generated API promises ---------- *)

Definition mkview (a o : N) (bs : bytes) : view :=
  match bs with [] => empty_view | _ => {| valloc := a; voff := o; vdata := bs |} end.

(* a : the input allocation, o : offset at which enc x starts *)
Fixpoint rv (a o : N) (x : xval) : rval :=
  let fix go (o : N) (l : list xval) : list rval :=
      match l with [] => [] | y :: r => rv a o y :: go (o + len (enc y)) r end in
  match x with
  | XU32 n => RVU32 n
  | XI32 z => RVI32 z
  | XU64 n => RVU64 n
  | XI64 z => RVI64 z
  | XF32 b => RVF32 b
  | XF64 b => RVF64 b
  | XBool b => RVBool b
  | XEnum e m _ => RVVariant e m None
  | XString bs => RVString bs
  | XOpaqueV bs => RVBytes (mkview a (o + 4) bs)
  | XOpaqueF bs => RVBytes (mkview a o bs)
  | XArrF l => RVArr (go o l)
  | XArrV l => RVVec (go (o + 4) l)
  | XOpt None => RVOpt None
  | XOpt (Some y) => RVOpt (Some (rv a (o + 4) y))
  | XStruct n fs => RVStruct n (go o fs)
  | XUnion n d variant None => RVVariant n variant None
  | XUnion n d variant (Some y) => RVVariant n variant (Some (rv a (o + len (enc d)) y))
  | XAlias n y => RVNewtype n (rv a o y)
  end.

Fixpoint rv_list (a o : N) (l : list xval) : list rval :=
  match l with [] => [] | y :: r => rv a o y :: rv_list a (o + len (enc y)) r end.

(* nesting depth of named types: the fuel a decoder needs *)
Fixpoint depth (x : xval) : nat :=
  let fix mx (l : list xval) : nat := match l with [] => 0%nat | y :: r => Nat.max (depth y) (mx r) end in
  match x with
  | XArrF l | XArrV l => S (mx l)
  | XOpt (Some y) => S (depth y)
  | XStruct _ fs => S (mx fs)
  | XUnion _ d _ (Some y) => S (Nat.max (depth d) (depth y))
  | XUnion _ d _ None => S (depth d)
  | XAlias _ y => S (depth y)
  | XEnum _ _ _ => 1%nat
  | _ => 0%nat
  end.

(* ---------- typing: which values a declaration admits ---------- *)

Definition u32_max : N := 4294967295.

Definition lit_value (s : string) : option Z :=
  match s with
  | EmptyString => None
  | String "0"%char (String "x"%char r) =>
    (fix hex (s : string) (acc : N) (any : bool) : option Z :=
       match s with
       | EmptyString => if any then Some (Z.of_N acc) else None
       | String c r =>
         let n := Ascii.nat_of_ascii c in
         let d := if (Nat.leb 48 n && Nat.leb n 57)%bool then Some (N.of_nat (n - 48))
                  else if (Nat.leb 97 n && Nat.leb n 102)%bool then Some (N.of_nat (n - 87))
                  else if (Nat.leb 65 n && Nat.leb n 70)%bool then Some (N.of_nat (n - 55))
                  else None in
         match d with Some d => hex r (acc * 16 + d) true | None => None end
       end) r 0 false
  | _ => option_map (fun n => Z.of_N n) (parse_u32 s)
  end.

Section Typing.
  Variable A : ast.

  (* value of a declared constant (decimal or hexadecimal numeral) *)
  Definition const_val (name : string) : option Z :=
    match get_const A name with
    | Some (ConstValue v) => lit_value v
    | _ => None
    end.

  Definition size_val (s : array_size) : option N :=
    match s with
    | Known n => Some n
    | Constant c => match get_const A c with
                    | Some (ConstValue v) => parse_u32 v
                    | _ => None
                    end
    end.

  Definition max_val (s : option array_size) : option N :=
    match s with None => Some u32_max | Some s => size_val s end.

  (* the integer a discriminant value stands for *)
  Definition disc_int (d : xval) : option Z :=
    match d with
    | XU32 n => Some (Z.of_N n)
    | XI32 z => Some z
    | XBool b => Some (if b then 1 else 0)%Z
    | XEnum _ _ v => Some v
    | _ => None
    end.

  (* the value of member m of enum e (the first member of that name) *)
  Definition enum_member_val (e m : string) : option Z :=
    match get_type A e with
    | Some (TEnum en) => match assoc m (en_variants en) with Some (VNum z) => Some z | _ => None end
    | _ => None
    end.

  (* does the case label l select the discriminant value d? *)
  Definition label_selects (l : string) (d : xval) : bool :=
    match get_const A l with
    | Some (ConstValue v) =>
      match lit_value v, d with
      | Some z, XU32 n => Z.eqb z (Z.of_N n)
      | Some z, XI32 x => Z.eqb z x
      | _, _ => false
      end
    | Some (EnumValue e m) =>
      match d with
      | XEnum e' m' _ => (String.eqb e e' && String.eqb m m')%bool
      (* an enum member used as a label of an integer discriminant stands for its value *)
      | XU32 n => match enum_member_val e m with Some z => Z.eqb z (Z.of_N n) | None => false end
      | XI32 x => match enum_member_val e m with Some z => Z.eqb z x | None => false end
      | _ => false
      end
    | None =>
      match d with
      | XBool b => String.eqb l (if b then "TRUE" else "FALSE")
      | XU32 n => match lit_value l with Some z => Z.eqb z (Z.of_N n) | None => false end
      | XI32 x => match lit_value l with Some z => Z.eqb z x | None => false end
      | _ => false
      end
    end.

  (* README: "v_" before a label that starts with a digit *)
  Definition documented_variant (l : string) : string :=
    match l with
    | String c _ => let n := Ascii.nat_of_ascii c in
                    if (Nat.leb 48 n && Nat.leb n 57)%bool then ("v_" ++ l)%string else l
    | _ => l
    end.

  (* the arm a union assigns to d: (variant name, payload type) *)
  Definition arm_for (u : union_t) (d : xval) : option (string * option array_type) :=
    match find (fun c => existsb (fun l => label_selects l d) (uc_values c)) (un_cases u) with
    | Some c => match find (fun l => label_selects l d) (uc_values c) with
                | Some l => Some (documented_variant l, Some (uc_value c))
                | None => None
                end
    | None =>
      match find (fun l => (negb (String.eqb l "default") && label_selects l d)%bool) (un_void u) with
      | Some l => Some (documented_variant l, None)
      | None =>
        match un_default u with
        | Some c => Some ("default", Some (uc_value c))
        | None => if mem "default" (un_void u) then Some ("default", None) else None
        end
      end
    end.

  (* the type a discriminant is decoded at: a typedef'd discriminant is its target *)
  Definition disc_type (u : union_t) : basic_type :=
    match un_sw_type u with
    | Ident c => match get_type A c with
                 | Some (TTypedef t) => td_target t
                 | _ => Ident c
                 end
    | t => t
    end.

  (* typedef T name<decl>: the declarator belongs to the target *)
  Definition typedef_pos (t : typedef_t) : array_type :=
    match td_alias t with
    | ANone _ => ANone (td_target t)
    | AFixed _ s => AFixed (td_target t) s
    | AVar _ s => AVar (td_target t) s
    end.

  Inductive TypedN : string -> xval -> Prop :=
  | TN_struct n s vs :
      get_type A n = Some (TStruct s) -> st_name s = n ->
      TypedF (st_fields s) vs -> TypedN n (XStruct n vs)
  | TN_union n u d variant ty arm :
      get_type A n = Some (TUnion u) -> un_name u = n ->
      TypedB (disc_type u) d ->
      arm_for u d = Some (variant, ty) ->
      TypedArm ty arm ->
      TypedN n (XUnion n d variant arm)
  | TN_enum n e m v :
      get_type A n = Some (TEnum e) -> en_name e = n ->
      In (m, VNum v) (en_variants e) -> (0 <= v < 2147483648)%Z ->
      TypedN n (XEnum n m v)
  | TN_typedef n t y :
      get_type A n = Some (TTypedef t) -> bt_as_str (unwrap_array (td_alias t)) = n ->
      TypedP (typedef_pos t) false y -> TypedN n (XAlias n y)
  with TypedF : list struct_field -> list xval -> Prop :=
  | TF_nil : TypedF [] []
  | TF_cons f fs v vs :
      TypedP (sf_value f) (sf_optional f) v -> TypedF fs vs -> TypedF (f :: fs) (v :: vs)
  with TypedArm : option array_type -> option xval -> Prop :=
  | TA_void : TypedArm None None
  | TA_data t y : TypedP t false y -> TypedArm (Some t) (Some y)
  with TypedP : array_type -> bool -> xval -> Prop :=
  | TP_none t x : TypedB t x -> TypedP (ANone t) false x
  | TP_opt_none t : TypedP (ANone t) true (XOpt None)
  | TP_opt_some t y : TypedB t y -> TypedP (ANone t) true (XOpt (Some y))
  | TP_fixed_opaque s n bs :
      size_val s = Some n -> len bs = n -> bytes_ok bs -> TypedP (AFixed Opaque s) false (XOpaqueF bs)
  | TP_fixed t s n l :
      t <> Opaque -> t <> TString -> size_val s = Some n -> len l = n -> TypedL t l ->
      TypedP (AFixed t s) false (XArrF l)
  | TP_var_opaque s m bs :
      max_val s = Some m -> len bs <= m -> len bs <= u32_max -> bytes_ok bs ->
      TypedP (AVar Opaque s) false (XOpaqueV bs)
  | TP_var_string s m bs :
      max_val s = Some m -> len bs <= m -> len bs <= u32_max -> bytes_ok bs -> utf8_valid bs = true ->
      TypedP (AVar TString s) false (XString bs)
  | TP_var t s m l :
      t <> Opaque -> t <> TString -> max_val s = Some m -> len l <= m -> len l <= u32_max ->
      TypedL t l -> TypedP (AVar t s) false (XArrV l)
  with TypedL : basic_type -> list xval -> Prop :=
  | TL_nil t : TypedL t []
  | TL_cons t x l : TypedB t x -> TypedL t l -> TypedL t (x :: l)
  with TypedB : basic_type -> xval -> Prop :=
  | TB_u32 n : n <= u32_max -> TypedB U32 (XU32 n)
  | TB_i32 z : (-2147483648 <= z < 2147483648)%Z -> TypedB I32 (XI32 z)
  | TB_u64 n : n < 18446744073709551616 -> TypedB U64 (XU64 n)
  | TB_i64 z : (-9223372036854775808 <= z < 9223372036854775808)%Z -> TypedB I64 (XI64 z)
  | TB_f32 b : b <= u32_max -> TypedB F32 (XF32 b)
  | TB_f64 b : b < 18446744073709551616 -> TypedB F64 (XF64 b)
  | TB_bool b : TypedB TBool (XBool b)
  | TB_string bs :
      len bs <= u32_max -> bytes_ok bs -> utf8_valid bs = true -> TypedB TString (XString bs)
  | TB_opaque bs : len bs <= u32_max -> bytes_ok bs -> TypedB Opaque (XOpaqueV bs)
  | TB_ident n x : TypedN n x -> TypedB (Ident n) x.

  Scheme TypedN_mind := Induction for TypedN Sort Prop
  with TypedF_mind := Induction for TypedF Sort Prop
  with TypedArm_mind := Induction for TypedArm Sort Prop
  with TypedP_mind := Induction for TypedP Sort Prop
  with TypedL_mind := Induction for TypedL Sort Prop
  with TypedB_mind := Induction for TypedB Sort Prop.
  Combined Scheme Typed_mutind from TypedN_mind, TypedF_mind, TypedArm_mind, TypedP_mind,
    TypedL_mind, TypedB_mind.
End Typing.

(* ---------- the F1 frontier ---------- *)

(* number of inline variable-length opaque fields/arms (finding F1): those are the values
   whose generated wire_size() lacks the 4-byte length prefix *)
Definition is_opaque_v (x : xval) : bool := match x with XOpaqueV _ => true | _ => false end.

Fixpoint nF1 (x : xval) : N :=
  let fix sum (l : list xval) : N := match l with [] => 0 | y :: r => nF1 y + sum r end in
  let fix direct (l : list xval) : N :=
      match l with [] => 0 | y :: r => (if is_opaque_v y then 1 else 0) + direct r end in
  match x with
  | XArrF l | XArrV l => sum l
  | XOpt (Some y) => nF1 y
  | XStruct _ fs => direct fs + sum fs
  | XUnion _ d _ (Some y) => (if is_opaque_v y then 1 else 0) + nF1 y
  | XAlias _ y => nF1 y
  | _ => 0
  end.

(* every element of every counted array is size-exact *)
Fixpoint step_exact (x : xval) : bool :=
  let fix all (l : list xval) : bool := match l with [] => true | y :: r => step_exact y && all r end in
  let fix noF1 (l : list xval) : bool := match l with [] => true | y :: r => (nF1 y =? 0) && noF1 r end in
  match x with
  | XArrF l => all l
  | XArrV l => all l && noF1 l
  | XOpt (Some y) => step_exact y
  | XStruct _ fs => all fs
  | XUnion _ d _ (Some y) => step_exact y
  | XAlias _ y => step_exact y
  | _ => true
  end.
