(* L4: print the IR to the exact text the Rust emitters write (everything that follows
   header.rs in the output of Generator::generate), newline for newline. *)
From XdrModel Require Export Emit.
Open Scope string_scope.

Definition nl : string := String (Ascii.ascii_of_nat 10) EmptyString.

Fixpoint sconcat (l : list string) : string :=
  match l with [] => "" | x :: r => x ++ sconcat r end.

(* TRAIT_BOUNDS.split("where").nth(1).unwrap_or("").trim() *)
Fixpoint after_where (s : string) : string :=
  match s with
  | EmptyString => ""
  | String c r => if String.prefix "where" s then String.substring 5 (String.length s - 5) s
                  else after_where r
  end.
Fixpoint ltrim (s : string) : string :=
  match s with
  | String c r => if Ascii.eqb c (Ascii.ascii_of_nat 32) then ltrim r else s
  | EmptyString => s
  end.
Definition newtype_bounds : string := ltrim (after_where trait_bounds).

Definition opt_size (o : option N) : string :=
  match o with Some n => "Some(" ++ string_of_N n ++ ")" | None => "None" end.

(* ---------- types ---------- *)

Definition render_tyx (t : tyx) : string :=
  let b := match ty_base t with
           | TBT => "T" | TBString => "String" | TBText s => s | TBGen s => s ++ "<T>"
           end in
  match ty_wrap t with
  | WNone => b
  | WArr sz => "[" ++ b ++ "; " ++ sz ++ "]"
  | WVec => "Vec<" ++ b ++ ">"
  end.

Definition render_tdecl (derive : string) (d : tdecl) : string :=
  match d with
  | DStruct name g fields =>
    derive ++ nl ++ "pub struct " ++ name ++ (if g then trait_bounds else "") ++ " {" ++ nl ++
    sconcat (map (fun f : string * bool * tyx => match f with
                           | (n, opt, t) =>
                             "pub " ++ n ++ ": " ++ (if opt then "Option<Box<" else "") ++
                             render_tyx t ++ (if opt then ">>" else "") ++ "," ++ nl
                           end) fields) ++
    "}" ++ nl
  | DUnion name g arms voids def =>
    derive ++ nl ++ "pub enum " ++ name ++ (if g then trait_bounds else "") ++ " {" ++ nl ++
    sconcat (map (fun a => fst a ++ "(" ++ render_tyx (snd a) ++ ")," ++ nl) arms) ++
    sconcat (map (fun v => v ++ "," ++ nl) voids) ++
    match def with Some t => "default(" ++ render_tyx t ++ ")," ++ nl | None => "" end ++
    "}" ++ nl
  | DEnum name variants =>
    derive ++ nl ++ "#[repr(u32)]" ++ nl ++ "pub enum " ++ name ++ " {" ++ nl ++
    sconcat (map (fun v => fst v ++ " = " ++ snd v ++ "," ++ nl) variants) ++
    "}" ++ nl
  | DNewtype name g inner =>
    derive ++ nl ++ "pub struct " ++ name ++
    (if g then "<" ++ newtype_bounds ++ ">" else "") ++
    match ty_base inner with
    | TBT => "(pub T);" ++ nl
    | TBGen _ => " (pub " ++ render_tyx inner ++ ");" ++ nl
    | _ => "(pub " ++ render_tyx inner ++ ");" ++ nl
    end
  end.

Definition render_const (c : string * string) : string :=
  "pub const " ++ fst c ++ ": u32 = " ++ snd c ++ ";" ++ nl.

(* ---------- decoders ---------- *)

Definition prim_reader (p : prim) : string :=
  match p with
  | PU32 => "v.read_u32()" | PU64 => "v.read_u64()" | PI32 => "v.read_i32()"
  | PI64 => "v.read_i64()" | PF32 => "v.read_f32()" | PF64 => "v.read_f64()"
  | PBool => "v.read_bool()"
  end.

Fixpoint srepeat (n : nat) (s : string) : string :=
  match n with O => "" | S k => s ++ srepeat k s end.

(* the expression *without* its trailing `?` for the basic forms; render_dexp adds it *)
Definition render_basic (tm : template) (e : dexp) : string :=
  match e with
  | EPrim p => prim_reader p
  | EString max => "v.read_string(" ++ opt_size max ++ ")"
  | EVarBytes max => "v.read_variable_bytes(" ++ opt_size max ++ ")"
  | ETryFrom ty => ty ++ "::try_from(" ++ t_ref tm ++ ")"
  | _ => "<not basic>"
  end.

Definition render_dexp (tm : template) (e : dexp) : string :=
  match e with
  | EBytes n => "v.read_bytes(" ++ string_of_N n ++ ")?"
  | EVarArray elem g max =>
    "v.read_variable_array::<" ++ elem ++ (if g then "<" ++ t_type_name tm ++ ">" else "") ++
    ">(" ++ opt_size max ++ ")?"
  | EArr n e' =>
    "[" ++ nl ++ srepeat (N.to_nat n) (render_basic tm e' ++ "?," ++ nl) ++ "]"
  | _ => render_basic tm e ++ "?"
  end.

Definition render_matcher (m : matcher) : string :=
  match m with
  | MText s => s
  | MEnumGuard e v t => "c if c == " ++ e ++ "::" ++ v ++ " as " ++ t
  | MWild => "_"
  end.

Definition render_dbody (tm : template) (b : dbody) : string :=
  match b with
  | BStruct name fields =>
    "Ok(" ++ name ++ " {" ++ nl ++
    sconcat (map (fun f =>
      fst f ++ ": " ++
      match snd f with
      | FOpt ty =>
        "{ match v.read_u32()? {" ++ nl ++ "0 => None," ++ nl ++
        "1 => Some(Box::new(" ++ ty ++ "::try_from(" ++ t_ref tm ++ ")?))," ++ nl ++
        "d => return Err(Error::UnknownOptionVariant(d))," ++ nl ++ "}}," ++ nl
      | FPlain e => render_dexp tm e ++ "," ++ nl
      end) fields) ++
    "})" ++ nl
  | BUnion dv disc arms fb =>
    "let " ++ dv ++ " = " ++ render_basic tm disc ++ "?;" ++ nl ++
    "Ok(match " ++ dv ++ " {" ++ nl ++
    sconcat (map (fun a : matcher * string * option dexp => match a with
      | (m, variant, Some e) =>
        render_matcher m ++ " => Self::" ++ variant ++ "(" ++ render_dexp tm e ++ ")," ++ nl
      | (m, variant, None) =>
        render_matcher m ++ " => Self::" ++ variant ++ "," ++ nl
      end) arms) ++
    match fb with
    | FbDefault e => "_ => Self::default(" ++ render_dexp tm e ++ ")," ++ nl
    | FbUnknown => "d => return Err(Error::UnknownVariant(d as i32))," ++ nl
    | FbNone => ""
    end ++
    "})" ++ nl
  | BEnum arms =>
    "Ok(match v.read_i32()? {" ++ nl ++
    sconcat (map (fun a => fst a ++ " => Self::" ++ snd a ++ "," ++ nl) arms) ++
    "d => return Err(Error::UnknownVariant(d as i32))," ++ nl ++ "})" ++ nl
  | BTypedef e =>
    "Ok(Self(" ++ render_dexp tm e ++ "))" ++ nl
  end.

Definition render_from (tm : template) (i : impl dbody) : string :=
  "impl TryFrom<" ++ t_try_from tm ++ "> for " ++ i_name i ++
  (if i_generic i then "<" ++ t_type_name tm ++ ">" else "") ++
  " {" ++ nl ++ "type Error = Error;" ++ nl ++ nl ++
  "fn try_from(mut v: " ++ t_try_from tm ++ ") -> Result<Self, Self::Error> {" ++ nl ++
  render_dbody tm (i_body i) ++
  "}" ++ nl ++ "}" ++ nl.

(* ---------- wire_size ---------- *)

Definition render_sbody (b : sbody) : string :=
  match b with
  | SStruct fields =>
    sconcat (map (fun f : string * bool =>
      "self." ++ fst f ++ ".wire_size() +" ++ nl ++
      (if snd f then " pad_length(self." ++ fst f ++ ".wire_size()) +" ++ nl else "")) fields) ++
    "0" ++ nl
  | SUnion arms voids def =>
    "4 + match self {" ++ nl ++
    sconcat (map (fun a : string * bool =>
      "Self::" ++ fst a ++ "(inner) => inner.wire_size()" ++
      (if snd a then " + pad_length(inner.wire_size())," else ",") ++ nl) arms) ++
    sconcat (map (fun v => "Self::" ++ v ++ " => 0," ++ nl) voids) ++
    match def with
    | Some p => "Self::default(inner) => inner.wire_size()" ++
                (if p then " + pad_length(inner.wire_size())," else ",") ++ nl
    | None => ""
    end ++
    "}" ++ nl
  | SEnum => "4" ++ nl
  | STypedef k =>
    "self.0.wire_size()" ++ nl ++
    match k with
    | TSPlain => ""
    | TSOpaqueVar => "+ pad_length(self.0.wire_size()) + 4" ++ nl
    | TSOpaqueFixed => "+ pad_length(self.0.wire_size())" ++ nl
    end
  end.

Definition render_size (tm : template) (i : impl sbody) : string :=
  "impl WireSize for " ++ i_name i ++
  (if i_generic i then "<" ++ t_type_name tm ++ ">" else "") ++ " {" ++ nl ++
  "fn wire_size(&self) -> usize {" ++ nl ++
  render_sbody (i_body i) ++
  "}" ++ nl ++ "}" ++ nl.

(* ---------- the module, as a list of items (K2 compares item multisets) ---------- *)

Definition render_items (derive : string) (m : module_ir) : list string :=
  map render_const (m_consts m) ++
  map (render_tdecl derive) (m_types m) ++
  map (render_from tmpl_bytes) (m_from m) ++
  map (render_from tmpl_refmut) (m_from m) ++
  map (render_size tmpl_bytes) (m_size m).

Definition render_module (derive : string) (m : module_ir) : string :=
  sconcat (render_items derive m) ++ "}" ++ nl.
