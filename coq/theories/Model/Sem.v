(* L5: semantics of the emitted Rust fragment (IR.v) over the runtime model (Runtime.v).
   dec M fuel T is `impl TryFrom<&mut Bytes> for T`; the by-value family has the same body
   and runs on its own copy of the cursor.  wsz M v is `impl WireSize`, dispatched on the
   value as trait resolution does.  Model only: no proofs in this file. *)
From Coq Require Import Ascii.
From XdrModel Require Export Runtime IR.
Open Scope N_scope.

(* ---------- what rustc makes of the text of a literal / pattern ---------- *)

Definition is_digit_a (c : Ascii.ascii) : bool :=
  let n := Ascii.nat_of_ascii c in (Nat.leb 48 n && Nat.leb n 57)%bool.

Fixpoint all_digits (s : string) : bool :=
  match s with EmptyString => true | String c r => is_digit_a c && all_digits r end.

Definition hex_digit (c : Ascii.ascii) : option N :=
  let n := Ascii.nat_of_ascii c in
  if (Nat.leb 48 n && Nat.leb n 57)%bool then Some (N.of_nat (n - 48))
  else if (Nat.leb 97 n && Nat.leb n 102)%bool then Some (N.of_nat (n - 87))
  else if (Nat.leb 65 n && Nat.leb n 70)%bool then Some (N.of_nat (n - 55))
  else None.

Fixpoint hex_value (s : string) (acc : N) : option N :=
  match s with
  | EmptyString => Some acc
  | String c r => match hex_digit c with Some d => hex_value r (acc * 16 + d) | None => None end
  end.

(* an integer literal as rustc reads it: decimal digits, or 0x followed by hex digits *)
Definition int_literal (s : string) : option Z :=
  match s with
  | EmptyString => None
  | String "0"%char (String "x"%char r) =>
    match r with EmptyString => None | _ => option_map Z.of_N (hex_value r 0) end
  | String "-"%char r =>
    match r with
    | EmptyString => None
    | _ => if all_digits r then option_map (fun u => (- Z.of_N (N.of_uint u))%Z) (NilEmpty.uint_of_string r)
           else None
    end
  | _ => if all_digits s then option_map (fun u => Z.of_N (N.of_uint u)) (NilEmpty.uint_of_string s)
         else None
  end.

Inductive pat := PtLit (z : Z) | PtBool (b : bool) | PtConst (z : Z) | PtBind | PtBad.

(* discriminant values *)
Inductive dval := DvU32 (n : N) | DvI32 (z : Z) | DvBool (b : bool) | DvEnum (e v : string).

Section Sem.
  Variable md : module_ir.

  Definition find_from (name : string) : option (impl dbody) :=
    find (fun i => String.eqb (i_name i) name) (m_from md).
  Definition find_size (name : string) : option (impl sbody) :=
    find (fun i => String.eqb (i_name i) name) (m_size md).

  (* value of `pub const name: u32 = text;` (text may name another constant) *)
  Fixpoint const_value (fuel : nat) (name : string) : option Z :=
    match fuel with
    | O => None
    | S f => match assoc name (m_consts md) with
             | None => None
             | Some text => match int_literal text with
                            | Some z => Some z
                            | None => const_value f text
                            end
             end
    end.

  Definition is_ident_start (c : Ascii.ascii) : bool :=
    let n := Ascii.nat_of_ascii c in
    ((Nat.leb 65 n && Nat.leb n 90) || (Nat.leb 97 n && Nat.leb n 122) || Nat.eqb n 95)%bool.

  Definition classify (s : string) : pat :=
    match int_literal s with
    | Some z => PtLit z
    | None =>
      if String.eqb s "true" then PtBool true else
      if String.eqb s "false" then PtBool false else
      match const_value (S (List.length (m_consts md))) s with
      | Some z => PtConst z
      | None => match s with
                | String c _ => if is_ident_start c then PtBind else PtBad
                | EmptyString => PtBad
                end
      end
    end.

  (* numeric value of enum_name::variant (declared `variant = text`) *)
  Definition enum_value (e v : string) : option Z :=
    match find (fun d => match d with DEnum n _ => String.eqb n e | _ => false end) (m_types md) with
    | Some (DEnum _ vs) =>
      match assoc v vs with
      | Some text => match int_literal text with
                     | Some z => Some z
                     | None => const_value (S (List.length (m_consts md))) text
                     end
      | None => None
      end
    | _ => None
    end.

  Definition wrap_u32 (z : Z) : Z := (z mod 4294967296)%Z.
  Definition wrap_i32 (z : Z) : Z := to_i32 (Z.to_N (z mod 4294967296)%Z).

  Definition dval_of (v : rval) : option dval :=
    match v with
    | RVU32 n => Some (DvU32 n)
    | RVI32 z => Some (DvI32 z)
    | RVBool b => Some (DvBool b)
    | RVVariant e x None => Some (DvEnum e x)
    | _ => None
    end.

  (* `d as i32` *)
  Definition dval_as_i32 (d : dval) : option Z :=
    match d with
    | DvU32 n => Some (to_i32 n)
    | DvI32 z => Some z
    | DvBool b => Some (if b then 1 else 0)%Z
    | DvEnum e v => option_map wrap_i32 (enum_value e v)
    end.

  (* Some true: the arm is taken; Some false: not taken; None: rustc would reject the pattern *)
  Definition matches (m : matcher) (d : dval) : option bool :=
    match m with
    | MWild => Some true
    | MText s =>
      match classify s, d with
      | PtBind, _ => Some true
      | PtLit z, DvU32 n => Some (Z.eqb z (Z.of_N n))
      | PtLit z, DvI32 x => Some (Z.eqb z x)
      | PtBool b, DvBool x => Some (Bool.eqb b x)
      | PtConst z, DvU32 n => Some (Z.eqb z (Z.of_N n))   (* constants are u32 *)
      | _, _ => None
      end
    | MEnumGuard e v as_ty =>
      match d with
      | DvU32 n => if String.eqb as_ty "u32"
                  then option_map (fun z => Z.eqb (wrap_u32 z) (Z.of_N n)) (enum_value e v) else None
      | DvI32 x => if String.eqb as_ty "i32"
                  then option_map (fun z => Z.eqb (wrap_i32 z) x) (enum_value e v) else None
      | DvEnum e' v' => if (String.eqb as_ty e && String.eqb e e')%bool
                       then option_map (fun _ => String.eqb v v') (enum_value e v) else None
      | DvBool _ => None
      end
    end.

  (* ---------- WireSize ---------- *)

  Fixpoint sum_opt (l : list (option N)) : option N :=
    match l with
    | [] => Some 0
    | Some x :: r => option_map (N.add x) (sum_opt r)
    | None :: _ => None
    end.

  Definition padded (pad : bool) (w : N) : N := if pad then w + pad_length w else w.

  Fixpoint zip_sizes (fs : list (string * bool)) (ws : list (option N)) : option N :=
    match fs, ws with
    | [], [] => Some 0
    | f :: fs', Some w :: ws' => option_map (N.add (padded (snd f) w)) (zip_sizes fs' ws')
    | _, _ => None
    end.

  Fixpoint wsz (v : rval) : option N :=
    match v with
    | RVU32 _ | RVI32 _ | RVF32 _ | RVBool _ => Some 4
    | RVU64 _ | RVI64 _ | RVF64 _ => Some 8
    | RVString s => Some (wsz_string s)
    | RVBytes w => Some (wsz_bytes w)
    | RVVec l => option_map wsz_vec (sum_opt (map wsz l))
    | RVArr l => option_map wsz_slice (sum_opt (map wsz l))
    | RVOpt None => Some (wsz_opt None)
    | RVOpt (Some x) => option_map (fun w => wsz_opt (Some w)) (wsz x)
    | RVStruct name fields =>
      match find_size name with
      | Some {| i_body := SStruct fs |} => zip_sizes fs (map wsz fields)
      | _ => None
      end
    | RVVariant ty variant payload =>
      match find_size ty with
      | Some {| i_body := SEnum |} => match payload with None => Some 4 | Some _ => None end
      | Some {| i_body := SUnion arms voids def |} =>
        match payload with
        | Some p =>
          match assoc variant arms with
          | Some pad => option_map (fun w => 4 + padded pad w) (wsz p)
          | None => match def with
                    | Some pad => if String.eqb variant "default"
                                  then option_map (fun w => 4 + padded pad w) (wsz p) else None
                    | None => None
                    end
          end
        | None => if mem variant voids then Some 4 else None
        end
      | _ => None
      end
    | RVNewtype name inner =>
      match find_size name with
      | Some {| i_body := STypedef k |} =>
        option_map (fun w => match k with
                             | TSPlain => w
                             | TSOpaqueVar => w + pad_length w + 4
                             | TSOpaqueFixed => w + pad_length w
                             end) (wsz inner)
      | _ => None
      end
    end.

  (* ---------- decoders ---------- *)

  Definition read_prim (p : prim) : M rval :=
    match p with
    | PU32 => n <- read_u32 ;; ret (RVU32 n)
    | PU64 => n <- read_u64 ;; ret (RVU64 n)
    | PI32 => z <- read_i32 ;; ret (RVI32 z)
    | PI64 => z <- read_i64 ;; ret (RVI64 z)
    | PF32 => n <- read_f32 ;; ret (RVF32 n)
    | PF64 => n <- read_f64 ;; ret (RVF64 n)
    | PBool => b <- read_bool ;; ret (RVBool b)
    end.

  Section Body.
    Variable rec : string -> M rval.     (* the decoder of a named type, at lower fuel *)
    Variable loop_fuel : nat.

    (* n evaluations of m, left to right *)
    Fixpoint seq_n (n : nat) (m : M rval) : M (list rval) :=
      match n with
      | O => ret []
      | S k => x <- m ;; xs <- seq_n k m ;; ret (x :: xs)
      end.

    Fixpoint eval_dexp (e : dexp) : M rval :=
      match e with
      | EPrim p => read_prim p
      | EString max => s <- read_string max ;; ret (RVString s)
      | EVarBytes max => w <- read_variable_bytes max ;; ret (RVBytes w)
      | EBytes n => w <- read_bytes n ;; ret (RVBytes w)
      | EVarArray elem _ max =>
        l <- read_variable_array elem (rec elem) wsz loop_fuel max ;; ret (RVVec l)
      | ETryFrom ty => rec ty
      | EArr n e' => l <- seq_n (N.to_nat n) (eval_dexp e') ;; ret (RVArr l)
      end.

    Definition eval_fexp (f : fexp) : M rval :=
      match f with
      | FPlain e => eval_dexp e
      | FOpt ty =>
        d <- read_u32 ;;
        if d =? 0 then ret (RVOpt None)
        else if d =? 1 then (x <- rec ty ;; _ <- reserve (ResBox ty) ;; ret (RVOpt (Some x)))
        else fail (UnknownOptionVariant d)
      end.

    Fixpoint eval_fields (fs : list (string * fexp)) : M (list rval) :=
      match fs with
      | [] => ret []
      | f :: r => x <- eval_fexp (snd f) ;; xs <- eval_fields r ;; ret (x :: xs)
      end.

    Fixpoint eval_arms (self : string) (d : dval) (arms : list (matcher * string * option dexp))
             (fb : fallback) : M rval :=
      match arms with
      | (m, variant, payload) :: r =>
        match matches m d with
        | None => panic Stuck
        | Some true =>
          match payload with
          | Some e => x <- eval_dexp e ;; ret (RVVariant self variant (Some x))
          | None => ret (RVVariant self variant None)
          end
        | Some false => eval_arms self d r fb
        end
      | [] =>
        match fb with
        | FbDefault e => x <- eval_dexp e ;; ret (RVVariant self "default" (Some x))
        | FbUnknown => match dval_as_i32 d with
                       | Some z => fail (UnknownVariant z)
                       | None => panic Stuck
                       end
        | FbNone => panic Stuck
        end
      end.

    Fixpoint eval_enum (self : string) (z : Z) (arms : list (string * string)) : M rval :=
      match arms with
      | (text, name) :: r =>
        match int_literal text with
        | Some x => if Z.eqb x z then ret (RVVariant self name None) else eval_enum self z r
        | None => panic Stuck
        end
      | [] => fail (UnknownVariant z)
      end.

    Definition eval_body (self : string) (b : dbody) : M rval :=
      match b with
      | BStruct name fields => l <- eval_fields fields ;; ret (RVStruct name l)
      | BUnion _ disc arms fb =>
        dv <- eval_dexp disc ;;
        match dval_of dv with
        | Some d => eval_arms self d arms fb
        | None => panic Stuck
        end
      | BEnum arms => z <- read_i32 ;; eval_enum self z arms
      | BTypedef e => x <- eval_dexp e ;; ret (RVNewtype self x)
      end.
  End Body.

  (* impl TryFrom<&mut Bytes> for ty *)
  Fixpoint dec (fuel : nat) (ty : string) : M rval :=
    match fuel with
    | O => fun _ => Fuel
    | S f => match find_from ty with
             | None => panic Stuck
             | Some i => eval_body (dec f) f (i_name i) (i_body i)
             end
    end.
End Sem.
