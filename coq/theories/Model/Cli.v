(* L7: src/main.rs as a function of the argument list, a file-system oracle and the
   library's generate.  println! writes its argument followed by a newline to stdout;
   returning Err from main prints a diagnostic on stderr and exits with status 1. *)
From Coq Require Export String List.
Export ListNotations.
Open Scope string_scope.

Definition nl_ : string := String (Ascii.ascii_of_nat 10) EmptyString.

Record cli_result := { cli_stdout : list string; cli_exit : nat; cli_diag : bool }.

Section Cli.
  Variable read_to_string : string -> option string.   (* std::fs::read_to_string *)
  Variable generate : string -> option string.         (* Generator::default().generate *)

  (* for e in env::args().skip(1) { let xdr = read(e)?; let code = generate(&xdr)?; println!("{}", code); } *)
  Fixpoint cli_loop (files : list string) (printed : list string) : cli_result :=
    match files with
    | [] => {| cli_stdout := printed; cli_exit := 0; cli_diag := false |}
    | f :: rest =>
      match read_to_string f with
      | None => {| cli_stdout := printed; cli_exit := 1; cli_diag := true |}
      | Some xdr =>
        match generate xdr with
        | None => {| cli_stdout := printed; cli_exit := 1; cli_diag := true |}
        | Some code => cli_loop rest (printed ++ [(code ++ nl_)%string])%list
        end
      end
    end.

  (* argv0 = env::args().next(), files = env::args().skip(1) *)
  Definition cli_main (argv0 : string) (files : list string) : cli_result :=
    match files with
    | [] => {| cli_stdout := ["usage: " ++ argv0 ++ " ./path/to/spec.x" ++ nl_]; cli_exit := 1; cli_diag := false |}
    | _ => cli_loop files []
    end.
End Cli.
