(* L6 (front end): the surface reading of a specification -- what it *declares* -- as a
   structured declaration list, the pest token tree such a list is parsed into, and the Ast
   the README promises for it.  Fall-through groups of a union are explicit here, so the
   reference is a direct reading, not an algorithm.  Model only: no proofs in this file. *)
From XdrModel Require Export Walk.
Open Scope string_scope.
Open Scope list_scope.

(* a type position: the grammar's (ident | basic_type); span is the matched text *)
Inductive tytok := TTBasic (span : string) | TTIdent (name : string).
(* array_length / case value: ident_value | ident_const *)
Inductive btok := BVal (digits : string) | BConst (name : string).
Inductive sarr := SNone | SFixed (b : btok) | SVar (b : option btok).

Record sfield := { f_ty : tytok; f_name : string; f_arr : sarr; f_opt : bool }.

Inductive sarm := ArmVoid | ArmData (ty : tytok) (name : string).

(* one fall-through group: `case l1: case l2: [default:] arm` *)
Record sgroup := { g_labels : list btok; g_default : bool; g_arm : sarm }.

Inductive sdecl :=
| KConst (name value : string)
| KEnum (name : string) (members : list (string * string))
| KStruct (name : string) (fields : list sfield)
| KUnion (name : string) (disc_ty : tytok) (disc_name : string) (groups : list sgroup)
| KTypedef (ty : tytok) (name : string) (arr : sarr).

(* ---------- the token tree pest produces (spans of compound nodes are irrelevant) ---------- *)

Definition t_ident (n : string) : tree := Node "ident" n [].
Definition t_tytok (t : tytok) : tree :=
  match t with TTBasic sp => Node "basic_type" sp [] | TTIdent n => t_ident n end.
Definition btok_text (b : btok) : string := match b with BVal d => d | BConst n => n end.
Definition t_btok (b : btok) : tree :=
  match b with BVal d => Node "ident_value" d [] | BConst n => Node "ident_const" n [t_ident n] end.
Definition t_arr (a : sarr) : list tree :=
  match a with
  | SNone => []
  | SFixed b => [Node "array_fixed" "" [t_btok b]]
  | SVar None => [Node "array_variable" "" []]
  | SVar (Some b) => [Node "array_variable" "" [t_btok b]]
  end.
Definition t_field_children (f : sfield) : list tree :=
  t_tytok (f_ty f) :: (if f_opt f then Node "option" "" [t_ident (f_name f)] else t_ident (f_name f))
           :: t_arr (f_arr f).
Definition t_arm (a : sarm) : tree :=
  match a with
  | ArmVoid => Node "union_void" "" []
  | ArmData ty n => Node "union_data_field" "" [t_tytok ty; t_ident n]
  end.

(* `case l1: case l2: arm`  or  `case l1: default: arm` *)
Fixpoint t_labels (ls : list btok) (last : list tree) : list tree :=
  match ls with
  | [] => []
  | [l] => [Node "union_case" "" (t_btok l :: last)]
  | l :: r => Node "union_case" "" [t_btok l] :: t_labels r last
  end.

Definition t_group (g : sgroup) : list tree :=
  if g_default g
  then map (fun l => Node "union_case" "" [t_btok l]) (g_labels g) ++ [Node "union_default" "" [t_arm (g_arm g)]]
  else t_labels (g_labels g) [t_arm (g_arm g)].

Definition t_decl (d : sdecl) : tree :=
  match d with
  | KConst n v => Node "constant" "" [t_ident n; t_ident v]
  | KEnum n ms => Node "enum_type" "" (t_ident n :: map (fun m => Node "enum_variant" "" [t_ident (fst m); t_ident (snd m)]) ms)
  | KStruct n fs => Node "struct_type" "" (t_ident n :: map (fun f => Node "struct_data_field" "" (t_field_children f)) fs)
  | KUnion n dt dn gs => Node "union" "" (t_ident n :: t_tytok dt :: t_ident dn :: flat_map t_group gs)
  | KTypedef ty n a => Node "typedef" "" (t_tytok ty :: t_ident n :: t_arr a)
  end.

Definition tree_of (ds : list sdecl) : tree :=
  Node "item" "" (map t_decl ds ++ [Node "EOI" "" []]).

(* ---------- what the specification declares, as Ast items ---------- *)

Definition bt_of (t : tytok) : basic_type :=
  match t with TTBasic sp => bt_from_str sp | TTIdent n => bt_from_str n end.

Definition size_of (b : btok) : array_size := array_size_from (btok_text b).

Definition arr_of (t : basic_type) (a : sarr) : array_type :=
  match a with
  | SNone => ANone t
  | SFixed b => AFixed t (size_of b)
  | SVar None => AVar t None
  | SVar (Some b) => AVar t (Some (size_of b))
  end.

Definition field_of (f : sfield) : struct_field :=
  {| sf_name := f_name f; sf_value := arr_of (bt_of (f_ty f)) (if f_opt f then SNone else f_arr f);
     sf_optional := f_opt f |}.

(* a label as the Ast spells it *)
Definition label_of (b : btok) : string := bt_as_str (bt_from_str (btok_text b)).

Definition group_labels (g : sgroup) : list string :=
  map label_of (g_labels g) ++ (if g_default g then ["default"] else []).

Definition cases_of (gs : list sgroup) : list union_case :=
  flat_map (fun g => match g_arm g with
                     | ArmData ty n => if g_default g then []
                                       else [{| uc_values := group_labels g; uc_name := n; uc_value := ANone (bt_of ty) |}]
                     | ArmVoid => []
                     end) gs.

Definition voids_of (gs : list sgroup) : list string :=
  flat_map (fun g => match g_arm g with ArmVoid => group_labels g | _ => [] end) gs.

(* the (last) default group that carries data *)
Definition default_of (gs : list sgroup) : option union_case :=
  fold_left (fun acc g => match g_arm g with
                          | ArmData ty n => if g_default g
                                            then Some {| uc_values := group_labels g; uc_name := n; uc_value := ANone (bt_of ty) |}
                                            else acc
                          | ArmVoid => acc
                          end) gs None.

(* the documented normalisation of `typedef opaque x<..>` (the bound is dropped: finding F3) *)
Definition typedef_alias (target : basic_type) (alias : basic_type) (a : sarr) : array_type :=
  match a with
  | SVar _ => if is_opaque target then ANone alias else arr_of alias a
  | _ => arr_of alias a
  end.

Definition member_vv (m : string * string) : eres (string * variant_value) :=
  ebind (variant_value_from (snd m)) (fun v => EOk (fst m, v)).

(* the item a declaration stands for (an enum value that is not a numeral or a name makes
   VariantValue::from panic: finding F11) *)
Definition item_of (d : sdecl) : eres node :=
  match d with
  | KConst n v => EOk (NConstant [NType (bt_from_str n); NType (bt_from_str v)])
  | KEnum n ms => ebind (emapM member_vv ms) (fun vv => EOk (NEnum {| en_name := n; en_variants := vv |}))
  | KStruct n fs => EOk (NStruct {| st_name := n; st_fields := map field_of fs |})
  | KUnion n dt dn gs =>
    EOk (NUnion {| un_name := n; un_cases := cases_of gs; un_default := default_of gs; un_void := voids_of gs;
                   un_sw_name := dn; un_sw_type := bt_from_string (bt_as_str (bt_of dt)) |})
  | KTypedef ty n a =>
    EOk (NTypedef {| td_target := bt_of ty; td_alias := typedef_alias (bt_of ty) (bt_from_str n) a |})
  end.

(* ---------- relating a pest tree to tree_of ---------- *)

(* spans are read by the walker only on leaf tokens and (through inner_str) on the single
   child of an array node; `erase` blanks every other span *)
Definition leaf_rule (r : string) : bool :=
  (String.eqb r "ident" || String.eqb r "ident_const" || String.eqb r "ident_value" || String.eqb r "basic_type")%bool.
Definition array_rule (r : string) : bool :=
  (String.eqb r "array_variable" || String.eqb r "array_fixed")%bool.

Fixpoint erase (t : tree) : tree :=
  match t with
  | Node r sp cs => Node r (if leaf_rule r then sp else "") (if array_rule r then cs else map erase cs)
  end.

(* boolean forms of the side conditions of the C12 theorems (WalkProofs.decl_ok) *)
Definition plainb (s : string) : bool := basic_type_eqb (bt_from_str s) (Ident s).
Definition tok_okb (b : btok) : bool :=
  (String.eqb (trim (btok_text b)) (btok_text b) && negb (String.eqb (btok_text b) ""))%bool.
Definition arr_okb (a : sarr) : bool :=
  match a with SFixed b | SVar (Some b) => tok_okb b | _ => true end.
Definition field_okb (f : sfield) : bool :=
  (plainb (f_name f) && (if f_opt f then match f_arr f with SNone => true | _ => false end else true) && arr_okb (f_arr f))%bool.
Definition group_okb (g : sgroup) : bool :=
  (match g_arm g with ArmData _ n => plainb n | ArmVoid => true end &&
   (if g_default g then true else match g_labels g with [] => false | _ => true end))%bool.
Definition decl_okb (d : sdecl) : bool :=
  match d with
  | KConst _ _ => true
  | KEnum n ms => (plainb n && forallb (fun m => plainb (fst m) && plainb (snd m)) ms)%bool
  | KStruct n fs => (plainb n && forallb field_okb fs)%bool
  | KUnion n dt dn gs => (plainb n && plainb dn && forallb group_okb gs)%bool
  | KTypedef ty n a => arr_okb a
  end.
