(* L4: abstract syntax of the Rust fragment fastxdr emits after header.rs.
   Render.v prints it to the exact text; Sem.v gives it a meaning. *)
From XdrModel Require Export Ast.
Open Scope string_scope.

(* ---------- type declarations (impls/types.rs) ---------- *)

Inductive tybase :=
| TBT                                   (* T, the byte container parameter *)
| TBString                              (* String *)
| TBText (s : string)                   (* a primitive or a non-generic named type, as printed *)
| TBGen (s : string).                   (* a generic named type: s<T> *)

Inductive tywrap := WNone | WArr (size : string) | WVec.

Record tyx := { ty_base : tybase; ty_wrap : tywrap }.

Inductive tdecl :=
| DStruct (name : string) (generic : bool) (fields : list (string * bool * tyx))  (* name, optional, type *)
| DUnion (name : string) (generic : bool)
         (arms : list (string * tyx)) (voids : list string) (default : option tyx)
| DEnum (name : string) (variants : list (string * string))                       (* name = value *)
| DNewtype (name : string) (generic : bool) (inner : tyx).

(* ---------- decoders (impls/from.rs) ---------- *)

Inductive prim := PU32 | PU64 | PI32 | PI64 | PF32 | PF64 | PBool.

Inductive dexp :=
| EPrim (p : prim)                                   (* v.read_u32() ... v.read_bool() *)
| EString (max : option N)                           (* v.read_string(max) *)
| EVarBytes (max : option N)                         (* v.read_variable_bytes(max) *)
| EBytes (n : N)                                     (* v.read_bytes(n) *)
| EVarArray (elem : string) (generic : bool) (max : option N)
                                                     (* v.read_variable_array::<elem[<Bytes>]>(max) *)
| ETryFrom (ty : string)                             (* ty::try_from(&mut v) *)
| EArr (n : N) (e : dexp).                           (* [ e?, ... n times ] *)

Inductive fexp :=
| FPlain (e : dexp)
| FOpt (ty : string).     (* { match v.read_u32()? { 0 => None, 1 => Some(Box::new(ty::try_from(..)?)), d => Err } } *)

Inductive matcher :=
| MText (s : string)                              (* literal, const path or binding: rustc decides *)
| MEnumGuard (enum variant as_ty : string)        (* c if c == enum::variant as as_ty *)
| MWild.                                          (* _ *)

Inductive fallback := FbDefault (e : dexp) | FbUnknown | FbNone.

Inductive dbody :=
| BStruct (name : string) (fields : list (string * fexp))
| BUnion (disc_var : string) (disc : dexp)
         (arms : list (matcher * string * option dexp))     (* pattern, variant, payload *)
         (fb : fallback)
| BEnum (arms : list (string * string))                     (* value text => Self::name *)
| BTypedef (e : dexp).

(* ---------- wire_size (impls/wire_size.rs) ---------- *)

Inductive typedef_size := TSPlain | TSOpaqueVar | TSOpaqueFixed.

Inductive sbody :=
| SStruct (fields : list (string * bool))                   (* field, "+ pad_length(..)" *)
| SUnion (arms : list (string * bool)) (voids : list string) (default : option bool)
| SEnum
| STypedef (k : typedef_size).

Record impl (B : Type) := { i_name : string; i_generic : bool; i_body : B }.
Arguments i_name {B}. Arguments i_generic {B}. Arguments i_body {B}.

Record module_ir := {
  m_consts : list (string * string);
  m_types : list tdecl;
  m_from : list (impl dbody);
  m_size : list (impl sbody) }.

(* result of the generator *)
Inductive eres (A : Type) :=
| EOk (a : A)
| EErr (msg : string)
| EPanic (where_ : string).
Arguments EOk {A}. Arguments EErr {A}. Arguments EPanic {A}.

Definition ebind {A B} (m : eres A) (k : A -> eres B) : eres B :=
  match m with EOk a => k a | EErr m => EErr m | EPanic w => EPanic w end.

Fixpoint emapM {A B} (f : A -> eres B) (l : list A) : eres (list B) :=
  match l with
  | [] => EOk []
  | x :: r => ebind (f x) (fun y => ebind (emapM f r) (fun ys => EOk (y :: ys)))
  end.
