(* L3: hand model of src/ast/mod.rs (walk), the AST constructors (Struct::new,
   StructField::new, Union::new, CaseStmt::parse, UnionCase::new, Enum::new, Variant::new,
   VariantValue::from, Typedef::new, ArraySize::from, BasicType::from) and the three indexes
   (ConstantIndex, TypeIndex, GenericIndex).  Every panic!/unwrap/unreachable!/index
   expression of the Rust is an explicit EPanic "<file>:<fn>" outcome.
   Model only: no proofs in this file. *)
From XdrModel Require Export Peg Tables IR.
Open Scope string_scope.

Inductive node :=
| NType (t : basic_type)
| NOption (l : list node)
| NStruct (s : struct_t)
| NUnion (u : union_t)
| NUnionCase (l : list node)
| NUnionDefault (l : list node)
| NUnionVoid
| NStructDataField (l : list node)
| NUnionDataField (l : list node)
| NArrayVariable (s : string)
| NArrayFixed (s : string)
| NTypedef (t : typedef_t)
| NConstant (l : list node)
| NEnum (e : enum_t)
| NEnumVariant (l : list node)
| NRoot (l : list node)
| NEOF.

(* ---------- str::trim on the ASCII whitespace the grammar can produce ---------- *)

Definition is_ws (c : ascii) : bool :=
  let n := nat_of_ascii c in
  (Nat.eqb n 32 || Nat.eqb n 9 || Nat.eqb n 10 || Nat.eqb n 13 || Nat.eqb n 11 || Nat.eqb n 12)%bool.

Fixpoint trim_start (s : string) : string :=
  match s with
  | String c r => if is_ws c then trim_start r else s
  | EmptyString => s
  end.

Fixpoint srev_acc (s acc : string) : string :=
  match s with EmptyString => acc | String c r => srev_acc r (String c acc) end.
Definition srev (s : string) : string := srev_acc s EmptyString.
Definition trim (s : string) : string := srev (trim_start (srev (trim_start s))).

(* v.split_whitespace().collect::<Vec<_>>().join(" "): runs of whitespace collapse to one
   blank, none at the ends *)
Fixpoint squeeze (s : string) (pending started : bool) : string :=
  match s with
  | EmptyString => EmptyString
  | String c r =>
    if is_ws c then squeeze r started started
    else if pending then String " "%char (String c (squeeze r false true))
    else String c (squeeze r false true)
  end.
Definition normalize_ws (s : string) : string := squeeze s false false.

(* impl From<&str> for BasicType / impl From<String> for BasicType (tables regenerated) *)
Definition bt_from_str (v : string) : basic_type :=
  match assoc (normalize_ws v) spellings_str with Some t => t | None => Ident (normalize_ws v) end.
Definition bt_from_string (v : string) : basic_type :=
  match assoc (normalize_ws v) spellings_string with Some t => t | None => Ident (normalize_ws v) end.

(* impl From<T: AsRef<str>> for ArraySize *)
Definition array_size_from (v : string) : array_size :=
  match parse_u32 v with Some n => Known n | None => Constant v end.

(* i32::from_str_radix(_, 16) on [0-9A-Za-z_]* *)
Fixpoint hex_val (s : string) (acc : N) : option N :=
  match s with
  | EmptyString => Some acc
  | String c r =>
    let n := nat_of_ascii c in
    let d := if (Nat.leb 48 n && Nat.leb n 57)%bool then Some (N.of_nat (n - 48))
             else if (Nat.leb 97 n && Nat.leb n 102)%bool then Some (N.of_nat (n - 87))
             else if (Nat.leb 65 n && Nat.leb n 70)%bool then Some (N.of_nat (n - 55))
             else None in
    match d with Some d => hex_val r (acc * 16 + d)%N | None => None end
  end.

(* str::trim_start_matches("0x") *)
Fixpoint strip_0x (fuel : nat) (s : string) : string :=
  match fuel with
  | O => s
  | S f => match s with
           | String "0"%char (String "x"%char r) => strip_0x f r
           | _ => s
           end
  end.

(* str::parse::<i32>() on [0-9A-Za-z_]+ *)
Definition parse_i32 (s : string) : option Z :=
  match s with
  | EmptyString => None
  | _ => match NilEmpty.uint_of_string s with
         | Some u => let n := N.of_uint u in
                     if (n <? 2147483648)%N then Some (Z.of_N n) else None
         | None => None
         end
  end.

(* impl From<T> for VariantValue *)
Definition variant_value_from (v : string) : eres variant_value :=
  if String.prefix "0x" v then
    let clean := strip_0x (String.length v) v in
    match clean with
    | EmptyString => EPanic "enumeration.rs:from"
    | _ => match hex_val clean 0 with
           | Some n => if (n <? 2147483648)%N then EOk (VNum (Z.of_N n)) else EPanic "enumeration.rs:from"
           | None => EPanic "enumeration.rs:from"
           end
    end
  else match parse_i32 v with
       | Some z => EOk (VNum z)
       | None => EOk (VStr v)
       end.

(* Node::ident_str *)
Definition ident_str (n : node) : eres string :=
  match n with
  | NType t => EOk (bt_as_str t)
  | NOption (NType t :: _) => EOk (bt_as_str t)
  | NOption (NOption _ :: _) => EPanic "node.rs:ident_str"   (* not produced by the grammar *)
  | NOption [] => EPanic "node.rs:ident_str"
  | _ => EPanic "node.rs:ident_str"
  end.

Definition children (t : tree) : list tree := match t with Node _ _ c => c end.
Definition span (t : tree) : string := match t with Node _ s _ => s end.
Definition rule_of (t : tree) : string := match t with Node r _ _ => r end.

(* Pairs::as_str of into_inner(): from the start of the first inner pair to the end of the
   last; the array rules have at most one inner pair *)
Definition inner_str (t : tree) : string :=
  match children t with
  | [] => ""
  | c :: _ => span c
  end.

(* ---------- constructors ---------- *)

Definition mk_array_var (t : basic_type) (size : string) : array_type :=
  match trim size with
  | EmptyString => AVar t None
  | s => AVar t (Some (array_size_from s))
  end.

(* StructField::new *)
Definition struct_field_new (v : node) : eres struct_field :=
  match v with
  | NStructDataField f =>
    match f with
    | [NType rhs; NType (Ident lhs)] =>
      EOk {| sf_name := lhs; sf_value := ANone rhs; sf_optional := false |}
    | [NType rhs; NType (Ident lhs); NArrayVariable size] =>
      EOk {| sf_name := lhs; sf_value := mk_array_var rhs size; sf_optional := false |}
    | [NType rhs; NType (Ident lhs); NArrayFixed size] =>
      EOk {| sf_name := lhs; sf_value := AFixed rhs (array_size_from size); sf_optional := false |}
    | [NType rhs; NOption opt] =>
      match opt with
      | NType (Ident lhs) :: _ => EOk {| sf_name := lhs; sf_value := ANone rhs; sf_optional := true |}
      | _ => EPanic "structure.rs:new"
      end
    | _ => EPanic "structure.rs:new"
    end
  | _ => EPanic "structure.rs:new"
  end.

(* Struct::new *)
Definition struct_new (vs : list node) : eres struct_t :=
  match vs with
  | [] => EPanic "structure.rs:new"
  | h :: rest =>
    ebind (ident_str h) (fun name =>
    ebind (emapM struct_field_new rest) (fun fields =>
    EOk {| st_name := name; st_fields := fields |}))
  end.

(* UnionCase::new *)
Definition union_case_new (case_values : list string) (field : list node) : eres union_case :=
  match field with
  | [NType t; NType (Ident l)] =>
    EOk {| uc_values := case_values; uc_name := l; uc_value := ANone t |}
  | _ => EPanic "union.rs:new"
  end.

Inductive case_stmt :=
| CFallthrough (vs : list string)
| CDefined (c : union_case)
| CVoid (vs : list string).

(* CaseStmt::parse *)
Definition case_stmt_parse (case_values : list string) (nodes : list node) : eres case_stmt :=
  match nodes with
  | [] => EPanic "union.rs:parse"
  | NType t :: rest =>
    let cv := (case_values ++ [bt_as_str t])%list in
    match rest with
    | [] => EOk (CFallthrough cv)
    | NUnionDataField ns :: _ => ebind (union_case_new cv ns) (fun c => EOk (CDefined c))
    | NUnionVoid :: _ => EOk (CVoid cv)
    | _ => EPanic "union.rs:parse"
    end
  | NUnionVoid :: _ => EOk (CVoid case_values)
  | NUnionDataField ns :: _ => ebind (union_case_new case_values ns) (fun c => EOk (CDefined c))
  | _ => EPanic "union.rs:parse"
  end.

Record union_acc := {
  ua_cases : list union_case; ua_default : option union_case; ua_void : list string;
  ua_pending : list string }.

(* the loop of Union::new *)
Fixpoint union_loop (vs : list node) (a : union_acc) : eres union_acc :=
  match vs with
  | [] => EOk a
  | v :: rest =>
    let step (is_default : bool) (cv : list string) (nodes : list node) :=
        ebind (case_stmt_parse cv nodes) (fun stmt =>
        match stmt with
        | CDefined c =>
          if is_default
          then union_loop rest {| ua_cases := ua_cases a; ua_default := Some c; ua_void := ua_void a; ua_pending := [] |}
          else union_loop rest {| ua_cases := (ua_cases a ++ [c])%list; ua_default := ua_default a;
                                  ua_void := ua_void a; ua_pending := [] |}
        | CFallthrough values =>
          union_loop rest {| ua_cases := ua_cases a; ua_default := ua_default a; ua_void := ua_void a;
                             ua_pending := values |}
        | CVoid values =>
          union_loop rest {| ua_cases := ua_cases a; ua_default := ua_default a;
                             ua_void := (ua_void a ++ values)%list; ua_pending := [] |}
        end) in
    match v with
    | NUnionCase nodes => step false (ua_pending a) nodes
    | NUnionDefault nodes => step true (ua_pending a ++ ["default"])%list nodes
    | _ => EPanic "union.rs:new"
    end
  end.

(* Union::new *)
Definition union_new (vs : list node) : eres union_t :=
  match vs with
  | n0 :: n1 :: n2 :: rest =>
    ebind (ident_str n0) (fun name =>
    ebind (ident_str n2) (fun var_name =>
    ebind (ident_str n1) (fun var_ty =>
    ebind (union_loop rest {| ua_cases := []; ua_default := None; ua_void := []; ua_pending := [] |})
          (fun a =>
    EOk {| un_name := name; un_cases := ua_cases a; un_default := ua_default a; un_void := ua_void a;
           un_sw_name := var_name; un_sw_type := bt_from_string var_ty |}))))
  | _ => EPanic "union.rs:new"
  end.

(* Variant::new *)
Definition variant_new (v : node) : eres (string * variant_value) :=
  match v with
  | NEnumVariant [a; b] =>
    ebind (ident_str a) (fun name =>
    ebind (ident_str b) (fun val =>
    ebind (variant_value_from val) (fun vv => EOk (name, vv))))
  | _ => EPanic "enumeration.rs:new"
  end.

(* Enum::new *)
Definition enum_new (vs : list node) : eres enum_t :=
  match vs with
  | [] => EPanic "enumeration.rs:new"
  | h :: rest =>
    ebind (ident_str h) (fun name =>
    ebind (emapM variant_new rest) (fun vars => EOk {| en_name := name; en_variants := vars |}))
  end.

(* Typedef::new *)
Definition typedef_new (vs : list node) : eres typedef_t :=
  match vs with
  | NType target :: NType alias :: rest =>
    match rest with
    | [] => EOk {| td_target := target; td_alias := ANone alias |}
    | NArrayFixed s :: _ => EOk {| td_target := target; td_alias := AFixed alias (array_size_from s) |}
    | NArrayVariable s :: _ =>
      if is_opaque target then EOk {| td_target := target; td_alias := ANone alias |}
      else EOk {| td_target := target; td_alias := mk_array_var alias s |}
    | _ => EPanic "typedef.rs:new"
    end
  | _ => EPanic "typedef.rs:new"
  end.

(* ---------- walk ---------- *)

Fixpoint walk (t : tree) : eres node :=
  match t with
  | Node r sp cs =>
    let kids := (fix go (l : list tree) : eres (list node) :=
                   match l with
                   | [] => EOk []
                   | c :: rest => ebind (walk c) (fun n => ebind (go rest) (fun ns => EOk (n :: ns)))
                   end) cs in
    if String.eqb r "item" then ebind kids (fun l => EOk (NRoot l))
    else if String.eqb r "typedef" then ebind kids (fun l => ebind (typedef_new l) (fun x => EOk (NTypedef x)))
    else if String.eqb r "constant" then ebind kids (fun l => EOk (NConstant l))
    else if (String.eqb r "ident" || String.eqb r "ident_const" || String.eqb r "ident_value")%bool
         then EOk (NType (bt_from_str sp))
    else if String.eqb r "enum_type" then ebind kids (fun l => ebind (enum_new l) (fun x => EOk (NEnum x)))
    else if String.eqb r "enum_variant" then ebind kids (fun l => EOk (NEnumVariant l))
    else if String.eqb r "array_variable" then EOk (NArrayVariable (inner_str t))
    else if String.eqb r "array_fixed" then EOk (NArrayFixed (inner_str t))
    else if String.eqb r "struct_type" then ebind kids (fun l => ebind (struct_new l) (fun x => EOk (NStruct x)))
    else if String.eqb r "struct_data_field" then ebind kids (fun l => EOk (NStructDataField l))
    else if String.eqb r "union_data_field" then ebind kids (fun l => EOk (NUnionDataField l))
    else if String.eqb r "union" then ebind kids (fun l => ebind (union_new l) (fun x => EOk (NUnion x)))
    else if String.eqb r "union_case" then ebind kids (fun l => EOk (NUnionCase l))
    else if String.eqb r "union_default" then ebind kids (fun l => EOk (NUnionDefault l))
    else if String.eqb r "union_void" then EOk NUnionVoid
    else if String.eqb r "option" then ebind kids (fun l => EOk (NOption l))
    else if String.eqb r "basic_type" then EOk (NType (bt_from_str sp))
    else if String.eqb r "EOI" then EOk NEOF
    else EPanic "mod.rs:walk"
  end.

(* ---------- indexes ---------- *)

(* BTreeMap::insert on a key-sorted association list; returns the old value if any *)
Fixpoint map_insert {A} (k : string) (v : A) (l : list (string * A)) : list (string * A) * bool :=
  match l with
  | [] => ([(k, v)], false)
  | (k', v') :: r =>
    match String.compare k k' with
    | Lt => ((k, v) :: l, false)
    | Eq => ((k, v) :: r, true)
    | Gt => let (r', dup) := map_insert k v r in ((k', v') :: r', dup)
    end
  end.

(* ConstantIndex::new *)
Fixpoint const_index (items : list node) (acc : list (string * constant_type))
  : eres (list (string * constant_type)) :=
  match items with
  | [] => EOk acc
  | NConstant vs :: rest =>
    match vs with
    | a :: b :: _ =>
      ebind (ident_str a) (fun k => ebind (ident_str b) (fun v =>
      let (acc', dup) := map_insert k (ConstValue v) acc in
      if dup then EPanic "constants.rs:new" else const_index rest acc'))
    | _ => EPanic "constants.rs:new"
    end
  | NEnum e :: rest =>
    let fix go (vs : list (string * variant_value)) (acc : list (string * constant_type)) :=
        match vs with
        | [] => EOk acc
        | (m, _) :: r =>
          let (acc', dup) := map_insert m (EnumValue (en_name e) m) acc in
          if dup then EPanic "constants.rs:new" else go r acc'
        end in
    ebind (go (en_variants e) acc) (fun acc' => const_index rest acc')
  | _ :: rest => const_index rest acc
  end.

(* TypeIndex::new: a later declaration of the same name silently replaces the earlier one *)
Fixpoint type_index (items : list node) (acc : list (string * ast_type)) : list (string * ast_type) :=
  match items with
  | [] => acc
  | NTypedef v :: rest => type_index rest (fst (map_insert (bt_as_str (unwrap_array (td_alias v))) (TTypedef v) acc))
  | NStruct v :: rest => type_index rest (fst (map_insert (st_name v) (TStruct v) acc))
  | NUnion v :: rest => type_index rest (fst (map_insert (un_name v) (TUnion v) acc))
  | NEnum v :: rest => type_index rest (fst (map_insert (en_name v) (TEnum v) acc))
  | _ :: rest => type_index rest acc
  end.

(* GenericIndex::new -- the set is only consulted through `mem` *)
Definition bt_generic (idx : list string) (t : basic_type) : bool :=
  match t with
  | Opaque => true
  | Ident i => mem i idx
  | _ => false
  end.

Definition union_inner_types (u : union_t) : list array_type :=
  (map uc_value (un_cases u) ++ match un_default u with Some d => [uc_value d] | None => [] end)%list.

(* one item of `recurse`: Some name = the name to insert *)
Definition item_generic (idx : list string) (n : node) : option string :=
  match n with
  | NStruct s =>
    if mem (st_name s) idx then None
    else if existsb (fun f => bt_generic idx (unwrap_array (sf_value f))) (st_fields s)
         then Some (st_name s) else None
  | NUnion u =>
    if mem (un_name u) idx then None
    else if existsb (fun a => bt_generic idx (unwrap_array a)) (union_inner_types u)
         then Some (un_name u) else None
  | NTypedef t =>
    let name := bt_as_str (unwrap_array (td_alias t)) in
    if mem name idx then None
    else if (match td_target t with Opaque => true | tg => mem (bt_as_str tg) idx end)
         then Some name else None
  | _ => None
  end.

(* one call of recurse(root): the items in order, threading the growing set *)
Fixpoint generic_pass (items : list node) (idx : list string) : list string :=
  match items with
  | [] => idx
  | n :: rest => generic_pass rest (match item_generic idx n with Some x => x :: idx | None => idx end)
  end.

(* while last_size != index.len() { recurse(ast) } *)
Fixpoint generic_loop (fuel : nat) (items : list node) (idx : list string) : list string :=
  match fuel with
  | O => idx
  | S f => let idx' := generic_pass items idx in
           if Nat.eqb (List.length idx') (List.length idx) then idx' else generic_loop f items idx'
  end.

Definition generic_index (items : list node) : list string :=
  generic_loop (S (List.length items)) items [].

(* ---------- Ast::new after the parser ---------- *)

Definition ast_of_root (root : node) : eres ast :=
  match root with
  | NRoot items =>
    ebind (const_index items []) (fun cs =>
    EOk {| constants := cs; types := type_index items []; generics := generic_index items |})
  | _ => EOk {| constants := []; types := []; generics := [] |}
  end.

Definition ast_new (t : tree) : eres ast := ebind (walk t) ast_of_root.
