(* What String::from_utf8 accepts: well-formed UTF-8 per Unicode Table 3-7
   (no overlong forms, no surrogates, nothing above U+10FFFF). *)
From XdrModel Require Export Bytes.
Open Scope N_scope.

Definition inr (lo hi b : N) : bool := (lo <=? b) && (b <=? hi).
Definition cont (b : N) : bool := inr 128 191 b.

Fixpoint utf8_valid (l : bytes) : bool :=
  match l with
  | [] => true
  | b0 :: r0 =>
    if b0 <? 128 then utf8_valid r0 else
    match r0 with
    | [] => false
    | b1 :: r1 =>
      if inr 194 223 b0 then cont b1 && utf8_valid r1 else
      match r1 with
      | [] => false
      | b2 :: r2 =>
        if b0 =? 224 then inr 160 191 b1 && cont b2 && utf8_valid r2 else
        if inr 225 236 b0 then cont b1 && cont b2 && utf8_valid r2 else
        if b0 =? 237 then inr 128 159 b1 && cont b2 && utf8_valid r2 else
        if inr 238 239 b0 then cont b1 && cont b2 && utf8_valid r2 else
        match r2 with
        | [] => false
        | b3 :: r3 =>
          if b0 =? 240 then inr 144 191 b1 && cont b2 && cont b3 && utf8_valid r3 else
          if inr 241 243 b0 then cont b1 && cont b2 && cont b3 && utf8_valid r3 else
          if b0 =? 244 then inr 128 143 b1 && cont b2 && cont b3 && utf8_valid r3 else
          false
        end
      end
    end
  end.
