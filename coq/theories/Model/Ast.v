(* L2: the public AST of fastxdr (src/ast/*.rs, src/ast/indexes/*.rs), field for field.
   The two BTreeMaps are key-sorted association lists; the HashSet of generic names is a list
   that is only ever consulted through membership. *)
From Coq Require Export String List NArith ZArith Bool DecimalString.
Export ListNotations.
Open Scope string_scope.

Inductive basic_type :=
| U32 | U64 | I32 | I64 | F32 | F64 | TString | TBool | Opaque
| Ident (s : string).

Inductive array_size := Known (n : N) | Constant (s : string).

Inductive array_type :=
| ANone (t : basic_type)
| AFixed (t : basic_type) (s : array_size)
| AVar (t : basic_type) (s : option array_size).

Definition unwrap_array (a : array_type) : basic_type :=
  match a with ANone t => t | AFixed t _ => t | AVar t _ => t end.

Record struct_field := { sf_name : string; sf_value : array_type; sf_optional : bool }.
Record struct_t := { st_name : string; st_fields : list struct_field }.

Record union_case := { uc_values : list string; uc_name : string; uc_value : array_type }.
Record union_t := {
  un_name : string;
  un_cases : list union_case;
  un_default : option union_case;
  un_void : list string;
  un_sw_name : string;
  un_sw_type : basic_type }.

Inductive variant_value := VNum (z : Z) | VStr (s : string).
Record enum_t := { en_name : string; en_variants : list (string * variant_value) }.

Record typedef_t := { td_target : basic_type; td_alias : array_type }.

Inductive ast_type :=
| TStruct (s : struct_t) | TUnion (u : union_t) | TEnum (e : enum_t) | TTypedef (t : typedef_t).

Inductive constant_type :=
| ConstValue (v : string)
| EnumValue (enum_name variant : string).

Record ast := {
  constants : list (string * constant_type);
  types : list (string * ast_type);
  generics : list string }.

Fixpoint assoc {A} (k : string) (l : list (string * A)) : option A :=
  match l with
  | [] => None
  | (k', v) :: r => if String.eqb k k' then Some v else assoc k r
  end.

Fixpoint mem (k : string) (l : list string) : bool :=
  match l with
  | [] => false
  | k' :: r => String.eqb k k' || mem k r
  end.

Definition get_const (a : ast) (k : string) := assoc k (constants a).
Definition get_type (a : ast) (k : string) := assoc k (types a).
Definition is_generic (a : ast) (k : string) : bool := mem k (generics a).

Definition typedef_target (a : ast) (k : string) : option typedef_t :=
  match get_type a k with Some (TTypedef t) => Some t | _ => None end.

(* BasicType::as_str *)
Definition bt_as_str (t : basic_type) : string :=
  match t with
  | U32 => "u32" | I32 => "i32" | U64 => "u64" | I64 => "i64"
  | F32 => "f32" | F64 => "f64" | TBool => "bool" | TString => "String" | Opaque => "T"
  | Ident s => s
  end.

Definition is_opaque (t : basic_type) : bool := match t with Opaque => true | _ => false end.

Definition basic_type_eqb (a b : basic_type) : bool :=
  match a, b with
  | U32, U32 | U64, U64 | I32, I32 | I64, I64 | F32, F32 | F64, F64
  | TString, TString | TBool, TBool | Opaque, Opaque => true
  | Ident x, Ident y => String.eqb x y
  | _, _ => false
  end.

(* name under which a type is entered in the type index *)
Definition ast_type_name (t : ast_type) : string :=
  match t with
  | TStruct s => st_name s
  | TUnion u => un_name u
  | TEnum e => en_name e
  | TTypedef t => bt_as_str (unwrap_array (td_alias t))
  end.

(* impl Display for AstType: for a typedef, the *target* *)
Definition ast_type_display (t : ast_type) : string :=
  match t with
  | TStruct s => st_name s
  | TUnion u => un_name u
  | TEnum e => en_name e
  | TTypedef t => bt_as_str (td_target t)
  end.

Definition string_of_N (n : N) : string := NilEmpty.string_of_uint (N.to_uint n).
Definition string_of_Z (z : Z) : string := NilZero.string_of_int (Z.to_int z).

(* str::parse::<u32>() on text made of [A-Za-z0-9_]: all digits and below 2^32 *)
Definition parse_u32 (s : string) : option N :=
  match s with
  | EmptyString => None
  | _ => match NilEmpty.uint_of_string s with
         | Some u => let n := N.of_uint u in if (n <? 4294967296)%N then Some n else None
         | None => None
         end
  end.
