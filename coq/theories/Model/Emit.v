(* L4: hand model of the emitters src/impls/{mod,types,from,wire_size}.rs and of
   Generator::generate (src/lib.rs): from the Ast to the IR of the emitted module.
   Model only: no proofs in this file. *)
From XdrModel Require Export Tables IR.
Open Scope string_scope.

(* ---------- impls/mod.rs ---------- *)

Definition lower_ascii (c : Ascii.ascii) : Ascii.ascii :=
  let n := Ascii.nat_of_ascii c in
  if (Nat.leb 65 n && Nat.leb n 90)%bool then Ascii.ascii_of_nat (n + 32) else c.

Fixpoint to_lowercase (s : string) : string :=
  match s with EmptyString => EmptyString | String c r => String (lower_ascii c) (to_lowercase r) end.

(* impl Display for SafeName *)
Definition safe_name (s : string) : string :=
  if mem s safe_keywords then s ++ "_v"
  else if mem s safe_lowercase then to_lowercase s
  else s.

(* BasicType::as_safe_string *)
Definition as_safe_string (t : basic_type) : string :=
  match t with
  | Ident v =>
    let name := if mem v bt_lowercase then to_lowercase v else v in
    if mem name bt_keywords then name ++ "_v" else name
  | _ => bt_as_str t
  end.

Definition is_digit (c : Ascii.ascii) : bool :=
  let n := Ascii.nat_of_ascii c in (Nat.leb 48 n && Nat.leb n 57)%bool.

(* NonDigitName(SafeName(x)): the inner name is printed *raw* (AsRef goes to the inner str) *)
Definition variant_name (x : string) : string :=
  match x with
  | String c _ => if is_digit c then "v_" ++ x else x
  | EmptyString => x
  end.

(* impl Display for ArraySize *)
Definition size_display (s : array_size) : string :=
  match s with Known n => string_of_N n | Constant c => c ++ " as usize" end.

(* impl Display for ConstantType *)
Definition const_display (c : constant_type) : string :=
  match c with ConstValue s => s | EnumValue e v => e ++ "::" ++ v end.

(* ---------- impls/types.rs ---------- *)

Definition wrap_of (a : array_type) : tywrap :=
  match a with
  | ANone _ => WNone
  | AFixed _ s => WArr (size_display s)
  | AVar _ _ => WVec
  end.

(* struct field types *)
Definition field_ty (a : ast) (v : array_type) : tyx :=
  match unwrap_array v with
  | Opaque => {| ty_base := TBT; ty_wrap := WNone |}
  | TString => {| ty_base := TBString; ty_wrap := WNone |}
  | Ident i =>
    if is_generic a i
    then {| ty_base := TBGen (as_safe_string (Ident i)); ty_wrap := wrap_of v |}
    else {| ty_base := TBText (as_safe_string (Ident i)); ty_wrap := wrap_of v |}
  | t => {| ty_base := TBText (as_safe_string t); ty_wrap := wrap_of v |}
  end.

(* union arm payload types: a generic ident is printed as `i<T>` whatever the array kind *)
Definition arm_ty (a : ast) (v : array_type) : tyx :=
  match unwrap_array v with
  | Opaque => {| ty_base := TBT; ty_wrap := WNone |}
  | TString => {| ty_base := TBString; ty_wrap := WNone |}
  | Ident i =>
    if is_generic a i
    then {| ty_base := TBGen i; ty_wrap := WNone |}
    else {| ty_base := TBText (as_safe_string (Ident i)); ty_wrap := wrap_of v |}
  | t => {| ty_base := TBText (as_safe_string t); ty_wrap := wrap_of v |}
  end.

Definition emit_type (a : ast) (t : ast_type) : option tdecl :=
  match t with
  | TStruct s =>
    Some (DStruct (st_name s) (is_generic a (st_name s))
            (map (fun f => (safe_name (sf_name f), sf_optional f, field_ty a (sf_value f)))
                 (st_fields s)))
  | TUnion u =>
    Some (DUnion (un_name u) (is_generic a (un_name u))
            (flat_map (fun c => map (fun l => (variant_name l, arm_ty a (uc_value c))) (uc_values c))
                      (un_cases u))
            (map variant_name (un_void u))
            (option_map (fun d => arm_ty a (uc_value d)) (un_default u)))
  | TEnum e =>
    Some (DEnum (en_name e)
            (map (fun v => (fst v, match snd v with VNum z => string_of_Z z | VStr s => s end))
                 (en_variants e)))
  | TTypedef t =>
    if basic_type_eqb (td_target t) (unwrap_array (td_alias t)) then None else
    let name := bt_as_str (unwrap_array (td_alias t)) in
    let tgt := td_target t in
    let gen := (is_generic a (bt_as_str tgt) || is_opaque tgt)%bool in
    if is_opaque tgt then Some (DNewtype name gen {| ty_base := TBT; ty_wrap := WNone |}) else
    if is_generic a (bt_as_str tgt)
    then Some (DNewtype name gen {| ty_base := TBGen (as_safe_string tgt); ty_wrap := wrap_of (td_alias t) |})
    else Some (DNewtype name gen {| ty_base := TBText (as_safe_string tgt); ty_wrap := wrap_of (td_alias t) |})
  end.

Definition emit_consts (a : ast) : list (string * string) :=
  flat_map (fun kv => match snd kv with
                      | EnumValue _ _ => []
                      | ConstValue s => [(fst kv, s)]
                      end) (constants a).

(* ---------- impls/from.rs ---------- *)

Inductive resolve := UseAlias | UseTarget.

Definition prim_dexp (t : basic_type) : option dexp :=
  match t with
  | U32 => Some (EPrim PU32) | U64 => Some (EPrim PU64)
  | I32 => Some (EPrim PI32) | I64 => Some (EPrim PI64)
  | F32 => Some (EPrim PF32) | F64 => Some (EPrim PF64)
  | TBool => Some (EPrim PBool)
  | TString => Some (EString None)
  | Opaque => Some (EVarBytes None)
  | Ident _ => None
  end.

(* print_decode_basic_type *)
Definition decode_basic (a : ast) (t : basic_type) (r : resolve) : eres dexp :=
  match prim_dexp t with
  | Some e => EOk e
  | None =>
    match t with
    | Ident c =>
      match r with
      | UseAlias => EOk (ETryFrom c)
      | UseTarget =>
        match get_type a c with
        | Some (TStruct s) => EOk (ETryFrom (st_name s))
        | Some (TUnion u) => EOk (ETryFrom (un_name u))
        | Some (TEnum e) => EOk (ETryFrom (en_name e))
        | Some (TTypedef t) =>
          (* one level down the chain, then the alias *)
          match prim_dexp (td_target t) with
          | Some e => EOk e
          | None => match td_target t with
                    | Ident c' => EOk (ETryFrom c')
                    | _ => EErr "unreachable"
                    end
          end
        | None => EErr "unresolvable type"
        end
      end
    | _ => EErr "unreachable"
    end
  end.

(* print_fixed *)
Definition decode_fixed (a : ast) (t : basic_type) (r : resolve) (size : N) : eres dexp :=
  let field := match r with
               | UseAlias => t
               | UseTarget => match typedef_target a (bt_as_str t) with
                              | Some td => td_target td
                              | None => t
                              end
               end in
  match field with
  | Opaque => EOk (EBytes size)
  | TString => EPanic "from.rs:print_decode_array"
  | _ =>
    if (size =? 0)%N then EOk (EArr 0 (EPrim PU32)) else
    ebind (decode_basic a t r) (fun e => EOk (EArr size e))
  end.

(* print_variable *)
Definition decode_variable (a : ast) (t : basic_type) (r : resolve) (size : option N) : eres dexp :=
  let type_str0 := as_safe_string t in
  let type_str := match r with
                  | UseAlias => type_str0
                  | UseTarget => match get_type a type_str0 with
                                 | Some ty => ast_type_display ty
                                 | None => type_str0
                                 end
                  end in
  match t with
  | Opaque => EOk (EVarBytes size)
  | TString => EOk (EString size)
  | _ => EOk (EVarArray type_str (is_generic a type_str) size)
  end.

Definition resolve_size (a : ast) (s : array_size) (fixed : bool) : eres N :=
  match s with
  | Known n => EOk n
  | Constant c =>
    match get_const a c with
    | None => EErr (if fixed then "unknown constant (fixed)" else "unknown constant")
    | Some v => match parse_u32 (const_display v) with
                | Some n => EOk n
                | None => EErr "invalid digit"
                end
    end
  end.

(* print_decode_array *)
Definition decode_array (a : ast) (t : array_type) (r : resolve) : eres dexp :=
  match t with
  | ANone t => decode_basic a t r
  | AFixed t s => ebind (resolve_size a s true) (fun n => decode_fixed a t r n)
  | AVar t (Some s) => ebind (resolve_size a s false) (fun n => decode_variable a t r (Some n))
  | AVar t None => decode_variable a t r None
  end.

Definition label_matcher (a : ast) (sw : basic_type) (label : string) : matcher :=
  match get_const a label with
  | Some (ConstValue v) => MText (safe_name v)
  | Some (EnumValue e v) => MEnumGuard e v (as_safe_string sw)
  | None => MText (safe_name label)
  end.

Definition emit_from_body (a : ast) (t : ast_type) : eres dbody :=
  match t with
  | TStruct s =>
    ebind (emapM (fun f =>
                    if sf_optional f
                    then EOk (safe_name (sf_name f), FOpt (as_safe_string (unwrap_array (sf_value f))))
                    else ebind (decode_array a (sf_value f) UseAlias)
                               (fun e => EOk (safe_name (sf_name f), FPlain e)))
                 (st_fields s))
          (fun fs => EOk (BStruct (st_name s) fs))
  | TUnion u =>
    ebind (decode_basic a (un_sw_type u) UseTarget) (fun disc =>
    ebind (emapM (fun c =>
                    emapM (fun l =>
                             ebind (decode_array a (uc_value c) UseAlias)
                                   (fun e => EOk (label_matcher a (un_sw_type u) l,
                                                  variant_name l, Some e)))
                          (uc_values c))
                 (un_cases u)) (fun arms =>
    (* the catch-all arm of a void default is written after all other void arms *)
    let did_void_default := mem "default" (un_void u) in
    let voids := (map (fun l => (label_matcher a (un_sw_type u) l, variant_name l, @None dexp))
                      (filter (fun l => negb (String.eqb l "default")) (un_void u))
                  ++ (if did_void_default then [(MWild, variant_name "default", @None dexp)] else []))%list in
    ebind (match un_default u with
           | Some d => ebind (decode_array a (uc_value d) UseAlias) (fun e => EOk (FbDefault e))
           | None => EOk (if did_void_default then FbNone else FbUnknown)
           end) (fun fb =>
    EOk (BUnion (safe_name (un_sw_name u)) disc (concat arms ++ voids) fb))))
  | TEnum e =>
    EOk (BEnum (map (fun v => (match snd v with VNum z => string_of_Z z | VStr s => s end, fst v))
                    (en_variants e)))
  | TTypedef t =>
    ebind (decode_array a (td_alias t) UseTarget) (fun e => EOk (BTypedef e))
  end.

Definition emit_from (a : ast) : eres (list (impl dbody)) :=
  emapM (fun kv =>
           let t := snd kv in
           let name := ast_type_name t in
           ebind (emit_from_body a t)
                 (fun b => EOk {| i_name := name; i_generic := is_generic a name; i_body := b |}))
        (types a).

(* ---------- impls/wire_size.rs ---------- *)

Definition contains_opaque (v : array_type) : bool := is_opaque (unwrap_array v).

Definition emit_size_body (t : ast_type) : sbody :=
  match t with
  | TStruct s =>
    SStruct (map (fun f => (safe_name (sf_name f), contains_opaque (sf_value f))) (st_fields s))
  | TUnion u =>
    SUnion (flat_map (fun c => map (fun l => (variant_name l, contains_opaque (uc_value c)))
                                   (uc_values c)) (un_cases u))
           (map variant_name (un_void u))
           (option_map (fun d => contains_opaque (uc_value d)) (un_default u))
  | TEnum _ => SEnum
  | TTypedef t =>
    STypedef (if is_opaque (td_target t)
              then match td_alias t with AFixed _ _ => TSOpaqueFixed | _ => TSOpaqueVar end
              else TSPlain)
  end.

Definition emit_size (a : ast) : list (impl sbody) :=
  map (fun kv =>
         let t := snd kv in
         let name := ast_type_name t in
         {| i_name := name; i_generic := is_generic a name; i_body := emit_size_body t |})
      (types a).

(* ---------- lib.rs: Generator::generate after the header ---------- *)

Definition gen (a : ast) : eres module_ir :=
  let tys := flat_map (fun kv => match emit_type a (snd kv) with Some d => [d] | None => [] end)
                      (types a) in
  ebind (emit_from a) (fun fr =>
  EOk {| m_consts := emit_consts a; m_types := tys; m_from := fr; m_size := emit_size a |}).
