(* Executable comparison functions used by the correspondence checks (K1, K2, K3).
   The harness writes the observations of the real code as Coq terms; these functions
   evaluate the model on the same inputs and return the indices that disagree. *)
From Coq Require Import Ascii.
From XdrModel Require Export Render.
Open Scope string_scope.

(* a panic site "<file>:<fn>" is compared at file granularity: moving a panic!/unwrap into a
   helper function of the same file is not a different site *)
Fixpoint site_file (s : string) : string :=
  match s with
  | EmptyString => EmptyString
  | String c r => if Ascii.eqb c ":"%char then EmptyString else String c (site_file r)
  end.
Definition same_site (w w' : string) : bool := String.eqb (site_file w) (site_file w').

(* ---------- K2: emitted text ---------- *)

Inductive real_gen :=
| RGOk (items : list string) (closing : string)
| RGErr
| RGPanic (where_ : string).

Fixpoint count_occ_s (x : string) (l : list string) : nat :=
  match l with [] => 0 | y :: r => (if String.eqb x y then 1 else 0) + count_occ_s x r end.

Definition same_multiset (a b : list string) : bool :=
  (Nat.eqb (List.length a) (List.length b) &&
   forallb (fun x => Nat.eqb (count_occ_s x a) (count_occ_s x b)) a)%bool.

(* 0 = agree; 1 = outcome class differs; 2 = item multiset differs; 3 = panic site differs *)
Definition k2_one (a : ast) (derive : string) (r : real_gen) : N :=
  match gen a, r with
  | EOk m, RGOk items closing =>
    if (same_multiset (render_items derive m) items && String.eqb closing ("}" ++ nl))%bool
    then 0%N else 2%N
  | EErr _, RGErr => 0%N
  | EPanic w, RGPanic w' => if same_site w w' then 0%N else 3%N
  | _, _ => 1%N
  end.

Definition k2_run (cases : list (N * ast * string * real_gen)) : list (N * N) :=
  flat_map (fun c => match c with
                     | (i, a, d, r) => let k := k2_one a d r in
                                       if (k =? 0)%N then [] else [(i, k)]
                     end) cases.

(* what the model prints, for diagnostics *)
Definition k2_show (a : ast) (derive : string) : string :=
  match gen a with
  | EOk m => render_module derive m
  | EErr e => "ERR " ++ e
  | EPanic w => "PANIC " ++ w
  end.

(* ---------- K1: front end (grammar, walker, indexes) ---------- *)
From XdrModel Require Import Walk Grammar Source.

Definition opt_eqb {A} (f : A -> A -> bool) (a b : option A) : bool :=
  match a, b with Some x, Some y => f x y | None, None => true | _, _ => false end.

Fixpoint list_eqb {A} (f : A -> A -> bool) (a b : list A) : bool :=
  match a, b with
  | [], [] => true
  | x :: r, y :: s => (f x y && list_eqb f r s)%bool
  | _, _ => false
  end.

Definition array_size_eqb (a b : array_size) : bool :=
  match a, b with
  | Known x, Known y => N.eqb x y
  | Constant x, Constant y => String.eqb x y
  | _, _ => false
  end.

Definition array_type_eqb (a b : array_type) : bool :=
  match a, b with
  | ANone x, ANone y => basic_type_eqb x y
  | AFixed x s, AFixed y t => (basic_type_eqb x y && array_size_eqb s t)%bool
  | AVar x s, AVar y t => (basic_type_eqb x y && opt_eqb array_size_eqb s t)%bool
  | _, _ => false
  end.

Definition union_case_eqb (a b : union_case) : bool :=
  (list_eqb String.eqb (uc_values a) (uc_values b) && String.eqb (uc_name a) (uc_name b) &&
   array_type_eqb (uc_value a) (uc_value b))%bool.

Definition ast_type_eqb (a b : ast_type) : bool :=
  match a, b with
  | TStruct x, TStruct y =>
    (String.eqb (st_name x) (st_name y) &&
     list_eqb (fun f g => (String.eqb (sf_name f) (sf_name g) && array_type_eqb (sf_value f) (sf_value g) &&
                           Bool.eqb (sf_optional f) (sf_optional g))%bool) (st_fields x) (st_fields y))%bool
  | TUnion x, TUnion y =>
    (String.eqb (un_name x) (un_name y) && list_eqb union_case_eqb (un_cases x) (un_cases y) &&
     opt_eqb union_case_eqb (un_default x) (un_default y) &&
     list_eqb String.eqb (un_void x) (un_void y) && String.eqb (un_sw_name x) (un_sw_name y) &&
     basic_type_eqb (un_sw_type x) (un_sw_type y))%bool
  | TEnum x, TEnum y =>
    (String.eqb (en_name x) (en_name y) &&
     list_eqb (fun p q => (String.eqb (fst p) (fst q) &&
                           match snd p, snd q with
                           | VNum a, VNum b => Z.eqb a b
                           | VStr a, VStr b => String.eqb a b
                           | _, _ => false
                           end)%bool) (en_variants x) (en_variants y))%bool
  | TTypedef x, TTypedef y =>
    (basic_type_eqb (td_target x) (td_target y) && array_type_eqb (td_alias x) (td_alias y))%bool
  | _, _ => false
  end.

Definition constant_type_eqb (a b : constant_type) : bool :=
  match a, b with
  | ConstValue x, ConstValue y => String.eqb x y
  | EnumValue e v, EnumValue f w => (String.eqb e f && String.eqb v w)%bool
  | _, _ => false
  end.

(* generics are compared as sets *)
Definition ast_eqb (a b : ast) : bool :=
  (list_eqb (fun p q => (String.eqb (fst p) (fst q) && constant_type_eqb (snd p) (snd q))%bool)
            (constants a) (constants b) &&
   list_eqb (fun p q => (String.eqb (fst p) (fst q) && ast_type_eqb (snd p) (snd q))%bool)
            (types a) (types b) &&
   forallb (fun g => mem g (generics b)) (generics a) &&
   forallb (fun g => mem g (generics a)) (generics b))%bool.

Fixpoint tree_eqb (a b : tree) : bool :=
  match a, b with
  | Node r s c, Node r' s' c' =>
    (String.eqb r r' && String.eqb s s' &&
     (fix go (x y : list tree) : bool :=
        match x, y with
        | [], [] => true
        | p :: x', q :: y' => (tree_eqb p q && go x' y')%bool
        | _, _ => false
        end) c c')%bool
  end.

Inductive real_ast := RAOk (a : ast) | RAErr | RAPanic (where_ : string).

Definition parse_fuel (text : string) : nat := (80 + 24 * String.length text)%nat.

(* 0 agree; 1 token tree differs; 2 accepted/rejected differs; 3 AST outcome class differs;
   4 AST differs; 5 panic site (file) differs; 9 out of fuel *)
Definition k1_one (text : string) (rt : option tree) (ra : real_ast) : N :=
  match parse xdr_grammar (parse_fuel text) text, rt with
  | PFuel, _ => 9%N
  | PFail, None => match ra with RAErr => 0%N | _ => 3%N end
  | PFail, Some _ => 2%N
  | POk _ _, None => 2%N
  | POk [t] _, Some t' =>
    if tree_eqb t t' then
      match ast_new t, ra with
      | EOk a, RAOk a' => if ast_eqb a a' then 0%N else 4%N
      | EErr _, RAErr => 0%N
      | EPanic w, RAPanic w' => if same_site w w' then 0%N else 5%N
      | _, _ => 3%N
      end
    else 1%N
  | POk _ _, Some _ => 1%N
  end.

Definition k1_run (cases : list (N * string * option tree * real_ast)) : list (N * N) :=
  flat_map (fun c => match c with
                     | (i, text, rt, ra) => let k := k1_one text rt ra in
                                            if (k =? 0)%N then [] else [(i, k)]
                     end) cases.

(* ---------- K5: the surface reading (Source) versus the parser and Ast::new ---------- *)

(* 0 agree; 1 the text does not parse to one tree; 2 its tree, spans erased, is not tree_of ds;
   3 ds fails the side conditions of the C12 theorems; 4 the real Ast is not the Ast of the
   items ds declares; 5 panic site differs; 9 out of fuel *)
Definition k5_one (text : string) (ds : list sdecl) (ra : real_ast) : N :=
  if negb (forallb decl_okb ds) then 3%N else
  match parse xdr_grammar (parse_fuel text) text with
  | PFuel => 9%N
  | POk [t] _ =>
    if tree_eqb (erase t) (tree_of ds) then
      match ebind (emapM item_of ds) (fun items => ast_of_root (NRoot (items ++ [NEOF]))), ra with
      | EOk a, RAOk a' => if ast_eqb a a' then 0%N else 4%N
      | EPanic w, RAPanic w' => if same_site w w' then 0%N else 5%N
      | _, _ => 4%N
      end
    else 2%N
  | _ => 1%N
  end.

Definition k5_run (cases : list (N * string * list sdecl * real_ast)) : list (N * N) :=
  flat_map (fun c => match c with
                     | (i, text, ds, ra) => let k := k5_one text ds ra in
                                            if (k =? 0)%N then [] else [(i, k)]
                     end) cases.

(* the model's whole pipeline on a text: what generate() returns (for diagnostics and for the
   totality check C14) *)
Definition model_ast (text : string) : eres ast :=
  match parse xdr_grammar (parse_fuel text) text with
  | POk [t] _ => ast_new t
  | PFuel => EPanic "FUEL"
  | _ => EErr "parse"
  end.
