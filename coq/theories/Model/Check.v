(* Executable comparison functions used by the correspondence checks (K1, K2, K3).
   The harness writes the observations of the real code as Coq terms; these functions
   evaluate the model on the same inputs and return the indices that disagree. *)
From XdrModel Require Export Render.
Open Scope string_scope.

(* ---------- K2: emitted text ---------- *)

Inductive real_gen :=
| RGOk (items : list string) (closing : string)
| RGErr
| RGPanic (where_ : string).

Fixpoint count_occ_s (x : string) (l : list string) : nat :=
  match l with [] => 0 | y :: r => (if String.eqb x y then 1 else 0) + count_occ_s x r end.

Definition same_multiset (a b : list string) : bool :=
  (Nat.eqb (List.length a) (List.length b) &&
   forallb (fun x => Nat.eqb (count_occ_s x a) (count_occ_s x b)) a)%bool.

(* 0 = agree; 1 = outcome class differs; 2 = item multiset differs; 3 = panic site differs *)
Definition k2_one (a : ast) (derive : string) (r : real_gen) : N :=
  match gen a, r with
  | EOk m, RGOk items closing =>
    if (same_multiset (render_items derive m) items && String.eqb closing ("}" ++ nl))%bool
    then 0%N else 2%N
  | EErr _, RGErr => 0%N
  | EPanic w, RGPanic w' => if String.eqb w w' then 0%N else 3%N
  | _, _ => 1%N
  end.

Definition k2_run (cases : list (N * ast * string * real_gen)) : list (N * N) :=
  flat_map (fun c => match c with
                     | (i, a, d, r) => let k := k2_one a d r in
                                       if (k =? 0)%N then [] else [(i, k)]
                     end) cases.

(* what the model prints, for diagnostics *)
Definition k2_show (a : ast) (derive : string) : string :=
  match gen a with
  | EOk m => render_module derive m
  | EErr e => "ERR " ++ e
  | EPanic w => "PANIC " ++ w
  end.
