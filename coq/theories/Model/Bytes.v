(* L0: bytes, big-endian words, XDR padding.  Model only: no proofs in this file. *)
From Coq Require Export List NArith ZArith Bool.
Export ListNotations.
Open Scope N_scope.

(* A byte is an N below 256; buffers are lists of bytes.  Everything that comes from the
   harness satisfies the bound; the theorems that need it say so. *)
Definition byte := N.
Definition bytes := list byte.

Definition len {A} (l : list A) : N := N.of_nat (length l).

Definition take {A} (n : N) (l : list A) : list A := firstn (N.to_nat n) l.
Definition drop {A} (n : N) (l : list A) : list A := skipn (N.to_nat n) l.

(* header.rs: fn pad_length(l) { if l % 4 == 0 { return 0 } 4 - (l % 4) } *)
Definition pad_length (l : N) : N := if (l mod 4 =? 0) then 0 else 4 - (l mod 4).

(* big-endian decode of a byte list *)
Definition be_dec (l : bytes) : N := fold_left (fun acc b => acc * 256 + b) l 0.

(* big-endian encode of n on k bytes *)
Fixpoint be_enc (k : nat) (n : N) : bytes :=
  match k with
  | O => []
  | S k' => (n / (256 ^ N.of_nat k')) mod 256 :: be_enc k' n
  end.

Definition to_i32 (n : N) : Z := if n <? 2147483648 then Z.of_N n else (Z.of_N n - 4294967296)%Z.
Definition to_i64 (n : N) : Z :=
  if n <? 9223372036854775808 then Z.of_N n else (Z.of_N n - 18446744073709551616)%Z.
Definition of_i32 (z : Z) : N := Z.to_N (z mod 4294967296)%Z.
Definition of_i64 (z : Z) : N := Z.to_N (z mod 18446744073709551616)%Z.

Definition zeros (n : N) : bytes := repeat 0 (N.to_nat n).

Definition bytes_ok (l : bytes) : Prop := Forall (fun b => b < 256) l.
Definition bytes_okb (l : bytes) : bool := forallb (fun b => b <? 256) l.
