// Front-end harness: for every specification text given, dump
//   * the pest token tree produced by /repo/src/xdr.pest (the harness derives its own parser
//     from that file, so no hook in /repo is needed),
//   * the public Ast (constants, types, generics) or the Err / panic that Ast::new produced,
//   * the text Generator::generate returned for two derive lines (or Err / panic).
// Output is JSON, written next to each input as <name>.json, plus <name>.default.rs /
// <name>.clone.rs with the generated text.
use fastxdr::ast::indexes::{AstType, ConstantType};
use fastxdr::ast::{ArraySize, ArrayType, Ast, BasicType, VariantValue};
use pest::iterators::Pair;
use pest::Parser;
use std::fmt::Write as _;
use std::panic;
use std::sync::Mutex;

#[derive(pest_derive::Parser)]
#[grammar = "/repo/src/xdr.pest"]
struct G;

static LAST_PANIC: Mutex<Option<(String, u32, String)>> = Mutex::new(None);

fn js(s: &str) -> String {
    let mut o = String::with_capacity(s.len() + 2);
    o.push('"');
    for c in s.chars() {
        match c {
            '"' => o.push_str("\\\""),
            '\\' => o.push_str("\\\\"),
            '\n' => o.push_str("\\n"),
            '\r' => o.push_str("\\r"),
            '\t' => o.push_str("\\t"),
            c if (c as u32) < 0x20 => {
                let _ = write!(o, "\\u{:04x}", c as u32);
            }
            c => o.push(c),
        }
    }
    o.push('"');
    o
}

fn tree(p: Pair<'_, Rule>, out: &mut String) {
    let _ = write!(out, "[{},{},[", js(&format!("{:?}", p.as_rule())), js(p.as_str()));
    let mut first = true;
    for c in p.into_inner() {
        if !first {
            out.push(',');
        }
        first = false;
        tree(c, out);
    }
    out.push_str("]]");
}

fn bt(t: &BasicType) -> String {
    match t {
        BasicType::U32 => "\"U32\"".into(),
        BasicType::U64 => "\"U64\"".into(),
        BasicType::I32 => "\"I32\"".into(),
        BasicType::I64 => "\"I64\"".into(),
        BasicType::F32 => "\"F32\"".into(),
        BasicType::F64 => "\"F64\"".into(),
        BasicType::String => "\"String\"".into(),
        BasicType::Bool => "\"Bool\"".into(),
        BasicType::Opaque => "\"Opaque\"".into(),
        BasicType::Ident(s) => format!("{{\"Ident\":{}}}", js(s)),
    }
}

fn asz(s: &ArraySize) -> String {
    match s {
        ArraySize::Known(n) => format!("{{\"Known\":{}}}", n),
        ArraySize::Constant(c) => format!("{{\"Constant\":{}}}", js(c)),
    }
}

fn at(a: &ArrayType<BasicType>) -> String {
    match a {
        ArrayType::None(t) => format!("{{\"None\":{}}}", bt(t)),
        ArrayType::FixedSize(t, s) => format!("{{\"Fixed\":[{},{}]}}", bt(t), asz(s)),
        ArrayType::VariableSize(t, s) => format!(
            "{{\"Var\":[{},{}]}}",
            bt(t),
            s.as_ref().map(asz).unwrap_or_else(|| "null".into())
        ),
    }
}

fn strs(v: &[String]) -> String {
    format!("[{}]", v.iter().map(|s| js(s)).collect::<Vec<_>>().join(","))
}

fn dump_ast(ast: &Ast) -> String {
    let mut o = String::new();
    o.push_str("\"constants\":[");
    let mut first = true;
    for (k, v) in ast.constants().0.iter() {
        if !first {
            o.push(',');
        }
        first = false;
        match v {
            ConstantType::ConstValue(s) => {
                let _ = write!(o, "[{},{{\"const\":{}}}]", js(k), js(s));
            }
            ConstantType::EnumValue { enum_name, variant } => {
                let _ = write!(o, "[{},{{\"enum\":[{},{}]}}]", js(k), js(enum_name), js(variant));
            }
        }
    }
    o.push_str("],\"types\":[");
    first = true;
    for (k, v) in ast.types().0.iter() {
        if !first {
            o.push(',');
        }
        first = false;
        let _ = write!(o, "[{},", js(k));
        match v {
            AstType::Struct(s) => {
                let _ = write!(o, "{{\"Struct\":{{\"name\":{},\"fields\":[", js(&s.name));
                let mut f1 = true;
                for f in s.fields.iter() {
                    if !f1 {
                        o.push(',');
                    }
                    f1 = false;
                    let _ = write!(
                        o,
                        "{{\"name\":{},\"value\":{},\"optional\":{}}}",
                        js(&f.field_name),
                        at(&f.field_value),
                        f.is_optional
                    );
                }
                o.push_str("]}}");
            }
            AstType::Union(u) => {
                let _ = write!(o, "{{\"Union\":{{\"name\":{},\"cases\":[", js(&u.name));
                let mut f1 = true;
                for c in u.cases.iter() {
                    if !f1 {
                        o.push(',');
                    }
                    f1 = false;
                    let _ = write!(
                        o,
                        "{{\"values\":{},\"name\":{},\"value\":{}}}",
                        strs(&c.case_values),
                        js(&c.field_name),
                        at(&c.field_value)
                    );
                }
                o.push_str("],\"default\":");
                match &u.default {
                    Some(c) => {
                        let _ = write!(
                            o,
                            "{{\"values\":{},\"name\":{},\"value\":{}}}",
                            strs(&c.case_values),
                            js(&c.field_name),
                            at(&c.field_value)
                        );
                    }
                    None => o.push_str("null"),
                }
                let _ = write!(
                    o,
                    ",\"void_cases\":{},\"switch\":{{\"name\":{},\"type\":{}}}}}}}",
                    strs(&u.void_cases),
                    js(&u.switch.var_name),
                    bt(&u.switch.var_type)
                );
            }
            AstType::Enum(e) => {
                let _ = write!(o, "{{\"Enum\":{{\"name\":{},\"variants\":[", js(&e.name));
                let mut f1 = true;
                for v in e.variants.iter() {
                    if !f1 {
                        o.push(',');
                    }
                    f1 = false;
                    let val = match &v.value {
                        VariantValue::Numeric(n) => format!("{{\"Num\":{}}}", n),
                        VariantValue::String(s) => format!("{{\"Str\":{}}}", js(s)),
                    };
                    let _ = write!(o, "{{\"name\":{},\"value\":{}}}", js(&v.name), val);
                }
                o.push_str("]}}");
            }
            AstType::Typedef(t) => {
                let _ = write!(
                    o,
                    "{{\"Typedef\":{{\"target\":{},\"alias\":{}}}}}",
                    bt(&t.target),
                    at(&t.alias)
                );
            }
        }
        o.push(']');
    }
    let mut g: Vec<&String> = ast.generics().0.iter().collect();
    g.sort();
    let _ = write!(
        o,
        "],\"generics\":[{}]",
        g.iter().map(|s| js(s)).collect::<Vec<_>>().join(",")
    );
    o
}

fn take_panic() -> String {
    let p = LAST_PANIC.lock().unwrap().take();
    match p {
        Some((f, l, m)) => format!("\"file\":{},\"line\":{},\"msg\":{}", js(&f), l, js(&m)),
        None => "\"file\":\"?\",\"line\":0,\"msg\":\"?\"".into(),
    }
}

fn main() {
    panic::set_hook(Box::new(|info| {
        let (f, l) = info
            .location()
            .map(|l| (l.file().to_string(), l.line()))
            .unwrap_or_else(|| ("?".into(), 0));
        let m = if let Some(s) = info.payload().downcast_ref::<&str>() {
            s.to_string()
        } else if let Some(s) = info.payload().downcast_ref::<String>() {
            s.clone()
        } else {
            "?".to_string()
        };
        *LAST_PANIC.lock().unwrap() = Some((f, l, m));
    }));

    let dir = std::env::args().nth(1).expect("usage: front <dir>");
    let mut names: Vec<String> = std::fs::read_dir(&dir)
        .unwrap()
        .filter_map(|e| e.ok())
        .map(|e| e.file_name().to_string_lossy().to_string())
        .filter(|n| n.ends_with(".x"))
        .collect();
    names.sort();

    // one Generator value shared by every specification (interleaved calls)
    let shared = fastxdr::Generator::default();

    // watchdog: a specification that keeps the library busy for more than LIMIT is recorded as a
    // time-out (with the stage it was in) and the process exits with status 3; the driver starts
    // the harness again, which skips the specifications that already have a result
    const LIMIT: std::time::Duration = std::time::Duration::from_secs(20);
    let watch: std::sync::Arc<Mutex<Option<(String, &'static str, std::time::Instant)>>> = std::sync::Arc::new(Mutex::new(None));
    {
        let watch = watch.clone();
        let dir = dir.clone();
        std::thread::spawn(move || loop {
            std::thread::sleep(std::time::Duration::from_millis(250));
            let cur = watch.lock().unwrap().clone();
            if let Some((stem, stage, since)) = cur {
                if since.elapsed() > LIMIT {
                    let o = format!("{{\"timeout\":true,\"stage\":\"{}\"}}", stage);
                    std::fs::write(format!("{}/{}.json", dir, stem), o).unwrap();
                    std::process::exit(3);
                }
            }
        });
    }

    for n in names {
        let stem = n.trim_end_matches(".x").to_string();
        if std::path::Path::new(&format!("{}/{}.json", dir, stem)).exists() {
            continue;
        }
        *watch.lock().unwrap() = Some((stem.clone(), "parse", std::time::Instant::now()));
        let raw = std::fs::read(format!("{}/{}", dir, n)).unwrap();
        let text = match String::from_utf8(raw) {
            Ok(t) => t,
            Err(_) => continue,
        };
        let mut o = String::new();
        o.push('{');

        // token tree
        match G::parse(Rule::item, &text) {
            Ok(mut pairs) => {
                o.push_str("\"tree\":");
                match pairs.next() {
                    Some(p) => tree(p, &mut o),
                    None => o.push_str("null"),
                }
            }
            Err(_) => o.push_str("\"tree\":null"),
        }

        // Ast::new
        if let Some(w) = watch.lock().unwrap().as_mut() { w.1 = "Ast::new"; }
        let t2 = text.clone();
        let r = panic::catch_unwind(move || Ast::new(&t2));
        match r {
            Ok(Ok(ast)) => {
                let _ = write!(o, ",\"ast\":{{\"outcome\":\"ok\",{}}}", dump_ast(&ast));
            }
            Ok(Err(e)) => {
                let _ = write!(o, ",\"ast\":{{\"outcome\":\"err\",\"msg\":{}}}", js(&e.to_string()));
            }
            Err(_) => {
                let _ = write!(o, ",\"ast\":{{\"outcome\":\"panic\",{}}}", take_panic());
            }
        }

        // generate, two derive lines, each twice on one Generator (repeatability)
        if let Some(w) = watch.lock().unwrap().as_mut() { w.1 = "generate"; }
        for (key, derive) in [
            ("default", None),
            ("clone", Some("#[derive(Debug, PartialEq, Clone)]")),
        ] {
            let t3 = text.clone();
            let r = panic::catch_unwind(move || {
                let g = match derive {
                    None => fastxdr::Generator::default(),
                    Some(d) => fastxdr::Generator::default().with_derive(d),
                };
                let a = g.generate(&t3).map_err(|e| e.to_string());
                let b = g.generate(&t3).map_err(|e| e.to_string());
                (a, b)
            });
            match r {
                Ok((Ok(a), b)) => {
                    let same = b.as_ref().map(|b| *b == a).unwrap_or(false);
                    std::fs::write(format!("{}/{}.{}.rs", dir, stem, key), &a).unwrap();
                    let _ = write!(o, ",\"gen_{}\":{{\"outcome\":\"ok\",\"repeat_same\":{}}}", key, same);
                }
                Ok((Err(e), _)) => {
                    let _ = write!(o, ",\"gen_{}\":{{\"outcome\":\"err\",\"msg\":{}}}", key, js(&e));
                }
                Err(_) => {
                    let _ = write!(o, ",\"gen_{}\":{{\"outcome\":\"panic\",{}}}", key, take_panic());
                }
            }
        }
        // the shared Generator, called after it has been used for all earlier specifications
        {
            let t4 = text.clone();
            let sh = &shared;
            let r = panic::catch_unwind(panic::AssertUnwindSafe(move || sh.generate(&t4).map_err(|e| e.to_string())));
            let fresh = std::fs::read_to_string(format!("{}/{}.default.rs", dir, stem)).ok();
            let same = match (&r, &fresh) {
                (Ok(Ok(a)), Some(b)) => a == b,
                (Ok(Err(_)), None) => true,
                (Err(_), None) => true,
                _ => false,
            };
            let _ = LAST_PANIC.lock().unwrap().take();
            let _ = write!(o, ",\"shared_same\":{}", same);
        }
        o.push('}');
        *watch.lock().unwrap() = None;
        std::fs::write(format!("{}/{}.json", dir, stem), o).unwrap();
    }
}
