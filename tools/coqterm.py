"""Printing harness observations as Coq terms of XdrModel.Ast."""


def cstr(s):
    # Coq string literal: only the double quote needs escaping
    return '"' + s.replace('"', '""') + '"'


def clist(xs):
    return "[" + "; ".join(xs) + "]"


def copt(x):
    return "None" if x is None else "(Some %s)" % x


PRIMS = {"U32": "U32", "U64": "U64", "I32": "I32", "I64": "I64", "F32": "F32", "F64": "F64",
         "String": "TString", "Bool": "TBool", "Opaque": "Opaque"}


def bt(j):
    if isinstance(j, str):
        return PRIMS[j]
    return "(Ident %s)" % cstr(j["Ident"])


def asz(j):
    if "Known" in j:
        return "(Known %d%%N)" % j["Known"]
    return "(Constant %s)" % cstr(j["Constant"])


def at(j):
    if "None" in j:
        return "(ANone %s)" % bt(j["None"])
    if "Fixed" in j:
        return "(AFixed %s %s)" % (bt(j["Fixed"][0]), asz(j["Fixed"][1]))
    t, s = j["Var"]
    return "(AVar %s %s)" % (bt(t), copt(None if s is None else asz(s)))


def case(c):
    return "{| uc_values := %s; uc_name := %s; uc_value := %s |}" % (
        clist([cstr(v) for v in c["values"]]), cstr(c["name"]), at(c["value"]))


def ast_type(j):
    if "Struct" in j:
        s = j["Struct"]
        fields = clist(["{| sf_name := %s; sf_value := %s; sf_optional := %s |}" % (
            cstr(f["name"]), at(f["value"]), "true" if f["optional"] else "false") for f in s["fields"]])
        return "(TStruct {| st_name := %s; st_fields := %s |})" % (cstr(s["name"]), fields)
    if "Union" in j:
        u = j["Union"]
        return ("(TUnion {| un_name := %s; un_cases := %s; un_default := %s; un_void := %s; "
                "un_sw_name := %s; un_sw_type := %s |})") % (
            cstr(u["name"]), clist([case(c) for c in u["cases"]]),
            copt(None if u["default"] is None else case(u["default"])),
            clist([cstr(v) for v in u["void_cases"]]),
            cstr(u["switch"]["name"]), bt(u["switch"]["type"]))
    if "Enum" in j:
        e = j["Enum"]
        vs = clist(["(%s, %s)" % (cstr(v["name"]),
                                 ("(VNum (%d)%%Z)" % v["value"]["Num"]) if "Num" in v["value"]
                                 else "(VStr %s)" % cstr(v["value"]["Str"])) for v in e["variants"]])
        return "(TEnum {| en_name := %s; en_variants := %s |})" % (cstr(e["name"]), vs)
    t = j["Typedef"]
    return "(TTypedef {| td_target := %s; td_alias := %s |})" % (bt(t["target"]), at(t["alias"]))


def const_type(j):
    if "const" in j:
        return "(ConstValue %s)" % cstr(j["const"])
    return "(EnumValue %s %s)" % (cstr(j["enum"][0]), cstr(j["enum"][1]))


def ast(j):
    return "{| constants := %s; types := %s; generics := %s |}" % (
        clist(["(%s, %s)" % (cstr(k), const_type(v)) for k, v in j["constants"]]),
        clist(["(%s, %s)" % (cstr(k), ast_type(v)) for k, v in j["types"]]),
        clist([cstr(g) for g in j["generics"]]))


def tree(j):
    # pest token tree: [rule, span, children]
    return "(Node %s %s %s)" % (cstr(j[0]), cstr(j[1]), clist([tree(c) for c in j[2]]))
