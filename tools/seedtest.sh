#!/bin/bash
# usage: seedtest.sh <patch.diff> <Cnn> [<Cnn> ...] : apply a seeded change to /repo, run the checks, undo it
patch=$1; shift
cd /repo && git apply --check "$patch" || { echo "patch does not apply"; exit 2; }
git -C /repo apply "$patch"
cd /verif
for p in "$@"; do
  start=$(date +%s)
  out=$(./verify $p --tier quick 2>/tmp/seedtest_err.log); rc=$?
  echo "== $p exit=$rc ($(( $(date +%s) - start ))s)"
  echo "$out" | grep -E "VIOLATION|KNOWN" | cut -c1-220
  grep -E "^BROKEN" /tmp/seedtest_err.log | cut -c1-300 | head -5
  grep -A1 "^VIOLATION" /tmp/seedtest_err.log | grep "^  " | head -3
done
git -C /repo checkout -- .
# the evidence files now describe the seeded tree: put the committed (clean-tree) ones back
git -C /verif checkout -- evidence 2>/dev/null
git -C /repo status --short | head
