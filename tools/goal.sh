#!/bin/bash
# usage: goal.sh <file.v> <line>   -- show the proof state after <line>
f=$1; n=$2
d=$(dirname $f); b=$(basename $f .v)
tmp=$d/Tmp_goal_$$.v
head -n $n $f > $tmp
echo "Show. " >> $tmp
cd /verif/coq && timeout 120 coqc -Q theories/Model XdrModel -Q theories/Proofs XdrProofs -Q theories/Props XdrProps $tmp 2>&1 | grep -v "^Warning" | head -${3:-60}
rm -f $d/Tmp_goal_$$.* $d/.Tmp_goal_$$.aux
